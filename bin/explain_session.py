#!/usr/bin/env python3
"""explain_session.py <replay.json>: prints what the model computes for the first mismatching history."""
import json, sys, os, subprocess
sys.path.insert(0, os.path.dirname(os.path.abspath(__file__)))
import vlib
d = json.load(open(sys.argv[1]))
c = d["case"]["first"] if "first" in d["case"] else d["case"]
coq = c["coq"]
path = os.path.join(vlib.GEN, "explain.v")
open(path, "w").write('''From Coq Require Import List NArith ZArith String.
From WV Require Import Base.Hex Run.RunSession.
Import ListNotations. Open Scope string_scope. Open Scope N_scope.
Definition c := %s.
Definition view := match c with CHist sa sb ls o => let s := exec (init sa sb) ls in
  (map (fun m => match snd m with CPending => None | CDone x _ => Some (match x with RReply v => (1, N.of_nat (length v)) | RRemote e => (2, N.of_nat (length e)) | RTimeout => (3,0) | RSendFail => (4,0) end) end) (calls s),
   map (fun h => (h_side h, N.of_nat (length (r_payload (h_req h))), match h_out h with None => 0 | Some (Reply _) => 1 | Some (FailWith _ _) => 2 | Some (FailBare _) => 3 end)) (hs s),
   (length (pendA s), length (pendB s), length (qBA s), length (qAB s)),
   match o with Build_obs r h pa pb qa qb => (map (fun x => match x with None => None | Some (RReply v) => Some (1, N.of_nat (length v)) | Some (RRemote e) => Some (2, N.of_nat (length e)) | Some RTimeout => Some (3,0) | Some RSendFail => Some (4,0) end) r, map (fun x => (fst (fst x), N.of_nat (length (r_payload (snd (fst x)))), match snd x with None => 0 | Some (Reply _) => 1 | Some (FailWith _ _) => 2 | Some (FailBare _) => 3 end)) h, (length pa, length pb, qa, qb)) end) end.
Eval vm_compute in view.
''' % coq)
rc, out, _ = vlib.coqc(path)
print("\n".join(c["info"]["steps"]))
print(out)
