#!/usr/bin/env python3
"""Apply each seeded change to a tree, run the quick check of its property, undo it; record what was caught.

usage: seedrun.py [--tier quick|thorough] [--out results.json] [ids or properties ...]
The tree is $VERIF_REPO (default /repo); with SEEDRUN_SCRATCH=<dir> a scratch clone of the tree is
made there first (and removed afterwards) so that /repo itself is never touched."""
import json, os, subprocess, sys, shutil, time, glob
ROOT = os.path.dirname(os.path.dirname(os.path.abspath(__file__)))
SEED = os.path.join(ROOT, "seeded")
GOENV = "GOFLAGS=-mod=mod GOPROXY=off GOSUMDB=off GOTOOLCHAIN=local"


def sh(cmd, **kw):
    return subprocess.run(cmd, shell=True, capture_output=True, text=True, **kw)


def main():
    args = sys.argv[1:]
    tier = "quick"
    res_path = os.path.join(SEED, "results.json")
    if "--tier" in args:
        i = args.index("--tier"); tier = args[i + 1]; del args[i:i + 2]
    if "--out" in args:
        i = args.index("--out"); res_path = os.path.abspath(args[i + 1]); del args[i:i + 2]
    only = args
    repo = os.environ.get("VERIF_REPO", "/repo")
    scratch = os.environ.get("SEEDRUN_SCRATCH")
    if scratch:
        shutil.rmtree(scratch, ignore_errors=True)
        r = sh("git clone -q %s %s" % (repo, scratch))
        assert r.returncode == 0, r.stderr
        repo = scratch
    env = dict(os.environ, VERIF_REPO=repo)
    results = json.load(open(res_path)) if os.path.exists(res_path) else {}
    try:
        for d in sorted(glob.glob(os.path.join(SEED, "C*-*"))):
            sid = os.path.basename(d)
            if not os.path.exists(os.path.join(d, "patch.diff")):
                continue
            meta = {}
            try:
                meta = json.load(open(os.path.join(d, "meta.json")))
            except Exception:
                pass
            prop = meta.get("property") or sid.split("-")[0]
            if only and sid not in only and prop not in only:
                continue
            assert sh("git -C %s status --porcelain" % repo).stdout.strip() == "", "tree not clean"
            patch = os.path.join(d, "patch.diff")
            r = sh("git -C %s apply --whitespace=nowarn %s" % (repo, patch))
            if r.returncode != 0:
                r = sh("git -C %s apply --3way --whitespace=nowarn %s" % (repo, patch))
                if r.returncode != 0:
                    sh("git -C %s reset -q --hard ; git -C %s clean -fdq" % (repo, repo))
                    results[sid] = dict(applied=False, note=r.stderr[-300:])
                    print(sid, "DOES NOT APPLY", flush=True)
                    continue
                sh("git -C %s reset -q" % repo)
            b = sh("cd %s && %s go build ./... 2>&1" % (repo, GOENV))
            t0 = time.time()
            c = sh("cd %s && python3 bin/check %s %s" % (ROOT, prop, tier), env=env)
            viol = [l for l in c.stdout.splitlines() if l.startswith("VIOLATION")]
            why = [l.strip()[:300] for l in c.stderr.splitlines() if l.strip().startswith("->")]
            results[sid] = dict(applied=True, builds=b.returncode == 0, property=prop, exit=c.returncode, caught=c.returncode == 1 and bool(viol),
                                violations=viol[:4], why=why[:4], secs=round(time.time() - t0, 1), tier=tier,
                                concrete=any("no-failing-input-found" not in v for v in viol))
            print(sid, "caught" if results[sid]["caught"] else "MISSED", results[sid]["secs"], (why or [""])[0][:200], flush=True)
            sh("git -C %s checkout -- . ; git -C %s clean -fdq" % (repo, repo))
            json.dump(results, open(res_path, "w"), indent=1, sort_keys=True)
    finally:
        if scratch:
            shutil.rmtree(scratch, ignore_errors=True)
    print(sum(1 for v in results.values() if v.get("caught")), "caught of", len(results))


if __name__ == "__main__":
    main()
