#!/usr/bin/env python3
"""Apply each seeded change to /repo's working tree, run the quick check of its property, undo it; record what was caught."""
import json, os, subprocess, sys, shutil, time, glob
ROOT = "/verif"
SEED = os.path.join(ROOT, "seeded")


def sh(cmd, **kw):
    return subprocess.run(cmd, shell=True, capture_output=True, text=True, **kw)


def main():
    only = sys.argv[1:]
    res_path = os.path.join(SEED, "results.json")
    results = json.load(open(res_path)) if os.path.exists(res_path) else {}
    for d in sorted(glob.glob(os.path.join(SEED, "C*-m*"))):
        sid = os.path.basename(d)
        prop = sid.split("-")[0]
        if only and sid not in only and prop not in only:
            continue
        assert sh("git -C /repo status --porcelain").stdout.strip() == "", "repo not clean"
        patch = os.path.join(d, "patch.diff")
        r = sh("git -C /repo apply --whitespace=nowarn %s" % patch)
        if r.returncode != 0:
            r = sh("git -C /repo apply --3way --whitespace=nowarn %s" % patch)
            if r.returncode != 0:
                sh("git -C /repo checkout -- . ; git -C /repo reset -q")
                results[sid] = dict(applied=False, note=r.stderr[-300:])
                print(sid, "DOES NOT APPLY")
                continue
            sh("git -C /repo reset -q")
        b = sh("cd /repo && GOFLAGS=-mod=mod GOPROXY=off GOSUMDB=off GOTOOLCHAIN=local go build ./... 2>&1")
        t0 = time.time()
        c = sh("cd %s && python3 bin/check %s quick" % (ROOT, prop))
        viol = [l for l in c.stdout.splitlines() if l.startswith("VIOLATION")]
        why = [l.strip()[:300] for l in c.stdout.splitlines() if l.strip().startswith("->")]
        results[sid] = dict(applied=True, builds=b.returncode == 0, property=prop, exit=c.returncode, caught=c.returncode == 1 and bool(viol),
                            violations=viol[:4], why=why[:4], secs=round(time.time() - t0, 1))
        print(sid, "caught" if results[sid]["caught"] else "MISSED", results[sid]["secs"], (why or [""])[0][:160], flush=True)
        sh("git -C /repo checkout -- . ; git -C /repo clean -fdq")
        json.dump(results, open(res_path, "w"), indent=1, sort_keys=True)
    print(sum(1 for v in results.values() if v.get("caught")), "caught of", len(results))


if __name__ == "__main__":
    main()
