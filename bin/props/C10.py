"""C10 — Stop is safe, bounded and final: crash-point scenarios over real sockets (+ Model/StopLTS.v)."""
import props.C02 as c02
RULE = ("scenarios over real sockets, each in its own child process with a deadline: Stop with three open sessions, with a session idle for longer "
        "than the write timeout, with calls in both directions in flight, with two handshakes held at the registration gate, with administrative "
        "calls spinning concurrently; Stop and Serve must return within the bound and every session socket must be closed by the server; afterwards "
        "a second Stop, OpenConnections, GetConnectedPeerPublicKeys, GetConnectionNotifyChan, UpdatePublicKeys, Invoke and RegisterService must "
        "return (errors / empty views) without panic or hang, a new connection must not be served, and no server-side wsrpc goroutine may remain")
ASSUMPTIONS = ["'bounded' is observed as 3 s (6 s before a hang is declared)"]
FILES = ["root/fake_test.go", "root/c16_test.go", "root/c07_test.go", "root/peers_test.go", "root/c18_test.go", "root/c06_test.go", "root/session_test.go", "root/c01_test.go", "root/c14_test.go", "root/c11_test.go", "root/c10_test.go"]


def run(ctx, test="^TestVerifC10$", name="C10", files=None):
    import props.C17 as c17
    extra, labels = c02.instrumented(ctx, rels=("client.go", "server.go", "credentials/tls.go", "internal/transport/websocket_client.go"))
    import re
    # c11_test.go's linked constructor is used by the server rewrite
    src = open(extra["server.go"]).read().replace("vNewServerTransport(", "vNewServerTransportLinked(")
    open(extra["server.go"], "w").write(src)
    c = open(extra["client.go"]).read()
    c = re.sub(r"\btime\.NewTimer\(", "vNewTimer(", c) + "\nvar _ = time.Now\n"
    open(extra["client.go"], "w").write(c)
    rc, out, recs = c17.go_scaled(ctx, "", test, files or FILES, "wsrpc", None, extra, 1500 if ctx.thorough else 500)
    ctx.records += recs
    if rc != 0 or not recs:
        ctx.fail("harness:" + name, "the " + name + " harness did not run to completion on this tree: " + out[-1500:], kind="correspondence", no_input=True)
        return
    for r in recs:
        if r.get("fail"):
            ctx.fail(r["fail"].split("/")[0], "shutdown monitor '%s' failed: %s" % (r["fail"], str(r.get("info"))[:500]), case=r)
