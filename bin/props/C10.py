"""C10 — Stop is safe, bounded and final: crash-point scenarios over real sockets (+ Model/StopLTS.v)."""
import props.C02 as c02
RULE = ("scenarios over real sockets, each in its own child process with a deadline: Stop with three open sessions, with a session idle for longer "
        "than the write timeout, with calls in both directions in flight, with two handshakes held at the registration gate, with administrative "
        "calls spinning concurrently; Stop and Serve must return within the bound and every session socket must be closed by the server; afterwards "
        "a second Stop, OpenConnections, GetConnectedPeerPublicKeys, GetConnectionNotifyChan, UpdatePublicKeys, Invoke and RegisterService must "
        "return (errors / empty views) without panic or hang, a new connection must not be served, and no server-side wsrpc goroutine may remain")
SCEN = {  # the harness scenarios as histories of the Stop model
    "open-sessions": "p_admit 0 ++ p_admit 1 ++ p_admit 2 ++ [LNewStop]",
    "idle-longer-than-write-timeout": "p_admit 0 ++ [LNewStop]",
    "calls-both-directions": "p_admit 0 ++ p_admit 1 ++ [LNet 0; LHand 0; LNet 1; LNewStop; LStop 0; LNet 0]",
    "handshakes-in-progress": "p_admit 0 ++ [LNewHs; LNewHs; LHs 1 true; LHs 1 true; LHs 1 true; LHs 2 true; LHs 2 true; LHs 2 true; LNewStop; LStop 0; LStop 0; LHs 1 true; LHs 2 true]",
    "concurrent-admin": "p_admit 0 ++ p_admit 1 ++ [LApi AOpen; LNewStop; LStop 0; LApi AKeys; LStop 0; LApi AUpdate; LApi ASend; LNewStop; LStop 1; LStop 1; LApi AChan]",
    "simultaneous-stops": "[LNewStop; LNewStop; LNewStop; LNewStop; LStop 0; LStop 1; LStop 2; LStop 3; LStop 1; LStop 0; LStop 3; LStop 2]",
    "rejected-handshakes-then-stop": "[LNewHs; LNewHs; LNewHs; LHs 0 true; LHs 0 true; LHs 0 true; LHs 1 true; LHs 1 true; LHs 1 true; LHs 2 true; LHs 2 true; LHs 2 true; LHs 0 false; LHs 1 true; LHs 2 false; LNewStop]",
    "peers-still-connecting-at-stop": "[LNewHs; LNewHs; LNewStop]",
    "handler-still-running-at-stop": "p_admit 0 ++ [LNet 0; LNewStop]",
    "handshake-completes-while-stop-waits": "p_admit 0 ++ [LNewHs; LHs 1 true; LHs 1 true; LHs 1 true; LNewStop; LStop 0; LStop 0; LStop 0; LHs 1 true]",
    "write-timed-out-before-stop": "p_admit 0 ++ [LWpErr 0; LNewStop]",
    "peers-closed-first": "p_admit 0 ++ p_admit 1 ++ [LSockDie 0; LRp 0; LWpCwp 0; LSockDie 1; LNewStop]",
}
CFG_ORDER = ["stop_again", "api_nil", "hs_quit", "hs_nil", "hs_close", "srp_cconn", "swp_err_sock", "swp_cc_sock", "start_sock", "cb_release", "stop_waits"]
STRUCT = ["hs_closes_conn", "after_pump_releases", "start_closes_transport", "srp_closes_cwp", "swp_cwp_arm", "shr_done_arm", "swr_arms"]
ASSUMPTIONS = ["'bounded' is observed as 3 s (6 s before a hang is declared)"]
FILES = ["root/fake_test.go", "root/c16_test.go", "root/c07_test.go", "root/peers_test.go", "root/c18_test.go", "root/c06_test.go", "root/session_test.go", "root/c01_test.go", "root/c14_test.go", "root/c11_test.go", "root/c10_test.go"]


def run(ctx, test="^TestVerifC10$", name="C10", files=None):
    import props.C17 as c17
    extra, labels = c02.instrumented(ctx, rels=("client.go", "server.go", "credentials/tls.go", "internal/transport/websocket_client.go"))
    import re
    # c11_test.go's linked constructor is used by the server rewrite
    src = open(extra["server.go"]).read().replace("vNewServerTransport(", "vNewServerTransportLinked(")
    open(extra["server.go"], "w").write(src)
    c = open(extra["client.go"]).read()
    c = re.sub(r"\btime\.NewTimer\(", "vNewTimer(", c) + "\nvar _ = time.Now\n"
    open(extra["client.go"], "w").write(c)
    rc, out, recs = c17.go_scaled(ctx, "", test, files or FILES, "wsrpc", None, extra, 1500 if ctx.thorough else 500)
    ctx.records += recs
    if rc != 0 or not recs:
        ctx.fail("harness:" + name, "the " + name + " harness did not run to completion on this tree: " + out[-1500:], kind="correspondence", no_input=True)
        return
    impl_ok = {}
    ctx.concrete_seen = False
    for r in recs:
        sc = (r.get("info") or {}).get("scenario")
        if sc:
            impl_ok[sc] = impl_ok.get(sc, True) and not r.get("fail")
        if r.get("fail"):
            ctx.concrete_seen = True
            ctx.fail(r["fail"].split("/")[0], "shutdown monitor '%s' failed: %s" % (r["fail"], str(r.get("info"))[:500]), case=r)
    if name == "C10":
        import props.C09 as c09
        facts = c09.shape(ctx)
        if facts:
            # the model's hs_close / cb_release are the structural facts of wshandler; stop_waits and the rest come from the shape of Stop and the transport
            facts["stop"]["hs_close"] = facts["struct"].get("hs_closes_conn", False)
            facts["stop"]["cb_release"] = facts["struct"].get("after_pump_releases", False)
            c09.model_part(ctx, facts, impl_ok, M=dict(prop="C10", key="stop", order=CFG_ORDER, struct=STRUCT, scen=SCEN, run="Run.RunStop", proofs="Proofs.StopP", what="Stop",
                                                       stuck="stop_stuck cfg_now %d %s", unsafe="unsafe_seeds cfg_now %d %s", thm1="C10_never_crashes", thm2="C10_stopped_is_final"))
