"""C06 — bounded backoff and recovery to Ready (Model/Backoff.v)."""
RULE = ("arithmetic: constants of the compiled backoff package; the interval orbit of the real strategy observed exactly with jitter switched "
        "off (default and 30 random configurations, also after Reset) vs Backoff.interval; jittered draws of the real default strategy vs "
        "in_pause; loop: random dial-outcome scripts through addrConn.resetTransport with time.NewTimer redirected, requested pauses vs "
        "loop_sleeps/check_sleeps; first pause of a fresh connection next to a failing one; recovery: fault sequences (cut after k bytes in "
        "either direction during the handshake, black-hole, reset, established session cut, server restart, key removed then re-added) through "
        "a TCP proxy, then Ready again and a call in each direction succeeds; durations of websocket_client.go scaled for the black-hole case; "
        "the connection of the n-th successful dial lost after its handshake and before the loop records it (hook inside the dial call, the "
        "transport's close callback has run by then); an established session that stalls (a proxy stops draining both directions without any "
        "error, the server side is dropped) while the client keeps calling with a 300 ms write timeout: it must dial again within 12 s and both "
        "directions must work again")
ASSUMPTIONS = ["reachability of the server and TCP behaviour are environment; the real network is exercised through the loopback proxy only"]
FILES = ["root/fake_test.go", "root/c16_test.go", "root/c07_test.go", "root/peers_test.go", "root/c18_test.go", "root/c06_test.go"]


def run(ctx):
    import props.C17 as c17
    rc1, out1, recs1 = ctx.go("internal/backoff", "^TestVerifC06Backoff$", ["backoff/c06_test.go"], "backoff", timeout=240)
    rw = {"server.go": [(r"\btransport\.NewServerTransport\(", "vNewServerTransport(")],
          "client.go": [(r"\btransport\.NewClientTransport\(", "vNewClientTransport("), (r"\btime\.NewTimer\(", "vNewTimer(")],
          "internal/transport/websocket_client.go": [(r"\btime\.Second\b", "vSecond")]}
    sf = c17.scale_file(100)
    rc2, out2, recs2 = c17.go_scaled(ctx, "", "^TestVerifC06$", FILES, "wsrpc", rw, {"internal/transport/zz_verif_scale.go": sf}, 900 if ctx.thorough else 420)
    n = ctx.rewrite_counts["client.go"]
    ctx.oblige(n == [1, 1], "reconnect_loop_sites", "(expected one NewClientTransport call and one time.NewTimer call in client.go, found %s)" % n)
    # an idle session which goes silent (no error, socket open): the keepalive durations of transport.go scaled as for C17
    scale = 25
    rw3 = {"internal/transport/transport.go": [(r"\btime\.Second\b", "vSecond")],
           "server.go": rw["server.go"], "client.go": rw["client.go"]}
    rc3, out3, recs3 = c17.go_scaled(ctx, "", "^TestVerifC06Silent$", FILES, "wsrpc", rw3, {"internal/transport/zz_verif_scale.go": c17.scale_file(scale)}, 300, env={"VERIF_SCALE": scale})
    ctx.extra["time_scale_silent_session"] = scale
    if rc3 != 0 or not recs3:
        ctx.fail("harness:C06-silent", "the silent-session harness did not run to completion on this tree: " + out3[-1500:], kind="correspondence", no_input=True)
        return
    recs2 = recs2 + recs3
    recs = recs1 + recs2
    ctx.records += recs
    if rc1 != 0 or rc2 != 0 or not recs1 or not recs2:
        ctx.fail("harness:C06", "the C06 harness did not run to completion on this tree: " + (out1 if rc1 else out2)[-1500:], kind="correspondence", no_input=True)
        return
    for r in recs:
        if r.get("fail"):
            ctx.fail(r["fail"], "reconnect monitor '%s' failed: %s" % (r["fail"], str(r.get("info"))[:400]), case=r)
    hdr = ("From Coq Require Import List NArith ZArith String.\nFrom WV Require Import Base.Hex.\nImport ListNotations.\nOpen Scope Z_scope.")
    ctx.model("Run.RunC06", recs, header=hdr)
    # the session is lost in the gap between READY and the loop's wait for the loss (gate-held, real sockets)
    import props.C09 as c09
    c09.run(ctx, test="^TestVerifC06Gap$", name="C06-gap")
