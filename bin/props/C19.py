"""C19 — generated stubs (Model/Gen.v vs both protoc plugins)."""
import os
import re
import shutil
import vlib

RULE = ("random schemas (package names incl. dotted ones, 0-4 services, 0-6 methods with snake/camel/mixed/underscore-leading names, shared, nested "
        "and imported message types) -> FileDescriptorProto -> both plugin binaries built from the working tree, fed a CodeGeneratorRequest "
        "directly; the abstract structure of the output (identifiers, Invoke strings, descriptor table, handlers) vs Gen.gen_file; every generated "
        "package is compiled together with protoc-gen-go's message types in a scratch module and a per-method in-memory round trip through the "
        "generated client stub, registration function and handler is run; two runs must be byte-identical; the checked-in *_wsrpc.pb.go files must "
        "be reproduced from their embedded descriptors (after gofmt normalisation); GoCamelCase names vs Gen.go_camel; every run has a schema "
        "without a package statement; for the grpc flavour the grpc half is round-tripped as well (generated grpc client stub -> a router which "
        "splits the path at the last slash and looks the service up by name, as grpc.Server does -> generated grpc handler, without and with an "
        "interceptor, which must be told /<full service name>/<method>); two files in different Go packages, the second using a message of the "
        "first, generated in one run and in a run each must give the same bytes, and the joint output is compiled")
ASSUMPTIONS = ["Go type checking and protogen's import resolution are not modelled; go build and the round trips validate them on the sample", "google.golang.org/grpc is a stand-in with its API shape (the real module cannot be built offline); its router is the harness's"]


def build(bin_name, pkg, cwd):
    out = os.path.join(vlib.GEN, "bin", bin_name)
    os.makedirs(os.path.dirname(out), exist_ok=True)
    rc, o, _ = vlib.sh(["go", "build", "-o", out, pkg], cwd=cwd, env=vlib.GOENV, timeout=300)
    return out, rc, o


def run(ctx):
    bins = {}
    for name, pkg in (("protoc-gen-go", "google.golang.org/protobuf/cmd/protoc-gen-go"),
                      ("protoc-gen-go-wsrpc", "./cmd/protoc-gen-go-wsrpc"), ("protoc-gen-go-wsrpcgrpc", "./cmd/protoc-gen-go-wsrpcgrpc")):
        path, rc, o = build(name, pkg, vlib.REPO)
        if rc != 0:
            ctx.fail("harness:C19", "plugin %s does not build from this tree: %s" % (name, o[-800:]), kind="correspondence", no_input=True)
            return
        bins[name] = path
    mod = os.path.join(vlib.GEN, "c19mod")
    shutil.rmtree(mod, ignore_errors=True)
    os.makedirs(mod)
    stubs = os.path.join(vlib.HARNESS, "c19stubs", "grpc")
    # two scratch modules: the wsrpc flavour builds against the real dependencies; the grpc flavour
    # against a stand-in for google.golang.org/grpc (the real one cannot be built offline here)
    for sub, extra in (("a", ""), ("g", "replace google.golang.org/grpc => %s\n" % stubs)):
        os.makedirs(os.path.join(mod, sub))
        with open(os.path.join(mod, sub, "go.mod"), "w") as f:
            f.write("module verifgen\n\ngo 1.22.5\n\nrequire github.com/smartcontractkit/wsrpc v0.0.0\n\nreplace github.com/smartcontractkit/wsrpc => %s\n%s" % (vlib.REPO, extra))
        shutil.copy(os.path.join(vlib.REPO, "go.sum"), os.path.join(mod, sub, "go.sum"))
    env = {"VERIF_PLUGIN_GO": bins["protoc-gen-go"], "VERIF_PLUGIN_WSRPC": bins["protoc-gen-go-wsrpc"],
           "VERIF_PLUGIN_WSRPCGRPC": bins["protoc-gen-go-wsrpcgrpc"], "VERIF_C19_DIR": mod, "VERIF_REPO_DIR": vlib.REPO}
    rc, out, recs = ctx.go("intgtest/verifgen", "^TestVerifC19$", ["gen/c19_test.go"], "verifgen", env=env, timeout=900 if ctx.thorough else 300)
    ctx.records += recs
    if rc != 0 or not recs:
        ctx.fail("harness:C19", "the C19 harness did not run to completion on this tree: " + out[-1500:], kind="correspondence", no_input=True)
        return
    byid = {r["info"]["id"]: r for r in recs if r.get("class", "").startswith("schema")}
    # compile every generated package, then run the round trips
    broken, passed = set(), set()
    for sub in ("a", "g"):
        m = os.path.join(mod, sub)
        rcb, outb, _ = vlib.sh(["go", "build", "./..."], cwd=m, env=vlib.GOENV, timeout=600)
        br = set(re.findall(r"^# verifgen/(s\d+g?)/", outb, re.M)) | set(re.findall(r"^(s\d+g?)/[\w/]+\.go:\d+", outb, re.M))
        if rcb != 0 and not br:
            ctx.fail("harness:C19", "go build of the scratch module failed: " + outb[-800:], kind="correspondence", no_input=True)
            return
        for sid in sorted(br):
            r = byid.get(sid, {"class": "schema"})
            errs = [l for l in outb.splitlines() if l.startswith(sid + "/")][:4]
            ctx.fail("generated-code-does-not-compile" + ("/grpc-flavour" if sid.endswith("g") else ""),
                     "the package generated for schema %s does not compile: %s" % (sid, " | ".join(errs)), case=r)
        broken |= br
        rts = [d for d in sorted(os.listdir(m)) if d.startswith("rt_") and d[3:] not in br]
        if not rts:
            continue
        rct, outt, _ = vlib.sh(["go", "test", "-count=1"] + ["./" + d for d in rts], cwd=m, env=vlib.GOENV, timeout=900)
        ok = set(re.findall(r"^ok\s+verifgen/rt_(s\d+g?)\b", outt, re.M))
        passed |= ok
        for d in rts:
            sid = d[3:]
            if sid not in ok:
                detail = [l for l in outt.splitlines() if sid in l or l.startswith("    ")][:6]
                ctx.fail("round-trip-fails" + ("/grpc-flavour" if sid.endswith("g") else ""),
                         "stub -> registered handler round trip of schema %s fails: %s" % (sid, " | ".join(detail)), case=byid.get(sid))
    ctx.extra["packages_compiled"] = len(byid) - len(broken)
    ctx.extra["round_trips_passed"] = len(passed)
    for r in recs:
        if r.get("fail"):
            ctx.fail(r["fail"], "generator monitor '%s' failed: %s" % (r["fail"], str(r.get("info"))[:400]), case=r)
    ctx.model("Run.RunC19", recs)
    if not os.environ.get("VERIF_KEEP"):
        shutil.rmtree(mod, ignore_errors=True)
