"""C05 — at most one execution, exactly one response (Model/Session.v)."""
import props.C01 as c01
import props.C17 as c17
RULE = c01.RULE + ("; plus counters kept by the harness (handler runs per call token, response frames per call id), and crash points over real "
                   "sockets: a proxy cuts the connection at random moments while calls with handler latencies are in flight, on a library server "
                   "(handler runs per call <= 1) and on a raw server (no call id seen twice across reconnects, no request answered twice); timeout races: a "
                   "call whose context ends as its response arrives (forced: the endpoint's lock is busy, the responder queues first, the context is "
                   "cancelled, the lock is released - server and client endpoint; unforced: 200 server calls with the response timed around the "
                   "deadline), after which a request on the same endpoint must be answered with exactly one response frame within 2 s")
ASSUMPTIONS = c01.ASSUMPTIONS
FILES = c01.FILES + ["root/peers_test.go", "root/c18_test.go", "root/c06_test.go", "root/c05_test.go", "root/c05b_test.go"]
RW = {"server.go": [(r"\btransport\.NewServerTransport\(", "vNewServerTransport(")],
      "client.go": [(r"\btransport\.NewClientTransport\(", "vNewClientTransport("), (r"\btime\.NewTimer\(", "vNewTimer(")]}


def run(ctx, test="^TestVerifC05$", name="C05", files=None):
    rc, out, recs = ctx.go("", test, files or FILES, "wsrpc", timeout=1500 if ctx.thorough else 500, rewrites=RW)
    ctx.records += recs
    if rc != 0 or not recs:
        ctx.fail("harness:" + name, "the harness did not run to completion on this tree: " + out[-1500:], kind="correspondence", no_input=True)
        return
    for r in recs:
        if r.get("fail"):
            ctx.fail(r["fail"].split("/")[0], "monitor '%s' failed: %s" % (r["fail"], str(r.get("info"))[:500]), case=r)
    ctx.model("Run.RunSession", recs, shard=6)
    if name == "C05":
        # responses are routed through the registration of the session: a live session which loses its registration (to the
        # teardown of an older session of its key, to an update) gets no answers although it is up - the registry histories
        # of C11 (every admitted session is probed with a request which must be answered) are replayed here as well
        import props.C11 as c11
        c11.run(ctx, name="C05-registry")
        # a frame which cannot be decoded must not stop the requests behind it from being answered (real sockets, child processes)
        import props.C09 as c09
        c09.run(ctx, test="^TestVerifC05Frames$", name="C05-frames")
        # requests which arrive before the service is registered are not served; every request after the registration is
        import props.C07 as c07
        # the response to a request carries that request's call identifier as it was sent, for every spelling of an identifier
        # the endpoint accepts: the per-frame differential of C07 (frames written compared with Dispatch.process)
        c07.run(ctx)
        rc3, out3, recs3 = ctx.go("", "^TestVerifC05RegisterLater$", c07.FILES, "wsrpc", timeout=240)
        ctx.records += recs3
        if rc3 != 0 or not recs3:
            ctx.fail("harness:C05-register-later", "the harness did not run to completion on this tree: " + out3[-1200:], kind="correspondence", no_input=True)
        for r in recs3:
            if r.get("fail"):
                ctx.fail(r["fail"], "monitor '%s' failed: %s" % (r["fail"], str(r.get("info"))[:400]), case=r)
