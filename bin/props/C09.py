"""C09 — Close is safe, bounded and final (Model/CloseLTS.v) + crash-point scenarios over real sockets."""
RULE = ("scenarios over real sockets, each in its own child process with a deadline (a hang or a crash is an observation): Close after an idle "
        "period longer than the write timeout, with calls in flight, with inbound requests in slow handlers, during a reconnect attempt, under an "
        "inbound burst of requests and unsolicited responses from a raw server, three concurrent Closes, Close right after Dial; Close must return "
        "within the bound; afterwards Invoke must fail at once, the state must be SHUTDOWN, no dial may reach the proxy, no handler may start, no "
        "client-side wsrpc goroutine may remain, a further Close must return")
SCEN = {  # the harness scenarios as histories of the model: the environment's part; the helpers (RunClose.settle) do the rest
    "idle-longer-than-write-timeout": "p_connect ++ [LNewInvoke; LG 0 GA; LG 0 GA; LG 0 GA; LG 0 (GAHand true); LG 0 GAResp; LNewClose]",
    "calls-in-flight": "p_connect ++ [LNewInvoke; LNewInvoke; LG 0 GA; LG 0 GA; LG 0 GA; LG 0 (GAHand true); LG 1 GA; LG 1 GA; LNewClose; LClose 0 true]",
    "inbound-requests-with-slow-handlers": "p_connect ++ [LNet 0; LHand 0 (Some true); LNet 0; LHand 0 (Some true); LNewClose; LClose 0 true]",
    "reconnect-in-progress": "[LLc; LRt true; LRt true; LDial false; LRt true; LRt true; LLc; LNewClose]",
    "reconnect-after-several-failures": "[LLc; LRt true; LRt true; LDial false; LRt true; LRt true; LLc; LTimer; LRt true; LRt true; LDial false; LRt true; LRt true; LNewClose]",
    "close-after-dial-context-ended-and-connection-lost": "p_connect ++ [LSockDie 0; LRp 0; LWpCwp 0; LNewClose]",
    "inbound-burst": "p_connect ++ [LNet 0; LHand 0 (Some true); LHandlerRet 0 true; LNet 0; LHand 0 (Some false); LNet 0; LNewClose; LClose 0 true]",
    "concurrent-close": "p_connect ++ [LNewClose; LNewClose; LNewClose; LClose 0 true; LClose 1 true; LClose 2 true; LClose 1 true]",
    "close-right-after-dial": "[LLc; LRt true; LRt true; LNewClose; LClose 0 true; LDial true]",
    "write-fails-with-message-in-hand": "p_connect ++ [LNet 0; LWpTickErr 0; LWpLock 0; LWpRel 0 true; LLc; LRtFired; LLr; LLr; LLr; LLr; LHr 0; LRt true; LRt true; LDial true; LRt true; LRt true; LLc; LLr; LLr; LLr; LLr; LNewClose]",
    "close-while-call-is-being-prepared": "p_connect ++ [LNewInvoke; LG 0 GA; LG 0 GA; LNewClose; LClose 0 true; LClose 0 true]",
    "peer-answers-each-call-several-times": "p_connect ++ [LNewInvoke; LG 0 GA; LG 0 GA; LG 0 GA; LG 0 (GAHand true); LNet 0; LHand 0 (Some false); LNet 0; LHand 0 (Some false); LG 1 GA; LG 0 GAResp; LNet 0; LHand 0 (Some false); LNewClose]",
    "close-during-a-slow-upgrade": "[LLc; LRt true; LRt true; LNewClose; LClose 0 true; LClose 0 true; LDial true]",
    "close-after-dial-context-ended": "p_connect ++ [LNewClose]",
    "peer-closed-first": "p_connect ++ [LSockDie 0; LRp 0; LWpCwp 0; LWpLock 0; LWpRel 0 true; LLc; LRtFired; LRt true; LRt true; LDial false; LNewClose]",
}
CFG_ORDER = ["invoke_nil", "handler_nil", "rp_cconn", "rp_wdone", "wr_wdone", "wp_sock", "wp_cc_sock", "inv_connctx", "close_again", "csm_final"]
STRUCT = ["rt_unlock_before_close", "wg_add_before_go", "rt_backoff_ctx", "resp_nonblocking", "wr_arms"]
ASSUMPTIONS = ["'bounded' is observed as 3 s (6 s before a hang is declared); goroutines are counted from a stack dump"]
FILES = ["root/fake_test.go", "root/c16_test.go", "root/c07_test.go", "root/peers_test.go", "root/c18_test.go", "root/c06_test.go", "root/session_test.go", "root/c01_test.go", "root/c14_test.go", "root/c09_test.go"]
RW = {"server.go": [(r"\btransport\.NewServerTransport\(", "vNewServerTransport(")],
      "client.go": [(r"\btransport\.NewClientTransport\(", "vNewClientTransport("), (r"\btime\.NewTimer\(", "vNewTimer(")]}




def shape(ctx):
    """R: the facts about the sources on which the model depends, re-extracted from the working tree."""
    import json, os, vlib
    import props.C15 as c15
    binp = c15.build_xlate()
    os.makedirs(vlib.GEN, exist_ok=True)
    js = os.path.join(vlib.GEN, "shape.json")
    rc, out, _ = vlib.sh([binp, "shape", vlib.REPO, js], env=vlib.GOENV, timeout=120)
    if rc != 0:
        ctx.fail("harness:shape", "the translator could not read this tree: " + out[-800:], kind="correspondence", no_input=True)
        return None
    return json.load(open(js))


def model_part(ctx, facts, impl_ok, M=None):
    """the model with the configuration of the current sources: cfg = good (then the theorems apply), random walks, scenario histories"""
    import os, re, vlib
    M = M or dict(prop="C09", key="close", order=CFG_ORDER, struct=STRUCT, scen=SCEN, run="Run.RunClose", proofs="Proofs.CloseP", what="Close",
                  stuck="close_stuck cfg_now %d %s", unsafe="match walks cfg_now safe %d %s with Some (x, t) => Some (x, length t) | None => None end",
                  thm1="C09_never_crashes", thm2="C09_closed_is_final",
                  live="From WV Require Import Proofs.CloseLive.\nTheorem now_close_returns : forall ls0 k, let s := exec cfg_now init ls0 in k < length (cl s) -> (forall i, getG s i <> GBody) -> "
                       "exists ls s', run cfg_now s ls = Some s' /\\ (exists b, getC s' k = CRet b) /\\ length ls <= 19 + 6 * length (trs s) + length (gs s).\n"
                       "Proof. rewrite cfg_is_good. exact close_returns. Qed.\n")
    CFG_ORDER_, STRUCT_, SCEN_ = M["order"], M["struct"], M["scen"]
    cfg = facts[M["key"]]
    bad = [k for k in CFG_ORDER_ if not cfg.get(k)]
    badst = [k for k in STRUCT_ if not facts["struct"].get(k)]
    term = "(mkCfg %s)" % " ".join("true" if cfg.get(k) else "false" for k in CFG_ORDER_)
    seeds = "(map N.of_nat (seq %d %d))" % (1 + (ctx.seed * 1000) % 100000, 160 if ctx.thorough else 40)
    P = M["prop"]
    d = os.path.join(vlib.GEN, P.lower())
    os.makedirs(d, exist_ok=True)
    path = os.path.join(d, P + "_now.v")
    with open(path, "w") as f:
        f.write("From Coq Require Import NArith List.\nFrom WV Require Import %s %s.\nImport ListNotations.\n" % (M["run"], M["proofs"]))
        f.write("Definition cfg_now : cfg := %s.\n" % term)
        f.write("Definition stuck := Eval vm_compute in %s.\nPrint stuck.\n" % (M["stuck"] % (200 if ctx.thorough else 120, seeds)))
        f.write("Definition unsafe := Eval vm_compute in %s.\nPrint unsafe.\n" % (M["unsafe"] % (250 if ctx.thorough else 150, seeds)))
        f.write("Lemma cfg_is_good : cfg_now = good.\nProof. reflexivity. Qed.\n")
        f.write("Theorem now_never_crashes : forall ls, crashed (exec cfg_now init ls) = false.\nProof. rewrite cfg_is_good. intros ls. exact (i_nc _ (inv_exec ls init inv_init)). Qed.\n")
        f.write("Theorem now_is_final : forall ls, tore (exec cfg_now init ls) = true -> final (exec cfg_now init ls) = true.\nProof. rewrite cfg_is_good. intros ls. apply inv_final. exact (inv_exec ls init inv_init). Qed.\n")
        f.write(M.get("live", ""))
        f.write("Print Assumptions now_is_final.\n")
    rc, out, secs = vlib.coqc(path, timeout=900)
    m1 = re.search(r"stuck\s*=\s*\[(.*?)\]", out, re.S)
    m2 = re.search(r"unsafe\s*=\s*(None|\[\]|Some[^\n]*|\[[^\]]*\])", out)
    stuck = re.findall(r"\d+", re.sub(r"%\w+", "", m1.group(1))) if m1 else None
    unsafe = m2.group(1) if m2 else None
    if unsafe == "[]":
        unsafe = "None"
    ctx.extra[M["key"] + "_model"] = dict(cfg=cfg, struct=facts["struct"], walks_stuck=stuck, walks_unsafe=unsafe, coq_seconds=round(secs, 1))
    ok_thm = rc == 0 and "Closed under the global context" in out
    ctx.obligations += 3
    ctx.discharged += (1 if not bad else 0) + (1 if ok_thm else 0) + (1 if not badst else 0)
    if bad or badst or not ok_thm or stuck or (unsafe and unsafe != "None") or stuck is None:
        what = []
        if bad:
            what.append("the %s model's configuration read off the sources is no longer `good` (%s false): theorems %s / %s no longer apply to this tree" % (M["what"], ", ".join(bad), M["thm2"], M["thm1"]))
        if badst:
            what.append("structural assumption(s) of the %s model no longer hold in the sources: %s" % (M["what"], ", ".join(badst)))
        if stuck:
            what.append("in the model with this configuration %s does not come to an end (or leaves goroutines behind) from the states of random walks with seeds %s" % (M["what"], stuck[:6]))
        if unsafe and unsafe != "None":
            what.append("the model with this configuration reaches an unsafe state (crash, or not final after %s): walk %s" % (M["what"], unsafe))
        if not what:
            what.append("gen/%s/%s_now.v no longer compiles: " % (P.lower(), P) + out[-600:])
        # a concrete failing scenario on the implementation makes this a violation with an input; otherwise the obligation is named
        ctx.fail("obligation:%s_cfg" % P, "; ".join(what), kind="obligation", no_input=not ctx.concrete_seen,
                 case=dict(theorem="cfg_is_good / now_* in gen/%s/%s_now.v" % (P.lower(), P), cfg=cfg, struct=facts["struct"], model_stuck_seeds=stuck, model_unsafe=unsafe))
    # the scenarios as histories of the model
    cases = []
    for name, pref in SCEN_.items():
        if name in impl_ok:
            cases.append(dict(**{"class": "scenario-model/" + name, "sig": "scen/" + name, "info": {"scenario": name, "impl_ok": impl_ok[name], "outcome": "model"},
                                 "coq": "CScen cfg_now (%s) %s" % (pref, "true" if impl_ok[name] else "false")}))
    hdr = "From Coq Require Import NArith List.\nImport ListNotations.\nDefinition cfg_now : cfg := %s." % term
    ctx.records += cases
    ctx.model(M["run"], cases, header=hdr)


def run(ctx, test="^TestVerifC09$", name="C09", files=None):
    import re
    import props.C02 as c02
    import props.C17 as c17
    ctx.concrete_seen = False
    facts = shape(ctx) if name == "C09" else None
    extra, labels = c02.instrumented(ctx, rels=("client.go", "server.go", "internal/transport/websocket_client.go"))
    c = open(extra["client.go"]).read()
    c = re.sub(r"\btime\.NewTimer\(", "vNewTimer(", c) + "\nvar _ = time.Now\n"
    open(extra["client.go"], "w").write(c)
    ctx.oblige("WebsocketClient.readPump#select#1" in labels.get("internal/transport/websocket_client.go", []), "C09_gate_labels", "(the hand-off select of the client read pump)")
    rc, out, recs = c17.go_scaled(ctx, "", test, files or FILES, "wsrpc", None, extra, 1500 if ctx.thorough else 500)
    ctx.records += recs
    if rc != 0 or not recs:
        ctx.fail("harness:" + name, "the harness did not run to completion on this tree: " + out[-1500:], kind="correspondence", no_input=True)
        return
    impl_ok = {}
    for r in recs:
        sc = (r.get("info") or {}).get("scenario")
        if sc:
            impl_ok[sc] = impl_ok.get(sc, True) and not r.get("fail")
        if r.get("fail"):
            ctx.concrete_seen = True
            ctx.fail(r["fail"].split("/")[0], "shutdown monitor '%s' failed: %s" % (r["fail"], str(r.get("info"))[:500]), case=r)
    if facts:
        model_part(ctx, facts, impl_ok)
