"""C09 — Close is safe, bounded and final (Model/CloseLTS.v) + crash-point scenarios over real sockets."""
RULE = ("scenarios over real sockets, each in its own child process with a deadline (a hang or a crash is an observation): Close after an idle "
        "period longer than the write timeout, with calls in flight, with inbound requests in slow handlers, during a reconnect attempt, under an "
        "inbound burst of requests and unsolicited responses from a raw server, three concurrent Closes, Close right after Dial; Close must return "
        "within the bound; afterwards Invoke must fail at once, the state must be SHUTDOWN, no dial may reach the proxy, no handler may start, no "
        "client-side wsrpc goroutine may remain, a further Close must return")
ASSUMPTIONS = ["'bounded' is observed as 3 s (6 s before a hang is declared); goroutines are counted from a stack dump"]
FILES = ["root/fake_test.go", "root/c16_test.go", "root/c07_test.go", "root/peers_test.go", "root/c18_test.go", "root/c06_test.go", "root/session_test.go", "root/c01_test.go", "root/c14_test.go", "root/c09_test.go"]
RW = {"server.go": [(r"\btransport\.NewServerTransport\(", "vNewServerTransport(")],
      "client.go": [(r"\btransport\.NewClientTransport\(", "vNewClientTransport("), (r"\btime\.NewTimer\(", "vNewTimer(")]}


def run(ctx, test="^TestVerifC09$", name="C09", files=None):
    import re
    import props.C02 as c02
    import props.C17 as c17
    extra, labels = c02.instrumented(ctx, rels=("client.go", "server.go", "internal/transport/websocket_client.go"))
    c = open(extra["client.go"]).read()
    c = re.sub(r"\btime\.NewTimer\(", "vNewTimer(", c) + "\nvar _ = time.Now\n"
    open(extra["client.go"], "w").write(c)
    ctx.oblige("WebsocketClient.readPump#select#1" in labels.get("internal/transport/websocket_client.go", []), "C09_gate_labels", "(the hand-off select of the client read pump)")
    rc, out, recs = c17.go_scaled(ctx, "", test, files or FILES, "wsrpc", None, extra, 1500 if ctx.thorough else 500)
    ctx.records += recs
    if rc != 0 or not recs:
        ctx.fail("harness:" + name, "the harness did not run to completion on this tree: " + out[-1500:], kind="correspondence", no_input=True)
        return
    for r in recs:
        if r.get("fail"):
            ctx.fail(r["fail"].split("/")[0], "shutdown monitor '%s' failed: %s" % (r["fail"], str(r.get("info"))[:500]), case=r)
