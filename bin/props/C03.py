"""C03 — mutual Ed25519 authentication (Model/Auth.v vs credentials/tls.go)."""
RULE = ("certificate chains (listed/unlisted Ed25519, listed key signed by another key, ECDSA, RSA, none, two, truncated, bit-flipped, garbage) "
        "against allow-lists (empty, one, many, duplicates, one-bit near misses) through PublicKeys.VerifyPeerCertificate, the model being given "
        "x509's parse of the same DER; key lists of lengths 0/31/32/33/64 through ValidPublicKeysFromEd25519 and UpdatePublicKeys; the tls.Config of "
        "all four constructors; end to end over real sockets for both server entry points: listed, unlisted, ECDSA certificate, no certificate, "
        "listed key without its private key, TLS 1.2, plain ws://, library client with a wrong/right server key through both client entry points; "
        "the CURRENT list: seeded sequences of PublicKeys.Replace (incl. nil and empty lists) after each of which Contains and the verifier "
        "obtained before must answer for exactly the new list; UpdatePublicKeys to the empty list (no arguments / empty slice) after which no "
        "formerly listed key gets a session; a key revoked by UpdatePublicKeys coming back with the TLS session cache it filled while listed "
        "(library certificate: no resumption happens; the peer's own certificate with a validity period and its own clock: resumption happens, "
        "recorded per case) must not be served")
ASSUMPTIONS = ["crypto/tls enforces TLS 1.3, proof of possession of the certificate's private key, and calls VerifyPeerCertificate on every full handshake; x509.ParseCertificate is the parser oracle"]
FILES = ["root/fake_test.go", "root/c16_test.go", "root/c07_test.go", "root/peers_test.go", "root/c18_test.go", "root/c03_test.go"]


def run(ctx, with_registry=True):
    rw = {"server.go": [(r"\btransport\.NewServerTransport\(", "vNewServerTransport(")],
          "client.go": [(r"\btransport\.NewClientTransport\(", "vNewClientTransport(")]}
    rc, out, recs = ctx.go("", "^TestVerifC03$", FILES, "wsrpc", timeout=600 if ctx.thorough else 300, rewrites=rw)
    ctx.records += recs
    if rc != 0 or not recs:
        ctx.fail("harness:C03", "the C03 harness did not run to completion on this tree: " + out[-1200:], kind="correspondence", no_input=True)
        return
    for r in recs:
        if r.get("fail"):
            ctx.fail(r["fail"], "authentication monitor '%s' failed: %s" % (r["fail"], str(r.get("info"))[:300]), case=r)
    ctx.model("Run.RunC03", recs)
    if with_registry:
        # the allow-list against handshakes in progress at every step (gate-held: revoked between the certificate check, the
        # upgrade and the registration): the registry histories of C11/C12, replayed through Registry.v
        import props.C11 as c11
        c11.run(ctx, name="C03-registry")
