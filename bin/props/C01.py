"""C01 — a completed call returns its own outcome (Model/Session.v)."""
RULE = ("histories of one session between a real ClientConn and a real Server over paired fake transports, scheduled by the harness: calls in "
        "both directions (registered/unknown methods, handler outcomes reply / typed error / error with value / untyped nil error / empty reply / "
        "undecodable request, payloads empty..2 KB), frame delivery in any order relative to other events, handler returns in any order, context "
        "expiry, failed writes, connection loss and recovery, and (dishonest class) injected forged responses, requests and empty envelopes; the "
        "label sequence and the observed results, handler instances, pending tables and frames in flight are replayed through Session.exec; "
        "independently every reply must embed the caller's own token; handler error texts, forged error texts, tokens and unknown method names "
        "contain '%' sequences (\"disk 100% full\", \"%d\", \"%s%!\", \"%%\") in both call directions: text is data and must arrive unchanged; "
        "the unidirectional client's scripted calls (C20's harness) against Uni.run_invoke; distinct = distinct step sequence")
ASSUMPTIONS = ["quiescence after a step is detected by the observable state being stable over 8 consecutive samples",
               "call ids (uuid.NewString) do not collide: the theorems assume NoDup of the ids of a history"]
FILES = ["root/fake_test.go", "root/c16_test.go", "root/c07_test.go", "root/session_test.go", "root/c01_test.go"]


def run(ctx, test="^TestVerifC01$", name="C01"):
    rc, out, recs = ctx.go("", test, FILES, "wsrpc", timeout=1200 if ctx.thorough else 400)
    ctx.records += recs
    if rc != 0 or not recs:
        ctx.fail("harness:" + name, "the session harness did not run to completion on this tree: " + out[-1200:], kind="correspondence", no_input=True)
        return
    for r in recs:
        if r.get("fail"):
            ctx.fail(r["fail"].split("/")[0], "session monitor '%s' failed: %s" % (r["fail"], str(r.get("info"))[:500]), case=r)
    ctx.model("Run.RunSession", recs, shard=6)
    if name == "C01":
        # the unidirectional client is a caller too: the outcome of every scripted call (reply, empty reply, remote error, ...)
        # against Uni.run_invoke; the monitors which belong to C20's known findings are not consulted here
        import props.C20 as c20
        rc2, out2, recs2 = ctx.go("", "^TestVerifC20$", c20.FILES, "wsrpc", timeout=600 if ctx.thorough else 240,
                                  rewrites={"uni_client.go": [(r"\btime\.After\(", "vTimeAfter(")]})
        uni = [dict(r, fail="") for r in recs2 if r.get("class", "").startswith("invoke/") and r.get("coq")]
        if rc2 != 0 or not uni:
            ctx.fail("harness:C01-uni", "the uni-client harness did not run to completion on this tree: " + out2[-1200:], kind="correspondence", no_input=True)
            return
        ctx.records += uni
        ctx.model("Run.RunC20", uni, shard=300)
        # a call's outcome must come from the peer the call was made to: the multi-session histories of C04 (several peers on one
        # server, responses under foreign call ids) are replayed here as well
        import props.C04 as c04
        c04.run(ctx, name="C01-multi")
        # a peer which answers every call several times (real sockets): each call returns the reply to itself
        import props.C09 as c09
        c09.run(ctx, test="^TestVerifDupResponses$", name="C01-dup")
        # the races of a response, the caller's context and the caller's clean-up, forced by gates on both endpoints: whatever
        # they leave behind, the next call returns the reply to itself
        import props.C02 as c02
        c02.gates(ctx, name="C01-gates")
