"""C18 — limits and write timeouts (Model/Limits.v)."""
import os
import vlib

RULE = ("transport level: random (ReadLimit, WriteTimeout) incl. zero/negative/huge through both transport constructors over a recording conn; "
        "root level: random DialOption / ServerOption lists, the configuration actually handed to the transport constructors is captured "
        "(source rewrite of the two call sites) - one real TLS connection per server case; end to end over real sockets: frames of size "
        "limit-1, limit, limit+1 on both roles with a bystander session; a raw peer that stops reading (write-stall bound); the write deadline in "
        "force at the moment of a data write (recording conn, both transports, also after idling 3 write timeouts) and a healthy real session "
        "idling 5 write timeouts must carry the next call in each direction and stay the same session; constants of the "
        "compiled packages compared with the documented ones in Coq; distinct = distinct option list / (limit,size)")
ASSUMPTIONS = ["gorilla/websocket enforces SetReadLimit and write deadlines as documented; kernel socket buffering decides when a stalled write starts blocking (measured with slack)"]
FILES = ["root/fake_test.go", "root/c16_test.go", "root/c07_test.go", "root/peers_test.go", "root/c18_test.go"]


def run(ctx):
    rc1, out1, recs1 = ctx.go("internal/transport", "^TestVerifC18Transport", ["transport/c18_test.go"], "transport", timeout=240)  # + TestVerifC18TransportDeadline
    rw = {"server.go": [(r"\btransport\.NewServerTransport\(", "vNewServerTransport(")],
          "client.go": [(r"\btransport\.NewClientTransport\(", "vNewClientTransport(")]}
    rc2, out2, recs2 = ctx.go("", "^TestVerifC18$", FILES, "wsrpc", timeout=600 if ctx.thorough else 300, rewrites=rw)
    ctx.oblige(ctx.rewrite_counts["server.go"][0] == 1 and ctx.rewrite_counts["client.go"][0] == 1, "transport_constructor_sites",
               "(expected one NewServerTransport call in server.go and one NewClientTransport call in client.go, found %s)" % ctx.rewrite_counts)
    recs = recs1 + recs2
    ctx.records += [r for r in recs if r.get("class") != "consts"]
    if rc1 != 0 or rc2 != 0 or not recs1 or not recs2:
        ctx.fail("harness:C18", "the C18 harness did not run to completion on this tree: " + (out1 if rc1 else out2)[-1200:], kind="correspondence", no_input=True)
        return
    K = {}
    for r in recs:
        if r.get("class") == "consts":
            K.update(r["info"])
    kdef = "{| tr_read_limit := %d; tr_write_timeout := %d; srv_read_limit := %d; srv_ws_timeout := %d |}" % (
        K["tr_read_limit"], K["tr_write_timeout"], K["srv_read_limit"], K["srv_ws_timeout"])
    ctx.extra["constants"] = K
    # regenerated obligation: the constants of the compiled code are the documented ones
    obl = os.path.join(vlib.GEN, "obl_C18.v")
    with open(obl, "w") as f:
        f.write("From WV Require Import Model.Limits.\nOpen Scope Z_scope.\nDefinition K : consts := %s.\n"
                "Example consts_documented : K = documented. Proof. reflexivity. Qed.\n" % kdef)
    rc, out, _ = vlib.coqc(obl)
    ctx.oblige(rc == 0, "C18_consts_documented", "(constants of the compiled code: %s) %s" % (K, out[-300:]))
    for r in recs:
        if r.get("fail"):
            ctx.fail(r["fail"].split("/")[0], "limits monitor '%s' failed: %s" % (r["fail"], str(r.get("info"))[:300]), case=r)
    hdr = ("From Coq Require Import List NArith ZArith String.\nFrom WV Require Import Base.Hex.\nImport ListNotations.\n"
           "Open Scope string_scope.\nOpen Scope Z_scope.\nDefinition K : consts := %s." % kdef)
    ctx.model("Run.RunC18", recs, header=hdr)
