"""C15 — data-race freedom of the public API (Model/Lockset.v): access table regenerated from the sources + race detector workload."""
import glob
import json
import os
import re
import shutil
import vlib

RULE = ("R: harness/xlate (go/packages + go/types) walks every function of the wsrpc packages of the working tree and emits every read and "
        "write of a struct field with the locks held there (helpers inherit the intersection over their call sites; same-struct locks must be "
        "taken through the same base expression); the table is compiled into gen/C15_table.v where check_table must evaluate to true and "
        "the soundness theorem is instantiated on it. D: a randomised concurrent workload over every exported operation (handler "
        "registration on live endpoints, calls both ways, key updates, key-store reads, state and peer queries, connection losses, Close and "
        "Stop landing on all of it; the key store alone with Replace in both directions; the unidirectional client with re-dial and Close; "
        "the backoff object) runs under the Go race detector; every report is a concrete failing schedule and is mapped back to table sites")
ASSUMPTIONS = ["the lockset computation of the translator is trusted static analysis (validated by the race detector runs, not verified)",
               "synchronisation other than mutexes (channels, WaitGroup, Once, goroutine start) is not used to justify an access, except for the "
               "exempt classes listed in the evidence (initialisation before the object is shared; option appliers; one write before the go statement "
               "which starts its only reader)",
               "locals captured by closures and package-level variables are outside the table; the race detector is their only oracle"]
FILES = ["root/fake_test.go", "root/c16_test.go", "root/c07_test.go", "root/peers_test.go", "root/c15_test.go"]

# one write which is ordered before its only readers by the go statement that starts them
BEFORE_FORK = [dict(unit="wsrpc.ClientConn.newAddrConn", loc="ClientConn.stateCh", reader="wsrpc.ClientConn.listenForConnectivityChange")]
APPLY_UNITS = {"wsrpc.DialWithContext", "wsrpc.NewServer"}


def norm_callee(s):
    m = re.match(r"\(\*?[\w./\-]*?/?(\w+)\.(\w+)\)\.(\w+)$", s)
    if m:
        return "%s.%s.%s" % (m.group(1), m.group(2), m.group(3))
    return s


def build_xlate():
    binp = os.path.join(vlib.GEN, "bin", "verifxlate")
    src = os.path.join(vlib.HARNESS, "xlate")
    newest = max(os.path.getmtime(os.path.join(src, f)) for f in os.listdir(src) if f.endswith(".go") or f in ("go.mod", "go.sum"))
    if not os.path.exists(binp) or os.path.getmtime(binp) < newest:
        os.makedirs(os.path.dirname(binp), exist_ok=True)
        rc, out, _ = vlib.sh(["go", "build", "-o", binp, "."], cwd=src, env=vlib.GOENV, timeout=300)
        if rc != 0:
            raise RuntimeError("verifxlate does not build: " + out)
    return binp


def classify(d):
    """exempt classes; returns notes about side conditions which do not hold"""
    problems = []
    units = {u["name"]: u for u in d["units"]}
    for s in d["sites"]:
        s["loc"] = s["struct"] + "." + s["field"]
        s["cls"] = "Init" if s["init"] else "Guarded"
        root = s["base"].split(".")[0]
        if (s["cls"] == "Guarded" and s["write"] and s["file"] in ("dialoptions.go", "serveroptions.go")
                and re.match(r"^wsrpc\.\w+\$func@\d+$", s["unit"]) and root == "o"):
            s["cls"] = "OptionApplier"
    for a in d.get("applies", []):
        if a["unit"] not in APPLY_UNITS:
            problems.append("an option is applied outside the constructors: %s line %d" % (a["unit"], a["line"]))
    for bf in BEFORE_FORK:
        ws = [s for s in d["sites"] if s["loc"] == bf["loc"] and s["write"] and s["cls"] == "Guarded"]
        others = [s for s in d["sites"] if s["loc"] == bf["loc"] and not s["write"]]
        gos = [g for g in d.get("gos", []) if g["unit"] == bf["unit"] and norm_callee(g["callee"]) == bf["reader"]]
        ok = (len(ws) == 1 and ws[0]["unit"] == bf["unit"] and gos and all(g["line"] > ws[0]["line"] for g in gos)
              and all(o["unit"] == bf["reader"] for o in others) and units.get(bf["unit"], {}).get("callers", 0) <= 1)
        if ok:
            ws[0]["cls"] = "BeforeFork"
        # otherwise the sites stay guarded and the table decides
    return problems


def share(a, b):
    for la in a["locks"]:
        if a["write"] and la["mode"] != "W":
            continue
        for lb in b["locks"]:
            if lb["name"] == la["name"] and (not b["write"] or lb["mode"] == "W"):
                return True
    return False


def bad_pairs(sites):
    g = [s for s in sites if s["cls"] == "Guarded"]
    byloc = {}
    for s in g:
        byloc.setdefault(s["loc"], []).append(s)
    bad = []
    for loc, ss in sorted(byloc.items()):
        for a in ss:
            for b in ss:
                if (a["write"] or b["write"]) and not share(a, b):
                    bad.append((a, b))
    return bad


def site_str(s):
    return "%s %s at %s:%d in %s holding %s" % ("write of" if s["write"] else "read of", s["expr"], s["file"], s["line"], s["unit"],
                                                 ["%s(%s)" % (l["name"], l["mode"]) for l in s["locks"]] or "no lock")


def write_table(d, path):
    locks = d["locks"]
    locs = sorted({s["loc"] for s in d["sites"]})
    li = {n: i for i, n in enumerate(locks)}
    oi = {n: i for i, n in enumerate(locs)}
    rows = []
    for s in d["sites"]:
        req = "; ".join("(%d, %s)" % (li[l["name"]], l["mode"]) for l in s["locks"])
        rows.append("  mkRow %d %d %s [%s] %s (* %s %s:%d %s %s *)" % (s["id"], oi[s["loc"]], "true" if s["write"] else "false", req,
                    "Guarded" if s["cls"] == "Guarded" else "Exempt", s["cls"], s["file"], s["line"], s["expr"].replace("*", "^"), s["unit"].replace("*", "^")))
    with open(path, "w") as f:
        f.write("(* generated by bin/props/C15.py from harness/xlate's reading of %s; never committed *)\n" % vlib.REPO)
        f.write("From Coq Require Import List.\nFrom WV Require Import Model.Lockset Proofs.LocksetP.\nImport ListNotations.\n")
        f.write("(* locks: %s *)\n" % ", ".join("%d=%s" % (i, n) for i, n in enumerate(locks)))
        f.write("Definition access_table : list row := [\n" + ";\n".join(rows) + "\n].\n")
        f.write("Definition bad := Eval vm_compute in bad_pairs access_table.\nPrint bad.\n")
        f.write("Lemma C15_table : check_table access_table = true.\nProof. vm_compute. reflexivity. Qed.\n")
        f.write("Definition C15_current_tree := fun pre t1 sa mid t2 sb post a b => discipline_sound access_table pre t1 sa mid t2 sb post a b C15_table.\n")
        f.write("Check C15_current_tree.\nPrint Assumptions C15_current_tree.\n")


def parse_races(text):
    """-> list of dicts(accesses=[(kind, func, file, line)], text)"""
    out = []
    for blk in re.split(r"={18}\n", text):
        if "WARNING: DATA RACE" not in blk:
            continue
        acc = []
        for m in re.finditer(r"^((?:Previous )?(?:atomic )?(?:[Rr]ead|[Ww]rite)) at 0x[0-9a-f]+ by (?:main )?goroutine \d+:\n((?:  .*\n(?:      .*\n)?)+)", blk, re.M):
            kind = "write" if "rite" in m.group(1) else "read"
            frames = re.findall(r"^  (\S+)\(\)\n      (\S+?):(\d+)", m.group(2), re.M)
            top = None
            for fn, fl, ln in frames:
                if "/zz_verif_" in fl or "_test.go" in fl:
                    continue
                if fl.startswith(vlib.REPO + "/") or "/smartcontractkit/wsrpc" in fn:
                    top = (kind, fn, os.path.relpath(fl, vlib.REPO) if fl.startswith(vlib.REPO + "/") else fl, int(ln))
                    break
            acc.append(top or (kind, "harness:" + (frames[0][0] if frames else "?"), frames[0][1] if frames else "?", int(frames[0][2]) if frames else 0))
        out.append(dict(accesses=acc, text=blk.strip()[:6000], harness_only=bool(acc) and all(a[1].startswith("harness:") for a in acc)))
    return out


def run(ctx):
    # ---- R: the access table of the current sources
    binp = build_xlate()
    os.makedirs(vlib.GEN, exist_ok=True)
    js = os.path.join(vlib.GEN, "access.json")
    rc, out, _ = vlib.sh([binp, "access", vlib.REPO, js], env=vlib.GOENV, timeout=300)
    if rc != 0:
        ctx.fail("harness:C15", "the translator could not read this tree: " + out[-1500:], kind="correspondence", no_input=True)
        return
    d = json.load(open(js))
    problems = classify(d)
    for p in problems:
        ctx.oblige(False, "C15_exempt_side_condition", "(" + p + ")")
    sites = d["sites"]
    tdir = os.path.join(vlib.GEN, "c15")
    os.makedirs(tdir, exist_ok=True)
    tv = os.path.join(tdir, "C15_table.v")
    write_table(d, tv)
    rc, cout, secs = vlib.coqc(tv, timeout=600)
    table_ok = rc == 0 and "Closed under the global context" in cout
    bad = bad_pairs(sites)
    coq_bad = re.search(r"bad\s*=\s*\[(.*?)\]\s*:", cout, re.S)
    coq_bad_n = len(re.findall(r"\(", coq_bad.group(1))) if coq_bad else -1
    ctx.obligations += 1
    if table_ok:
        ctx.discharged += 1
    if table_ok != (not bad):
        ctx.fail("harness:C15", "the driver's and Coq's evaluation of the table disagree (coq ok=%s, %d bad pairs here): %s" % (table_ok, len(bad), cout[-800:]), kind="correspondence", no_input=True)
    ctx.extra["access_table"] = dict(sites=len(sites), guarded=sum(1 for s in sites if s["cls"] == "Guarded"), locations=len({s["loc"] for s in sites}),
                                     locks=d["locks"], units=len(d["units"]), coq_seconds=round(secs, 1), coq_bad_pairs=coq_bad_n,
                                     exempt={c: sorted({"%s in %s" % (s["loc"], s["unit"]) for s in sites if s["cls"] == c}) for c in ("Init", "OptionApplier", "BeforeFork")})
    bad_locs = {}
    for a, b in bad:
        bad_locs.setdefault(a["loc"], []).append((a, b))
    # ---- D: the workload under the race detector
    logbase = os.path.join(vlib.GEN, "out", "race_C15_%d" % os.getpid())
    for f in glob.glob(logbase + "*"):
        os.remove(f)
    env = {"GORACE": "log_path=%s halt_on_error=0 history_size=3" % logbase}
    rc, out, recs = ctx.go("", "^TestVerifC15$", FILES, "wsrpc", env=env, timeout=1500 if ctx.thorough else 600, race=True)
    ctx.records += recs
    text = ""
    for f in sorted(glob.glob(logbase + "*")):
        text += open(f, errors="replace").read()
        os.remove(f)
    text += "\n" + out
    races = parse_races(text)
    if (rc != 0 and not races) or not recs:
        ctx.fail("harness:C15", "the race workload did not run to completion on this tree: " + out[-1500:], kind="correspondence", no_input=True)
    for r in recs:
        if r.get("fail"):
            ctx.fail("harness:C15", "workload scenario failed to set up: %s" % r.get("sig"), kind="correspondence", no_input=True)
    byline = {}
    for s in sites:
        byline.setdefault((s["file"], s["line"]), []).append(s)
    seen = set()
    raced_locs = set()
    own = [rr for rr in races if rr.get("harness_only")]
    if own:
        ctx.notes.append("%d race report(s) entirely inside the harness's own test code (no library frame at either access) are not counted: %s" % (len(own), own[0]["accesses"]))
    races = [rr for rr in races if not rr.get("harness_only")]
    for rr in races:
        locs = set()
        accepted = []
        for (kind, fn, fl, ln) in rr["accesses"]:
            for s in byline.get((fl, ln), []):
                locs.add(s["loc"])
        key = "data-race/" + ("+".join(sorted(locs)) if locs else "+".join(sorted("%s:%d" % (a[2], a[3]) for a in rr["accesses"])))
        raced_locs |= locs
        if key in seen:
            continue
        seen.add(key)
        static = [l for l in locs if l in bad_locs]
        what = "the race detector reports unsynchronised conflicting accesses: " + "; ".join("%s in %s at %s:%d" % a for a in rr["accesses"])
        if locs and not static:
            what += " -- the access table accepts these sites: the table (or an exempt class) misdescribes the code"
        ctx.fail(key, what, case=dict(report=rr["text"], accesses=rr["accesses"], table_sites=[site_str(s) for a in rr["accesses"] for s in byline.get((a[2], a[3]), [])],
                                      replay="VERIF_SEED=%d python3 bin/check C15 %s  (go test -race -run TestVerifC15 with the harness overlay)" % (ctx.seed, ctx.tier)))
    ctx.extra["race_reports"] = len(races)
    # ---- static failures which the workload did not exhibit
    for loc, pairs in sorted(bad_locs.items()):
        if loc in raced_locs:
            continue
        a, b = pairs[0]
        ctx.fail("obligation:C15_table/" + loc, "obligation C15_table (check_table access_table = true) no longer checks: %s and %s share no lock (%d such pairs on %s)" % (site_str(a), site_str(b), len(pairs), loc),
                 kind="obligation", no_input=True, case=dict(theorem="C15_table in gen/c15/C15_table.v", location=loc, pairs=[[site_str(x), site_str(y)] for x, y in pairs[:8]]))
