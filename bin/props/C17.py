"""C17 — keepalive (Model/Keepalive.v vs internal/transport)."""
import os
import vlib

RULE = ("transport level: the real read/write pumps of both transports over a fake conn with read deadlines and a peer that answers pings "
        "after a round trip until it falls silent, at moments spread over three ping cycles (incl. before the first ping); teardown time "
        "compared with Keepalive.teardown on the recorded pong times (slack stated); healthy idle session over six ping periods; all durations "
        "of transport.go scaled by a source rewrite of time.Second (factor in evidence); constants of the unscaled compiled code checked "
        "(0 < P < W, W + P <= 38 s); end to end over real sockets with the scaled transport: a raw peer that stops reading is dropped by the "
        "server and the client of a silent server reconnects, an idle library session stays up")
RETRY_TIMING = True
ASSUMPTIONS = ["real schedulers add latency: comparisons allow the stated slack; gorilla applies read deadlines and invokes the pong handler as documented"]
TFILES = ["transport/c18_test.go", "transport/c17_test.go"]
RFILES = ["root/fake_test.go", "root/c16_test.go", "root/c07_test.go", "root/peers_test.go", "root/c18_test.go", "root/c17_test.go"]


def scale_file(scale):
    src = open(os.path.join(vlib.HARNESS, "overlay", "transport", "scale.go.tmpl")).read().replace("VSCALE", str(scale))
    d = os.path.join(vlib.GEN, "overlay", "src")
    os.makedirs(d, exist_ok=True)
    p = os.path.join(d, "scale_%d.go" % scale)
    open(p, "w").write(src)
    return p


def run(ctx):
    scale = 10 if ctx.thorough else 25
    # unscaled constants
    rc0, out0, recs0 = ctx.go("internal/transport", "^TestVerifC18Transport$", ["transport/c18_test.go"], "transport", timeout=240)
    K = {}
    for r in recs0:
        if r.get("class") == "consts":
            K.update(r["info"])
    if rc0 != 0 or "pong_wait" not in K:
        ctx.fail("harness:C17", "constants could not be read from the compiled transport package: " + out0[-800:], kind="correspondence", no_input=True)
        return
    ctx.extra["constants"] = K
    ctx.extra["time_scale"] = scale
    rw = {"internal/transport/transport.go": [(r"\btime\.Second\b", "vSecond")]}
    sf = scale_file(scale)
    # scaled transport-level run
    fmap_extra = {"internal/transport/zz_verif_scale.go": sf}
    rc1, out1, recs1 = go_scaled(ctx, "internal/transport", "^TestVerifC17Transport$", TFILES, "transport", rw, fmap_extra, 300)
    n = ctx.rewrite_counts["internal/transport/transport.go"][0]
    ctx.oblige(n >= 2, "transport_time_constants", "(expected the time.Second-based constants in transport.go, found %d sites)" % n)
    recs = [r for r in recs1 if not r.get("class", "").startswith("consts")]
    sc = [r for r in recs1 if r.get("class") == "consts-scaled"]
    if rc1 != 0 or not recs or not sc:
        ctx.fail("harness:C17", "the C17 transport harness did not run to completion on this tree: " + out1[-1200:], kind="correspondence", no_input=True)
        return
    s = sc[0]["info"]
    ctx.oblige(s["pong_wait"] * scale == K["pong_wait"] and s["ping_period"] * scale == K["ping_period"], "scaled_constants_proportional",
               "(scaled %s vs real %s at factor %d)" % (s, K, scale))
    consts_case = dict(**{"class": "consts", "coq": "CConsts %d %d" % (K["pong_wait"], K["ping_period"]), "sig": "consts", "info": K})
    ctx.records += recs + [consts_case]
    for r in recs:
        if r.get("fail"):
            ctx.fail(r["fail"], "keepalive monitor '%s' failed: %s" % (r["fail"], str(r.get("info"))[:300]), case=r)
    # end to end over real sockets with the scaled transport
    rw2 = dict(rw)
    rw2.update({"server.go": [(r"\btransport\.NewServerTransport\(", "vNewServerTransport(")],
                "client.go": [(r"\btransport\.NewClientTransport\(", "vNewClientTransport(")]})
    rc2, out2, recs2 = go_scaled(ctx, "", "^TestVerifC17$", RFILES, "wsrpc", rw2, fmap_extra, 300, env={"VERIF_SCALE": scale})
    if rc2 != 0 or not recs2:
        ctx.fail("harness:C17-e2e", "the C17 end-to-end harness did not run to completion on this tree: " + out2[-1200:], kind="correspondence", no_input=True)
        return
    ctx.records += recs2
    for r in recs2:
        if r.get("fail"):
            ctx.fail(r["fail"], "keepalive monitor '%s' failed: %s" % (r["fail"], str(r.get("info"))[:300]), case=r)
    hdr = ("From Coq Require Import List NArith ZArith String.\nFrom WV Require Import Base.Hex.\nImport ListNotations.\nOpen Scope Z_scope.")
    ctx.model("Run.RunC17", recs + [consts_case], header=hdr)


def go_scaled(ctx, pkgdir, run, files, pkg, rw, extra_files, timeout, env=None):
    """ctx.go with additional generated files in the overlay."""
    import flow
    orig = vlib.overlay_for

    def patched(files_, helpers):
        files_ = dict(files_)
        files_.update(extra_files)
        return orig(files_, helpers)
    vlib.overlay_for = patched
    try:
        return ctx.go(pkgdir, run, files, pkg, timeout=timeout, rewrites=rw, env=env)
    finally:
        vlib.overlay_for = orig
