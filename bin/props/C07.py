"""C07 — frame sequences against both endpoints (Model/Dispatch.v, Model/Uuid.v)."""
RULE = ("(i) call-id strings (all UUID versions, the four accepted shapes, case flips, off-by-one lengths, non-hex, random bytes) through "
        "Server.validateMessageRequest vs Uuid.is_v4; (ii) frame sequences (valid/invalid requests, responses to pending/unknown/duplicate ids, "
        "empty envelope, garbage, foreign-encoder frames, mutations, complete valid requests/responses followed by a malformed rest) fed one frame "
        "at a time to a Server and a ClientConn over fake transports, with and without a registered service, each batch in a child process; per "
        "frame the handler log, the frames written and the pending table are compared with Dispatch.process, and a frame that is not well-formed "
        "wire data must have no effect at all; after the sequence a valid call must be served and closing the endpoint (ClientConn.Close / "
        "Server.Stop) must return within 4 s; distinct = distinct (role, class, frame, pending size)")
ASSUMPTIONS = ["quiescence after a frame = the read loop has taken the next (barrier, undecodable) frame and the goroutine count is back at its baseline (1.5 s limit)"]
FILES = ["root/fake_test.go", "root/c16_test.go", "root/c07_test.go"]


def run(ctx):
    rc, out, recs = ctx.go("", "^TestVerifC07$", FILES, "wsrpc", timeout=900 if ctx.thorough else 300)
    ctx.records += recs
    if rc != 0 or not recs:
        ctx.fail("harness:C07", "the C07 harness did not run to completion on this tree: " + out[-800:], kind="correspondence", no_input=True)
        return
    for r in recs:
        if r.get("fail"):
            ctx.fail(r["fail"], "endpoint monitor '%s' failed: %s" % (r["fail"], str(r.get("info"))[:400]), case=r)
    ctx.model("Run.RunC07", recs, shard=300)
    # a peer which answers every call several times (real sockets): a surplus copy must not become the outcome of a later call
    import props.C09 as c09
    c09.run(ctx, test="^TestVerifDupResponses$", name="C07-dup")
