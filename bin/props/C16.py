"""C16 — envelope wire format: Model/Wire.v vs internal/message + utils.go."""
RULE = ("structured stream: random envelopes (empty/ascii/multi-byte/invalid UTF-8 strings, payload sizes straddling varint widths) "
        "through NewRequest/NewResponse+MarshalProtoMessage; malformed stream: foreign-encoder frames (any field order, duplicates, both oneof "
        "members, unknown fields of every wire type, groups), mutations (truncate, bit flips, inserts) and complete valid envelopes followed by a "
        "malformed rest (truncated tag/field, illegal wire type, field number 0, unterminated or overlong varint, bad group, non-UTF-8 string) "
        "through UnmarshalProtoMessage; the acceptance verdict is also checked where it is acted on: frame sequences rich in 'valid envelope + "
        "malformed rest' frames are fed to a real Server and a real ClientConn over fake transports (child processes) and per frame the handler "
        "log, the frames written and the pending table are compared with Dispatch.process (a rejected frame has no effect); "
        "distinct = distinct (class, frame); all cases non-trivial")
ASSUMPTIONS = ["protobuf-go is the library under test for this property; lengths < 2^64 (true of every Go slice)",
               "endpoint part: quiescence after a frame = the read loop has taken the next (barrier) frame and the goroutine count is back at its baseline (1.5 s limit)"]
EP_FILES = ["root/fake_test.go", "root/c16_test.go", "root/c07_test.go"]


def run(ctx):
    rc, out, recs = ctx.go("", "^TestVerifC16$", ["root/c16_test.go"], "wsrpc", timeout=300)
    ctx.records += recs
    if rc != 0 or not recs:
        ctx.fail("harness:C16", "the C16 harness did not run to completion on this tree: " + out[-800:], kind="correspondence", no_input=True)
        return
    ctx.model("Run.RunC16", recs, shard=250)
    # the endpoints act on the codec's verdict
    rc, out, recs2 = ctx.go("", "^TestVerifC16Endpoints$", EP_FILES, "wsrpc", timeout=300)
    ctx.records += recs2
    if rc != 0 or not recs2:
        ctx.fail("harness:C16-endpoints", "the C16 endpoint harness did not run to completion on this tree: " + out[-800:], kind="correspondence", no_input=True)
        return
    for r in recs2:
        if r.get("fail"):
            ctx.fail(r["fail"], "endpoint monitor '%s' failed: %s" % (r["fail"], str(r.get("info"))[:400]), case=r)
    ctx.model("Run.RunC07", recs2, shard=300)
    # over real sockets: the frame of a call which gave up while the frame was still being written is, when it arrives, the
    # encoding of that call's request, whatever calls were made after it (both call directions)
    inflight(ctx, "C16")


def inflight(ctx, name):
    import props.C03 as c03
    rc5, out5, recs5 = ctx.go("", "^TestVerifC16InFlight$", c03.FILES + ["root/c16b_test.go"], "wsrpc", timeout=300)
    ctx.records += recs5
    if rc5 != 0 or not recs5:
        ctx.fail("harness:" + name + "-inflight", "the in-flight harness did not run to completion on this tree: " + out5[-1200:], kind="correspondence", no_input=True)
    for r in recs5:
        if r.get("fail"):
            ctx.fail(r["fail"], "wire monitor '%s' failed: %s" % (r["fail"], str(r.get("info"))[:400]), case=r)
