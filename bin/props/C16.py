"""C16 — envelope wire format: Model/Wire.v vs internal/message + utils.go."""
RULE = ("structured stream: random envelopes (empty/ascii/multi-byte/invalid UTF-8 strings, payload sizes straddling varint widths) "
        "through NewRequest/NewResponse+MarshalProtoMessage; malformed stream: foreign-encoder frames (any field order, duplicates, both oneof "
        "members, unknown fields of every wire type, groups) and mutations (truncate, bit flips, inserts) through UnmarshalProtoMessage; "
        "distinct = distinct (class, frame); all cases non-trivial")
ASSUMPTIONS = ["protobuf-go is the library under test for this property; lengths < 2^64 (true of every Go slice)"]


def run(ctx):
    rc, out, recs = ctx.go("", "^TestVerifC16$", ["root/c16_test.go"], "wsrpc", timeout=300)
    ctx.records += recs
    if rc != 0 or not recs:
        ctx.fail("harness:C16", "the C16 harness did not run to completion on this tree: " + out[-800:], kind="correspondence", no_input=True)
        return
    ctx.model("Run.RunC16", recs, shard=250)
