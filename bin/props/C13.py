"""C13 — waiters never miss a change (Model/Notify.v), under gates."""
RULE = ("the real connectivityStateManager and ClientConn.WaitForStateChange / WaitForReady, built from gate-instrumented copies of the current "
        "sources: for 9 scenarios (initial state, source state, 1-2 state changes, another channel fetcher) the interleavings of the waiter's "
        "synchronisation steps with the changes are forced by turn-based gate scripts (quick: 14 sampled per scenario; thorough: all), the lock "
        "passages actually taken are replayed through Notify (every step must be enabled) and the outcome true/false/parked must agree; a parked "
        "waiter must return false when its context ends; independently: parked while the state differs from the source state = lost wake-up; "
        "the server's peer-set channel for random sequences of register/remove/get around a change; end to end over real sockets (raw peer closing "
        "its socket, raw peer sending a close frame, library client Close): the channel obtained before a peer connects, before it goes away by "
        "itself and before its key is revoked must be closed within 3 s of the change being visible in OpenConnections; the channel handed out "
        "after Stop must be closed (whether Stop closes a channel obtained before it is recorded, not judged)")
ASSUMPTIONS = ["'parked' is decided by the waiter not returning within 25 ms after all other threads have finished"]
FILES = ["root/fake_test.go", "root/c16_test.go", "root/c07_test.go", "root/peers_test.go", "root/c18_test.go", "root/c13_test.go"]
RW = {"server.go": [(r"\btransport\.NewServerTransport\(", "vNewServerTransport(")],
      "client.go": [(r"\btransport\.NewClientTransport\(", "vNewClientTransport(")]}


def run(ctx):
    import os, re, vlib
    # instrument first, then apply the constructor rewrites on top of the instrumented copies
    mapping, labels = vlib.instrument_sources(["client.go", "server.go"])
    extra = {}
    for rel, subs in RW.items():
        src = open(mapping[rel]).read()
        for pat, rep in subs:
            src = re.sub(pat, rep, src)
        p = mapping[rel] + ".rw.go"
        open(p, "w").write(src)
        extra[rel] = p
    extra["internal/verifrt/rt.go"] = mapping["internal/verifrt/rt.go"]
    need = ["connectivityStateManager.getNotifyChan#Lock#1", "connectivityStateManager.getState#Lock#1", "connectivityStateManager.updateState#Lock#1",
            "ClientConn.WaitForStateChange#select#1", "ClientConn.WaitForReady#select#1"]
    have = set(labels.get("client.go", []))
    ctx.oblige(all(l in have for l in need), "C13_gate_labels", "(synchronisation points of the waiter functions in client.go: missing %s)" % [l for l in need if l not in have])
    import props.C17 as c17
    rc, out, recs = c17.go_scaled(ctx, "", "^TestVerifC13$", FILES, "wsrpc", None, extra, 900 if ctx.thorough else 300)
    ctx.records += recs
    if rc != 0 or not recs:
        ctx.fail("harness:C13", "the C13 harness did not run to completion on this tree: " + out[-1500:], kind="correspondence", no_input=True)
        return
    for r in recs:
        if r.get("fail"):
            ctx.fail(r["fail"], "waiter monitor '%s' failed: %s" % (r["fail"], str(r.get("info"))[:500]), case=r)
    hdr = "From Coq Require Import List NArith ZArith String.\nImport ListNotations.\nOpen Scope nat_scope."
    ctx.model("Run.RunC13", recs, header=hdr)
