"""C20 — unidirectional client (Model/Uni.v vs uni_client.go)."""
RULE = ("scripts of environment outcomes (write ok/err, read frame/err, connect ok/err, context ending at each consultation point, with and "
        "without a context deadline; final frames: reply, empty reply, remote error with/without payload, request-type frame, garbage, empty "
        "envelope, response with a foreign call id, undecodable reply) replayed through a fake Conn/connectFn on UniClientConn.Invoke; dial "
        "scripts through retryConnectWithBackoff with time.After intercepted; result, trace of connection operations and waits compared with "
        "Uni.run_invoke / Uni.run_retry; remote error texts, tokens and method names contain '%' sequences; under a context with a deadline every "
        "read/write must be on a connection that was given a deadline no later than the context's, also after an in-call reconnect, and against "
        "connections which honour deadlines like sockets (silent peer after a reconnect) the call must be back within 1 s of its deadline; "
        "distinct = distinct script text")
ASSUMPTIONS = ["socket deadlines are those of the fake Conn; time.After in uni_client.go is redirected by a source rewrite in the overlay (count checked)"]
FILES = ["root/fake_test.go", "root/c16_test.go", "root/c07_test.go", "root/c20_test.go", "root/ga_uni_test.go"]


def run(ctx):
    rc, out, recs = ctx.go("", "^TestVerifC20$", FILES, "wsrpc", timeout=600 if ctx.thorough else 240,
                           rewrites={"uni_client.go": [(r"\btime\.After\(", "vTimeAfter(")]})
    ctx.records += recs
    n = ctx.rewrite_counts["uni_client.go"][0]
    ctx.oblige(n == 1, "uni_time_after_sites", "(expected exactly one time.After call in uni_client.go, found %d)" % n)
    if rc != 0 or not recs:
        ctx.fail("harness:C20", "the C20 harness did not run to completion on this tree: " + out[-1200:], kind="correspondence", no_input=True)
        return
    for r in recs:
        if r.get("fail"):
            ctx.fail(r["fail"], "uni client monitor '%s' failed: %s" % (r["fail"], str(r.get("info"))[:300]), case=r)
    ctx.model("Run.RunC20", recs, shard=300)
