"""C11 — one session per key, the view matches reality (Model/Registry.v), under gates over real sockets."""
import props.C02 as c02
RULE = ("a real Server on a real TLS listener, built from gate-instrumented copies of server.go and credentials/tls.go; raw websocket clients; "
        "scenarios in which handshake steps, teardowns and UpdatePublicKeys are held at their gates and released in chosen orders: two "
        "simultaneous handshakes of one key, a key revoked while its handshake sits before the single-session check / before the registration, "
        "the teardown of a swept session delayed past the registration of the client's newer session, a second session of a connected key, "
        "disconnect and reconnect, revocation of a connected key with a bystander, an invalid update, a refused update (a key of a wrong length "
        "at a seeded position) whose valid keys omit a connected and a listed key, key rotations of equal and larger length that drop "
        "connected keys; a raw peer that never reads after the upgrade (transport durations scaled as in C17) must leave the count, the key "
        "list and the routing within pongWait + pingPeriod + 2 s; the registry steps taken (from the gate "
        "trace) are replayed through Registry and the server's count and key list must agree; independently, seen from outside: at most one raw "
        "connection per key is served, the count equals the number of served keys, a listed peer is served, a revoked one is not")
ASSUMPTIONS = ["'served' = the server answers a request on that socket within 400 ms", "crypto/tls calls the verify callback on every full handshake"]
FILES = ["root/fake_test.go", "root/c16_test.go", "root/c07_test.go", "root/peers_test.go", "root/c18_test.go", "root/c11_test.go"]


def run(ctx, name="C11"):
    import props.C17 as c17, re, vlib
    mapping, labels = vlib.instrument_sources(["client.go", "server.go", "credentials/tls.go"])
    extra = {}
    for rel in ("client.go", "server.go"):
        src = open(mapping[rel]).read()
        src = re.sub(r"\btransport\.NewClientTransport\(", "vNewClientTransport(", src)
        src = re.sub(r"\btransport\.NewServerTransport\(", "vNewServerTransportLinked(", src)
        p = mapping[rel] + ".rw11.go"
        open(p, "w").write(src)
        extra[rel] = p
    extra["credentials/tls.go"] = mapping["credentials/tls.go"]
    extra["internal/verifrt/rt.go"] = mapping["internal/verifrt/rt.go"]
    need = ["Server.ensureSingleClientConnection#RLock#1", "Server.wshandler#RLock#1", "Server.wshandler#Lock#1", "Server.wshandler#RLock#2", "Server.wshandler#Lock#2", "Server.UpdatePublicKeys#Lock#1"]
    have = labels.get("server.go", [])
    ctx.oblige(all(l in have for l in need) and "PublicKeys.isValidPublicKey#RLock#1" in labels.get("credentials/tls.go", []), name + "_gate_labels",
               "(synchronisation points of the handshake, teardown and update: missing %s)" % [l for l in need if l not in have])
    rc, out, recs = c17.go_scaled(ctx, "", "^TestVerifC11$", FILES, "wsrpc", None, extra, 900 if ctx.thorough else 400)
    ctx.records += recs
    if rc != 0 or not recs:
        ctx.fail("harness:" + name, "the registry harness did not run to completion on this tree: " + out[-1500:], kind="correspondence", no_input=True)
        return
    for r in recs:
        if r.get("fail"):
            ctx.fail(r["fail"].split("/")[0], "registry monitor '%s' failed: %s" % (r["fail"], str(r.get("info"))[:600]), case=r)
    hdr = "From Coq Require Import List NArith ZArith String.\nImport ListNotations.\nOpen Scope nat_scope."
    ctx.model("Run.RunC11", recs, header=hdr)
    # a session that ends because its peer has died leaves the view within a bounded time: the same build with the
    # transport's durations scaled as in C17 (source rewrite of time.Second in transport.go), in a run of its own so
    # that the gate scenarios above keep the real keepalive times
    scale = 10 if ctx.thorough else 25
    rw = {"internal/transport/transport.go": [(r"\btime\.Second\b", "vSecond")]}
    extra2 = dict(extra)
    extra2["internal/transport/zz_verif_scale.go"] = c17.scale_file(scale)
    rc2, out2, recs2 = c17.go_scaled(ctx, "", "^TestVerifC11Silent$", FILES, "wsrpc", rw, extra2, 300, env={"VERIF_SCALE": scale})
    n = ctx.rewrite_counts["internal/transport/transport.go"][0]
    ctx.oblige(n >= 2, name + "_transport_time_constants", "(expected the time.Second-based constants in transport.go, found %d sites)" % n)
    ctx.extra["time_scale_silent_peer"] = scale
    ctx.records += recs2
    if rc2 != 0 or not recs2:
        ctx.fail("harness:" + name + "-silent", "the silent-peer harness did not run to completion on this tree: " + out2[-1500:], kind="correspondence", no_input=True)
        return
    for r in recs2:
        if r.get("fail"):
            ctx.fail(r["fail"].split("/")[0], "registry monitor '%s' failed: %s" % (r["fail"], str(r.get("info"))[:600]), case=r)
