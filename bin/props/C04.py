"""C04 — peer identity and isolation between peers (Model/Multi.v over Model/Session.v)."""
import props.C01 as c01
RULE = ("2-3 authenticated sessions (distinct keys, fake transports, a real ClientConn each) on ONE real Server; every step a random session makes "
        "a random move of the C01 repertoire, and as an attacker injects on its own session responses carrying the ids of calls pending towards "
        "the OTHER peers, requests and empty envelopes; server calls to an unconnected key; each session's observations are replayed through the "
        "single-session model on that session's own labels only; every server handler must see the key of the session its request came in on; "
        "liveness of the other peers: while a write to peer A is parked (A does not drain: the reply to A's request, or a server call to A) and "
        "after A answered one call with 3-5 copies of a slow-to-decode response, a call to B that B answers at once must succeed, an unanswered "
        "call to B must end at its own deadline, OpenConnections / GetConnectedPeerPublicKeys must return, nothing may stay parked in the server")
ASSUMPTIONS = c01.ASSUMPTIONS + ["authentication of the key itself is C03/C11 (here sessions are attached under their key as wshandler does after the handshake)"]
FILES = c01.FILES + ["root/c04_test.go"]


def run(ctx, name="C04"):
    rc, out, recs = ctx.go("", "^TestVerifC04$", FILES, "wsrpc", timeout=1200 if ctx.thorough else 400)
    ctx.records += recs
    if rc != 0 or not recs:
        ctx.fail("harness:" + name, "the multi-session harness did not run to completion on this tree: " + out[-1200:], kind="correspondence", no_input=True)
        return
    for r in recs:
        if r.get("fail"):
            ctx.fail(r["fail"].split("/")[0], "isolation monitor '%s' failed: %s" % (r["fail"], str(r.get("info"))[:500]), case=r)
    ctx.model("Run.RunSession", recs, shard=6)
    if name == "C04":
        # whatever a response which races the caller's context leaves behind must not become the outcome of the next call,
        # to whichever peer it is addressed: the gate-forced interleavings of C02, each followed by a further call
        import props.C02 as c02
        c02.gates(ctx, name="C04-gates")
        # the identity a session is given is the one its peer has proved: certificate chains of every shape (several
        # certificates, foreign-signed, other algorithms) against the verifier and over real sockets - C03's harness
        import props.C03 as c03
        c03.run(ctx, with_registry=False)
        # what a peer receives is what was addressed to it: the frame of a call which gave up while it was still being written
        # is not touched by the calls made after it, to whichever peer (real sockets; also on one processor, collector off)
        import props.C16 as c16
        c16.inflight(ctx, "C04")
