"""C14 — no per-call or per-reconnect growth (Model/Session.v + census)."""
import props.C01 as c01
import props.C05 as c05
RULE = c01.RULE + ("; the harness itself compares the pending tables with the calls in flight after every history; census on real sockets: "
                   "goroutines inside wsrpc code (grouped by function) and pending records after 1, 5, 25 reconnects (proxy cuts) and 3x as many "
                   "failed calls (client timeout, server timeout, unconnected key) must not exceed the baseline; sockets and pumps: sessions ended by the peer (with and without a close frame), a write failure with a message in the read pump's hand, a timed-out write, with the collector switched off - the process must hold no socket of an ended session, on the server and on the client (child processes)")
ASSUMPTIONS = c01.ASSUMPTIONS + ["goroutines, timers and sockets are runtime objects: counted (after runtime.GC), not modelled"]
FILES = c05.FILES + ["root/c14_test.go"]


def run(ctx):
    c05.run(ctx, test="^TestVerifC14$", name="C14", files=FILES)
    import props.C10 as c10
    c10.run(ctx, test="^(TestVerifC14Sockets|TestVerifLostWhilePreparing)$", name="C14", files=c10.FILES + ["root/c09_test.go", "root/c14s_test.go"])
    # the pumps of a session which ends by itself must all end: the structural facts this rests on are re-read from the sources
    import props.C09 as c09
    facts = c09.shape(ctx)
    if facts:
        # C14_client_pumps_do_not_accumulate / C14_ended_server_session_keeps_nothing are theorems about cfg = good of both models:
        # every fact of both configurations is re-read from the sources
        import props.C10 as c10
        facts["stop"]["hs_close"] = facts["struct"].get("hs_closes_conn", False)
        facts["stop"]["cb_release"] = facts["struct"].get("after_pump_releases", False)
        need = [("close", k) for k in c09.CFG_ORDER] + [("stop", k) for k in c10.CFG_ORDER] + \
               [("struct", k) for k in ("after_pump_releases", "wg_add_before_go", "hs_closes_conn", "rt_unlock_before_close", "start_closes_transport", "srp_closes_cwp", "swp_cwp_arm", "shr_done_arm", "swr_arms", "wr_arms")]
        missing = ["%s.%s" % (a, k) for a, k in need if not facts.get(a, {}).get(k)]
        ctx.oblige(not missing, "C14_pump_exits", "(every pump and reader of a session has a way out when the session ends: %s no longer found in the sources)" % ", ".join(missing))
