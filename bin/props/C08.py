"""C08 — truthful, legal connectivity state (Model/FsmPub.v), under gates over real sockets."""
import re
RULE = ("a real ClientConn (gate-instrumented client.go; ac.state and the published state logged at their assignments by a source rewrite; the "
        "dial of the reconnect loop scripted and its close callbacks linked to their transports) against a real server through a TCP proxy: "
        "connect / lose the connection k times / Close; failed dials with (intercepted) backoff then success; the fresh transport killed while "
        "the loop is held before recording it; Close during a held dial (with a call that must fail at once) and during a backoff wait; the "
        "critical sections taken are replayed through FsmPub and both histories must equal the model's (published: subsequence + final Shutdown "
        "once closed); independently every published transition must be a legal edge, a closed connection must report SHUTDOWN and "
        "WaitForReady must return false on it; the known zombie after cancelling the dial context")
ASSUMPTIONS = ["the window between Close's cancel and teardown's critical section is not modelled separately: a state change falling into it may or may not be published (both accepted)"]
FILES = ["root/fake_test.go", "root/c16_test.go", "root/c07_test.go", "root/peers_test.go", "root/c18_test.go", "root/c06_test.go", "root/c11_test.go", "root/c08_test.go"]


def run(ctx):
    import props.C17 as c17, vlib
    mapping, labels = vlib.instrument_sources(["client.go", "server.go"])
    extra = {}
    src = open(mapping["client.go"]).read()
    src = re.sub(r"\btransport\.NewClientTransport\(", "vNewClientTransportFsm(", src)
    src = re.sub(r"\btime\.NewTimer\(", "vNewTimer(", src)
    src, n1 = re.subn(r"(\n\tac\.state = s\n)", r"\1\tvAuth(s)\n", src)
    src, n2 = re.subn(r"(\n\tcsm\.state = state\n)", r"\1\tvPub(state)\n", src)
    src += "\nvar _ = time.Now // keeps the import used after the rewrite\n"
    p = mapping["client.go"] + ".rw08.go"
    open(p, "w").write(src)
    extra["client.go"] = p
    s2 = re.sub(r"\btransport\.NewServerTransport\(", "vNewServerTransportLinked(", open(mapping["server.go"]).read())
    p2 = mapping["server.go"] + ".rw08.go"
    open(p2, "w").write(s2)
    extra["server.go"] = p2
    extra["internal/verifrt/rt.go"] = mapping["internal/verifrt/rt.go"]
    ctx.oblige(n1 == 1 and n2 == 1, "C08_state_assignment_sites", "(expected one assignment of ac.state and one of csm.state in client.go, found %d and %d)" % (n1, n2))
    need = ["addrConn.connect#Lock#1", "addrConn.resetTransport#Lock#1", "addrConn.resetTransport#Lock#2", "addrConn.resetTransport#Lock#3",
            "addrConn.resetTransport#select#1", "addrConn.resetTransport#select#2", "addrConn.createTransport#Lock#1", "addrConn.teardown#Lock#1"]
    have = labels.get("client.go", [])
    ctx.oblige(all(l in have for l in need), "C08_gate_labels", "(critical sections of the state machine in client.go: missing %s)" % [l for l in need if l not in have])
    rc, out, recs = c17.go_scaled(ctx, "", "^TestVerifC08$", FILES, "wsrpc", None, extra, 900 if ctx.thorough else 400)
    ctx.records += recs
    if rc != 0 or not recs:
        ctx.fail("harness:C08", "the C08 harness did not run to completion on this tree: " + out[-1500:], kind="correspondence", no_input=True)
        return
    for r in recs:
        if r.get("fail"):
            ctx.fail(r["fail"].split("/")[0], "state monitor '%s' failed: %s" % (r["fail"], str(r.get("info"))[:600]), case=r)
    hdr = "From Coq Require Import List NArith ZArith String.\nImport ListNotations.\nOpen Scope nat_scope."
    ctx.model("Run.RunC08", recs, header=hdr)
    # what a closed connection reports when a state update is in flight (child processes, real sockets)
    import props.C09 as c09
    c09.run(ctx, test="^TestVerifC08Closed$", name="C08")
