"""C02 — calls end with their context; a timed-out call never wedges the endpoint (Model/Rendezvous.v)."""
import re
RULE = ("the real Server.Invoke / ClientConn.Invoke and their handleMessageResponse, built from gate-instrumented copies of the current sources, on a fake session: the "
        "interleavings of {caller registers, selects, re-locks} x {response frame(s) fed, responder locks, sends} x {context cancelled} - one and two "
        "(duplicate) responses - are forced by turn-based gate scripts (quick: sampled; thorough: all up to 400 for duplicates), the corpus schedule "
        "that deadlocked the unbuffered channel runs first; the gate passages taken are replayed through Rendezvous (every step enabled, final "
        "program counter of the caller agrees); after every interleaving the caller must have returned, an administrative call must return, and "
        "no pending record may remain; write path: on both transports a Write waiting for a write pump which is stalled in the socket must end with "
        "its deadline / cancellation (fake conn whose WriteMessage parks), and over real sockets 36 client calls of 1 MiB with 300 ms deadlines "
        "against a peer that never reads must each return by their deadline")
ASSUMPTIONS = ["Server.mu is modelled as an exclusive lock (read-locked regions are straight-line); wall-clock 'small bounded time' is observed as 2.5 s / 1.5 s limits"]
FILES = ["root/fake_test.go", "root/c16_test.go", "root/c07_test.go", "root/peers_test.go", "root/c18_test.go", "root/c13_test.go", "root/c02_test.go"]
RW = {"server.go": [(r"\btransport\.NewServerTransport\(", "vNewServerTransport(")],
      "client.go": [(r"\btransport\.NewClientTransport\(", "vNewClientTransport(")]}


def instrumented(ctx, rels=("client.go", "server.go")):
    """overlay entries: gate-instrumented sources (+ the constructor rewrites) and the runtime"""
    import vlib
    mapping, labels = vlib.instrument_sources(list(rels))
    extra = {}
    for rel in rels:
        src = open(mapping[rel]).read()
        for pat, rep in RW.get(rel, []):
            src = re.sub(pat, rep, src)
        p = mapping[rel] + ".rw.go"
        open(p, "w").write(src)
        extra[rel] = p
    extra["internal/verifrt/rt.go"] = mapping["internal/verifrt/rt.go"]
    return extra, labels


def gates(ctx, name="C02"):
    """the gate-forced interleavings of caller / responder / cancellation on both endpoints, each followed by a further call
    which must get its own reply; replayed through the Rendezvous models"""
    import props.C17 as c17
    extra, labels = instrumented(ctx)
    need = ["Server.Invoke#Lock#1", "Server.Invoke#Unlock#1", "Server.Invoke#select#1", "Server.Invoke#Lock#3", "Server.Invoke#Unlock#3",
            "Server.handleMessageResponse#Lock#1", "Server.handleMessageResponse#send#1", "Server.handleMessageResponse#Unlock#1"]
    need += ["ClientConn.Invoke#Lock#1", "ClientConn.Invoke#Unlock#1", "ClientConn.Invoke#select#1", "ClientConn.Invoke#Lock#2", "ClientConn.Invoke#Unlock#2",
             "ClientConn.handleMessageResponse#Lock#1", "ClientConn.handleMessageResponse#Unlock#1", "ClientConn.registerMethodCall#select#1"]
    have = labels.get("server.go", []) + labels.get("client.go", [])
    ctx.oblige(all(l in have for l in need), name + "_gate_labels", "(synchronisation points of Server.Invoke / handleMessageResponse: missing %s)" % [l for l in need if l not in have])
    rc, out, recs = c17.go_scaled(ctx, "", "^TestVerifC02$", FILES, "wsrpc", None, extra, 1500 if ctx.thorough else 400)
    ctx.records += recs
    if rc != 0 or not recs:
        ctx.fail("harness:" + name, "the " + name + " harness did not run to completion on this tree: " + out[-1500:], kind="correspondence", no_input=True)
        return None
    if name != "C02":
        for r in recs:
            if r.get("fail"):
                ctx.fail(r["fail"].split("/")[0], "call monitor '%s' failed: %s" % (r["fail"], str(r.get("info"))[:600]), case=r)
        hdr = "From Coq Require Import List NArith ZArith String.\nImport ListNotations.\nOpen Scope nat_scope.\nModule C := WV.Model.RendezvousC."
        ctx.model("Run.RunC02", recs, header=hdr)
    return recs


def run(ctx):
    recs = gates(ctx)
    if recs is None:
        return
    # transport level: a Write waiting for a stalled write pump ends with its context (both transports)
    rc3, out3, recs3 = ctx.go("internal/transport", "^TestVerifC02Transport$", ["transport/gc_c02_test.go"], "transport", timeout=240)
    ctx.records += recs3
    if rc3 != 0 or not recs3:
        ctx.fail("harness:C02-transport", "the C02 transport harness did not run to completion on this tree: " + out3[-1500:], kind="correspondence", no_input=True)
    # the unidirectional client: a call under a deadline ends with it, also on a connection obtained by reconnecting inside the call
    rc4, out4, recs4 = ctx.go("", "^TestVerifC02Uni$", ["root/ga_uni_test.go"], "wsrpc", timeout=240)
    ctx.records += recs4
    if rc4 != 0 or not recs4:
        ctx.fail("harness:C02-uni", "the C02 uni-client harness did not run to completion on this tree: " + out4[-1500:], kind="correspondence", no_input=True)
    for r in recs + recs3 + recs4:
        if r.get("fail"):
            ctx.fail(r["fail"].split("/")[0], "call monitor '%s' failed: %s" % (r["fail"], str(r.get("info"))[:600]), case=r)
    hdr = "From Coq Require Import List NArith ZArith String.\nImport ListNotations.\nOpen Scope nat_scope.\nModule C := WV.Model.RendezvousC."
    ctx.model("Run.RunC02", recs, header=hdr)
    # a peer which does not drain, or answers one call many times, must not wedge the endpoint for the other peers and callers
    # (the liveness scenarios of C04's multi-session harness)
    import props.C04 as c04
    c04.run(ctx, name="C02-multi")
    # the session is lost while a call is between its state check and the fetch of the transport (gate-held, real sockets)
    import props.C09 as c09
    c09.run(ctx, test="^TestVerifLostWhilePreparing$", name="C02-lost")
    # R: the hand-over of a message to the write pump is one select which also watches the caller's context and the end of the
    # transport, on both transports; the caller's select in both Invokes watches its context (re-read from the syntax tree)
    facts = c09.shape(ctx)
    if facts:
        need = [("struct", "wr_arms"), ("struct", "swr_arms"), ("close", "inv_connctx")]
        missing = ["%s.%s" % (a, k) for a, k in need if not facts.get(a, {}).get(k)]
        ctx.oblige(not missing, "C02_context_arms", "(a select which waits on behalf of a caller has an arm for the caller's context and for the end of the transport: %s no longer found in the sources)" % ", ".join(missing))
