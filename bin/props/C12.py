"""C12 — revocation is immediate, complete and precise (Model/Registry.v); shares the registry harness with C11."""
import props.C11 as c11
RULE = c11.RULE
ASSUMPTIONS = c11.ASSUMPTIONS + ["TLS session resumption: Go's crypto/tls does not resume sessions whose certificates have a zero validity period (library behaviour, not re-checked here)"]


def run(ctx):
    c11.run(ctx, name="C12")
    # revocation against handshakes at every stage (TLS done but no upgrade yet, resumed TLS sessions), updates to the empty list
    # and with repeated keys, the key store's Replace: C03's harness over real sockets
    import props.C03 as c03
    c03.run(ctx, with_registry=False)
