"""C12 — revocation is immediate, complete and precise (Model/Registry.v); shares the registry harness with C11."""
import props.C11 as c11
RULE = c11.RULE
ASSUMPTIONS = c11.ASSUMPTIONS + ["TLS session resumption: Go's crypto/tls does not resume sessions whose certificates have a zero validity period (library behaviour, not re-checked here)"]


def run(ctx):
    c11.run(ctx, name="C12")
