"""Common machinery of the wsrpc verification checks (see /verif/DESIGN.md section 2)."""
import concurrent.futures
import hashlib
import json
import os
import re
import shutil
import subprocess
import sys
import time

VERIF = os.path.dirname(os.path.dirname(os.path.abspath(__file__)))
REPO = os.environ.get("VERIF_REPO", "/repo")
COQ = os.path.join(VERIF, "coq")
GEN = os.environ.get("VERIF_GEN") or os.path.join(VERIF, "gen")   # VERIF_GEN: a private scratch directory for a parallel run
HARNESS = os.path.join(VERIF, "harness")
MODULE = "github.com/smartcontractkit/wsrpc"

GOENV = dict(os.environ, GOFLAGS="-mod=mod", GOPROXY="off", GOSUMDB="off", GOTOOLCHAIN="local",
             CGO_ENABLED=os.environ.get("CGO_ENABLED", "0"))

FORBIDDEN = re.compile(r"\b(Admitted|admit|Axiom|Parameter|Conjecture|Admit Obligations|bypass_check)\b|Unset Guard|type-in-type|impredicative-set")

TRUSTED_BASE = [
    "Coq 8.16.1 kernel and its vm_compute machine (no native_compute)",
    "no axioms: every property theorem prints 'Closed under the global context' (checked on every run)",
    "hand-written Gallina model of the Go code, tied to /repo's working tree by the differential run of this check",
    "Go harness (overlaid _test.go files, nothing written to /repo), case printer and bin/check driver",
    "Go toolchain, crypto/tls, gorilla/websocket, protobuf-go as oracles of the environment",
]


class Violation(Exception):
    def __init__(self, prop, what, replay, no_input=False):
        self.prop, self.what, self.replay, self.no_input = prop, what, replay, no_input


def log(*a):
    print(*a, file=sys.stderr, flush=True)


def sh(cmd, cwd=None, env=None, timeout=600, check=False):
    t0 = time.time()
    try:
        p = subprocess.run(cmd, cwd=cwd, env=env, timeout=timeout, stdout=subprocess.PIPE,
                           stderr=subprocess.STDOUT, text=True, errors="replace")
        return p.returncode, p.stdout, time.time() - t0
    except subprocess.TimeoutExpired as e:
        out = e.stdout if isinstance(e.stdout, str) else (e.stdout or b"").decode("utf8", "replace")
        return 124, out + "\n[timeout]", time.time() - t0


# --------------------------------------------------------------------- Coq

def coq_files():
    out = []
    for root, _, files in os.walk(COQ):
        for f in files:
            if f.endswith(".v"):
                out.append(os.path.join(root, f))
    return sorted(out)


def grep_forbidden():
    bad = []
    for f in coq_files():
        for i, line in enumerate(open(f, encoding="utf8"), 1):
            code = re.sub(r"\(\*.*?\*\)", "", line)
            if FORBIDDEN.search(code):
                bad.append("%s:%d: %s" % (os.path.relpath(f, VERIF), i, line.strip()))
    return bad


def ensure_coq(timeout=1500):
    """Full .vo build of the development (no-op when up to date)."""
    os.makedirs(GEN, exist_ok=True)
    lock = open(os.path.join(GEN, ".coq.lock"), "w")
    import fcntl
    fcntl.flock(lock, fcntl.LOCK_EX)
    try:
        mk = os.path.join(COQ, "Makefile")
        proj = os.path.join(COQ, "_CoqProject")
        if not os.path.exists(mk) or os.path.getmtime(mk) < os.path.getmtime(proj):
            rc, out, _ = sh(["coq_makefile", "-f", "_CoqProject", "-o", "Makefile"], cwd=COQ)
            if rc != 0:
                return False, out
        rc, out, _ = sh(["make", "-j16"], cwd=COQ, timeout=timeout)
        return rc == 0, out
    finally:
        fcntl.flock(lock, fcntl.LOCK_UN)
        lock.close()


def coqc(path, timeout=600, extra=()):
    """Compile one file against the built development; output goes next to it under gen/."""
    cmd = ["coqc", "-noglob", "-Q", COQ, "WV", "-Q", GEN, "WVgen"] + list(extra) + [path]
    return sh(cmd, cwd=os.path.dirname(path), timeout=timeout)


def check_props(prop):
    """Re-check Props/<prop>.v and parse Print Assumptions. Returns (theorems, closed, axioms, output)."""
    src = os.path.join(COQ, "Props", prop + ".v")
    tmpd = os.path.join(GEN, "props")
    os.makedirs(tmpd, exist_ok=True)
    dst = os.path.join(tmpd, prop + ".v")
    shutil.copy(src, dst)
    rc, out, _ = sh(["coqc", "-Q", COQ, "WV", "-o", os.path.join(tmpd, prop + ".vo"), dst], cwd=tmpd, timeout=600)
    text = open(src, encoding="utf8").read()
    theorems = re.findall(r"^\s*(?:Theorem|Lemma|Corollary)\s+(\w+)", text, re.M)
    prints = re.findall(r"^\s*Print Assumptions\s+(\w+)", text, re.M)
    closed = out.count("Closed under the global context")
    axioms = re.findall(r"^Axioms:\s*$", out, re.M)
    return dict(rc=rc, theorems=theorems, prints=prints, closed=closed, axioms=len(axioms), output=out)


# --------------------------------------------------------------------- Go harness

def rewrite_source(rel, subs):
    """A copy of REPO/<rel> (the current working tree) with regex substitutions applied,
    for injection through -overlay. Returns (path, counts)."""
    import re as _re
    src = open(os.path.join(REPO, rel), encoding="utf8").read()
    counts = []
    for pat, rep in subs:
        src, n = _re.subn(pat, rep, src)
        counts.append(n)
    od = os.path.join(GEN, "overlay", "src")
    os.makedirs(od, exist_ok=True)
    path = os.path.join(od, rel.replace("/", "__"))
    with open(path, "w", encoding="utf8") as f:
        f.write("//line %s:1\n" % os.path.join(REPO, rel))
        f.write(src)
        if _re.search(r'^\s*"time"\s*$', src, _re.M):
            f.write("\nvar _ = time.Now // keeps the import used after a rewrite\n")
    return path, counts


def instrument_sources(rels):
    """Gate-instrumented copies of REPO/<rel> (built from the current working tree) plus the gate
    runtime, as overlay entries. Returns (mapping, labels per file)."""
    instbin = os.path.join(GEN, "bin", "verifinst")
    src = os.path.join(HARNESS, "inst")
    if not os.path.exists(instbin) or os.path.getmtime(instbin) < os.path.getmtime(os.path.join(src, "main.go")):
        os.makedirs(os.path.dirname(instbin), exist_ok=True)
        rc, out, _ = sh(["go", "build", "-o", instbin, "."], cwd=src, env=GOENV, timeout=300)
        if rc != 0:
            raise RuntimeError("verifinst does not build: " + out)
    outd = os.path.join(GEN, "inst")
    os.makedirs(outd, exist_ok=True)
    rc, out, _ = sh([instbin, outd, REPO] + list(rels), timeout=120)
    if rc != 0:
        raise RuntimeError("verifinst failed: " + out)
    labels = {}
    for line in out.splitlines():
        if "\t" in line:
            f, l = line.split("\t", 1)
            labels.setdefault(f, []).append(l)
    mapping = {rel: os.path.join(outd, rel.replace("/", "__")) for rel in rels}
    mapping["internal/verifrt/rt.go"] = os.path.join(HARNESS, "rt", "rt.go")
    return mapping, labels


def overlay_for(files, helper_pkgs):
    """files: {repo-relative dest path: absolute source path}; helper_pkgs: {repo dir: package name}
    -> path of an overlay JSON. Nothing is written to the repository."""
    od = os.path.join(GEN, "overlay")
    os.makedirs(od, exist_ok=True)
    repl = {}
    for dest, src in files.items():
        repl[os.path.join(REPO, dest)] = src
    tmpl = open(os.path.join(HARNESS, "common", "vhelp.go.tmpl"), encoding="utf8").read()
    for d, pkg in helper_pkgs.items():
        p = os.path.join(od, (d.replace("/", "_") or "root") + "_vhelp_test.go")
        with open(p, "w", encoding="utf8") as f:
            f.write(tmpl.replace("{{PKG}}", pkg))
        repl[os.path.join(REPO, d, "zz_verif_help_test.go")] = p
    h = hashlib.sha1(json.dumps(repl, sort_keys=True).encode()).hexdigest()[:10]
    path = os.path.join(od, "overlay_%s.json" % h)
    with open(path, "w") as f:
        json.dump({"Replace": repl}, f, indent=1)
    return path


def go_test(pkgdir, run, overlay, env=None, timeout=600, race=False, extra=()):
    """go test in REPO/<pkgdir> with the overlay. Returns (rc, output, seconds)."""
    e = dict(GOENV)
    if race:
        e["CGO_ENABLED"] = "1"
    if env:
        e.update({k: str(v) for k, v in env.items()})
    cmd = ["go", "test", "-vet=off", "-count=1", "-overlay=" + overlay, "-run", run,
           "-timeout", "%ds" % max(30, int(timeout) - 10)]
    if race:
        cmd.append("-race")
    cwd = os.path.join(REPO, pkgdir)
    if os.path.isdir(cwd):
        cmd += list(extra) + ["."]
    else:  # a package directory that exists only in the overlay: build the test binary, run it elsewhere
        binp = os.path.join(GEN, "bin", pkgdir.replace("/", "_") + ".test")
        os.makedirs(os.path.dirname(binp), exist_ok=True)
        bcmd = ["go", "test", "-vet=off", "-overlay=" + overlay, "-c", "-o", binp, "./" + pkgdir]
        rc, out, secs = sh(bcmd, cwd=REPO, env=e, timeout=timeout)
        if rc != 0:
            return rc, out, secs
        rc, out2, secs2 = sh([binp, "-test.run", run, "-test.count=1", "-test.timeout", "%ds" % max(30, int(timeout) - 10)], cwd=GEN, env=e, timeout=timeout)
        return rc, out + out2, secs + secs2
    return sh(cmd, cwd=cwd, env=e, timeout=timeout)


def read_jsonl(path):
    out = []
    if not os.path.exists(path):
        return out
    with open(path, encoding="utf8") as f:
        for line in f:
            line = line.strip()
            if line:
                out.append(json.loads(line))
    return out


# --------------------------------------------------------------------- cases -> Coq

def _run_shard(args):
    prop, k, runner, terms, header = args
    d = os.path.join(GEN, "cases")
    os.makedirs(d, exist_ok=True)
    path = os.path.join(d, "cases_%s_%d.v" % (prop, k))
    with open(path, "w", encoding="utf8") as f:
        f.write("From WV Require Import %s.\n" % runner)
        f.write(header + "\n")
        f.write("Definition cases : list %s.case := [\n" % runner.split(".")[-1])
        f.write(";\n".join(terms))
        f.write("\n].\n")
        f.write("Definition M := Eval vm_compute in %s.mismatches cases.\nPrint M.\n" % runner.split(".")[-1])
    rc, out, secs = coqc(path, timeout=1200)
    for ext in (".vo", ".vok", ".vos", ".glob"):
        try:
            os.remove(path[:-2] + ext)
        except OSError:
            pass
    m = re.search(r"M\s*=\s*(\[[^\]]*\])", out, re.S)
    if rc != 0 or not m:
        return k, None, out, secs
    body = m.group(1).strip()[1:-1]
    idx = [int(x) for x in re.findall(r"\d+", re.sub(r"%\w+", "", body))]
    return k, idx, out, secs


def coq_mismatches(prop, runner, terms, shard=400, header="From Coq Require Import List NArith ZArith String.\nFrom WV Require Import Base.Hex.\nImport ListNotations.\nOpen Scope string_scope.\nOpen Scope N_scope."):
    """Evaluate the model on the recorded cases inside Coq. Returns (list of mismatching case
    indices, or None with the coqc output on failure, seconds)."""
    if not terms:
        return [], "", 0.0
    shards = [(prop, k, runner, terms[i:i + shard], header) for k, i in enumerate(range(0, len(terms), shard))]
    res = []
    t0 = time.time()
    with concurrent.futures.ThreadPoolExecutor(max_workers=int(os.environ.get("VERIF_COQ_WORKERS", "8"))) as ex:
        for k, idx, out, secs in ex.map(_run_shard, shards):
            if idx is None:
                return None, out, time.time() - t0
            res += [k * shard + i for i in idx]
    return sorted(res), "", time.time() - t0


# --------------------------------------------------------------------- findings / evidence / replays

def known_findings():
    p = os.path.join(VERIF, "known_findings.json")
    if not os.path.exists(p):
        return []
    return json.load(open(p))["findings"]


def write_replay(prop, kind, payload):
    d = os.path.join(os.environ["VERIF_GEN"], "replays") if os.environ.get("VERIF_GEN") else os.path.join(VERIF, "replays")
    os.makedirs(d, exist_ok=True)
    body = dict(property=prop, kind=kind, **payload)
    h = hashlib.sha1(json.dumps(body, sort_keys=True, default=str).encode()).hexdigest()[:12]
    path = os.path.join(d, "%s-%s.json" % (prop, h))
    with open(path, "w") as f:
        json.dump(body, f, indent=1, default=str)
    return path


def write_evidence(prop, tier, seed, coverage, wall, violations, assumptions=None, level="proof"):
    d = os.environ.get("VERIF_EVIDENCE_DIR") or os.path.join(VERIF, "evidence")
    os.makedirs(d, exist_ok=True)
    ev = dict(property_id=prop, tier=tier, seed=int(seed), level=level, coverage=coverage,
              assumptions=assumptions or [], wall_s=round(wall, 2), violations=int(violations))
    with open(os.path.join(d, prop + ".json"), "w") as f:
        json.dump(ev, f, indent=1, default=str)


def distinct(records, key=lambda r: r.get("sig") or r.get("coq")):
    return len({hashlib.sha1(str(key(r)).encode()).hexdigest() for r in records})


def histogram(records, field="class"):
    h = {}
    for r in records:
        h[r.get(field, "?")] = h.get(r.get(field, "?"), 0) + 1
    return dict(sorted(h.items()))
