#!/usr/bin/env python3
"""Confirm a change written by a sub-agent before it is kept under seeded/: on a scratch clone of /repo the demonstration passes without
the change; with the change the tree builds, the repository's own suite passes and the demonstration fails.
usage: seedvalidate.py <out-dir with patch.diff, demo_test.go, meta.json> <new-id>   (copies the accepted change to seeded/<new-id>/)"""
import json, os, shutil, subprocess, sys, time
ROOT = os.path.dirname(os.path.dirname(os.path.abspath(__file__)))
ENV = dict(os.environ, GOFLAGS="-mod=mod", GOPROXY="off", GOSUMDB="off", GOTOOLCHAIN="local")


def sh(cmd, cwd, timeout=600, env=None, isolate=False):
    if isolate:  # the repository's tests listen on fixed ports: a private network namespace keeps parallel runs apart
        cmd = "unshare -n sh -c %s" % __import__("shlex").quote("ip link set lo up; " + cmd)
    try:
        p = subprocess.run(cmd, shell=True, cwd=cwd, env=env or ENV, capture_output=True, text=True, timeout=timeout)
        return p.returncode, (p.stdout + p.stderr)[-3000:]
    except subprocess.TimeoutExpired:
        return 124, "timeout"


def main():
    out, new_id = sys.argv[1], sys.argv[2]
    meta = json.load(open(os.path.join(out, "meta.json")))
    scratch = "/tmp/seedval_%d" % os.getpid()
    shutil.rmtree(scratch, ignore_errors=True)
    subprocess.run("git clone -q /repo %s" % scratch, shell=True, check=True)
    res = dict(ran=time.strftime("%Y-%m-%d %H:%M:%S"))
    try:
        pkg = os.path.join(scratch, meta.get("demo_pkg", ".") or ".")
        os.makedirs(pkg, exist_ok=True)
        demo = os.path.join(pkg, "zz_seed_demo_test.go")
        shutil.copy(os.path.join(out, "demo_test.go"), demo)
        cmd = meta["demo_cmd"]
        env = dict(ENV)
        if "-race" in cmd:
            env["CGO_ENABLED"] = "1"
        passes = 0
        for i in range(3):
            rc, o = sh(cmd, pkg, 300, env, isolate=True)
            passes += rc == 0
        res["clean_demo_passes_of_3"] = passes
        os.remove(demo)
        rc, o = sh("git apply %s" % os.path.join(out, "patch.diff"), scratch)
        res["applies"] = rc == 0
        if rc == 0:
            rc, o = sh("go build ./...", scratch)
            res["builds"] = rc == 0
            rc, o = sh("go test -vet=off -count=1 ./...", scratch, 900, isolate=True)
            res["suite_passes"] = rc == 0
            if rc != 0:
                res["suite_output"] = o[-800:]
            shutil.copy(os.path.join(out, "demo_test.go"), demo)
            fails = 0
            last = ""
            for i in range(3):
                rc, o = sh(cmd, pkg, 300, env, isolate=True)
                fails += rc != 0
                last = o
            res["mutant_demo_fails_of_3"] = fails
            res["failure_looks_like"] = last[-600:]
        ok = res.get("clean_demo_passes_of_3") == 3 and res.get("applies") and res.get("builds") and res.get("suite_passes") and res.get("mutant_demo_fails_of_3", 0) >= 2
        res["accepted"] = bool(ok)
        print(new_id, "ACCEPTED" if ok else "REJECTED", {k: v for k, v in res.items() if k not in ("failure_looks_like", "suite_output")})
        if ok:
            d = os.path.join(ROOT, "seeded", new_id)
            os.makedirs(d, exist_ok=True)
            shutil.copy(os.path.join(out, "patch.diff"), os.path.join(d, "patch.diff"))
            shutil.copy(os.path.join(out, "demo_test.go"), os.path.join(d, "demonstration"))
            meta["validated"] = res
            meta["round"] = 2
            json.dump(meta, open(os.path.join(d, "meta.json"), "w"), indent=1)
    finally:
        shutil.rmtree(scratch, ignore_errors=True)


if __name__ == "__main__":
    main()
