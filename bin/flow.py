"""The standard flow of one check: proofs, regenerated obligations, differential run, evidence."""
import json
import os
import time

import vlib
from vlib import log


class Ctx:
    def __init__(self, prop, tier, seed):
        self.prop, self.tier, self.seed = prop, tier, seed
        self.thorough = tier == "thorough"
        self.records = []          # all harness cases
        self.failures = []         # dicts: key, what, kind, case, no_input
        self.obligations = 0
        self.discharged = 0
        self.notes = []
        self.extra = {}
        self.traces = 0

    def fail(self, key, what, case=None, kind="impl", no_input=False):
        self.failures.append(dict(key=key, what=what, case=case, kind=kind, no_input=no_input))

    def oblige(self, ok, name, detail=""):
        """A regenerated / compiled proof obligation."""
        self.obligations += 1
        if ok:
            self.discharged += 1
        else:
            self.fail("obligation:" + name, "obligation %s no longer checks %s" % (name, detail), kind="obligation", no_input=True)

    def go(self, pkgdir, run, files, helper_pkg, env=None, timeout=600, race=False, extra=(), rewrites=None, instrument=None):
        """Run an overlaid harness test; returns its records."""
        out_path = os.path.join(vlib.GEN, "out", "%s_%s_%d.jsonl" % (self.prop, run.strip("^$").replace("/", "_"), os.getpid()))
        os.makedirs(os.path.dirname(out_path), exist_ok=True)
        if os.path.exists(out_path):
            os.remove(out_path)
        fmap = {os.path.join(pkgdir, "zz_verif_" + os.path.basename(f)): os.path.join(vlib.HARNESS, "overlay", f) for f in files}
        if instrument:
            mapping, labels = vlib.instrument_sources(instrument)
            fmap.update(mapping)
            self.gate_labels = labels
        for rel, subs in (rewrites or {}).items():
            path, counts = vlib.rewrite_source(rel, subs)
            fmap[rel] = path
            self.rewrite_counts = getattr(self, "rewrite_counts", {})
            self.rewrite_counts[rel] = counts
        ov = vlib.overlay_for(fmap, {pkgdir: helper_pkg})
        e = dict(VERIF_OUT=out_path, VERIF_SEED=self.seed, VERIF_TIER=self.tier)
        if env:
            e.update(env)
        rc, out, secs = vlib.go_test(pkgdir, run, ov, env=e, timeout=timeout, race=race, extra=extra)
        recs = vlib.read_jsonl(out_path)
        log("[%s] go test %s %s: rc=%d, %d cases, %.1fs" % (self.prop, pkgdir or ".", run, rc, len(recs), secs))
        if rc != 0:
            tail = "\n".join(out.splitlines()[-60:])
            log(tail)
        return rc, out, recs

    def model(self, runner, recs, shard=400, header=None):
        """Evaluate the Coq model on the recorded cases; mismatches become failures."""
        with_coq = [r for r in recs if r.get("coq")]
        kw = {}
        if header:
            kw["header"] = header
        idx, out, secs = vlib.coq_mismatches(self.prop, runner, [r["coq"] for r in with_coq], shard=shard, **kw)
        log("[%s] coq %s on %d cases: %s in %.1fs" % (self.prop, runner, len(with_coq), "error" if idx is None else "%d mismatches" % len(idx), secs))
        if idx is None:
            self.fail("cases-do-not-compile:" + runner, "the cases file no longer compiles against the model: " + out[-1500:], kind="correspondence", no_input=True)
            return
        self.traces += len(with_coq)
        seen = {}
        for i in idx:
            c = with_coq[i]
            fam = c.get("class", "?").split("/")[0]
            seen.setdefault(fam, []).append(c)
        for fam, cs in seen.items():
            self.fail("model-mismatch:" + fam, "model and implementation disagree on %d %s case(s); first: %s" % (len(cs), fam, cs[0].get("class")),
                      case=dict(first=cs[0], more=[c.get("info") for c in cs[1:6]], count=len(cs)), kind="mismatch")


def run(prop, tier, seed, mod, replay, t0):
    ctx = Ctx(prop, tier, seed)
    # 1. proofs
    ok, out = vlib.ensure_coq()
    bad = vlib.grep_forbidden()
    if bad:
        ctx.fail("forbidden", "forbidden vernacular in the development: " + "; ".join(bad[:5]), kind="obligation", no_input=True)
    if not ok:
        log(out[-3000:])
        ctx.fail("coq-build", "the Coq development no longer builds", kind="obligation", no_input=True)
        props = dict(theorems=[], prints=[], closed=0, rc=1, output=out)
    else:
        props = vlib.check_props(prop)
        nthm = len(props["theorems"])
        good = props["rc"] == 0 and props["closed"] == len(props["prints"]) and len(props["prints"]) >= nthm and nthm > 0
        ctx.obligations += nthm
        if good:
            ctx.discharged += nthm
        else:
            log(props["output"][-3000:])
            ctx.fail("props", "Props/%s.v: %d theorems, %d Print Assumptions, %d closed, rc=%d" % (prop, nthm, len(props["prints"]), props["closed"], props["rc"]), kind="obligation", no_input=True)
    # 2. property-specific: regenerated obligations + differential / trace runs
    if ok:
        mod.run(ctx)
        # A check whose verdict depends on wall-clock thresholds re-runs itself once when it fails:
        # only what fails in both runs is reported (a scheduling hiccup of a loaded machine does not
        # reproduce; a change of behaviour does). Obligation failures are never retried away.
        if getattr(mod, "RETRY_TIMING", False) and any(f["kind"] in ("impl", "mismatch") for f in ctx.failures):
            first = ctx.failures
            log("[%s] timing-sensitive failures (%s): running once more" % (prop, sorted({f["key"] for f in first})))
            ctx2 = Ctx(prop, tier, seed)
            mod.run(ctx2)
            keys2 = {f["key"] for f in ctx2.failures}
            kept = [f for f in first if f["kind"] not in ("impl", "mismatch") or f["key"] in keys2]
            dropped = sorted({f["key"] for f in first} - {f["key"] for f in kept})
            if dropped:
                ctx.notes.append("not reproduced on the immediate re-run, not reported: %s" % dropped)
            ctx.failures = kept
            ctx.records += ctx2.records
            ctx.obligations += ctx2.obligations
            ctx.discharged += ctx2.discharged
            ctx.traces += ctx2.traces
    # 3. classify
    known = {f["key"]: f for f in vlib.known_findings() if f.get("property") == prop and "key" in f}
    seen_known, violations = {}, []
    for f in ctx.failures:
        if f["key"] in known and f["kind"] == "impl":
            seen_known[f["key"]] = known[f["key"]]
        else:
            violations.append(f)
    for k, f in sorted(seen_known.items()):
        print("KNOWN-FINDING: property=%s %s" % (prop, f["what"]))
    rc = 0
    printed = set()
    for f in violations:
        if f["key"] in printed:
            continue
        printed.add(f["key"])
        path = vlib.write_replay(prop, f["kind"], dict(key=f["key"], what=f["what"], case=f["case"], seed=seed, tier=tier,
                                                     replay_cmd="VERIF_SEED=%d python3 bin/check %s %s" % (seed, prop, tier)))
        print("VIOLATION property=%s replay=%s%s" % (prop, path, " no-failing-input-found" if f["no_input"] else ""))
        log("  -> " + f["what"][:600])
        rc = 1
    # 4. evidence
    recs = ctx.records
    nontrivial = [r for r in recs if not r.get("trivial")]
    cov = dict(
        obligations=ctx.obligations, discharged=ctx.discharged,
        checker_cmd="make -C coq (coqc 8.16.1, full .vo build) + coqc Props/%s.v with Print Assumptions + coqc gen/cases/cases_%s_*.v (vm_compute of the model on the recorded cases)" % (prop, prop),
        trusted_base=vlib.TRUSTED_BASE + getattr(mod, "TRUSTED", []),
        theorems=props.get("theorems", []),
        evaluations=len(recs), distinct_nontrivial=vlib.distinct(nontrivial),
        traces_validated_against_impl=ctx.traces,
        rule=getattr(mod, "RULE", "cases generated from VERIF_SEED by the Go harness; distinct = distinct canonical case text; non-trivial = not flagged trivial by the generator"),
        distribution=vlib.histogram([dict(c=r.get("class", "?").split("/")[0]) for r in recs], "c"),
        outcome_distribution=vlib.histogram([dict(c=str((r.get("info") or {}).get("go", (r.get("info") or {}).get("outcome", "-")))) for r in recs if isinstance(r.get("info"), dict)], "c"),
        samples=[{k: v for k, v in r.items() if k in ("class", "info", "sig")} for r in (recs[:2] + recs[len(recs) // 2: len(recs) // 2 + 2] + recs[-1:])] or [{"theorems": props.get("theorems", [])}],
        known_findings_reproduced=sorted(seen_known),
        notes=ctx.notes,
    )
    cov.update(ctx.extra)
    vlib.write_evidence(prop, tier, seed, cov, time.time() - t0, len(printed), assumptions=getattr(mod, "ASSUMPTIONS", []))
    log("[%s] %s: obligations %d/%d, cases %d, violations %d, known %d, %.1fs" % (prop, tier, ctx.discharged, ctx.obligations, len(recs), len(printed), len(seen_known), time.time() - t0))
    return rc
