#!/usr/bin/env python3
"""Regenerates MANIFEST.json from the table below (keeps it valid at all times)."""
import json
import os

V = os.path.dirname(os.path.dirname(os.path.abspath(__file__)))
ALL = ["C%02d" % i for i in range(1, 21)]

CLAIMED = {
    "C16": dict(
        text="Round trip, layout, injectivity and marshal-failure theorems proved in Coq for all envelopes of any length against an independent decoder of the published schema (Model/Wire.v); the model is tied to the Go code by a differential run of encode and decode on structured and malformed frames on every run.",
        note="Trusted: Coq kernel + vm_compute; the hand-written model of protobuf-go's decoder; the Go harness. No axioms.",
        technique="Coq proof (induction on varint/fields) + differential correspondence check"),
}
# filled by later edits
exec(open(os.path.join(V, "bin", "claims.py")).read()) if os.path.exists(os.path.join(V, "bin", "claims.py")) else None

checks = []
for p in ALL:
    if p not in CLAIMED:
        continue
    c = CLAIMED[p]
    checks.append({
        "property_id": p,
        "quick_cmd": "python3 bin/check %s quick" % p,
        "thorough_cmd": "python3 bin/check %s thorough" % p,
        "evidence_file": "/verif/evidence/%s.json" % p,
        "replay_cmd_template": "python3 bin/check %s --replay {path}" % p,
        "engine": "coq-model",
        "level_claimed": {"category": c.get("category", "proof"), "text": c["text"], "design_ref": "DESIGN.md section 4, " + p},
        "level_note": c["note"],
        "technique": c["technique"],
    })
m = {
    "version": 1,
    "setup_cmd": "bash bin/setup",
    "hooks": {
        "guard": "verif",
        "enable": "go test -vet=off -overlay=<generated under /verif/gen> run from /repo: harness _test.go files and instrumented copies of the current sources are injected at build time; no source change in /repo",
        "baseline_off_cmd": "cd /repo && go test -vet=off -count=1 -timeout 25m ./...",
        "source_commits": [],
        "add_only": True,
    },
    "engines": [{"name": "coq-model", "path": "/verif/coq", "serves_properties": sorted(CLAIMED),
                 "kind_free_text": "Coq 8.16.1 development (executable Gallina models, one theorem file per property) + Go harness injected by -overlay; the model is evaluated with vm_compute on cases and traces recorded from the implementation built from /repo's working tree"}],
    "checks": checks,
    "not_applicable": [{"property_id": p, "reason": "not claimed yet: the check for this property is still being built (see DESIGN.md section 7, build order)"} for p in ALL if p not in CLAIMED],
    "notes": "All checks: python3 bin/check <id> <quick|thorough>. VERIF_SEED seeds every random choice; VERIF_REPO (default /repo) selects the tree.",
}
json.dump(m, open(os.path.join(V, "MANIFEST.json"), "w"), indent=1)
print("claimed:", sorted(CLAIMED))
