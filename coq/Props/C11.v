(* C11 — the server's view of connected peers matches reality; one session per key.
   Model/Registry.v; ls ranges over ALL interleavings of the steps of any number of handshakes
   (also simultaneous ones with the same key), peer disconnects, teardowns and allow-list updates. *)
From Coq Require Import List.
From WV Require Import Model.Registry Proofs.RegistryP.
Import ListNotations.

Theorem C11_single : forall ks ls s1 s2, let st := exec (init ks) ls in
  phase_of st s1 = PRegistered -> phase_of st s2 = PRegistered -> key_of st s1 = key_of st s2 -> s1 = s2.
Proof. exact single_session. Qed.
Print Assumptions C11_single.

(* the count, the key list and the routing are exactly the registered sessions (a session whose
   transport has died stays listed until its teardown step, which is always enabled for it) *)
Theorem C11_view_exact : forall ks ls, let st := exec (init ks) ls in
  (forall k sid, route st k = Some sid -> key_of st sid = k /\ (phase_of st sid = PRegistered \/ phase_of st sid = PClosing)) /\
  (forall sid, phase_of st sid = PRegistered -> route st (key_of st sid) = Some sid).
Proof. exact view_exact. Qed.
Print Assumptions C11_view_exact.

Theorem C11_refusal_harmless : forall st sid l, (l = LCheck sid \/ l = LRegister sid \/ l = LVerify sid) ->
  phase_of (step st l) sid = PRefused -> reg (step st l) = reg st /\ forall s, s <> sid -> sess (step st l) s = sess st s.
Proof. exact refusal_harmless. Qed.
Print Assumptions C11_refusal_harmless.

Theorem C11_no_collateral : forall ks ls sid k' s', let st := exec (init ks) ls in
  s' <> sid -> route st k' = Some s' -> route (step st (LTeardown sid)) k' = Some s'.
Proof. exact teardown_no_collateral. Qed.
Print Assumptions C11_no_collateral.
Theorem C11_leaves_view : forall ks ls sid, let st := exec (init ks) ls in
  phase_of st sid = PClosing -> route st (key_of st sid) = Some sid -> route (step st (LTeardown sid)) (key_of st sid) = None.
Proof. exact teardown_removes_own. Qed.
Print Assumptions C11_leaves_view.
