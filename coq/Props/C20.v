(* C20 — the unidirectional client delivers each request until answered or cancelled. *)
From Coq Require Import List ZArith.
From WV Require Import Model.Uni Proofs.WireP Proofs.UniP.
Import ListNotations.

(* Retried until answered or the context ends: whatever the sequence of write errors, read
   errors and reconnects, a call that does not end with the context's (or the connect
   function's) error returns the outcome of a frame it has read, and that frame was read right
   after the request had been written on the newest connection. *)
Theorem C20_retries_until_answered : forall dl s r tr s',
  run_invoke dl s = (r, tr, s') -> from_frame r ->
  exists frame b, In (EvRead (Some frame) b) s /\ r = interpret frame /\
                  ends_with tr (wr_ops dl (connects tr)).
Proof. intros dl s r tr s' H. eapply invoke_sound; eauto. Qed.
Print Assumptions C20_retries_until_answered.

(* Exactly that response's outcome: the reply when the error text is empty (an empty
   payload is an empty reply), the remote error text otherwise. *)
Theorem C20_outcome : forall p b, small_msg (MResp p) -> encode (MResp p) = Some b ->
  interpret b = outcome_of p.
Proof. exact interpret_frame. Qed.
Print Assumptions C20_outcome.

(* KNOWN FINDING (uni-foreign-response-accepted): "never the outcome of a different call" does
   NOT hold of the code: the outcome is independent of the call id the response carries, so a
   late response of an earlier call is taken for this call's. Stated positively so that it stays
   visible; the harness replays it on the implementation. *)
Theorem C20_own_response_refuted : forall id1 id2 pl e b1 b2,
  let p1 := {| p_callid := id1; p_payload := pl; p_error := e |} in
  let p2 := {| p_callid := id2; p_payload := pl; p_error := e |} in
  small_msg (MResp p1) -> small_msg (MResp p2) ->
  encode (MResp p1) = Some b1 -> encode (MResp p2) = Some b2 -> interpret b1 = interpret b2.
Proof. exact interpret_ignores_callid. Qed.
Print Assumptions C20_own_response_refuted.

(* Ends with its context: when the context is seen done after a failed write or read the call
   returns the context's error at once, performing no further operation. *)
Theorem C20_ctx_exit_write : forall f dl conn next s tr,
  invoke (S f) dl conn next (EvWrite false true :: s) tr = (RCtx, tr ++ w_ops dl conn, s).
Proof. exact invoke_ctx_write_exit. Qed.
Print Assumptions C20_ctx_exit_write.
Theorem C20_ctx_exit_read : forall f dl conn next b s tr,
  invoke (S f) dl conn next (EvWrite true b :: EvRead None true :: s) tr = (RCtx, tr ++ wr_ops dl conn, s).
Proof. exact invoke_ctx_read_exit. Qed.
Print Assumptions C20_ctx_exit_read.

(* Reconnect pauses: the i-th pause is min(1 s * 2^i, 1 min), for every dial history. *)
Theorem C20_backoff : forall ds r ws, run_retry ds = (r, ws) ->
  forall i, (i < length ws)%nat -> nth i ws 0%Z = nth_wait i.
Proof. exact run_retry_waits. Qed.
Print Assumptions C20_backoff.
Theorem C20_backoff_shape : nth_wait 0 = second /\
  (forall k, nth_wait (S k) = Z.min (2 * nth_wait k) wait_cap) /\
  (forall k, (second <= nth_wait k <= wait_cap)%Z).
Proof. exact (conj nth_wait_0 (conj nth_wait_doubles nth_wait_bounds)). Qed.
Print Assumptions C20_backoff_shape.

(* the client always holds a connection it was given: after a call with ANY script of outcomes - failed writes and reads,
   failed and successful reconnects, a context which ends anywhere - the connection it is left with is the one it had or the
   last one connectFn returned successfully (never "none": an abandoned reconnect does not take the old one away), and the
   counter of connections obtained is consistent with it *)
Theorem C20_client_keeps_a_connection : forall s,
  (fst (run_held s) < snd (run_held s))%N /\ (snd (run_held s) <= 1 + N.of_nat (length s))%N.
Proof. intros s. split; [apply held_exists; reflexivity | apply held_next_bound]. Qed.
Print Assumptions C20_client_keeps_a_connection.
Example C20_held_example :
  run_held [EvWrite true false; EvRead None false; EvConnect true; EvWrite false false; EvConnect false] = (1, 2)%N /\
  run_held [EvWrite false false; EvConnect false] = (0, 1)%N.
Proof. vm_compute. auto. Qed.
