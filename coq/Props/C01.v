(* C01 — a completed call returns the outcome of its own request, never another's.
   Model/Session.v: one session, calls in both directions at once, any number of them, any
   order of frame delivery, handler completion, context expiry, failed writes and connection
   loss. ls ranges over ALL label sequences; ids are fresh (NoDup: uuid.NewString is an oracle). *)
From Coq Require Import List.
From WV Require Import Model.Session Proofs.SessionP.
Import ListNotations.

(* A finished call either ended by its own context / a refused write (and says so), or it was
   handed the response of a handler instance that (1) was started by this very call's request
   frame, (2) ran on the other endpoint, (3) received exactly this call's method, id and payload,
   and the call's result is exactly what that instance returned. *)
Theorem C01_own_outcome : forall sa sb ls, NoDup (call_ids ls) -> honest ls ->
  let s := exec (init sa sb) ls in
  forall i c r via, nth_error (calls s) i = Some (c, CDone r via) ->
    (via = OCall i /\ (r = RTimeout \/ r = RSendFail)) \/
    (exists h hi o, via = OHandler h /\ nth_error (hs s) h = Some hi /\ h_src hi = OCall i /\ h_side hi = other (c_from c) /\
                    h_req hi = req_of c /\ h_out hi = Some o /\ r = result_of (resp_for (req_of c) o)).
Proof. exact own_outcome. Qed.
Print Assumptions C01_own_outcome.

(* what the caller sees of a handler outcome: the reply itself; for a failure with a non-empty
   message an error carrying that message, and no reply *)
Theorem C01_reply : forall r v, result_of (resp_for r (Reply v)) = RReply v.
Proof. exact result_reply. Qed.
Print Assumptions C01_reply.
Theorem C01_error_with_value : forall r v e, e <> [] -> result_of (resp_for r (FailWith v e)) = RRemote e.
Proof. exact result_fail_with. Qed.
Print Assumptions C01_error_with_value.
Theorem C01_error_bare : forall r e, e <> [] -> result_of (resp_for r (FailBare e)) = RRemote e.
Proof. exact result_fail_bare. Qed.
Print Assumptions C01_error_bare.

(* never the outcome of a different call: two calls are never served by one handler instance *)
Theorem C01_injective : forall sa sb ls, NoDup (call_ids ls) -> honest ls ->
  let s := exec (init sa sb) ls in
  forall i i' c c' r r' h, nth_error (calls s) i = Some (c, CDone r (OHandler h)) ->
    nth_error (calls s) i' = Some (c', CDone r' (OHandler h)) -> i = i'.
Proof. exact distinct_calls_distinct_handlers. Qed.
Print Assumptions C01_injective.
