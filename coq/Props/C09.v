(* C09 — closing a client connection is safe and final.
   Model/CloseLTS.v: every goroutine of a ClientConn (any number of Close calls, the reconnect
   loop, the state publisher, the reader manager and its readers, the read and write pump and the
   close callback of every transport ever dialled, request/response goroutines, Invoke calls) as a
   labelled transition system; one label is one scheduling step of one goroutine or one move of
   the environment (a message arrives, a socket dies, a dial succeeds or fails, a timer fires, a
   handler returns, the user starts a call or a Close). `good` is the configuration of the code
   as it is now (the check re-extracts it from the sources on every run); ls ranges over ALL
   schedules, `exec` skips labels that are not enabled. *)
From Coq Require Import List.
From WV Require Import Model.CloseLTS Proofs.CloseInv Proofs.CloseP Proofs.CloseLive Run.RunClose.
Import ListNotations.

(* Close never crashes the process, whatever it lands on: no nil dereference in Invoke or in a
   request goroutine, no second close of a channel, for any interleaving of any number of Close
   calls with everything else *)
Theorem C09_never_crashes : forall ls, crashed (exec good init ls) = false.
Proof. intros ls. exact (i_nc _ (inv_exec ls init inv_init)). Qed.
Print Assumptions C09_never_crashes.

(* once a Close which tore the connection down has returned - in every state of every schedule
   from then on - the connection is detached, its context cancelled, the state Shutdown and
   reported as such, the reconnect loop, the publisher and the reader manager have ended, no
   reader is attached to any transport, every write pump has run its deferred calls and every
   socket is closed, a read pump can at most be on its way out, and no goroutine which the
   connection's wait group counts is left *)
Theorem C09_closed_is_final : forall ls, tore (exec good init ls) = true -> final (exec good init ls) = true.
Proof. intros ls. apply inv_final. exact (inv_exec ls init inv_init). Qed.
Print Assumptions C09_closed_is_final.

(* after the connection has been detached (so, in particular, after Close has returned) a new
   call fails at its first step: it neither panics nor waits *)
Theorem C09_call_after_close_fails_at_once : forall ls i, let s := exec good init ls in
  addr s = false -> i < length (gs s) -> getG s i = GInv0 -> step good s (LG i GA) = Some (setG s i (GDone true)).
Proof. exact call_after_close. Qed.
Print Assumptions C09_call_after_close_fails_at_once.

(* after Close has returned no handler is started and no connection attempt is made: the steps
   which hand a message to a reader, and the dial, are disabled for ever *)
Theorem C09_nothing_starts_after_close : forall ls, let s := exec good init ls in tore s = true ->
  (forall g kind, step good s (LHand g kind) = None) /\ (forall ok, step good s (LDial ok) = None) /\ (forall via, step good s (LRt via) = None).
Proof. exact nothing_after_close. Qed.
Print Assumptions C09_nothing_starts_after_close.

(* Close returns within a bounded time once the handlers already running have returned: from
   EVERY reachable state (any schedule ls0, so whatever else is in flight - calls, a reconnect
   attempt, incoming traffic, other Close calls) in which no request goroutine is inside the user's
   handler, and for every Close call k, there is a schedule - CloseLive.help, computed from the
   state - every step of which is enabled when its turn comes and after which call k has returned.
   It consists only of steps of that Close call, of the goroutine holding ac.mu, of the pumps, the
   reader, the publisher, the reader manager and the per-message goroutines of the connection, and
   of the failure of a dial whose context has been cancelled; it is no longer than
   19 + 6 * (transports ever created) + (per-message goroutines ever started): nothing Close
   waits for can wait for ever, and nothing it waits for waits for the peer or the network. *)
Theorem C09_close_returns : forall ls0 k, let s := exec good init ls0 in
  k < length (cl s) -> (forall i, getG s i <> GBody) ->
  exists ls s', run good s ls = Some s' /\ (exists b, getC s' k = CRet b) /\
                length ls <= 19 + 6 * length (trs s) + length (gs s).
Proof. exact close_returns. Qed.
Print Assumptions C09_close_returns.

(* the premises are met by a state in which a lot is going on: connected, the read pump holding a
   message, an Invoke and a reply inside Write, the reconnect loop waiting, two Close calls of which
   one has taken its first step; the schedule computed for either call takes it to its return and,
   for the one which tears down, to a final state *)
Definition C09_busy : list lab :=
  p_connect ++ [LNewInvoke; LG 0 GA; LG 0 GA; LG 0 GA; LNet 0; LHand 0 (Some true); LHandlerRet 1 true; LG 1 GA; LNet 0;
                LNewClose; LNewClose; LClose 0 true].
Example C09_close_returns_example :
  let s := exec good init C09_busy in
  cl s = [C1; C0] /\ gs s = [GWrite false 0; GWrite true 0] /\ rt s = RWait 0 /\ map wp (trs s) = [WPSel] /\ map rp (trs s) = [RPHand] /\
  (forall i, getG s i <> GBody) /\
  (match run good s (help (rank s 0) s 0) with Some s' => (getC s' 0, final s') | None => (CCrash, false) end) = (CRet true, true) /\
  length (help (rank s 0) s 0) = 16.
Proof.
  vm_compute. repeat split; auto. intros [|[|[|i]]]; discriminate.
Qed.

(* no goroutine of the connection remains: `final` (above) still lets a read pump be on its way out (its socket is closed, or
   it holds a message and closeConn or writeDone is closed). After a tearing Close has returned, in every later state, those
   read pumps end by their own next steps - one step each, nothing else needed - and the state is then final with every
   read pump gone *)
Theorem C09_nothing_left_after_close : forall ls, let s := exec good init ls in tore s = true ->
  let s' := exec good s (map LRp (seq 0 (length (trs s)))) in
  final s' = true /\ forallb rp_out (trs s') = true.
Proof. exact nothing_left_after_close. Qed.
Print Assumptions C09_nothing_left_after_close.

(* the code as it was before the repairs, refuted: Invoke after Close and a second Close kill the
   process (cfg without the nil guards) *)
Theorem C09_old_invoke_after_close_refuted :
  crashed (exec (mkCfg false true true true true true true true true true) init [LNewClose; LClose 0 true; LClose 0 true; LNewInvoke; LG 0 GA]) = true.
Proof. vm_compute. reflexivity. Qed.
Print Assumptions C09_old_invoke_after_close_refuted.
Theorem C09_old_second_close_refuted :
  crashed (exec (mkCfg true true true true true true true true false true) init [LNewClose; LNewClose; LClose 0 true; LClose 0 true; LClose 1 true; LClose 1 true]) = true.
Proof. vm_compute. reflexivity. Qed.
Print Assumptions C09_old_second_close_refuted.
