From WV Require Import Model.FsmPub Proofs.FsmPubP.
Theorem C09_placeholder : forall ls ls2, well_used ls -> csm (exec init (ls ++ LTeardown :: LPublishShutdown :: ls2)) = Shutdown.
Proof. exact closed_reports_shutdown. Qed.
Print Assumptions C09_placeholder.
