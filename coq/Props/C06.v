(* C06 — bounded backoff (the arithmetic and the loop of addrConn.resetTransport). The recovery
   half (a live client returns to Ready) is the bounded-escape theorem of Props/C08's state
   machine model plus the end-to-end fault runs of this check. *)
From Coq Require Import ZArith List.
From WV Require Import Model.Backoff Proofs.BackoffP.
From WV Require Model.FsmPub Proofs.FsmPubP.
Import ListNotations.
Open Scope Z_scope.

(* The pause never exceeds the ceiling: cap + jitter * cap (+ 1 ns), for every attempt number and
   every random draw - 144 s for the documented configuration. *)
Theorem C06_ceiling : forall c n p, sane c -> in_pause c (interval c n) p = true ->
  0 <= p <= (cap c * (jden c + jnum c)) / jden c + 1.
Proof. intros c n p S H. split; [eapply pause_floor; eauto | eapply pause_ceiling; eauto]. Qed.
Print Assumptions C06_ceiling.

(* Grows from the base: interval 0 is the base, intervals never decrease, never exceed the cap,
   and increase strictly while below the cap. *)
Theorem C06_grows : forall c, sane c ->
  interval c 0 = base c /\ (forall n, interval c n <= interval c (S n)) /\ (forall n, interval c n <= cap c) /\
  (forall n, interval c n < cap c -> mden c < mnum c -> mden c <= interval c n * (mnum c - mden c) -> interval c n < interval c (S n)).
Proof. intros c S. repeat split; intros; [apply interval_monotone | apply interval_le_cap | apply interval_grows]; auto. Qed.
Print Assumptions C06_grows.

(* Starts from the base again after a successful connection: in the reconnect loop, for every
   history of dial outcomes, the sleeps after a success are those of a fresh loop; k consecutive
   failures sleep with intervals 0 .. k-1; exactly one sleep per failed attempt. *)
Theorem C06_reset_after_success : forall n o1 o2,
  loop_sleeps n (o1 ++ true :: o2) = loop_sleeps n o1 ++ loop_sleeps O o2.
Proof. exact loop_after_success. Qed.
Print Assumptions C06_reset_after_success.
Theorem C06_failures_grow : forall n k, loop_sleeps n (repeat false k) = map (fun i => (n + i)%nat) (seq 0 k).
Proof. exact loop_failures. Qed.
Print Assumptions C06_failures_grow.
Theorem C06_one_sleep_per_failure : forall n os, length (loop_sleeps n os) = length (filter negb os).
Proof. exact loop_one_sleep_per_failure. Qed.
Print Assumptions C06_one_sleep_per_failure.

(* Recovers by itself: from EVERY reachable state of a connection that has not been closed
   (whatever faults, refused dials and lost transports led there), if dials succeed from now on
   the continuation FsmPubP.recover - at most six steps, all of them steps of the library's own
   loops, the timer and the dial outcome; no user action - ends in Ready, published, with a fresh
   transport recorded and watched. *)
Theorem C06_recovers : forall ls, WV.Proofs.FsmPubP.well_used ls ->
  let s := WV.Model.FsmPub.exec WV.Model.FsmPub.init ls in
  WV.Model.FsmPub.torn s = false ->
  let s' := WV.Model.FsmPub.exec s (WV.Proofs.FsmPubP.recover s) in
  WV.Model.FsmPub.acst s' = WV.Model.FsmPub.Ready /\ WV.Model.FsmPub.csm s' = WV.Model.FsmPub.Ready /\
  (length (WV.Proofs.FsmPubP.recover s) <= 6)%nat /\
  exists t, WV.Model.FsmPub.tr s' = Some t /\ WV.Model.FsmPub.mem t (WV.Model.FsmPub.fired s') = false /\ WV.Model.FsmPub.r s' = WV.Model.FsmPub.RWait t.
Proof. exact WV.Proofs.FsmPubP.recovers. Qed.
Print Assumptions C06_recovers.

Example C06_documented_sane : sane documented. Proof. exact documented_sane. Qed.
