(* C17 — dead peers are detected, healthy idle sessions are kept. W = pongWait, P = pingPeriod
   (regenerated from the compiled code on every run; 0 < P < W and W + P <= 38 s re-checked). *)
From Coq Require Import ZArith List Lia.
From WV Require Import Model.Keepalive Proofs.KeepaliveP.
Open Scope Z_scope.

(* A peer silent from time T on (no pong arrives after T, whatever arrived before and whenever
   in the ping cycle T falls) is torn down by T + W, hence within W + P. *)
Theorem C17_detect : forall W pongs T, 0 <= W -> 0 <= T -> Forall (fun t => t <= T) pongs ->
  teardown W pongs <= T + W.
Proof. exact detect. Qed.
Print Assumptions C17_detect.

(* A healthy idle session (round trip rtt with rtt + P < W) survives any number n of ping
   cycles: every pong is in time and the deadline moves to W past the n-th pong. *)
Theorem C17_idle_kept : forall W P rtt n, 0 <= rtt -> 0 < P -> rtt + P < W -> (0 < n)%nat ->
  teardown W (healthy_pongs P rtt 1 n) = Z.of_nat n * P + rtt + W.
Proof. exact idle_kept. Qed.
Print Assumptions C17_idle_kept.

(* the premises are satisfiable by the documented constants: W = 20 s, P = 18 s, rtt < 2 s *)
Example C17_premises : 0 <= 1000000 /\ 0 < 18000000000 /\ 1000000 + 18000000000 < 20000000000.
Proof. lia. Qed.
