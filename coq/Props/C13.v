(* C13 — waiters for state or peer-set changes never miss a change (Model/Notify.v).
   ls ranges over ALL schedules of the waiter's three steps with any number of state changes and
   of other goroutines fetching the channel. *)
From Coq Require Import List.
From WV Require Import Model.Notify Proofs.NotifyP.
Import ListNotations.

(* No lost wake-up: whenever the waiter has decided to block on channel c - however its steps
   interleaved with changes - either c is already closed (it will be woken) or the state really
   still is one it must wait in (the source state; for WaitForReady: neither Ready nor Shutdown). *)
Theorem C13_no_lost_wakeup : forall a kd ls c, w (exec (init a kd) ls) = W2 c ->
  let s := exec (init a kd) ls in
  is_closed c (m s) = true \/
  match kd with KStateChange src => st (m s) = src | KReady => st (m s) <> READY /\ st (m s) <> SHUTDOWN end.
Proof. exact no_lost_wakeup. Qed.
Print Assumptions C13_no_lost_wakeup.

(* WaitForStateChange returns false only because its own context ended. *)
Theorem C13_false_only_ctx : forall a src ls, w (exec (init a (KStateChange src)) ls) = WFalse ->
  ctx_done (exec (init a (KStateChange src)) ls) = true.
Proof. exact false_only_ctx. Qed.
Print Assumptions C13_false_only_ctx.

(* Woken for every change: a parked waiter returns true by its own next step as soon as the state
   differs from the one it was asked to leave; nobody else has to move. *)
Theorem C13_wakes : forall a src ls c, let s := exec (init a (KStateChange src)) ls in
  w s = W2 c -> st (m s) <> src -> exists s', step s LWSelect = Some s' /\ w s' = WTrue.
Proof. exact wakes. Qed.
Print Assumptions C13_wakes.

(* The blocking dial returns Ready only after reading Ready and gives up only on a wait that
   returned false; before that every wait returned true from a non-Ready state. *)
Theorem C13_blocking_dial : forall its,
  (dial_loop its = DReady -> exists pre b post, its = pre ++ (READY, b) :: post /\ Forall (fun x => fst x <> READY /\ snd x = true) pre) /\
  (dial_loop its = DCtx -> exists pre s post, its = pre ++ (s, false) :: post /\ s <> READY /\ Forall (fun x => fst x <> READY /\ snd x = true) pre).
Proof. exact dial_loop_spec. Qed.
Print Assumptions C13_blocking_dial.

(* The server's peer-set channel: a channel obtained before a change of the connected set is
   closed in every later state, whatever happens before and after. *)
Theorem C13_server_notify : forall mm ops1 s ops2,
  let '(m1, c) := getchan (fold_left rstep ops1 mm) in
  is_closed c (fold_left rstep ops2 (change m1 s)) = true.
Proof. exact obtained_before_change_is_closed. Qed.
Print Assumptions C13_server_notify.
