(* C05 — a call runs its handler at most once and is answered exactly once (Model/Session.v). *)
From Coq Require Import List.
From WV Require Import Model.Session Proofs.SessionP.
Import ListNotations.

(* For EVERY history - timeouts, connection loss and recovery, frames injected by the peer,
   anything - at most one handler instance is ever started by the request frame of call i: the
   library never re-sends a request and never dispatches one frame twice. *)
Theorem C05_at_most_once : forall sa sb ls i, cnt i (map h_src (hs (exec (init sa sb) ls))) <= 1.
Proof. exact at_most_once. Qed.
Print Assumptions C05_at_most_once.

(* never two responses for one handler instance, in every history *)
Theorem C05_single_response : forall sa sb ls, NoDup (answered (exec (init sa sb) ls)).
Proof. exact single_response. Qed.
Print Assumptions C05_single_response.

(* exactly one: an instance that returns - reply, typed error, or an error without a value, as a
   generated stub does for an undecodable request - while its session is up has its response
   frame, carrying the request's call id, written *)
Theorem C05_answered_when_up : forall s h hi o, nth_error (hs s) h = Some hi -> h_out hi = None -> up s = true ->
  In h (answered (step s (LRet h o))) /\
  In (MResp (resp_for (h_req hi) o), OHandler h) (inq (step s (LRet h o)) (other (h_side hi))).
Proof. exact answered_when_up. Qed.
Print Assumptions C05_answered_when_up.
Theorem C05_same_call_id : forall r o, p_callid (resp_for r o) = r_callid r.
Proof. exact resp_for_callid. Qed.
Print Assumptions C05_same_call_id.
