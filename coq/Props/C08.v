(* C08 — the reported connectivity state is truthful and follows the legal state machine.
   Model/FsmPub.v; ls ranges over ALL histories of the labels of the reconnect loop, the close
   callbacks of any number of transports, connection losses, dial outcomes, timers and Close.
   well_used ls: the context that was passed to DialWithContext is not cancelled behind the
   connection's back (see the refutation at the end). *)
From Coq Require Import List.
From WV Require Import Model.FsmPub Proofs.FsmPubP.
Import ListNotations.

(* the state only moves Idle->Connecting, Connecting->Ready|TransientFailure,
   TransientFailure->Connecting, Ready->Idle and anything->Shutdown *)
Theorem C08_auth_legal : forall ls, well_used ls -> chain Idle (auth (exec init ls)) = true.
Proof. exact auth_legal. Qed.
Print Assumptions C08_auth_legal.

(* what is reported is exactly that history - every transition, in order, none skipped - as long
   as the connection has not been closed *)
Theorem C08_pub_faithful : forall ls, well_used ls -> let s := exec init ls in torn s = false -> pub s = auth s /\ csm s = acst s.
Proof. exact pub_faithful. Qed.
Print Assumptions C08_pub_faithful.

(* Shutdown is permanent ... *)
Theorem C08_shutdown_final : forall ls l, let s := exec init ls in acst s = Shutdown -> acst (step s l) = Shutdown.
Proof. exact shutdown_final. Qed.
Print Assumptions C08_shutdown_final.
(* ... and it is what a closed connection reports, whatever happens afterwards *)
Theorem C08_closed_reports_shutdown : forall ls ls2, well_used ls ->
  csm (exec init (ls ++ LTeardown :: LPublishShutdown :: ls2)) = Shutdown.
Proof. exact closed_reports_shutdown. Qed.
Print Assumptions C08_closed_reports_shutdown.

(* Ready is truthful: a transport is recorded, its close callback has not run, the reconnect loop
   watches it; and if that transport has died its callback is enabled and leads to Idle *)
Theorem C08_ready_truthful : forall ls, well_used ls -> let s := exec init ls in acst s = Ready ->
  exists t, tr s = Some t /\ mem t (fired s) = false /\ r s = RWait t /\
            (mem t (dead s) = true -> acst (step s (LAfterPump t)) = Idle).
Proof. exact ready_truthful. Qed.
Print Assumptions C08_ready_truthful.

(* KNOWN FINDING (ready-zombie-after-dial-context-cancelled): cancelling the context that was given
   to DialWithContext after the dial succeeded stops the reconnect loop while the state stays
   Ready; when the transport then dies the state goes Idle and nobody ever reconnects. *)
Theorem C08_cancelled_dial_context_refuted :
  let s := exec init [LConnect; LTop; LDialOk; LSetReady; LCancelCtx; LCtxExit; LDies 0; LAfterPump 0] in
  r s = RExit /\ acst s = Idle /\ torn s = false /\ recover s = [].
Proof. vm_compute. repeat split. Qed.
Print Assumptions C08_cancelled_dial_context_refuted.
