(* C12 — revoking a key takes effect immediately, completely and only for that key (Model/Registry.v). *)
From Coq Require Import List.
From WV Require Import Model.Registry Proofs.RegistryP Model.Auth Proofs.AuthP.
Import ListNotations.

(* Once an update has been applied, and in every later state until the next update, every
   registered session has a key on the new list - whatever was in progress while the update ran:
   handshakes that had passed the certificate check, the single-session check or the upgrade are
   turned down at registration. *)
Theorem C12_complete : forall ks ls new ls2 k sid,
  let st := exec (step (exec (init ks) ls) (LUpdate new)) ls2 in
  (forall l, In l ls2 -> forall x, l <> LUpdate x) -> route st k = Some sid -> In k new.
Proof. exact revocation_complete. Qed.
Print Assumptions C12_complete.

Theorem C12_registered_are_listed : forall ks ls k sid, let st := exec (init ks) ls in route st k = Some sid -> In k (allow st).
Proof. exact registered_are_listed. Qed.
Print Assumptions C12_registered_are_listed.

(* only for that key: a session whose key stays listed keeps its registration and its state *)
Theorem C12_precise : forall st new k, Registry.mem k new = true ->
  route (step st (LUpdate new)) k = route st k /\
  (forall sid, route st k = Some sid -> RInv st -> sess (step st (LUpdate new)) sid = sess st sid).
Proof. exact revocation_precise. Qed.
Print Assumptions C12_precise.

(* an update containing a key that does not have 32 bytes is rejected (valid_keys, shared with C03) *)
Theorem C12_invalid_rejected : forall ks, valid_keys ks = true <-> Forall (fun k => length k = 32%nat) ks.
Proof. exact valid_keys_spec. Qed.
Print Assumptions C12_invalid_rejected.
