(* C03 — only keys on the allow-list get a session. The handshake-to-session step itself
   (no request of a refused peer is dispatched) is the HsVerify label of Model/Registry.v (C11). *)
From Coq Require Import List.
From WV Require Import Model.Auth Proofs.AuthP.
Import ListNotations.

(* accepted exactly when the peer presented one certificate, carrying an Ed25519 key that is listed *)
Theorem C03_accept_iff : forall allow raw,
  verify allow raw = Accept <-> exists k, raw = [Parsed Ed25519 k] /\ In k allow.
Proof. exact verify_accept_iff. Qed.
Print Assumptions C03_accept_iff.

(* zero or several certificates, an unparseable one, another algorithm, an unlisted key: refused *)
Theorem C03_refused : forall allow,
  verify allow [] = Refuse /\ (forall c1 c2 r, verify allow (c1 :: c2 :: r) = Refuse) /\
  verify allow [Unparseable] = Refuse /\ (forall k, verify allow [Parsed OtherAlg k] = Refuse) /\
  (forall k, ~ In k allow -> verify allow [Parsed Ed25519 k] = Refuse).
Proof. exact refuse_cases. Qed.
Print Assumptions C03_refused.

(* every configuration entry point accepts a key list iff all keys have 32 bytes *)
Theorem C03_config_len : forall ks, valid_keys ks = true <-> Forall (fun k => length k = 32%nat) ks.
Proof. exact valid_keys_spec. Qed.
Print Assumptions C03_config_len.

Theorem C03_accepted_len : forall allow raw, valid_keys allow = true -> verify allow raw = Accept ->
  exists k, raw = [Parsed Ed25519 k] /\ length k = 32%nat.
Proof. exact accepted_key_len. Qed.
Print Assumptions C03_accepted_len.
