(* C16 — the envelope wire format is stable and lossless. Statements only. *)
From WV Require Import Model.Wire Proofs.WireP.
Open Scope N_scope.

(* Every well-formed envelope (string fields valid UTF-8; lengths below 2^64, which
   every Go slice satisfies) has a frame, and the independent decoder of the
   published schema reads back exactly its values; no bound on any length. *)
Theorem C16_roundtrip : forall m, wf m = true -> small_msg m ->
  exists b, encode m = Some b /\ decode b = Good m.
Proof. exact roundtrip. Qed.
Print Assumptions C16_roundtrip.

(* The frame is the published schema written out: request in field 2 (tag 0x12)
   with method 1, call id 2, payload 3; response in field 3 (tag 0x1a) with call id
   1, payload 2, error 3. *)
Theorem C16_layout_request : forall r, wf_req r = true ->
  encode (MReq r) = Some (18 :: varint (len (body_req r)) ++ fld 1 (r_method r) ++ fld 2 (r_callid r) ++ fld 3 (r_payload r)).
Proof. exact layout_request. Qed.
Print Assumptions C16_layout_request.
Theorem C16_layout_response : forall p, wf_resp p = true ->
  encode (MResp p) = Some (26 :: varint (len (body_resp p)) ++ fld 1 (p_callid p) ++ fld 2 (p_payload p) ++ fld 3 (p_error p)).
Proof. exact layout_response. Qed.
Print Assumptions C16_layout_response.

(* No frame at all is produced exactly when a string field is not valid UTF-8. *)
Theorem C16_encode_none : forall m, encode m = None <-> wf m = false.
Proof. exact encode_none. Qed.
Print Assumptions C16_encode_none.

(* Lossless: two different envelopes never produce the same frame. *)
Theorem C16_injective : forall m1 m2 b, small_msg m1 -> small_msg m2 ->
  encode m1 = Some b -> encode m2 = Some b -> m1 = m2.
Proof. exact encode_injective. Qed.
Print Assumptions C16_injective.
