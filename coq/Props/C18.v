(* C18 — size limits and write timeouts are enforced as configured. K are the constants of
   the implementation (regenerated on every run and compared with `documented`). *)
From Coq Require Import ZArith List.
From WV Require Import Model.Limits Proofs.LimitsP.
Open Scope Z_scope.

(* Every list of dial options maps to: the last WithReadLimit value if non-zero, else 100 MB. *)
Theorem C18_client_read_limit : forall K os,
  rl (client_eff K os) = or_default (last_rl_d os None) (tr_read_limit K).
Proof. exact client_read_limit. Qed.
Print Assumptions C18_client_read_limit.
Theorem C18_client_write_timeout : forall K os,
  wt (client_eff K os) = or_default (last_wt_d os None) (tr_write_timeout K).
Proof. exact client_write_timeout. Qed.
Print Assumptions C18_client_write_timeout.

(* Server: the last WithWSReadLimit value if non-zero, else the server default (10 MB). *)
Theorem C18_server_read_limit : forall K os, srv_read_limit K <> 0 ->
  rl (server_eff K os) = or_default (last_rl_s os None) (srv_read_limit K).
Proof. exact server_read_limit. Qed.
Print Assumptions C18_server_read_limit.
Theorem C18_server_write_timeout : forall K os, srv_ws_timeout K = tr_write_timeout K ->
  wt (server_eff K os) = or_default (last_wt_s os None) (srv_ws_timeout K).
Proof. exact server_write_timeout. Qed.
Print Assumptions C18_server_write_timeout.

(* Independence: the effective read limit is what it would be if only the read-limit options had been given, the effective
   write timeout what it would be with the write-timeout options alone - in whatever order and among whatever other options
   (credentials, logger, buffer sizes) they stand. *)
Theorem C18_client_options_independent : forall K os,
  rl (client_eff K os) = rl (client_eff K (filter is_rl_d os)) /\ wt (client_eff K os) = wt (client_eff K (filter is_wt_d os)).
Proof. exact client_independent. Qed.
Print Assumptions C18_client_options_independent.
Theorem C18_server_options_independent : forall K os, srv_read_limit K <> 0 -> srv_ws_timeout K = tr_write_timeout K ->
  rl (server_eff K os) = rl (server_eff K (filter is_rl_s os)) /\ wt (server_eff K os) = wt (server_eff K (filter is_wt_s os)).
Proof. exact server_independent. Qed.
Print Assumptions C18_server_options_independent.

(* the premises hold of the documented constants *)
Example C18_premises : srv_read_limit documented <> 0 /\ srv_ws_timeout documented = tr_write_timeout documented.
Proof. split; [discriminate|reflexivity]. Qed.

(* A frame over a positive limit is never delivered; a frame up to the limit is. *)
Theorem C18_oversize_never_delivered : forall limit size, 0 < limit -> limit < size -> deliver limit size = false.
Proof. exact deliver_over. Qed.
Print Assumptions C18_oversize_never_delivered.
Theorem C18_upto_limit_delivered : forall limit size, size <= limit -> deliver limit size = true.
Proof. exact deliver_upto. Qed.
Print Assumptions C18_upto_limit_delivered.
