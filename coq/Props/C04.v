(* C04 — peer identity is authentic and calls are isolated between peers. *)
From Coq Require Import List.
From WV Require Import Model.Multi Proofs.MultiP Proofs.SessionP.
Import ListNotations.

(* Non-interference: for every history over any number of peers - including frames of any
   content sent by the others, e.g. responses carrying the ids of calls pending towards K - the
   state of session K (its pending calls, frames in flight, handler instances, results) is what
   K's own labels alone produce. Nothing one peer sends can complete, fail or otherwise affect a
   call addressed to another. *)
Theorem C04_isolated : forall h ms K, mexec ms h K = exec (ms K) (concerns K h).
Proof. exact isolated. Qed.
Print Assumptions C04_isolated.
Theorem C04_others_irrelevant : forall h1 h2 ms K, concerns K h1 = concerns K h2 -> mexec ms h1 K = mexec ms h2 K.
Proof. exact others_irrelevant. Qed.
Print Assumptions C04_others_irrelevant.

(* Within its own session a response is taken only for a call pending on that session, and a
   handler instance is started only by a frame that arrived on that session (Session.step reads
   and writes component K only); the per-session statements of C01 then apply to every K. *)
Theorem C04_delivery_needs_own_pending : forall sa sb ls, NoDup (call_ids ls) ->
  forall x, pend (exec (init sa sb) ls) x = inflight (exec (init sa sb) ls) x.
Proof. exact pending_eq_inflight. Qed.
Print Assumptions C04_delivery_needs_own_pending.
