(* C10 — stopping the server is safe and final.
   Model/StopLTS.v: any number of Stop calls, Serve, any number of handshakes (quit check, single-
   connection check, upgrade, admission under the lock), every admitted session with its read
   pump, write pump, deferred calls and close callback and its reader, UpdatePublicKeys dropping
   sessions, API calls at any moment; one label per scheduling step or environment move. `good` is
   the configuration of the code as it is now (re-extracted from the sources on every run); ls
   ranges over ALL schedules. *)
From Coq Require Import List.
From WV Require Import Model.StopLTS Proofs.StopP.
Import ListNotations.

(* Stop never crashes the process, whatever it lands on (handshakes in progress, API calls, a
   second Stop), and neither does anything that is called afterwards *)
Theorem C10_never_crashes : forall ls, crashed (exec good init ls) = false.
Proof. intros ls. exact (i_nc _ (inv_exec ls init inv_init)). Qed.
Print Assumptions C10_never_crashes.

(* once a Stop which tore the server down has returned - in every state of every schedule from
   then on - quit and done have fired (so Serve returns by its own next step), the connection
   manager is detached, every session ever admitted has run its close callback (unregistered,
   wait group unit released, reader released), its socket is closed, its read pump can at most be
   on its way out, and no refused handshake holds an open socket *)
Theorem C10_stopped_is_final : forall ls, tore (exec good init ls) = true -> final (exec good init ls) = true.
Proof. intros ls. apply inv_final. exact (inv_exec ls init inv_init). Qed.
Print Assumptions C10_stopped_is_final.

(* no new session is admitted once the connection manager has been detached: no handshake step
   adds a session *)
Theorem C10_nothing_admitted_after_stop : forall ls, let s := exec good init ls in cmgr s = false ->
  forall j ok s', step good s (LHs j ok) = Some s' -> length (ss s') = length (ss s).
Proof. exact nothing_admitted_after_stop. Qed.
Print Assumptions C10_nothing_admitted_after_stop.

(* a second Stop returns by its own steps, and every API call returns, at any moment *)
Theorem C10_second_stop_returns : forall ls k, let s := exec good init ls in
  cmgr s = false -> k < length (stops s) -> getP s k = P1 -> step good s (LStop k) = Some (setP (s <| done := true |>) k (PRet false)).
Proof. exact second_stop_returns. Qed.
Print Assumptions C10_second_stop_returns.
Theorem C10_api_returns : forall ls a, let s := exec good init ls in step good s (LApi a) = Some s.
Proof. exact api_after_stop_returns. Qed.
Print Assumptions C10_api_returns.

(* Stop returns - bounded escape, no fairness assumed: from EVERY reachable state and for every Stop
   call k in progress there is a continuation of at most 5 + 3 x (number of sessions) steps, made
   only of Stop k's own steps and of steps of the sessions' write pumps and close callbacks (no
   step of the network, of a peer, of a handler, of a handshake or of another caller), after which
   Stop k has returned; then Serve returns by its own next step *)
Theorem C10_stop_returns : forall ls k, let s := exec good init ls in k < length (stops s) ->
  exists hl, length hl <= 5 + 3 * length (ss s) /\ Forall (fun l => l = LStop k \/ is_pump l) hl /\ exists b, getP (exec good s hl) k = PRet b.
Proof. exact stop_returns. Qed.
Print Assumptions C10_stop_returns.
Theorem C10_serve_returns : forall ls, let s := exec good init ls in done s = true -> serve s = true -> step good s LServe = Some (s <| serve := false |>).
Proof. exact serve_returns. Qed.
Print Assumptions C10_serve_returns.

(* no goroutine serving a session remains: `final` (above) still lets a read pump be on its way out, and says nothing about
   the readers (Server.handleRead), which Stop does not wait for. After a tearing Stop has returned, in every later state,
   they end by their own next steps - at most two per session, nothing else needed - and the state is then final with every
   read pump and every reader gone *)
Theorem C10_nothing_left_after_stop : forall ls, let s := exec good init ls in tore s = true ->
  let s' := exec good s (rest_of (length (ss s))) in
  final s' = true /\ forallb rp_out (ss s') = true /\ forallb hr_out (ss s') = true.
Proof. exact nothing_left_after_stop. Qed.
Print Assumptions C10_nothing_left_after_stop.

(* the code as it was, refuted: any API call after Stop, and a second Stop, kill the process *)
Theorem C10_old_api_after_stop_refuted :
  crashed (exec (mkCfg true false true true true true true true true true true) init [LNewStop; LStop 0; LStop 0; LApi AOpen]) = true.
Proof. vm_compute. reflexivity. Qed.
Print Assumptions C10_old_api_after_stop_refuted.
Theorem C10_old_second_stop_refuted :
  crashed (exec (mkCfg false true true true true true true true true true true) init [LNewStop; LNewStop; LStop 0; LStop 0; LStop 1; LStop 1]) = true.
Proof. vm_compute. reflexivity. Qed.
Print Assumptions C10_old_second_stop_refuted.
