(* C14 — no per-call resource growth: the pending-call records of an endpoint are exactly the
   calls still in flight (Model/Session.v). Goroutines, timers and sockets are runtime objects:
   they are counted by the harness, not by the model (see DESIGN.md). *)
From Coq Require Import List.
From WV Require Import Model.Session Proofs.SessionP.
Import ListNotations.

(* In every state of every history with fresh ids, for both endpoints: the table holds exactly
   the ids of that endpoint's calls that have not returned yet - whatever the outcome of the
   others was (reply, remote error, timeout, cancellation, refused write, lost connection). *)
Theorem C14_pending_eq_inflight : forall sa sb ls, NoDup (call_ids ls) ->
  forall x, pend (exec (init sa sb) ls) x = inflight (exec (init sa sb) ls) x.
Proof. exact pending_eq_inflight. Qed.
Print Assumptions C14_pending_eq_inflight.

(* hence empty at quiescence *)
Theorem C14_empty_at_quiescence : forall sa sb ls, NoDup (call_ids ls) ->
  (forall m, In m (calls (exec (init sa sb) ls)) -> snd m <> CPending) -> forall x, pend (exec (init sa sb) ls) x = [].
Proof. exact empty_at_quiescence. Qed.
Print Assumptions C14_empty_at_quiescence.
