(* C14 — no per-call or per-reconnect resource growth: the pending-call records of an endpoint are
   exactly the calls still in flight (Model/Session.v); the pumps of a client's transports do not
   accumulate over reconnects (Model/CloseLTS.v) and an ended server session keeps nothing
   (Model/StopLTS.v). Goroutines, timers and sockets as runtime objects are counted by the
   harness (see DESIGN.md); here they are the threads and flags of the models. *)
From Coq Require Import List.
From WV Require Import Model.Session Proofs.SessionP.
From WV Require Model.CloseLTS Proofs.CloseP Proofs.CloseLive Model.StopLTS Proofs.StopP.
Import ListNotations.

(* In every state of every history with fresh ids, for both endpoints: the table holds exactly
   the ids of that endpoint's calls that have not returned yet - whatever the outcome of the
   others was (reply, remote error, timeout, cancellation, refused write, lost connection). *)
Theorem C14_pending_eq_inflight : forall sa sb ls, NoDup (call_ids ls) ->
  forall x, pend (exec (init sa sb) ls) x = inflight (exec (init sa sb) ls) x.
Proof. exact pending_eq_inflight. Qed.
Print Assumptions C14_pending_eq_inflight.

(* hence empty at quiescence *)
Theorem C14_empty_at_quiescence : forall sa sb ls, NoDup (call_ids ls) ->
  (forall m, In m (calls (exec (init sa sb) ls)) -> snd m <> CPending) -> forall x, pend (exec (init sa sb) ls) x = [].
Proof. exact empty_at_quiescence. Qed.
Print Assumptions C14_empty_at_quiescence.

(* the client, over any number of connection losses, failed dials, reconnects and Close calls (every schedule of
   Model/CloseLTS.v): at any moment at most three transports have a write pump which has not ended - the current one, the one
   the reconnect loop has in its hands, the one a Close is closing - and the read pump of a transport whose write pump has
   ended is gone or ends by its own next step *)
Module CL.
Import WV.Model.CloseLTS WV.Proofs.CloseP WV.Proofs.CloseLive.
Theorem C14_client_pumps_do_not_accumulate : forall ls, let s := exec good init ls in
  (exists l, length l <= 3 /\ forall g, g < length (trs s) -> wp (getT s g) <> WPExit -> In g l) /\
  (forall g, g < length (trs s) -> wp (getT s g) = WPExit -> rp (getT s g) <> RPExit -> exists s', step good s (LRp g) = Some s').
Proof. exact pumps_do_not_accumulate. Qed.
Print Assumptions C14_client_pumps_do_not_accumulate.
End CL.

(* the server, over any schedule of handshakes, sessions ending, key updates and Stop (Model/StopLTS.v): a session whose close
   callback has run is unregistered, has released its wait-group unit and its reader, its socket is closed, and what is left
   of it - a read pump, the reader - ends by its own next step *)
Module SL.
Import WV.Model.StopLTS WV.Proofs.StopP.
Theorem C14_ended_server_session_keeps_nothing : forall ls i, let s := exec good init ls in
  i < length (ss s) -> wp (getS s i) = WDone ->
  reg (getS s i) = false /\ rel (getS s i) = true /\ sock (getS s i) = true /\
  (rp (getS s i) <> RExit -> exists s', step good s (LRp i) = Some s') /\
  (hr (getS s i) = HRun -> exists s', step good s (LHr i) = Some s').
Proof. exact ended_session_leaves. Qed.
Print Assumptions C14_ended_server_session_keeps_nothing.
End SL.
