(* C19 — generated stubs connect each caller to its handler (wsrpc generator; the grpc-flavoured
   one emits the same wsrpc half, checked by the same harness). "Compiles" is not expressible in
   the model: it is validated by go build of every generated package in the check. *)
From Coq Require Import List.
From WV Require Import Model.Gen Proofs.GenP.
Import ListNotations.

(* For every service with distinct method names whose Go names stay distinct, and every method m:
   the client stub generated for m, invoked on a peer where the generated descriptor was
   registered (later duplicates win, as the endpoints register), runs exactly the handler
   generated for m, which decodes m's input type and calls m's Go method on the service. *)
Theorem C19_connects : forall s, valid s -> forall m, In m (s_methods s) ->
  route (gen_svc s) {| st_go := go_camel (m_name m); st_invoke := m_name m; st_in := m_in m; st_out := m_out m |}
  = Some {| h_name := hname (go_camel (s_name s)) (go_camel (m_name m)); h_in := m_in m;
            h_srv := go_camel (s_name s) ++ str_Server; h_call := go_camel (m_name m) |}.
Proof. exact connects. Qed.
Print Assumptions C19_connects.

(* every method has its stub *)
Theorem C19_stubs_cover : forall s m, In m (s_methods s) ->
  In {| st_go := go_camel (m_name m); st_invoke := m_name m; st_in := m_in m; st_out := m_out m |} (g_stubs (gen_svc s)).
Proof. exact stubs_cover. Qed.
Print Assumptions C19_stubs_cover.

(* a file without services yields no output file; otherwise one block per service, in order *)
Theorem C19_zero_services : gen_file [] = None.
Proof. exact zero_services. Qed.
Print Assumptions C19_zero_services.
Theorem C19_some_services : forall s ss, gen_file (s :: ss) = Some (map gen_svc (s :: ss)).
Proof. exact some_services. Qed.
Print Assumptions C19_some_services.
