(* C07 — no sequence of inbound frames can crash, wedge or mis-dispatch an endpoint.
   The model (Model/Dispatch.v) is total: every byte string has exactly one of the
   three effects, and none of them is a crash or a blocked dispatcher. *)
From Coq Require Import List.
From WV Require Import Model.Dispatch Proofs.DispatchP.
Import ListNotations.

(* A registered handler runs only for a well-formed request that names it and, on the
   server, carries a version-4 UUID; in a sequence of any length, the i-th effect is
   justified by the i-th frame alone. *)
Theorem C07_run_only_wellformed : forall fs e i q,
  nth_error (fst (run e fs)) i = Some (ERun q) ->
  exists f ms, nth_error fs i = Some f /\ decode f = Good (MReq q) /\ e_svc e = Some ms /\
               In (r_method q) ms /\ (e_role e = Srv -> is_v4 (r_callid q) = true).
Proof. exact run_effects_sound. Qed.
Print Assumptions C07_run_only_wellformed.

(* A response is handed over only to a call pending towards the sending peer. *)
Theorem C07_deliver_only_pending : forall e f p, fst (process e f) = EDeliver p ->
  decode f = Good (MResp p) /\ In (p_callid p) (e_pending e).
Proof. exact process_deliver. Qed.
Print Assumptions C07_deliver_only_pending.

(* No accumulation: whatever is sent, the endpoint's role and service are untouched and
   its pending table only ever shrinks. *)
Theorem C07_no_accumulation : forall fs e, let e' := snd (run e fs) in
  e_role e' = e_role e /\ e_svc e' = e_svc e /\ incl (e_pending e') (e_pending e) /\
  (length (e_pending e') <= length (e_pending e))%nat.
Proof. exact run_static. Qed.
Print Assumptions C07_no_accumulation.

(* Keeps serving: after any sequence, a request frame is treated exactly as on the fresh endpoint. *)
Theorem C07_keeps_serving : forall fs e f q, decode f = Good (MReq q) ->
  fst (process (snd (run e fs)) f) = fst (process e f).
Proof. exact run_keeps_serving. Qed.
Print Assumptions C07_keeps_serving.

(* Every frame of every sequence gets an effect (the dispatcher never stops). *)
Theorem C07_total : forall fs e, length (fst (run e fs)) = length fs.
Proof. exact run_effects_length. Qed.
Print Assumptions C07_total.
