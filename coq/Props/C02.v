(* C02 — calls end with their context, and a timed-out call never wedges the endpoint.
   Model/Rendezvous.v: Server.Invoke against Server.handleMessageResponse, any number of
   invokers and responders (genuine, late, duplicate or forged responses), the per-call channel
   with capacity 1. sched ranges over ALL schedules. Liveness is stated as bounded escape: from
   every reachable state an explicit continuation of bounded length, made only of steps of the
   caller itself and of the current lock holder, reaches the goal - no fairness assumption. *)
From Coq Require Import List.
From WV Require Import Model.Rendezvous Proofs.RendezvousP.
From WV Require Model.RendezvousC Proofs.RendezvousCP.
Import ListNotations.

(* Returns with its context: whatever is happening - the response racing the timeout, a silent
   peer, duplicates - a caller whose context has ended returns after at most 7 steps of itself and
   of whoever holds the lock at that moment. *)
Theorem C02_returns : forall sched i,
  let s := exec true init sched in
  ctx s i = true ->
  let e := esc (rank s i) s i in
  own (ipcs (exec true s e) i) = 0 /\ length e <= 7.
Proof. exact returns_after_ctx. Qed.
Print Assumptions C02_returns.

(* The endpoint stays usable: in every reachable state the lock is released within two steps of
   its holder alone, so no timed-out or cancelled call can leave other calls, connection handling
   or administrative operations blocked. *)
Theorem C02_usable_after : forall sched, let s := exec true init sched in
  forall t, mu s = Some t -> exists e, length e <= 2 /\ Forall (fun l => l = holder_label t) e /\ mu (exec true s e) = None.
Proof. exact lock_released. Qed.
Print Assumptions C02_usable_after.

(* A call that returned by its context never receives a value later. *)
Theorem C02_no_stale_delivery : forall sched1 sched2 i, ipcs (exec true init sched1) i = ITimeout ->
  ipcs (exec true (exec true init sched1) sched2) i = ITimeout.
Proof. exact no_stale_delivery. Qed.
Print Assumptions C02_no_stale_delivery.

(* ---- the client endpoint: ClientConn.Invoke against ClientConn.handleMessageResponse ---- *)
Module C. Include WV.Model.RendezvousC. End C.

Theorem C02_client_returns : forall sched i,
  let s := C.exec C.init sched in
  C.ctx s i = true ->
  let e := WV.Proofs.RendezvousCP.esc (WV.Proofs.RendezvousCP.rank s i) s i in
  WV.Proofs.RendezvousCP.own (C.ipcs (C.exec s e) i) = 0 /\ length e <= 6.
Proof. exact WV.Proofs.RendezvousCP.returns_after_ctx. Qed.
Print Assumptions C02_client_returns.

(* cc.mu is never held across anything that can block: whoever holds it releases it by its next step *)
Theorem C02_client_usable_after : forall sched, let s := C.exec C.init sched in
  forall t, C.mu s = Some t -> exists s', C.step s (WV.Proofs.RendezvousCP.holder_label t) = Some s' /\ C.mu s' = None.
Proof. exact WV.Proofs.RendezvousCP.lock_released. Qed.
Print Assumptions C02_client_usable_after.

(* handing a response over never waits for the caller: a late or duplicate response is dropped *)
Theorem C02_client_responder_never_blocks : forall s j x, C.rpcs s j = (x, C.RSend) ->
  exists s', C.step s (C.LR j) = Some s' /\ snd (C.rpcs s' j) = C.RDone.
Proof. exact WV.Proofs.RendezvousCP.responder_never_blocks. Qed.
Print Assumptions C02_client_responder_never_blocks.

(* The unbuffered channel of the code as it was pinned violates all of this: after the six-step
   schedule below the caller's context has ended, it waits for the lock, the responder holds the
   lock and waits for the caller - nobody can move, and every later operation on the server
   blocks. (Repaired in /repo; the witness is replayed by the check on every run.) *)
Theorem C02_unbuffered_refuted :
  let s := exec false init witness in
  ctx s 1 = true /\ ipcs s 1 = ICtx /\ mu s = Some (TR 0) /\ stuck false s 1 0 = true.
Proof. exact server_unbuffered_refuted. Qed.
Print Assumptions C02_unbuffered_refuted.
