(* Byte strings written as hexadecimal string literals in generated case files
   (a list literal of 16k numerals takes Coq seconds to parse; one token does not). *)
From Coq Require Export String Ascii List NArith Bool.
Export ListNotations.
Open Scope N_scope.

Definition hexval (c : ascii) : N :=
  let n := N_of_ascii c in
  if (48 <=? n) && (n <=? 57) then n - 48
  else if (97 <=? n) && (n <=? 102) then n - 87
  else if (65 <=? n) && (n <=? 70) then n - 55
  else 0.

Fixpoint h (s : string) : list N :=
  match s with
  | String a (String b r) => (16 * hexval a + hexval b) :: h r
  | _ => []
  end.

Example h_ex : h "00ff1aA0" = [0; 255; 26; 160]. Proof. reflexivity. Qed.

(* patterned byte strings for the large-payload cases: n bytes, byte i = (c + i*k) mod 256 *)
Fixpoint patn (m : nat) (x k : N) : list N :=
  match m with O => [] | S m' => x :: patn m' ((x + k) mod 256) k end.
Definition pat (n k c : N) : list N := patn (N.to_nat n) (c mod 256) k.
