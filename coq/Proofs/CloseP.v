(* Safety of closing a client connection (Model/CloseLTS.v with cfg = good): the inductive
   invariant, its preservation by every step, and what follows for every schedule. *)
From Coq Require Import List Arith Bool Lia.
From WV Require Import Model.CloseLTS Proofs.CloseInv.
Import ListNotations.

(* ---- lists ---- *)
Lemma upd_length {A} (l : list A) n f : length (upd l n f) = length l.
Proof. revert n; induction l as [|x r IH]; intros [|n]; simpl; auto. Qed.
Lemma nth_upd_same {A} (l : list A) n f d : n < length l -> nth n (upd l n f) d = f (nth n l d).
Proof. revert n; induction l as [|x r IH]; intros [|n] H; simpl in *; try lia; auto. apply IH; lia. Qed.
Lemma nth_upd_other {A} (l : list A) n m f d : n <> m -> nth m (upd l n f) d = nth m l d.
Proof. revert n m; induction l as [|x r IH]; intros [|n] [|m] H; simpl; auto; try congruence. Qed.
Lemma nth_upd {A} (l : list A) n m f d : nth m (upd l n f) d = if Nat.eqb n m && Nat.ltb n (length l) then f (nth m l d) else nth m l d.
Proof.
  destruct (Nat.eqb_spec n m) as [->|Hne]; simpl.
  - destruct (Nat.ltb_spec m (length l)); [apply nth_upd_same; auto|].
    rewrite !nth_overflow; auto; rewrite ?upd_length; auto.
  - apply nth_upd_other; auto.
Qed.
Lemma upd_overflow {A} (l : list A) n f : length l <= n -> upd l n f = l.
Proof. revert n; induction l as [|x r IH]; intros [|n] H; simpl in *; auto; try lia. f_equal. apply IH. lia. Qed.
Lemma nth_app_last {A} (l : list A) x d : nth (length l) (l ++ [x]) d = x.
Proof. rewrite app_nth2; auto. rewrite Nat.sub_diag. reflexivity. Qed.
Lemma nth_app_old {A} (l : list A) x n d : n < length l -> nth n (l ++ [x]) d = nth n l d.
Proof. intros. apply app_nth1; auto. Qed.

Lemma forallb_nth {A} (P : A -> bool) l d : forallb P l = true <-> forall k, k < length l -> P (nth k l d) = true.
Proof.
  split.
  - intros H k Hk. rewrite forallb_forall in H. apply H. apply nth_In; auto.
  - intros H. apply forallb_forall. intros x Hx. destruct (In_nth _ _ d Hx) as (k & Hk & <-). auto.
Qed.

(* ---- accessors ---- *)
Lemma getC_setC s k p k' : getC (setC s k p) k' = if Nat.eqb k k' && Nat.ltb k (length (cl s)) then p else getC s k'.
Proof. unfold getC, setC. cbn. apply nth_upd. Qed.
Lemma getT_setT s g f g' : getT (setT s g f) g' = if Nat.eqb g g' && Nat.ltb g (length (trs s)) then f (getT s g') else getT s g'.
Proof. unfold getT, setT. cbn. apply nth_upd. Qed.
Lemma getG_setG s i p i' : getG (setG s i p) i' = if Nat.eqb i i' && Nat.ltb i (length (gs s)) then p else getG s i'.
Proof. unfold getG, setG. cbn. apply nth_upd. Qed.
Lemma len_setC s k p : length (cl (setC s k p)) = length (cl s).
Proof. unfold setC; cbn. apply upd_length. Qed.
Lemma len_setT s g f : length (trs (setT s g f)) = length (trs s).
Proof. unfold setT; cbn. apply upd_length. Qed.
Lemma len_setG s i p : length (gs (setG s i p)) = length (gs s).
Proof. unfold setG; cbn. apply upd_length. Qed.

Lemma cstate_eqb_eq a b : cstate_eqb a b = true <-> a = b.
Proof. destruct a, b; simpl; split; intros H; try discriminate; reflexivity. Qed.
Lemma cstate_eqb_neq a b : cstate_eqb a b = false <-> a <> b.
Proof. destruct a, b; simpl; split; intros H; try discriminate; try congruence; reflexivity. Qed.

(* ---- the invariant ---- *)
Definition Live (s : st) (g : nat) : Prop :=
  actr s = Some g \/ rt_uses (rt s) g = true \/ exists k, k < length (cl s) /\ closing_g (getC s k) g = true.

Record TrInv (s : st) (g : nat) : Prop := mkTrInv {
  t_left : wp_left (getT s g) = true -> wdn (getT s g) = true /\ sockc (getT s g) = true;
  t_fired : fired (getT s g) = true -> wp (getT s g) = WPExit;
  t_live : Live s g \/ wp (getT s g) = WPExit;
  t_cconn : cconn (getT s g) = true ->
      actr s <> Some g /\ rt_fresh (rt s) g = false /\ (forall k, k < length (cl s) -> getC s k <> T2 g) /\
      ((exists k, k < length (cl s) /\ getC s k = T3 g) \/ rt s = RClosing g \/ pumps_gone s g = true)
}.

Record Inv (s : st) : Prop := mkInv {
  i_nc : crashed s = false;
  i_addr : addr s = true -> forall k, k < length (cl s) -> isC01 (getC s k) = true;
  i_uniq : forall k1 k2, k1 < length (cl s) -> k2 < length (cl s) -> tearing (getC s k1) = true -> tearing (getC s k2) = true -> k1 = k2;
  i_ctx : forall k, k < length (cl s) -> getC s k <> C0 -> ctxd s = true;
  i_t1 : forall k, k < length (cl s) -> after_t1 (getC s k) = true -> acst s = Shutdown /\ actr s = None;
  i_t4 : forall k, k < length (cl s) -> after_t4 (getC s k) = true -> rt s = RExit;
  i_t5 : forall k, k < length (cl s) -> after_t5 (getC s k) = true -> csm s = Shutdown;
  i_ret : forall k, k < length (cl s) -> getC s k = CRet true -> wg_clear s = true;
  i_cg : forall k g, k < length (cl s) -> closing_g (getC s k) g = true -> g < length (trs s);
  i_shut : acst s = Shutdown -> exists k, k < length (cl s) /\ after_t1 (getC s k) = true;
  i_actr : forall g, actr s = Some g -> g < length (trs s) /\ rt_noactr (rt s) = false;
  i_rtg : forall g, rt_uses (rt s) g = true -> g < length (trs s);
  i_wait : forall g, rt s = RWait g ->
      actr s = Some g \/ (acst s = Shutdown /\ ((exists k, k < length (cl s) /\ closing_g (getC s k) g = true) \/ wp (getT s g) = WPExit));
  i_top : forall g, rt s = RTop \/ rt s = RHoldTop -> actr s = Some g -> wp (getT s g) = WPExit;
  i_closing : forall g, rt s = RClosing g -> acst s = Shutdown;
  i_lock : rt_hold (rt s) = true -> amu s = Some HRt /\ acst s <> Shutdown;
  i_lockw : forall g, g < length (trs s) -> wp (getT s g) = WPHold -> amu s = Some (HWp g);
  i_tr : forall g, g < length (trs s) -> TrInv s g;
  i_fresh : forall g k, rt_fresh (rt s) g = true -> k < length (cl s) -> closing_g (getC s k) g = false
}.

Lemma inv_init : Inv init.
Proof.
  constructor; cbn; try (intros; (discriminate || lia || contradiction || auto)); try (intros; destruct k; cbn in *; lia).
  all: try (intros g [H|H]; discriminate).
Qed.

(* ---- frames ---- *)
Lemma Live_ext s s' g : actr s = actr s' -> rt s = rt s' -> cl s = cl s' -> Live s g -> Live s' g.
Proof. unfold Live, getC. intros -> -> ->. auto. Qed.
Lemma TrInv_ext s s' g : trs s = trs s' -> actr s = actr s' -> rt s = rt s' -> cl s = cl s' -> TrInv s g -> TrInv s' g.
Proof.
  intros Ht Ha Hr Hc [A B C D]. constructor; unfold getT, getC, pumps_gone, getT in *; rewrite <- ?Ht, <- ?Ha, <- ?Hr, <- ?Hc; auto.
  destruct C as [C|C]; [left; eapply Live_ext; eauto | right; auto].
Qed.

Lemma wg_clear_spec s : wg_clear s = true <->
  lc s = LCExit /\ lr s = LRExit /\ (forall g, g < length (trs s) -> hr (getT s g) <> HRSel) /\ (forall i, i < length (gs s) -> in_wg (getG s i) = false).
Proof.
  unfold wg_clear, getT, getG. rewrite !andb_true_iff.
  rewrite (forallb_nth _ (trs s) (mkTr RPExit WPExit HRExit true true true true true true)).
  rewrite (forallb_nth _ (gs s) (GDone true)).
  split.
  - intros [[[A B] C] D]. repeat split.
    + destruct (lc s); congruence.
    + destruct (lr s); congruence.
    + intros g Hg E. specialize (C g Hg). rewrite E in C. discriminate.
    + intros i Hi. specialize (D i Hi). apply negb_true_iff in D. exact D.
  - intros (A & B & C & D). rewrite A, B. repeat split; auto.
    + intros g Hg. specialize (C g Hg). destruct (hr _); congruence.
    + intros i Hi. rewrite D; auto.
Qed.

(* ---- tactics ---- *)
Ltac crack H :=
  repeat match type of H with
  | (if ?x then _ else _) = Some _ => destruct x eqn:?; try discriminate H
  | match ?x with _ => _ end = Some _ => destruct x eqn:?; try discriminate H
  end.
Ltac rdc := unfold getC, getT, getG, setC, setT, setG, pumps_gone, free in *; cbn -[nth upd Nat.ltb Nat.eqb length forallb existsb wg_clear] in *.

Ltac dI I := destruct I as [j_nc j_addr j_uniq j_ctx j_t1 j_t4 j_t5 j_ret j_cg j_shut j_actr j_rtg j_wait j_top j_closing j_lock j_lockw j_tr j_fresh].

(* ---- generic preservation lemmas ---- *)
Lemma inv_ext s s' : Inv s ->
  crashed s' = crashed s -> addr s' = addr s -> cl s' = cl s -> ctxd s' = ctxd s -> acst s' = acst s -> actr s' = actr s ->
  rt s' = rt s -> amu s' = amu s -> trs s' = trs s ->
  (csm s = Shutdown -> csm s' = Shutdown) ->
  (forall k, k < length (cl s) -> getC s k = CRet true -> wg_clear s' = true) -> Inv s'.
Proof.
  intros I E1 E2 E3 E4 E5 E6 E7 E8 E9 Hc Hw. dI I.
  constructor; unfold getC, getT, pumps_gone, getT in *; rewrite ?E1, ?E2, ?E3, ?E4, ?E5, ?E6, ?E7, ?E8, ?E9; auto.
  all: try (intros k Hk A; apply Hc; eauto; fail).
  all: try (intros k Hk A; apply (Hw k Hk A)).
  all: try (intros g Hg; eapply TrInv_ext; [ | | | | apply (j_tr g Hg)]; auto).
Qed.

Lemma inv_setT_amu s g f a : Inv s -> g < length (trs s) ->
  (wp_left (f (getT s g)) = true -> wdn (f (getT s g)) = true /\ sockc (f (getT s g)) = true) ->
  (fired (f (getT s g)) = true -> wp (f (getT s g)) = WPExit) ->
  (wp (getT s g) = WPExit -> wp (f (getT s g)) = WPExit) ->
  (rp (getT s g) = RPExit -> rp (f (getT s g)) = RPExit) ->
  cconn (f (getT s g)) = cconn (getT s g) ->
  (rt_hold (rt s) = true -> a = Some HRt) ->
  (forall g', g' < length (trs s) -> wp (if Nat.eqb g g' then f (getT s g') else getT s g') = WPHold -> a = Some (HWp g')) ->
  (hr (f (getT s g)) = HRSel -> hr (getT s g) = HRSel \/ forall k, k < length (cl s) -> getC s k <> CRet true) ->
  Inv (setT s g f <| amu := a |>).
Proof.
  intros I Hg F1 F2 F3 F4 F5 FA F6 F7. dI I.
  set (s1 := setT s g f <| amu := a |>).
  assert (GT : forall g', getT s1 g' = if Nat.eqb g g' then f (getT s g') else getT s g').
  { intros g'. change (getT s1 g') with (getT (setT s g f) g'). rewrite getT_setT. destruct (Nat.ltb_spec g (length (trs s))); [|lia]. rewrite andb_true_r. reflexivity. }
  assert (LEN : length (trs s1) = length (trs s)) by (exact (len_setT s g f)).
  assert (CL : cl s1 = cl s) by reflexivity.
  assert (GC : forall k, getC s1 k = getC s k) by reflexivity.
  assert (PG : forall g', pumps_gone s g' = true -> pumps_gone s1 g' = true).
  { intros g' H. unfold pumps_gone in *. rewrite GT. destruct (Nat.eqb_spec g g'); auto. subst g'.
    destruct (rp (getT s g)) eqn:R; try discriminate. destruct (wp (getT s g)) eqn:W; try discriminate.
    rewrite F3, F4; auto. }
  assert (LV : forall g', Live s g' -> Live s1 g') by (intros g' X; eapply Live_ext; [ | | | exact X]; reflexivity).
  constructor; try (rdc; assumption).
  - (* j_ret *) intros k Hk E. apply wg_clear_spec. specialize (j_ret k Hk E). apply wg_clear_spec in j_ret. destruct j_ret as (A & B & C & D).
    repeat split; auto. intros g' Hg'. rewrite LEN in Hg'. rewrite GT. destruct (Nat.eqb_spec g g'); auto. subst g'.
    intros X. destruct (F7 X) as [Y|Y]; [apply (C g Hg Y) | apply (Y k Hk E)].
  - (* j_cg *) intros k g' Hk. rewrite LEN. apply j_cg; auto.
  - (* j_actr *) intros g' H. rewrite LEN. apply j_actr; auto.
  - intros g' H. rewrite LEN. apply j_rtg; auto.
  - (* j_wait *) intros g' H. destruct (j_wait g' H) as [X|[X [Y|Y]]]; auto. right. split; auto. right.
    rewrite GT. destruct (Nat.eqb_spec g g'); auto. subst. auto.
  - (* j_top *) intros g' H H2. rewrite GT. specialize (j_top g' H H2). destruct (Nat.eqb_spec g g'); auto. subst; auto.
  - (* j_lock *) intros H. split; [apply FA; exact H | apply j_lock; exact H].
  - (* j_lockw *) intros g' Hg'. rewrite LEN in Hg'. rewrite GT. apply F6; auto.
  - (* j_tr *) intros g' Hg'. rewrite LEN in Hg'. destruct (j_tr g' Hg') as [A B C D].
    destruct (Nat.eqb_spec g g') as [<-|Hne].
    + constructor; rewrite GT, Nat.eqb_refl; auto.
      * destruct C as [C|C]; [left|right]; auto.
      * rewrite F5. intros X. destruct (D X) as (D1 & D2 & D3 & D4). repeat split; auto.
        destruct D4 as [D4|[D4|D4]]; auto.
    + constructor; rewrite GT; destruct (Nat.eqb_spec g g'); try contradiction; auto.
      all: try (destruct C as [C|C]; [left|right]; auto; fail).
      all: intros X; destruct (D X) as (D1 & D2 & D3 & D4); repeat split; auto; destruct D4 as [D4|[D4|D4]]; auto.
Qed.

Lemma inv_setT s g f : Inv s -> g < length (trs s) ->
  (wp_left (f (getT s g)) = true -> wdn (f (getT s g)) = true /\ sockc (f (getT s g)) = true) ->
  (fired (f (getT s g)) = true -> wp (f (getT s g)) = WPExit) ->
  (wp (getT s g) = WPExit -> wp (f (getT s g)) = WPExit) ->
  (rp (getT s g) = RPExit -> rp (f (getT s g)) = RPExit) ->
  cconn (f (getT s g)) = cconn (getT s g) ->
  (wp (f (getT s g)) = WPHold -> wp (getT s g) = WPHold) ->
  (hr (f (getT s g)) = HRSel -> hr (getT s g) = HRSel \/ forall k, k < length (cl s) -> getC s k <> CRet true) ->
  Inv (setT s g f).
Proof.
  intros I Hg F1 F2 F3 F4 F5 F6 F7.
  change (Inv (setT s g f <| amu := amu s |>)). apply inv_setT_amu; auto.
  - intros H. apply (i_lock _ I H).
  - intros g' Hg' W. apply (i_lockw _ I g' Hg'). destruct (Nat.eqb_spec g g'); auto. subst. auto.
Qed.

Lemma inv_setG s i p : Inv s -> i < length (gs s) -> (in_wg p = true -> in_wg (getG s i) = true) -> Inv (setG s i p).
Proof.
  intros I Hi Hp. dI I. constructor; try (rdc; assumption).
  - intros k Hk E. apply wg_clear_spec. specialize (j_ret k Hk E). apply wg_clear_spec in j_ret. destruct j_ret as (A & B & C & D).
    repeat split; auto. intros j Hj. rewrite getG_setG. rewrite len_setG in Hj.
    destruct (Nat.eqb_spec i j); simpl; auto. subst j. destruct (Nat.ltb_spec i (length (gs s))); simpl; auto.
    destruct (in_wg p) eqn:E2; auto. rewrite <- (D i Hi). symmetry. apply Hp. reflexivity.
  - intros g Hg. eapply TrInv_ext; [ | | | | apply (j_tr g Hg)]; reflexivity.
Qed.

(* ---- steps of the pumps, the per-message goroutines, the publisher and the reader manager ---- *)
Lemma setT_overflow s g f : length (trs s) <= g -> setT s g f = s.
Proof. intros H. unfold setT. rewrite upd_overflow; auto. destruct s; reflexivity. Qed.

Lemma ltb_lt a b : Nat.ltb a b = true -> a < b. Proof. apply Nat.ltb_lt. Qed.
Lemma negb_ltb a b : negb (Nat.ltb a b) = false -> a < b. Proof. intros H. apply negb_false_iff in H. apply Nat.ltb_lt. exact H. Qed.

(* no Close has finished while something that the wait group counts is still there *)
Lemma no_ret_lc s : Inv s -> lc s <> LCExit -> forall k, k < length (cl s) -> getC s k <> CRet true.
Proof. intros I H k Hk E. dI I. specialize (j_ret k Hk E). apply wg_clear_spec in j_ret. tauto. Qed.
Lemma no_ret_lr s : Inv s -> lr s <> LRExit -> forall k, k < length (cl s) -> getC s k <> CRet true.
Proof. intros I H k Hk E. dI I. specialize (j_ret k Hk E). apply wg_clear_spec in j_ret. tauto. Qed.
Lemma no_ret_hr s g : Inv s -> g < length (trs s) -> hr (getT s g) = HRSel -> forall k, k < length (cl s) -> getC s k <> CRet true.
Proof. intros I Hg H k Hk E. dI I. specialize (j_ret k Hk E). apply wg_clear_spec in j_ret. destruct j_ret as (_ & _ & C & _). apply (C g Hg H). Qed.
Lemma no_ret_g s i : Inv s -> i < length (gs s) -> in_wg (getG s i) = true -> forall k, k < length (cl s) -> getC s k <> CRet true.
Proof. intros I Hg H k Hk E. dI I. specialize (j_ret k Hk E). apply wg_clear_spec in j_ret. destruct j_ret as (_ & _ & _ & D). rewrite (D i Hg) in H. discriminate. Qed.

(* ---- pumps ---- *)
Ltac pre H := unfold step in H; crack H; injection H as <-;
  repeat match goal with
  | H : negb (Nat.ltb _ _) = false |- _ => apply negb_ltb in H
  | H : Nat.ltb _ _ = true |- _ => apply ltb_lt in H
  | H : _ good = false |- _ => discriminate H end.
Ltac trfacts j_tr := match goal with Hg : ?g < length (trs ?s) |- _ => destruct (j_tr g Hg) as [A B C D] end.
Ltac sett j_tr := apply inv_setT; auto; trfacts j_tr; unfold wp_leave, wp_left in *; cbn in *; intros;
  repeat match goal with H : wp _ = _ |- _ => rewrite H in * | H : rp _ = _ |- _ => rewrite H in * | H : hr _ = _ |- _ => rewrite H in * end;
  try congruence; try discriminate; auto;
  try (match goal with H : fired ?t = true, B : fired ?t = true -> _ |- _ => specialize (B H); discriminate end);
  try (split; auto; match goal with A : _ -> wdn _ = true /\ _ |- _ => apply A; assumption end).
Lemma step_pump s s' l : Inv s -> step good s l = Some s' ->
  match l with LNet _ | LSockDie _ | LRp _ | LWpCwp _ | LWpCconn _ _ | LWpTickErr _ | LWpClosed _ | LHr _ => True | _ => False end -> Inv s'.
Proof.
  intros I H L. pose proof I as I0. dI I0. destruct l; try contradiction; pre H; sett j_tr.
Qed.

Lemma inv_addG s l p : Inv s -> l = gs s -> (in_wg p = true -> forall k, k < length (cl s) -> getC s k <> CRet true) -> Inv (s <| gs := l ++ [p] |>).
Proof.
  intros I -> Hp. eapply inv_ext; eauto. intros k Hk E. pose proof I as I0. dI I0. pose proof (j_ret k Hk E) as W.
  apply wg_clear_spec in W. destruct W as (A & B & C & D). apply wg_clear_spec. cbn.
  repeat split; auto. intros i Hi. unfold getG. cbn. rewrite app_length in Hi. cbn in Hi.
  destruct (Nat.eq_dec i (length (gs s))) as [->|Hne].
  - rewrite nth_app_last. destruct (in_wg p) eqn:E2; auto. exfalso. apply (Hp eq_refl k Hk E).
  - rewrite nth_app_old by lia. apply D. lia.
Qed.

Lemma step_hand s s' g kind : Inv s -> step good s (LHand g kind) = Some s' -> Inv s'.
Proof.
  intros I H. pose proof I as I0. dI I0. pre H.
  assert (I1 : Inv (setT s g (fun t => t <| rp := RPRead |>))) by sett j_tr.
  assert (NR : forall k, k < length (cl s) -> getC s k <> CRet true) by (eapply no_ret_hr; eauto).
  destruct kind as [[|]|]; auto; (apply inv_addG; [exact I1 | reflexivity | intros _; exact NR]).
Qed.

Lemma step_gs s s' l : Inv s -> step good s l = Some s' ->
  match l with LNewInvoke | LHandlerRet _ _ | LG _ _ => True | _ => False end -> Inv s'.
Proof.
  intros I H L. pose proof I as I0. dI I0. destruct l; try contradiction; pre H.
  all: try (apply inv_addG; auto; cbn; discriminate).
  all: try (apply inv_setG; auto; unfold getG in *; cbn; intros; try discriminate; try (match goal with H : nth _ _ _ = _ |- _ => rewrite H end; auto); fail).
  (* a write handed to the write pump; a failed write ends the pump *)
  match goal with H : wp (getT s ?g) = WPSel |- _ => rename H into HW end.
  match goal with H : getG s i = GWrite _ _ |- _ => rename H into HG end.
  assert (I1 : Inv (setG s i (if w then GDone false else GWait))).
  { apply inv_setG; auto. rewrite HG. destruct w; cbn; auto. }
  destruct ok; auto.
  assert (Hg : g < length (trs (setG s i (if w then GDone false else GWait)))).
  { cbn. destruct (Nat.ltb_spec g (length (trs s))); auto. unfold getT in HW. rewrite nth_overflow in HW by lia. discriminate. }
  apply inv_setT; auto; destruct (i_tr _ I1 g Hg) as [A B C D]; unfold wp_leave, wp_left in *;
  change (getT (setG s i (if w then GDone false else GWait)) g) with (getT s g) in *; cbn in *; rewrite ?HW in *; intros; try congruence; try discriminate; auto.
  specialize (B H). discriminate.
Qed.

(* ---- the publisher and the reader manager ---- *)
Lemma step_pubs s s' l : Inv s -> step good s l = Some s' ->
  match l with LLc | LLcExit | LLrExit => True | _ => False end -> Inv s'.
Proof.
  intros I H L. destruct l; try contradiction; pre H.
  - unfold set_csm. cbn. destruct (cstate_eqb (csm s) v) eqn:E1; [|destruct (cstate_eqb (csm s) Shutdown) eqn:E2].
    all: eapply inv_ext; [exact I | reflexivity.. | | ]; cbn; auto.
    all: try (intros k Hk E; exfalso; eapply (no_ret_lc s I); [ | exact Hk | exact E]; congruence).
    intros X. rewrite X in E2. discriminate.
  - eapply inv_ext; [exact I | reflexivity.. | | ]; cbn; auto.
    intros k Hk E; exfalso; eapply (no_ret_lc s I); [ | exact Hk | exact E]; congruence.
  - eapply inv_ext; [exact I | reflexivity.. | | ]; cbn; auto.
    intros k Hk E; exfalso; eapply (no_ret_lr s I); [ | exact Hk | exact E]; congruence.
Qed.

Lemma inv_setT_hr s g f : Inv s ->
  (forall t, wp (f t) = wp t /\ rp (f t) = rp t /\ cconn (f t) = cconn t /\ fired (f t) = fired t /\ wdn (f t) = wdn t /\ sockc (f t) = sockc t) ->
  (forall t, hr (f t) = HRSel -> hr t = HRSel \/ forall k, k < length (cl s) -> getC s k <> CRet true) ->
  Inv (setT s g f).
Proof.
  intros I F H. destruct (Nat.ltb_spec g (length (trs s))) as [Hg|Hg]; [|rewrite setT_overflow; auto].
  destruct (F (getT s g)) as (F1 & F2 & F3 & F4 & F5 & F6). destruct (i_tr _ I g Hg) as [A B C D].
  apply inv_setT; auto; unfold wp_left in *; rewrite ?F1, ?F2, ?F3, ?F4, ?F5, ?F6; auto.
Qed.

Lemma step_lr s s' : Inv s -> step good s LLr = Some s' -> Inv s'.
Proof.
  intros I H. pre H.
  all: assert (NR : forall k, k < length (cl s) -> getC s k <> CRet true) by (apply (no_ret_lr s I); congruence).
  all: try (eapply inv_ext; [exact I | reflexivity.. | | ]; cbn; auto; intros k Hk E; exfalso; apply (NR k Hk E)).
  match goal with |- Inv (?x <| lrcur := _ |> <| lr := _ |>) => assert (I2 : Inv x /\ cl x = cl s) end.
  { assert (I1 : Inv (match lrcur s with Some o => setT s o (fun t => t <| hdone := true |>) | None => s end)
                 /\ cl (match lrcur s with Some o => setT s o (fun t => t <| hdone := true |>) | None => s end) = cl s).
    { destruct (lrcur s); split; auto. apply inv_setT_hr; auto; intros; cbn; auto. repeat split; auto. }
    destruct I1 as [I1 E1]. destruct t; split; auto.
    apply inv_setT_hr; auto; intros; cbn; auto. { repeat split; auto. } right. rewrite E1. unfold getC. rewrite E1. exact NR. }
  destruct I2 as [I2 E2]. eapply inv_ext; [exact I2 | reflexivity.. | | ]; cbn; auto.
  intros k Hk E; exfalso. unfold getC in E. rewrite E2 in *. apply (NR k Hk E).
Qed.

(* ---- the close callback, the reconnect loop ---- *)
Ltac pre2 H := unfold step, pub in H; crack H; injection H as <-;
  repeat match goal with
  | H : negb (Nat.ltb _ _) = false |- _ => apply negb_ltb in H
  | H : Nat.ltb _ _ = true |- _ => apply ltb_lt in H
  | H : _ good = false |- _ => discriminate H
  | H : cstate_eqb _ _ = true |- _ => apply cstate_eqb_eq in H
  | H : cstate_eqb _ _ = false |- _ => apply cstate_eqb_neq in H end.

Lemma inv_acst s v l' : Inv s -> acst s <> Shutdown -> v <> Shutdown -> Inv (s <| acst := v |> <| lc := l' |>).
Proof.
  intros I N1 N2. pose proof I as I0. dI I0.
  assert (NA : forall k, k < length (cl s) -> after_t1 (getC s k) = false).
  { intros k Hk. destruct (after_t1 (getC s k)) eqn:E; auto. destruct (j_t1 k Hk E). contradiction. }
  constructor; try (rdc; assumption); rdc; auto.
  - intros k Hk E. rewrite (NA k Hk) in E. discriminate.
  - intros k Hk E. exfalso. specialize (NA k Hk). unfold getC in NA. rewrite E in NA. discriminate.
  - intros; contradiction.
  - intros g H. destruct (j_wait g H) as [X|[X _]]; auto. contradiction.
  - intros g H. exfalso. apply N1. eapply j_closing; eauto.
  - intros H. destruct (j_lock H). split; auto.
  - intros g Hg. eapply TrInv_ext; [ | | | | apply (j_tr g Hg)]; reflexivity.
Qed.

Lemma step_wplock s s' g : Inv s -> step good s (LWpLock g) = Some s' -> Inv s'.
Proof.
  intros I H. pose proof I as I0. dI I0. pre2 H.
  match goal with H : wp _ = WPAfter |- _ => rename H into HW end.
  assert (FR : amu s = None) by (unfold free in *; destruct (amu s); congruence).
  destruct (j_tr g ltac:(assumption)) as [A B C D].
  apply inv_setT_amu; auto; unfold wp_left in *; cbn; rewrite ?HW in *; intros; try congruence; auto.
  all: try (match goal with H : fired _ = true |- _ => specialize (B H); discriminate end).
  all: try (match goal with H : rt_hold _ = true |- _ => destruct (j_lock H); congruence end).
  destruct (Nat.eqb_spec g g'); [subst; auto|]. match goal with H : wp (getT s g') = WPHold |- _ => specialize (j_lockw g' ltac:(assumption) H); congruence end.
Qed.

Ltac fixeq := repeat match goal with
  | H : cstate_eqb _ _ = true |- _ => apply cstate_eqb_eq in H
  | H : cstate_eqb _ _ = false |- _ => apply cstate_eqb_neq in H end.
Lemma step_wprel s s' g via : Inv s -> step good s (LWpRel g via) = Some s' -> Inv s'.
Proof.
  intros I H. pose proof I as I0. dI I0. pre2 H.
  match goal with H : wp _ = WPHold |- _ => rename H into HW end.
  match goal with H : g < length (trs s) |- _ => rename H into Hg end.
  pose proof (j_lockw g Hg HW) as AM.
  assert (NS : acst s <> Shutdown -> forall v l', v <> Shutdown -> Inv (s <| acst := v |> <| lc := l' |>)) by (intros; apply inv_acst; auto).
  assert (I1 : Inv s0 /\ trs s0 = trs s /\ rt s0 = rt s /\ cl s0 = cl s).
  { match goal with H : _ = Some s0 |- _ => crack H; injection H as <- end; fixeq; auto.
    - split; [|auto]. apply NS; congruence.
    - split; [|auto]. change (Inv (s <| acst := Idle |> <| lc := lc s |>)). apply NS; congruence. }
  destruct I1 as (I1 & E1 & E2 & E3).
  assert (GT : getT s0 g = getT s g) by (unfold getT; rewrite E1; auto).
  destruct (i_tr _ I1 g ltac:(rewrite E1; auto)) as [A B C D].
  apply inv_setT_amu; auto; rewrite ?E1, ?E2, ?GT; auto; unfold wp_left in *; cbn; rewrite ?HW in *; intros; try congruence; auto.
  - rewrite GT, HW in A. apply A; auto.
  - match goal with H : rt_hold _ = true |- _ => destruct (j_lock H); congruence end.
  - exfalso. destruct (Nat.eqb_spec g g') as [<-|Hne].
    + cbn in *. discriminate.
    + match goal with H : wp (getT s0 g') = WPHold |- _ => unfold getT in H; rewrite E1 in H; pose proof (j_lockw g' ltac:(assumption) H) end. congruence.
Qed.

Lemma Live_cases s g : Live s g -> actr s = Some g \/ rt_uses (rt s) g = true \/ exists k, k < length (cl s) /\ closing_g (getC s k) g = true.
Proof. auto. Qed.
Lemma noactr_none s : Inv s -> rt_noactr (rt s) = true -> actr s = None.
Proof. intros I H. destruct (actr s) eqn:E; auto. destruct (i_actr _ I n E). congruence. Qed.

Lemma step_timer s s' : Inv s -> step good s LTimer = Some s' -> Inv s'.
Proof.
  intros I H. pose proof I as I0. dI I0. pre2 H.
  match goal with H : rt s = _ |- _ => rename H into HR end.
  assert (AN : actr s = None) by (apply noactr_none; auto; rewrite HR; auto).
  constructor; rdc; rewrite ?HR, ?AN in *; auto; try (intros; discriminate).
  - intros k Hk E. specialize (j_t4 k Hk E). discriminate.
  - intros g Hg. destruct (j_tr g Hg) as [A B C D]. constructor; auto.
    + destruct C as [C|C]; auto. left. destruct C as [C|[C|C]]; unfold Live; rdc; rewrite ?HR, ?AN in *; auto; discriminate.
    + intros X. destruct (D X) as (D1 & D2 & D3 & D4). rdc. rewrite ?HR in *. repeat split; auto. destruct D4 as [D4|[D4|D4]]; auto. discriminate.
Qed.

Ltac trg j_tr := intros g0 Hg0; destruct (j_tr g0 Hg0) as [A B C D]; constructor; auto.

Ltac easygoals := try solve [intros; discriminate | intros ? [?|?]; discriminate | intros ? [?|?] ?; discriminate | intros; lia | intros; congruence].

(* a transport's clauses when only the address connection and the Close calls move *)
Lemma TrInv_upd s s' g : getT s' g = getT s g -> TrInv s g ->
  (Live s g -> Live s' g \/ wp (getT s g) = WPExit) ->
  (cconn (getT s g) = true ->
     actr s' <> Some g /\ rt_fresh (rt s') g = false /\ (forall k, k < length (cl s') -> getC s' k <> T2 g) /\
     ((exists k, k < length (cl s) /\ getC s k = T3 g) \/ rt s = RClosing g ->
      (exists k, k < length (cl s') /\ getC s' k = T3 g) \/ rt s' = RClosing g \/ pumps_gone s g = true)) ->
  TrInv s' g.
Proof.
  intros GT [A B C D] HL HC.
  assert (PG : pumps_gone s' g = pumps_gone s g) by (unfold pumps_gone; rewrite GT; auto).
  constructor; rewrite ?GT, ?PG; auto.
  - destruct C as [C|C]; auto.
  - intros X. destruct (HC X) as (H1 & H2 & H3 & H4). destruct (D X) as (_ & _ & _ & D4). repeat split; auto.
    destruct D4 as [D4|[D4|D4]]; auto.
Qed.

Lemma step_rtctx s s' : Inv s -> step good s LRtCtx = Some s' -> Inv s'.
Proof.
  intros I H. pose proof I as I0. dI I0. pre2 H.
  all: match goal with H : rt _ = _ |- _ => rename H into HR end.
  all: constructor; rdc; rewrite ?HR in *; auto; easygoals.
  all: try (intros g0 Hg0; apply (TrInv_upd s); auto; destruct (j_tr g0 Hg0) as [A B C D]; unfold Live; rdc; rewrite ?HR in *).
  all: try solve [intuition (try discriminate; try congruence; eauto)].
  - intros g0 X. destruct (j_actr g0 X). split; auto.
  - intros [X|[X|X]]; auto. cbn in X. apply Nat.eqb_eq in X. subst g0.
    destruct (j_wait g eq_refl) as [Y|[Y [Z|Z]]]; auto.
Qed.

Lemma step_rtfired s s' : Inv s -> step good s LRtFired = Some s' -> Inv s'.
Proof.
  intros I H. pose proof I as I0. dI I0. pre2 H.
  all: match goal with H : rt _ = _ |- _ => rename H into HR end.
  all: constructor; rdc; rewrite ?HR in *; auto; easygoals.
  all: try (intros g0 Hg0; apply (TrInv_upd s); auto; destruct (j_tr g0 Hg0) as [A B C D]; unfold Live; rdc; rewrite ?HR in *).
  all: try solve [intuition (try discriminate; try congruence; eauto)].
  all: match goal with H : fired _ = true |- _ => rename H into HF end.
  all: assert (Hg : g < length (trs s)) by (apply j_rtg; cbn; apply Nat.eqb_refl).
  all: pose proof (t_fired _ _ (j_tr g Hg) HF) as WX.
  - intros k Hk E. specialize (j_t4 k Hk E). congruence.
  - intros g0 _ X. destruct (j_wait g eq_refl) as [Y|[Y _]]; [assert (g0 = g) by congruence; subst; exact WX|]. destruct (j_shut Y) as (k & Hk & E). destruct (j_t1 k Hk E). congruence.
  - intros [X|[X|X]]; auto. cbn in X. apply Nat.eqb_eq in X. subst g0. right. exact WX.
Qed.


Ltac std HR := constructor; rdc; rewrite ?HR in *; auto; easygoals.
Ltac t4g j_t4 := try solve [intros k Hk E; specialize (j_t4 k Hk E); congruence].
Ltac trs_ s j_tr HR := try (intros g0 Hg0; apply (TrInv_upd s); [reflexivity | exact (j_tr g0 Hg0) | | ]; destruct (j_tr g0 Hg0) as [A B C D]; unfold Live; rdc; rewrite ?HR in *).
Ltac t1g HT := try solve [intros k Hk E; unfold getC in HT; rewrite (HT k Hk) in E; discriminate].
Ltac whg HW := try solve [let W := fresh in intros ? ? W; exfalso; eapply HW; [|exact W]; assumption].
Ltac prop := try solve [intuition (try discriminate; try congruence; eauto)].

Lemma step_dial s s' ok : Inv s -> step good s (LDial ok) = Some s' -> Inv s'.
Proof.
  intros I H. pose proof I as I0. dI I0. pre2 H.
  all: match goal with H : rt _ = _ |- _ => rename H into HR end.
  all: assert (AN : actr s = None) by (apply noactr_none; auto; rewrite HR; auto).
  2: { std HR. all: t4g j_t4. all: trs_ s j_tr HR. all: prop. }
  std HR. all: t4g j_t4.
  - intros k Hk E. exfalso. assert (X : after_t4 (getC s k) = true) by (unfold getC; rewrite E; auto). specialize (j_t4 k Hk X). congruence.
  - intros k g Hk E. rewrite app_length. specialize (j_cg k g Hk E). lia.
  - intros g E. apply Nat.eqb_eq in E. rewrite app_length. cbn. lia.
  - intros g Hg W. rewrite app_length in Hg. cbn in Hg. destruct (Nat.eq_dec g (length (trs s))) as [->|Hne].
    + rewrite nth_app_last in W. discriminate.
    + rewrite nth_app_old in W by lia. apply j_lockw; auto. lia.
  - intros g Hg. rewrite app_length in Hg. cbn in Hg. destruct (Nat.eq_dec g (length (trs s))) as [->|Hne].
    + constructor; unfold getT, Live; rdc; rewrite ?nth_app_last; cbn; try discriminate.
      left. right. left. apply Nat.eqb_refl.
    + assert (Hg' : g < length (trs s)) by lia.
      apply (TrInv_upd s); [unfold getT; cbn; apply nth_app_old; auto | exact (j_tr g Hg') | | ]; destruct (j_tr g Hg') as [A B C D]; unfold Live; rdc; rewrite ?HR in *.
      * intros [X|[X|X]]; auto. discriminate.
      * intros X. destruct (D X) as (D1 & D2 & D3 & D4). repeat split; auto; try congruence.
        { destruct (Nat.eqb_spec g (length (trs s))); auto. contradiction. }
        { intros [Y|Y]; auto. discriminate. }
  - intros g k E Hk. apply Nat.eqb_eq in E. subst g. destruct (closing_g (nth k (cl s) (CRet false)) (length (trs s))) eqn:X; auto.
    specialize (j_cg k _ Hk X). lia.
Qed.


Lemma pub_cases s v via s' : pub s v via = Some s' ->
  (acst s = v /\ s' = s) \/
  (acst s <> v /\ via = true /\ lc s = LCSel /\ s' = s <| acst := v |> <| lc := LCUpd v |>) \/
  (acst s <> v /\ via = false /\ ctxd s = true /\ s' = s <| acst := v |>).
Proof.
  unfold pub. destruct (cstate_eqb (acst s) v) eqn:E.
  - intros H; injection H as <-. left. split; auto. apply cstate_eqb_eq; auto.
  - apply cstate_eqb_neq in E. destruct via.
    + destruct (lc s) eqn:L; try discriminate. intros H; injection H as <-. right; left. auto.
    + destruct (ctxd s) eqn:C; try discriminate. intros H; injection H as <-. right; right. auto.
Qed.

Ltac pre3 H := unfold step in H; crack H; injection H as <-;
  repeat match goal with
  | H : negb (Nat.ltb _ _) = false |- _ => apply negb_ltb in H
  | H : Nat.ltb _ _ = true |- _ => apply ltb_lt in H
  | H : _ good = false |- _ => discriminate H
  | H : cstate_eqb _ _ = true |- _ => apply cstate_eqb_eq in H
  | H : cstate_eqb _ _ = false |- _ => apply cstate_eqb_neq in H
  | H : pub _ _ _ = Some _ |- _ => apply pub_cases in H; destruct H as [[? ->]|[(? & ? & ? & ->)|(? & ? & ? & ->)]] end.

Lemma no_t1_if s : Inv s -> acst s <> Shutdown -> forall k, k < length (cl s) -> after_t1 (getC s k) = false.
Proof. intros I N k Hk. destruct (after_t1 (getC s k)) eqn:E; auto. destruct (i_t1 _ I k Hk E). contradiction. Qed.
Lemma no_ret_if_rt s : Inv s -> rt s <> RExit -> forall k, k < length (cl s) -> getC s k <> CRet true.
Proof. intros I N k Hk E. apply N. apply (i_t4 _ I k Hk). rewrite E. reflexivity. Qed.
Lemma hold_facts s : Inv s -> rt_hold (rt s) = true -> amu s = Some HRt /\ acst s <> Shutdown /\ (forall g, g < length (trs s) -> wp (getT s g) <> WPHold)
   /\ (forall k, k < length (cl s) -> after_t1 (getC s k) = false) /\ (forall k, k < length (cl s) -> getC s k <> CRet true).
Proof.
  intros I H. destruct (i_lock _ I H) as [A B]. repeat split; auto.
  - intros g Hg W. pose proof (i_lockw _ I g Hg W). congruence.
  - apply no_t1_if; auto.
  - apply no_ret_if_rt; auto. destruct (rt s); try discriminate.
Qed.
Lemma free_facts s : Inv s -> free s = true -> amu s = None /\ rt_hold (rt s) = false /\ (forall g, g < length (trs s) -> wp (getT s g) <> WPHold).
Proof.
  intros I F. assert (A : amu s = None) by (unfold free in F; destruct (amu s); congruence). repeat split; auto.
  - destruct (rt_hold (rt s)) eqn:E; auto. destruct (i_lock _ I E). congruence.
  - intros g Hg W. pose proof (i_lockw _ I g Hg W). congruence.
Qed.

(* RTop: take the lock, or leave if shut down *)
Lemma step_rt_top s s' via : Inv s -> rt s = RTop -> step good s (LRt via) = Some s' -> Inv s'.
Proof.
  intros I HR H. pose proof I as I0. dI I0. unfold step in H. rewrite HR in H. pre3 H.
  all: match goal with H : negb (free _) = false |- _ => apply negb_false_iff in H; destruct (free_facts _ I H) as (FA & FH & FW) end.
  all: std HR; t4g j_t4; trs_ s j_tr HR; prop.
  intros g Hg W. exfalso. apply (FW g Hg W).
Qed.

(* RHoldTop: forget the transport, report Connecting, unlock, dial *)
Lemma step_rt_holdtop s s' via : Inv s -> rt s = RHoldTop -> step good s (LRt via) = Some s' -> Inv s'.
Proof.
  intros I HR H. pose proof I as I0. dI I0. unfold step in H. rewrite HR in H. pre3 H.
  all: destruct (hold_facts s I ltac:(rewrite HR; reflexivity)) as (HA & HS & HW & HT & HN).
  all: std HR; t4g j_t4; t1g HT; whg HW; trs_ s j_tr HR; prop.
Qed.


(* RGot: the dial succeeded *)
Lemma step_rt_got s s' via g : Inv s -> rt s = RGot g -> step good s (LRt via) = Some s' -> Inv s'.
Proof.
  intros I HR H. pose proof I as I0. dI I0. unfold step in H. rewrite HR in H. pre3 H.
  all: match goal with H : negb (free _) = false |- _ => apply negb_false_iff in H; destruct (free_facts _ I H) as (FA & FH & FW) end.
  all: assert (AN : actr s = None) by (apply noactr_none; auto; rewrite HR; auto).
  all: assert (Hg : g < length (trs s)) by (apply j_rtg; rewrite HR; cbn; apply Nat.eqb_refl).
  all: destruct (j_tr g Hg) as [TA TB TC TD].
  - (* closing a closed channel cannot happen: the fresh transport has not been closed by anybody *)
    exfalso. match goal with H : cconn _ = true |- _ => destruct (TD H) as (_ & X & _) end. rewrite HR in X. cbn in X. rewrite Nat.eqb_refl in X. discriminate.
  - (* shut down meanwhile: close the fresh transport *)
    match goal with H : cconn _ = false |- _ => rename H into HC end.
    assert (NR : forall k, k < length (cl s) -> getC s k <> CRet true) by (apply no_ret_if_rt; auto; congruence).
    std HR; t4g j_t4; rewrite ?upd_length; auto.
    + intros k Hk E. exfalso. apply (NR k Hk E).
    + intros g0 Hg0. rewrite nth_upd. destruct (Nat.eqb g g0 && Nat.ltb g (length (trs s))) eqn:E; cbn; apply j_lockw; auto.
    + intros g0 Hg0. destruct (Nat.eq_dec g0 g) as [->|Hne].
      * constructor; unfold getT, Live, pumps_gone, getT; cbn -[nth upd]; rewrite !nth_upd, Nat.eqb_refl; destruct (Nat.ltb_spec g (length (trs s))); try lia; cbn; auto.
        { intros _. repeat split; auto; try congruence.
          intros k Hk E. specialize (j_fresh g k ltac:(cbn; apply Nat.eqb_refl) Hk). unfold getC in j_fresh. rewrite E in j_fresh. cbn in j_fresh. rewrite Nat.eqb_refl in j_fresh. discriminate. }
      * apply (TrInv_upd s); [unfold getT; cbn -[nth upd]; rewrite nth_upd; destruct (Nat.eqb_spec g g0); [congruence|reflexivity] | exact (j_tr g0 Hg0) | | ];
        destruct (j_tr g0 Hg0) as [A B C D]; unfold Live; rdc; rewrite ?HR in *.
        { intros [X|[X|X]]; auto; try (apply Nat.eqb_eq in X; contradiction); try discriminate. }
        { intros X. destruct (D X) as (D1 & D2 & D3 & D4). repeat split; auto; intros [Y|Y]; auto; discriminate. }
  - (* it has closed already: start again *)
    match goal with H : fired _ = true |- _ => pose proof (TB H) as WX end.
    std HR; t4g j_t4; trs_ s j_tr HR; prop.
    intros [X|[X|X]]; auto. cbn in X. apply Nat.eqb_eq in X. subst g0. right. exact WX.
  - (* take the lock to record it *)
    std HR; t4g j_t4; whg FW; trs_ s j_tr HR; prop.
Qed.


(* RHoldGot: record the transport, report Ready, unlock, wait *)
Lemma step_rt_holdgot s s' via g : Inv s -> rt s = RHoldGot g -> step good s (LRt via) = Some s' -> Inv s'.
Proof.
  intros I HR H. pose proof I as I0. dI I0. unfold step in H. rewrite HR in H. pre3 H.
  all: destruct (hold_facts s I ltac:(rewrite HR; reflexivity)) as (HA & HS & HW & HT & HN).
  all: assert (AN : actr s = None) by (apply noactr_none; auto; rewrite HR; auto).
  all: assert (Hg : g < length (trs s)) by (apply j_rtg; rewrite HR; cbn; apply Nat.eqb_refl).
  all: destruct (j_tr g Hg) as [TA TB TC TD].
  all: std HR; t4g j_t4; t1g HT; whg HW; trs_ s j_tr HR; prop.
  all: intros X; destruct (D X) as (D1 & D2 & D3 & D4); repeat split; auto;
    [ intros E; injection E as <-; cbn in D2; rewrite Nat.eqb_refl in D2; discriminate | intros [Y|Y]; auto; discriminate ].
Qed.

(* RFailed: the dial failed *)
Lemma step_rt_failed s s' via : Inv s -> rt s = RFailed -> step good s (LRt via) = Some s' -> Inv s'.
Proof.
  intros I HR H. pose proof I as I0. dI I0. unfold step in H. rewrite HR in H. pre3 H.
  all: match goal with H : negb (free _) = false |- _ => apply negb_false_iff in H; destruct (free_facts _ I H) as (FA & FH & FW) end.
  all: assert (AN : actr s = None) by (apply noactr_none; auto; rewrite HR; auto).
  all: std HR; t4g j_t4; whg FW; trs_ s j_tr HR; prop.
Qed.

Lemma step_rt_holdfail s s' via : Inv s -> rt s = RHoldFail -> step good s (LRt via) = Some s' -> Inv s'.
Proof.
  intros I HR H. pose proof I as I0. dI I0. unfold step in H. rewrite HR in H. pre3 H.
  all: destruct (hold_facts s I ltac:(rewrite HR; reflexivity)) as (HA & HS & HW & HT & HN).
  all: assert (AN : actr s = None) by (apply noactr_none; auto; rewrite HR; auto).
  all: std HR; t4g j_t4; t1g HT; whg HW; trs_ s j_tr HR; prop.
Qed.


Lemma step_rt_closing s s' via g : Inv s -> rt s = RClosing g -> step good s (LRt via) = Some s' -> Inv s'.
Proof.
  intros I HR H. pose proof I as I0. dI I0. unfold step in H. rewrite HR in H. pre3 H.
  match goal with H : pumps_gone _ _ = true |- _ => rename H into PG end.
  assert (AN : actr s = None) by (apply noactr_none; auto; rewrite HR; auto).
  std HR; t4g j_t4; trs_ s j_tr HR; prop.
  - intros [X|[X|X]]; auto. cbn in X. apply Nat.eqb_eq in X. subst g0. right.
    unfold pumps_gone, getT in PG. destruct (rp (nth g (trs s) _)); try discriminate. destruct (wp (nth g (trs s) _)) eqn:W; try discriminate. reflexivity.
  - intros X. destruct (D X) as (D1 & D2 & D3 & D4). repeat split; auto. intros [Y|Y]; auto. injection Y as <-. right. right. exact PG.
Qed.

Lemma step_rt s s' via : Inv s -> step good s (LRt via) = Some s' -> Inv s'.
Proof.
  intros I H. destruct (rt s) eqn:HR.
  - eapply step_rt_top; eauto.
  - eapply step_rt_holdtop; eauto.
  - unfold step in H. rewrite HR in H. destruct (crashed s); discriminate.
  - eapply step_rt_got; eauto.
  - eapply step_rt_holdgot; eauto.
  - eapply step_rt_failed; eauto.
  - eapply step_rt_holdfail; eauto.
  - unfold step in H. rewrite HR in H. destruct (crashed s); discriminate.
  - unfold step in H. rewrite HR in H. destruct (crashed s); discriminate.
  - eapply step_rt_closing; eauto.
  - unfold step in H. rewrite HR in H. destruct (crashed s); discriminate.
Qed.



(* ---- Close ---- *)
Lemma step_newclose s s' : Inv s -> step good s LNewClose = Some s' -> Inv s'.
Proof.
  intros I H. pose proof I as I0. dI I0. pre3 H.
  assert (GC : forall k, k < length (cl s) -> nth k (cl s ++ [C0]) (CRet false) = nth k (cl s) (CRet false)) by (intros; apply nth_app_old; auto).
  assert (GL : nth (length (cl s)) (cl s ++ [C0]) (CRet false) = C0) by apply nth_app_last.
  assert (K : forall k, k < length (cl s) + 1 -> k < length (cl s) \/ k = length (cl s)) by (intros; lia).
  constructor; rdc; rewrite ?app_length; cbn [length]; auto.
  - intros A k Hk. destruct (K k Hk) as [Hk'| ->]; [rewrite GC by auto; apply j_addr; auto | rewrite GL; auto].
  - intros k1 k2 H1 H2. destruct (K k1 H1) as [H1'| ->]; destruct (K k2 H2) as [H2'| ->]; rewrite ?GL; rewrite ?GC by auto; cbn; auto; try discriminate.
  - intros k Hk. destruct (K k Hk) as [Hk'| ->]; [rewrite GC by auto; apply j_ctx; auto | rewrite GL; congruence].
  - intros k Hk. destruct (K k Hk) as [Hk'| ->]; [rewrite GC by auto; apply j_t1; auto | rewrite GL; discriminate].
  - intros k Hk. destruct (K k Hk) as [Hk'| ->]; [rewrite GC by auto; apply j_t4; auto | rewrite GL; discriminate].
  - intros k Hk. destruct (K k Hk) as [Hk'| ->]; [rewrite GC by auto; apply j_t5; auto | rewrite GL; discriminate].
  - intros k Hk. destruct (K k Hk) as [Hk'| ->]; [rewrite GC by auto; intros E; exact (j_ret k Hk' E) | rewrite GL; discriminate].
  - intros k g Hk. destruct (K k Hk) as [Hk'| ->]; [rewrite GC by auto; apply j_cg; auto | rewrite GL; discriminate].
  - intros A. destruct (j_shut A) as (k & Hk & E). exists k. split; [lia | rewrite GC by auto; auto].
  - intros g A. destruct (j_wait g A) as [X|[X [(k & Hk & E)|Y]]]; auto. right. split; auto. left. exists k. split; [lia | rewrite GC by auto; auto].
  - intros g Hg. apply (TrInv_upd s); [reflexivity | exact (j_tr g Hg) | | ]; destruct (j_tr g Hg) as [A B C D]; unfold Live; rdc.
    + intros [X|[X|(k & Hk & E)]]; auto. left. right. right. exists k. rewrite app_length. split; [lia | rewrite GC by auto; auto].
    + intros X. destruct (D X) as (D1 & D2 & D3 & D4). rewrite app_length. cbn [length]. repeat split; auto.
      * intros k Hk. destruct (K k Hk) as [Hk'| ->]; [rewrite GC by auto; auto | rewrite GL; discriminate].
      * intros [(k & Hk & E)|Y]; auto. left. exists k. split; [lia | rewrite GC by auto; auto].
  - intros g k F Hk. destruct (K k Hk) as [Hk'| ->]; [rewrite GC by auto; auto | rewrite GL; reflexivity].
Qed.
