(* Safety of closing a client connection (Model/CloseLTS.v with cfg = good): the inductive
   invariant, its preservation by every step, and what follows for every schedule. *)
From Coq Require Import List Arith Bool Lia.
From WV Require Import Model.CloseLTS Proofs.CloseInv.
Import ListNotations.

(* ---- lists ---- *)
Lemma upd_length {A} (l : list A) n f : length (upd l n f) = length l.
Proof. revert n; induction l as [|x r IH]; intros [|n]; simpl; auto. Qed.
Lemma nth_upd_same {A} (l : list A) n f d : n < length l -> nth n (upd l n f) d = f (nth n l d).
Proof. revert n; induction l as [|x r IH]; intros [|n] H; simpl in *; try lia; auto. apply IH; lia. Qed.
Lemma nth_upd_other {A} (l : list A) n m f d : n <> m -> nth m (upd l n f) d = nth m l d.
Proof. revert n m; induction l as [|x r IH]; intros [|n] [|m] H; simpl; auto; try congruence. Qed.
Lemma nth_upd {A} (l : list A) n m f d : nth m (upd l n f) d = if Nat.eqb n m && Nat.ltb n (length l) then f (nth m l d) else nth m l d.
Proof.
  destruct (Nat.eqb_spec n m) as [->|Hne]; simpl.
  - destruct (Nat.ltb_spec m (length l)); [apply nth_upd_same; auto|].
    rewrite !nth_overflow; auto; rewrite ?upd_length; auto.
  - apply nth_upd_other; auto.
Qed.
Lemma upd_overflow {A} (l : list A) n f : length l <= n -> upd l n f = l.
Proof. revert n; induction l as [|x r IH]; intros [|n] H; simpl in *; auto; try lia. f_equal. apply IH. lia. Qed.
Lemma nth_app_last {A} (l : list A) x d : nth (length l) (l ++ [x]) d = x.
Proof. rewrite app_nth2; auto. rewrite Nat.sub_diag. reflexivity. Qed.
Lemma nth_app_old {A} (l : list A) x n d : n < length l -> nth n (l ++ [x]) d = nth n l d.
Proof. intros. apply app_nth1; auto. Qed.

Lemma forallb_nth {A} (P : A -> bool) l d : forallb P l = true <-> forall k, k < length l -> P (nth k l d) = true.
Proof.
  split.
  - intros H k Hk. rewrite forallb_forall in H. apply H. apply nth_In; auto.
  - intros H. apply forallb_forall. intros x Hx. destruct (In_nth _ _ d Hx) as (k & Hk & <-). auto.
Qed.

(* ---- accessors ---- *)
Lemma getC_setC s k p k' : getC (setC s k p) k' = if Nat.eqb k k' && Nat.ltb k (length (cl s)) then p else getC s k'.
Proof. unfold getC, setC. cbn. apply nth_upd. Qed.
Lemma getT_setT s g f g' : getT (setT s g f) g' = if Nat.eqb g g' && Nat.ltb g (length (trs s)) then f (getT s g') else getT s g'.
Proof. unfold getT, setT. cbn. apply nth_upd. Qed.
Lemma getG_setG s i p i' : getG (setG s i p) i' = if Nat.eqb i i' && Nat.ltb i (length (gs s)) then p else getG s i'.
Proof. unfold getG, setG. cbn. apply nth_upd. Qed.
Lemma len_setC s k p : length (cl (setC s k p)) = length (cl s).
Proof. unfold setC; cbn. apply upd_length. Qed.
Lemma len_setT s g f : length (trs (setT s g f)) = length (trs s).
Proof. unfold setT; cbn. apply upd_length. Qed.
Lemma len_setG s i p : length (gs (setG s i p)) = length (gs s).
Proof. unfold setG; cbn. apply upd_length. Qed.

Lemma cstate_eqb_eq a b : cstate_eqb a b = true <-> a = b.
Proof. destruct a, b; simpl; split; intros H; try discriminate; reflexivity. Qed.
Lemma cstate_eqb_neq a b : cstate_eqb a b = false <-> a <> b.
Proof. destruct a, b; simpl; split; intros H; try discriminate; try congruence; reflexivity. Qed.

(* ---- the invariant ---- *)
Definition Live (s : st) (g : nat) : Prop :=
  actr s = Some g \/ rt_uses (rt s) g = true \/ exists k, k < length (cl s) /\ closing_g (getC s k) g = true.

Record TrInv (s : st) (g : nat) : Prop := mkTrInv {
  t_left : wp_left (getT s g) = true -> wdn (getT s g) = true /\ sockc (getT s g) = true;
  t_fired : fired (getT s g) = true -> wp (getT s g) = WPExit;
  t_live : Live s g \/ wp (getT s g) = WPExit;
  t_cconn : cconn (getT s g) = true ->
      actr s <> Some g /\ rt_fresh (rt s) g = false /\ (forall k, k < length (cl s) -> getC s k <> T2 g) /\
      ((exists k, k < length (cl s) /\ getC s k = T3 g) \/ rt s = RClosing g \/ pumps_gone s g = true)
}.

Record Inv (s : st) : Prop := mkInv {
  i_nc : crashed s = false;
  i_addr : addr s = true -> forall k, k < length (cl s) -> isC01 (getC s k) = true;
  i_uniq : forall k1 k2, k1 < length (cl s) -> k2 < length (cl s) -> tearing (getC s k1) = true -> tearing (getC s k2) = true -> k1 = k2;
  i_ctx : forall k, k < length (cl s) -> getC s k <> C0 -> ctxd s = true;
  i_t1 : forall k, k < length (cl s) -> after_t1 (getC s k) = true -> acst s = Shutdown /\ actr s = None;
  i_t4 : forall k, k < length (cl s) -> after_t4 (getC s k) = true -> rt s = RExit;
  i_t5 : forall k, k < length (cl s) -> after_t5 (getC s k) = true -> csm s = Shutdown;
  i_ret : forall k, k < length (cl s) -> getC s k = CRet true -> wg_clear s = true;
  i_cg : forall k g, k < length (cl s) -> closing_g (getC s k) g = true -> g < length (trs s);
  i_shut : acst s = Shutdown -> exists k, k < length (cl s) /\ after_t1 (getC s k) = true;
  i_actr : forall g, actr s = Some g -> g < length (trs s) /\ rt_noactr (rt s) = false;
  i_rtg : forall g, rt_uses (rt s) g = true -> g < length (trs s);
  i_wait : forall g, rt s = RWait g ->
      actr s = Some g \/ (acst s = Shutdown /\ ((exists k, k < length (cl s) /\ closing_g (getC s k) g = true) \/ wp (getT s g) = WPExit));
  i_top : forall g, rt s = RTop \/ rt s = RHoldTop -> actr s = Some g -> wp (getT s g) = WPExit;
  i_closing : forall g, rt s = RClosing g -> acst s = Shutdown;
  i_lock : rt_hold (rt s) = true -> amu s = Some HRt /\ acst s <> Shutdown;
  i_lockw : forall g, g < length (trs s) -> wp (getT s g) = WPHold -> amu s = Some (HWp g);
  i_tr : forall g, g < length (trs s) -> TrInv s g;
  i_fresh : forall g k, rt_fresh (rt s) g = true -> k < length (cl s) -> closing_g (getC s k) g = false
}.

Lemma inv_init : Inv init.
Proof.
  constructor; cbn; try (intros; (discriminate || lia || contradiction || auto)); try (intros; destruct k; cbn in *; lia).
  all: try (intros g [H|H]; discriminate).
Qed.

(* ---- frames ---- *)
Lemma Live_ext s s' g : actr s = actr s' -> rt s = rt s' -> cl s = cl s' -> Live s g -> Live s' g.
Proof. unfold Live, getC. intros -> -> ->. auto. Qed.
Lemma TrInv_ext s s' g : trs s = trs s' -> actr s = actr s' -> rt s = rt s' -> cl s = cl s' -> TrInv s g -> TrInv s' g.
Proof.
  intros Ht Ha Hr Hc [A B C D]. constructor; unfold getT, getC, pumps_gone, getT in *; rewrite <- ?Ht, <- ?Ha, <- ?Hr, <- ?Hc; auto.
  destruct C as [C|C]; [left; eapply Live_ext; eauto | right; auto].
Qed.

Lemma wg_clear_spec s : wg_clear s = true <->
  lc s = LCExit /\ lr s = LRExit /\ (forall g, g < length (trs s) -> hr (getT s g) <> HRSel) /\ (forall i, i < length (gs s) -> in_wg (getG s i) = false).
Proof.
  unfold wg_clear, getT, getG. rewrite !andb_true_iff.
  rewrite (forallb_nth _ (trs s) (mkTr RPExit WPExit HRExit true true true true true true)).
  rewrite (forallb_nth _ (gs s) (GDone true)).
  split.
  - intros [[[A B] C] D]. repeat split.
    + destruct (lc s); congruence.
    + destruct (lr s); congruence.
    + intros g Hg E. specialize (C g Hg). rewrite E in C. discriminate.
    + intros i Hi. specialize (D i Hi). apply negb_true_iff in D. exact D.
  - intros (A & B & C & D). rewrite A, B. repeat split; auto.
    + intros g Hg. specialize (C g Hg). destruct (hr _); congruence.
    + intros i Hi. rewrite D; auto.
Qed.

(* ---- tactics ---- *)
Ltac crack H :=
  repeat match type of H with
  | (if ?x then _ else _) = Some _ => destruct x eqn:?; try discriminate H
  | match ?x with _ => _ end = Some _ => destruct x eqn:?; try discriminate H
  end.
Ltac rdc := unfold getC, getT, getG, setC, setT, setG, pumps_gone, free in *; cbn -[nth upd Nat.ltb Nat.eqb length forallb existsb wg_clear] in *.

Ltac dI I := destruct I as [j_nc j_addr j_uniq j_ctx j_t1 j_t4 j_t5 j_ret j_cg j_shut j_actr j_rtg j_wait j_top j_closing j_lock j_lockw j_tr j_fresh].

(* ---- generic preservation lemmas ---- *)
Lemma inv_ext s s' : Inv s ->
  crashed s' = crashed s -> addr s' = addr s -> cl s' = cl s -> ctxd s' = ctxd s -> acst s' = acst s -> actr s' = actr s ->
  rt s' = rt s -> amu s' = amu s -> trs s' = trs s ->
  (csm s = Shutdown -> csm s' = Shutdown) ->
  (forall k, k < length (cl s) -> getC s k = CRet true -> wg_clear s' = true) -> Inv s'.
Proof.
  intros I E1 E2 E3 E4 E5 E6 E7 E8 E9 Hc Hw. dI I.
  constructor; unfold getC, getT, pumps_gone, getT in *; rewrite ?E1, ?E2, ?E3, ?E4, ?E5, ?E6, ?E7, ?E8, ?E9; auto.
  all: try (intros k Hk A; apply Hc; eauto; fail).
  all: try (intros k Hk A; apply (Hw k Hk A)).
  all: try (intros g Hg; eapply TrInv_ext; [ | | | | apply (j_tr g Hg)]; auto).
Qed.

Lemma inv_setT_amu s g f a : Inv s -> g < length (trs s) ->
  (wp_left (f (getT s g)) = true -> wdn (f (getT s g)) = true /\ sockc (f (getT s g)) = true) ->
  (fired (f (getT s g)) = true -> wp (f (getT s g)) = WPExit) ->
  (wp (getT s g) = WPExit -> wp (f (getT s g)) = WPExit) ->
  (rp (getT s g) = RPExit -> rp (f (getT s g)) = RPExit) ->
  cconn (f (getT s g)) = cconn (getT s g) ->
  (rt_hold (rt s) = true -> a = Some HRt) ->
  (forall g', g' < length (trs s) -> wp (if Nat.eqb g g' then f (getT s g') else getT s g') = WPHold -> a = Some (HWp g')) ->
  (hr (f (getT s g)) = HRSel -> hr (getT s g) = HRSel \/ forall k, k < length (cl s) -> getC s k <> CRet true) ->
  Inv (setT s g f <| amu := a |>).
Proof.
  intros I Hg F1 F2 F3 F4 F5 FA F6 F7. dI I.
  set (s1 := setT s g f <| amu := a |>).
  assert (GT : forall g', getT s1 g' = if Nat.eqb g g' then f (getT s g') else getT s g').
  { intros g'. change (getT s1 g') with (getT (setT s g f) g'). rewrite getT_setT. destruct (Nat.ltb_spec g (length (trs s))); [|lia]. rewrite andb_true_r. reflexivity. }
  assert (LEN : length (trs s1) = length (trs s)) by (exact (len_setT s g f)).
  assert (CL : cl s1 = cl s) by reflexivity.
  assert (GC : forall k, getC s1 k = getC s k) by reflexivity.
  assert (PG : forall g', pumps_gone s g' = true -> pumps_gone s1 g' = true).
  { intros g' H. unfold pumps_gone in *. rewrite GT. destruct (Nat.eqb_spec g g'); auto. subst g'.
    destruct (rp (getT s g)) eqn:R; try discriminate. destruct (wp (getT s g)) eqn:W; try discriminate.
    rewrite F3, F4; auto. }
  assert (LV : forall g', Live s g' -> Live s1 g') by (intros g' X; eapply Live_ext; [ | | | exact X]; reflexivity).
  constructor; try (rdc; assumption).
  - (* j_ret *) intros k Hk E. apply wg_clear_spec. specialize (j_ret k Hk E). apply wg_clear_spec in j_ret. destruct j_ret as (A & B & C & D).
    repeat split; auto. intros g' Hg'. rewrite LEN in Hg'. rewrite GT. destruct (Nat.eqb_spec g g'); auto. subst g'.
    intros X. destruct (F7 X) as [Y|Y]; [apply (C g Hg Y) | apply (Y k Hk E)].
  - (* j_cg *) intros k g' Hk. rewrite LEN. apply j_cg; auto.
  - (* j_actr *) intros g' H. rewrite LEN. apply j_actr; auto.
  - intros g' H. rewrite LEN. apply j_rtg; auto.
  - (* j_wait *) intros g' H. destruct (j_wait g' H) as [X|[X [Y|Y]]]; auto. right. split; auto. right.
    rewrite GT. destruct (Nat.eqb_spec g g'); auto. subst. auto.
  - (* j_top *) intros g' H H2. rewrite GT. specialize (j_top g' H H2). destruct (Nat.eqb_spec g g'); auto. subst; auto.
  - (* j_lock *) intros H. split; [apply FA; exact H | apply j_lock; exact H].
  - (* j_lockw *) intros g' Hg'. rewrite LEN in Hg'. rewrite GT. apply F6; auto.
  - (* j_tr *) intros g' Hg'. rewrite LEN in Hg'. destruct (j_tr g' Hg') as [A B C D].
    destruct (Nat.eqb_spec g g') as [<-|Hne].
    + constructor; rewrite GT, Nat.eqb_refl; auto.
      * destruct C as [C|C]; [left|right]; auto.
      * rewrite F5. intros X. destruct (D X) as (D1 & D2 & D3 & D4). repeat split; auto.
        destruct D4 as [D4|[D4|D4]]; auto.
    + constructor; rewrite GT; destruct (Nat.eqb_spec g g'); try contradiction; auto.
      all: try (destruct C as [C|C]; [left|right]; auto; fail).
      all: intros X; destruct (D X) as (D1 & D2 & D3 & D4); repeat split; auto; destruct D4 as [D4|[D4|D4]]; auto.
Qed.

Lemma inv_setT s g f : Inv s -> g < length (trs s) ->
  (wp_left (f (getT s g)) = true -> wdn (f (getT s g)) = true /\ sockc (f (getT s g)) = true) ->
  (fired (f (getT s g)) = true -> wp (f (getT s g)) = WPExit) ->
  (wp (getT s g) = WPExit -> wp (f (getT s g)) = WPExit) ->
  (rp (getT s g) = RPExit -> rp (f (getT s g)) = RPExit) ->
  cconn (f (getT s g)) = cconn (getT s g) ->
  (wp (f (getT s g)) = WPHold -> wp (getT s g) = WPHold) ->
  (hr (f (getT s g)) = HRSel -> hr (getT s g) = HRSel \/ forall k, k < length (cl s) -> getC s k <> CRet true) ->
  Inv (setT s g f).
Proof.
  intros I Hg F1 F2 F3 F4 F5 F6 F7.
  change (Inv (setT s g f <| amu := amu s |>)). apply inv_setT_amu; auto.
  - intros H. apply (i_lock _ I H).
  - intros g' Hg' W. apply (i_lockw _ I g' Hg'). destruct (Nat.eqb_spec g g'); auto. subst. auto.
Qed.

Lemma inv_setG s i p : Inv s -> i < length (gs s) -> (in_wg p = true -> in_wg (getG s i) = true) -> Inv (setG s i p).
Proof.
  intros I Hi Hp. dI I. constructor; try (rdc; assumption).
  - intros k Hk E. apply wg_clear_spec. specialize (j_ret k Hk E). apply wg_clear_spec in j_ret. destruct j_ret as (A & B & C & D).
    repeat split; auto. intros j Hj. rewrite getG_setG. rewrite len_setG in Hj.
    destruct (Nat.eqb_spec i j); simpl; auto. subst j. destruct (Nat.ltb_spec i (length (gs s))); simpl; auto.
    destruct (in_wg p) eqn:E2; auto. rewrite <- (D i Hi). symmetry. apply Hp. reflexivity.
  - intros g Hg. eapply TrInv_ext; [ | | | | apply (j_tr g Hg)]; reflexivity.
Qed.

(* ---- steps of the pumps, the per-message goroutines, the publisher and the reader manager ---- *)
Lemma setT_overflow s g f : length (trs s) <= g -> setT s g f = s.
Proof. intros H. unfold setT. rewrite upd_overflow; auto. destruct s; reflexivity. Qed.

Lemma ltb_lt a b : Nat.ltb a b = true -> a < b. Proof. apply Nat.ltb_lt. Qed.
Lemma negb_ltb a b : negb (Nat.ltb a b) = false -> a < b. Proof. intros H. apply negb_false_iff in H. apply Nat.ltb_lt. exact H. Qed.

(* no Close has finished while something that the wait group counts is still there *)
Lemma no_ret_lc s : Inv s -> lc s <> LCExit -> forall k, k < length (cl s) -> getC s k <> CRet true.
Proof. intros I H k Hk E. dI I. specialize (j_ret k Hk E). apply wg_clear_spec in j_ret. tauto. Qed.
Lemma no_ret_lr s : Inv s -> lr s <> LRExit -> forall k, k < length (cl s) -> getC s k <> CRet true.
Proof. intros I H k Hk E. dI I. specialize (j_ret k Hk E). apply wg_clear_spec in j_ret. tauto. Qed.
Lemma no_ret_hr s g : Inv s -> g < length (trs s) -> hr (getT s g) = HRSel -> forall k, k < length (cl s) -> getC s k <> CRet true.
Proof. intros I Hg H k Hk E. dI I. specialize (j_ret k Hk E). apply wg_clear_spec in j_ret. destruct j_ret as (_ & _ & C & _). apply (C g Hg H). Qed.
Lemma no_ret_g s i : Inv s -> i < length (gs s) -> in_wg (getG s i) = true -> forall k, k < length (cl s) -> getC s k <> CRet true.
Proof. intros I Hg H k Hk E. dI I. specialize (j_ret k Hk E). apply wg_clear_spec in j_ret. destruct j_ret as (_ & _ & _ & D). rewrite (D i Hg) in H. discriminate. Qed.

(* ---- pumps ---- *)
Ltac pre H := unfold step in H; crack H; injection H as <-;
  repeat match goal with
  | H : negb (Nat.ltb _ _) = false |- _ => apply negb_ltb in H
  | H : Nat.ltb _ _ = true |- _ => apply ltb_lt in H
  | H : _ good = false |- _ => discriminate H end.
Ltac trfacts j_tr := match goal with Hg : ?g < length (trs ?s) |- _ => destruct (j_tr g Hg) as [A B C D] end.
Ltac sett j_tr := apply inv_setT; auto; trfacts j_tr; unfold wp_leave, wp_left in *; cbn in *; intros;
  repeat match goal with H : wp _ = _ |- _ => rewrite H in * | H : rp _ = _ |- _ => rewrite H in * | H : hr _ = _ |- _ => rewrite H in * end;
  try congruence; try discriminate; auto;
  try (match goal with H : fired ?t = true, B : fired ?t = true -> _ |- _ => specialize (B H); discriminate end);
  try (split; auto; match goal with A : _ -> wdn _ = true /\ _ |- _ => apply A; assumption end).
Lemma step_pump s s' l : Inv s -> step good s l = Some s' ->
  match l with LNet _ | LSockDie _ | LRp _ | LWpCwp _ | LWpCconn _ _ | LWpTickErr _ | LWpClosed _ | LHr _ => True | _ => False end -> Inv s'.
Proof.
  intros I H L. pose proof I as I0. dI I0. destruct l; try contradiction; pre H; sett j_tr.
Qed.

Lemma inv_addG s l p : Inv s -> l = gs s -> (in_wg p = true -> forall k, k < length (cl s) -> getC s k <> CRet true) -> Inv (s <| gs := l ++ [p] |>).
Proof.
  intros I -> Hp. eapply inv_ext; eauto. intros k Hk E. pose proof I as I0. dI I0. pose proof (j_ret k Hk E) as W.
  apply wg_clear_spec in W. destruct W as (A & B & C & D). apply wg_clear_spec. cbn.
  repeat split; auto. intros i Hi. unfold getG. cbn. rewrite app_length in Hi. cbn in Hi.
  destruct (Nat.eq_dec i (length (gs s))) as [->|Hne].
  - rewrite nth_app_last. destruct (in_wg p) eqn:E2; auto. exfalso. apply (Hp eq_refl k Hk E).
  - rewrite nth_app_old by lia. apply D. lia.
Qed.

Lemma step_hand s s' g kind : Inv s -> step good s (LHand g kind) = Some s' -> Inv s'.
Proof.
  intros I H. pose proof I as I0. dI I0. pre H.
  assert (I1 : Inv (setT s g (fun t => t <| rp := RPRead |>))) by sett j_tr.
  assert (NR : forall k, k < length (cl s) -> getC s k <> CRet true) by (eapply no_ret_hr; eauto).
  destruct kind as [[|]|]; auto; (apply inv_addG; [exact I1 | reflexivity | intros _; exact NR]).
Qed.

Lemma step_gs s s' l : Inv s -> step good s l = Some s' ->
  match l with LNewInvoke | LHandlerRet _ _ | LG _ _ => True | _ => False end -> Inv s'.
Proof.
  intros I H L. pose proof I as I0. dI I0. destruct l; try contradiction; pre H.
  all: try (apply inv_addG; auto; cbn; discriminate).
  all: try (apply inv_setG; auto; unfold getG in *; cbn; intros; try discriminate; try (match goal with H : nth _ _ _ = _ |- _ => rewrite H end; auto); fail).
  (* a write handed to the write pump; a failed write ends the pump *)
  match goal with H : wp (getT s ?g) = WPSel |- _ => rename H into HW end.
  match goal with H : getG s i = GWrite _ _ |- _ => rename H into HG end.
  assert (I1 : Inv (setG s i (if w then GDone false else GWait))).
  { apply inv_setG; auto. rewrite HG. destruct w; cbn; auto. }
  destruct ok; auto.
  assert (Hg : g < length (trs (setG s i (if w then GDone false else GWait)))).
  { cbn. destruct (Nat.ltb_spec g (length (trs s))); auto. unfold getT in HW. rewrite nth_overflow in HW by lia. discriminate. }
  apply inv_setT; auto; destruct (i_tr _ I1 g Hg) as [A B C D]; unfold wp_leave, wp_left in *;
  change (getT (setG s i (if w then GDone false else GWait)) g) with (getT s g) in *; cbn in *; rewrite ?HW in *; intros; try congruence; try discriminate; auto.
  specialize (B H). discriminate.
Qed.

(* ---- the publisher and the reader manager ---- *)
Lemma step_pubs s s' l : Inv s -> step good s l = Some s' ->
  match l with LLc | LLcExit | LLrExit => True | _ => False end -> Inv s'.
Proof.
  intros I H L. destruct l; try contradiction; pre H.
  - unfold set_csm. cbn. destruct (cstate_eqb (csm s) v) eqn:E1; [|destruct (cstate_eqb (csm s) Shutdown) eqn:E2].
    all: eapply inv_ext; [exact I | reflexivity.. | | ]; cbn; auto.
    all: try (intros k Hk E; exfalso; eapply (no_ret_lc s I); [ | exact Hk | exact E]; congruence).
    intros X. rewrite X in E2. discriminate.
  - eapply inv_ext; [exact I | reflexivity.. | | ]; cbn; auto.
    intros k Hk E; exfalso; eapply (no_ret_lc s I); [ | exact Hk | exact E]; congruence.
  - eapply inv_ext; [exact I | reflexivity.. | | ]; cbn; auto.
    intros k Hk E; exfalso; eapply (no_ret_lr s I); [ | exact Hk | exact E]; congruence.
Qed.

Lemma inv_setT_hr s g f : Inv s ->
  (forall t, wp (f t) = wp t /\ rp (f t) = rp t /\ cconn (f t) = cconn t /\ fired (f t) = fired t /\ wdn (f t) = wdn t /\ sockc (f t) = sockc t) ->
  (forall t, hr (f t) = HRSel -> hr t = HRSel \/ forall k, k < length (cl s) -> getC s k <> CRet true) ->
  Inv (setT s g f).
Proof.
  intros I F H. destruct (Nat.ltb_spec g (length (trs s))) as [Hg|Hg]; [|rewrite setT_overflow; auto].
  destruct (F (getT s g)) as (F1 & F2 & F3 & F4 & F5 & F6). destruct (i_tr _ I g Hg) as [A B C D].
  apply inv_setT; auto; unfold wp_left in *; rewrite ?F1, ?F2, ?F3, ?F4, ?F5, ?F6; auto.
Qed.

Lemma step_lr s s' : Inv s -> step good s LLr = Some s' -> Inv s'.
Proof.
  intros I H. pre H.
  all: assert (NR : forall k, k < length (cl s) -> getC s k <> CRet true) by (apply (no_ret_lr s I); congruence).
  all: try (eapply inv_ext; [exact I | reflexivity.. | | ]; cbn; auto; intros k Hk E; exfalso; apply (NR k Hk E)).
  match goal with |- Inv (?x <| lrcur := _ |> <| lr := _ |>) => assert (I2 : Inv x /\ cl x = cl s) end.
  { assert (I1 : Inv (match lrcur s with Some o => setT s o (fun t => t <| hdone := true |>) | None => s end)
                 /\ cl (match lrcur s with Some o => setT s o (fun t => t <| hdone := true |>) | None => s end) = cl s).
    { destruct (lrcur s); split; auto. apply inv_setT_hr; auto; intros; cbn; auto. repeat split; auto. }
    destruct I1 as [I1 E1]. destruct t; split; auto.
    apply inv_setT_hr; auto; intros; cbn; auto. { repeat split; auto. } right. rewrite E1. unfold getC. rewrite E1. exact NR. }
  destruct I2 as [I2 E2]. eapply inv_ext; [exact I2 | reflexivity.. | | ]; cbn; auto.
  intros k Hk E; exfalso. unfold getC in E. rewrite E2 in *. apply (NR k Hk E).
Qed.

(* ---- the close callback, the reconnect loop ---- *)
Ltac pre2 H := unfold step, pub in H; crack H; injection H as <-;
  repeat match goal with
  | H : negb (Nat.ltb _ _) = false |- _ => apply negb_ltb in H
  | H : Nat.ltb _ _ = true |- _ => apply ltb_lt in H
  | H : _ good = false |- _ => discriminate H
  | H : cstate_eqb _ _ = true |- _ => apply cstate_eqb_eq in H
  | H : cstate_eqb _ _ = false |- _ => apply cstate_eqb_neq in H end.

Lemma inv_acst s v l' : Inv s -> acst s <> Shutdown -> v <> Shutdown -> Inv (s <| acst := v |> <| lc := l' |>).
Proof.
  intros I N1 N2. pose proof I as I0. dI I0.
  assert (NA : forall k, k < length (cl s) -> after_t1 (getC s k) = false).
  { intros k Hk. destruct (after_t1 (getC s k)) eqn:E; auto. destruct (j_t1 k Hk E). contradiction. }
  constructor; try (rdc; assumption); rdc; auto.
  - intros k Hk E. rewrite (NA k Hk) in E. discriminate.
  - intros k Hk E. exfalso. specialize (NA k Hk). unfold getC in NA. rewrite E in NA. discriminate.
  - intros; contradiction.
  - intros g H. destruct (j_wait g H) as [X|[X _]]; auto. contradiction.
  - intros g H. exfalso. apply N1. eapply j_closing; eauto.
  - intros H. destruct (j_lock H). split; auto.
  - intros g Hg. eapply TrInv_ext; [ | | | | apply (j_tr g Hg)]; reflexivity.
Qed.

Lemma step_wplock s s' g : Inv s -> step good s (LWpLock g) = Some s' -> Inv s'.
Proof.
  intros I H. pose proof I as I0. dI I0. pre2 H.
  match goal with H : wp _ = WPAfter |- _ => rename H into HW end.
  assert (FR : amu s = None) by (unfold free in *; destruct (amu s); congruence).
  destruct (j_tr g ltac:(assumption)) as [A B C D].
  apply inv_setT_amu; auto; unfold wp_left in *; cbn; rewrite ?HW in *; intros; try congruence; auto.
  all: try (match goal with H : fired _ = true |- _ => specialize (B H); discriminate end).
  all: try (match goal with H : rt_hold _ = true |- _ => destruct (j_lock H); congruence end).
  destruct (Nat.eqb_spec g g'); [subst; auto|]. match goal with H : wp (getT s g') = WPHold |- _ => specialize (j_lockw g' ltac:(assumption) H); congruence end.
Qed.

Ltac fixeq := repeat match goal with
  | H : cstate_eqb _ _ = true |- _ => apply cstate_eqb_eq in H
  | H : cstate_eqb _ _ = false |- _ => apply cstate_eqb_neq in H end.
Lemma step_wprel s s' g via : Inv s -> step good s (LWpRel g via) = Some s' -> Inv s'.
Proof.
  intros I H. pose proof I as I0. dI I0. pre2 H.
  match goal with H : wp _ = WPHold |- _ => rename H into HW end.
  match goal with H : g < length (trs s) |- _ => rename H into Hg end.
  pose proof (j_lockw g Hg HW) as AM.
  assert (NS : acst s <> Shutdown -> forall v l', v <> Shutdown -> Inv (s <| acst := v |> <| lc := l' |>)) by (intros; apply inv_acst; auto).
  assert (I1 : Inv s0 /\ trs s0 = trs s /\ rt s0 = rt s /\ cl s0 = cl s).
  { match goal with H : _ = Some s0 |- _ => crack H; injection H as <- end; fixeq; auto.
    - split; [|auto]. apply NS; congruence.
    - split; [|auto]. change (Inv (s <| acst := Idle |> <| lc := lc s |>)). apply NS; congruence. }
  destruct I1 as (I1 & E1 & E2 & E3).
  assert (GT : getT s0 g = getT s g) by (unfold getT; rewrite E1; auto).
  destruct (i_tr _ I1 g ltac:(rewrite E1; auto)) as [A B C D].
  apply inv_setT_amu; auto; rewrite ?E1, ?E2, ?GT; auto; unfold wp_left in *; cbn; rewrite ?HW in *; intros; try congruence; auto.
  - rewrite GT, HW in A. apply A; auto.
  - match goal with H : rt_hold _ = true |- _ => destruct (j_lock H); congruence end.
  - exfalso. destruct (Nat.eqb_spec g g') as [<-|Hne].
    + cbn in *. discriminate.
    + match goal with H : wp (getT s0 g') = WPHold |- _ => unfold getT in H; rewrite E1 in H; pose proof (j_lockw g' ltac:(assumption) H) end. congruence.
Qed.

Lemma Live_cases s g : Live s g -> actr s = Some g \/ rt_uses (rt s) g = true \/ exists k, k < length (cl s) /\ closing_g (getC s k) g = true.
Proof. auto. Qed.
Lemma noactr_none s : Inv s -> rt_noactr (rt s) = true -> actr s = None.
Proof. intros I H. destruct (actr s) eqn:E; auto. destruct (i_actr _ I n E). congruence. Qed.

Lemma step_timer s s' : Inv s -> step good s LTimer = Some s' -> Inv s'.
Proof.
  intros I H. pose proof I as I0. dI I0. pre2 H.
  match goal with H : rt s = _ |- _ => rename H into HR end.
  assert (AN : actr s = None) by (apply noactr_none; auto; rewrite HR; auto).
  constructor; rdc; rewrite ?HR, ?AN in *; auto; try (intros; discriminate).
  - intros k Hk E. specialize (j_t4 k Hk E). discriminate.
  - intros g Hg. destruct (j_tr g Hg) as [A B C D]. constructor; auto.
    + destruct C as [C|C]; auto. left. destruct C as [C|[C|C]]; unfold Live; rdc; rewrite ?HR, ?AN in *; auto; discriminate.
    + intros X. destruct (D X) as (D1 & D2 & D3 & D4). rdc. rewrite ?HR in *. repeat split; auto. destruct D4 as [D4|[D4|D4]]; auto. discriminate.
Qed.

Ltac trg j_tr := intros g0 Hg0; destruct (j_tr g0 Hg0) as [A B C D]; constructor; auto.

Ltac easygoals := try solve [intros; discriminate | intros ? [?|?]; discriminate | intros ? [?|?] ?; discriminate | intros; lia | intros; congruence].

(* a transport's clauses when only the address connection and the Close calls move *)
Lemma TrInv_upd s s' g : getT s' g = getT s g -> TrInv s g ->
  (Live s g -> Live s' g \/ wp (getT s g) = WPExit) ->
  (cconn (getT s g) = true ->
     actr s' <> Some g /\ rt_fresh (rt s') g = false /\ (forall k, k < length (cl s') -> getC s' k <> T2 g) /\
     ((exists k, k < length (cl s) /\ getC s k = T3 g) \/ rt s = RClosing g ->
      (exists k, k < length (cl s') /\ getC s' k = T3 g) \/ rt s' = RClosing g \/ pumps_gone s g = true)) ->
  TrInv s' g.
Proof.
  intros GT [A B C D] HL HC.
  assert (PG : pumps_gone s' g = pumps_gone s g) by (unfold pumps_gone; rewrite GT; auto).
  constructor; rewrite ?GT, ?PG; auto.
  - destruct C as [C|C]; auto.
  - intros X. destruct (HC X) as (H1 & H2 & H3 & H4). destruct (D X) as (_ & _ & _ & D4). repeat split; auto.
    destruct D4 as [D4|[D4|D4]]; auto.
Qed.

Lemma step_rtctx s s' : Inv s -> step good s LRtCtx = Some s' -> Inv s'.
Proof.
  intros I H. pose proof I as I0. dI I0. pre2 H.
  all: match goal with H : rt _ = _ |- _ => rename H into HR end.
  all: constructor; rdc; rewrite ?HR in *; auto; easygoals.
  all: try (intros g0 Hg0; apply (TrInv_upd s); auto; destruct (j_tr g0 Hg0) as [A B C D]; unfold Live; rdc; rewrite ?HR in *).
  all: try solve [intuition (try discriminate; try congruence; eauto)].
  - intros g0 X. destruct (j_actr g0 X). split; auto.
  - intros [X|[X|X]]; auto. cbn in X. apply Nat.eqb_eq in X. subst g0.
    destruct (j_wait g eq_refl) as [Y|[Y [Z|Z]]]; auto.
Qed.

Lemma step_rtfired s s' : Inv s -> step good s LRtFired = Some s' -> Inv s'.
Proof.
  intros I H. pose proof I as I0. dI I0. pre2 H.
  all: match goal with H : rt _ = _ |- _ => rename H into HR end.
  all: constructor; rdc; rewrite ?HR in *; auto; easygoals.
  all: try (intros g0 Hg0; apply (TrInv_upd s); auto; destruct (j_tr g0 Hg0) as [A B C D]; unfold Live; rdc; rewrite ?HR in *).
  all: try solve [intuition (try discriminate; try congruence; eauto)].
  all: match goal with H : fired _ = true |- _ => rename H into HF end.
  all: assert (Hg : g < length (trs s)) by (apply j_rtg; cbn; apply Nat.eqb_refl).
  all: pose proof (t_fired _ _ (j_tr g Hg) HF) as WX.
  - intros k Hk E. specialize (j_t4 k Hk E). congruence.
  - intros g0 _ X. destruct (j_wait g eq_refl) as [Y|[Y _]]; [assert (g0 = g) by congruence; subst; exact WX|]. destruct (j_shut Y) as (k & Hk & E). destruct (j_t1 k Hk E). congruence.
  - intros [X|[X|X]]; auto. cbn in X. apply Nat.eqb_eq in X. subst g0. right. exact WX.
Qed.


Ltac std HR := constructor; rdc; rewrite ?HR in *; auto; easygoals.
Ltac t4g j_t4 := try solve [intros k Hk E; specialize (j_t4 k Hk E); congruence].
Ltac trs_ s j_tr HR := try (intros g0 Hg0; apply (TrInv_upd s); [reflexivity | exact (j_tr g0 Hg0) | | ]; destruct (j_tr g0 Hg0) as [A B C D]; unfold Live; rdc; rewrite ?HR in *).
Ltac t1g HT := try solve [intros k Hk E; unfold getC in HT; rewrite (HT k Hk) in E; discriminate].
Ltac whg HW := try solve [let W := fresh in intros ? ? W; exfalso; eapply HW; [|exact W]; assumption].
Ltac prop := try solve [intuition (try discriminate; try congruence; eauto)].

Lemma step_dial s s' ok : Inv s -> step good s (LDial ok) = Some s' -> Inv s'.
Proof.
  intros I H. pose proof I as I0. dI I0. pre2 H.
  all: match goal with H : rt _ = _ |- _ => rename H into HR end.
  all: assert (AN : actr s = None) by (apply noactr_none; auto; rewrite HR; auto).
  2: { std HR. all: t4g j_t4. all: trs_ s j_tr HR. all: prop. }
  std HR. all: t4g j_t4.
  - intros k Hk E. exfalso. assert (X : after_t4 (getC s k) = true) by (unfold getC; rewrite E; auto). specialize (j_t4 k Hk X). congruence.
  - intros k g Hk E. rewrite app_length. specialize (j_cg k g Hk E). lia.
  - intros g E. apply Nat.eqb_eq in E. rewrite app_length. cbn. lia.
  - intros g Hg W. rewrite app_length in Hg. cbn in Hg. destruct (Nat.eq_dec g (length (trs s))) as [->|Hne].
    + rewrite nth_app_last in W. discriminate.
    + rewrite nth_app_old in W by lia. apply j_lockw; auto. lia.
  - intros g Hg. rewrite app_length in Hg. cbn in Hg. destruct (Nat.eq_dec g (length (trs s))) as [->|Hne].
    + constructor; unfold getT, Live; rdc; rewrite ?nth_app_last; cbn; try discriminate.
      left. right. left. apply Nat.eqb_refl.
    + assert (Hg' : g < length (trs s)) by lia.
      apply (TrInv_upd s); [unfold getT; cbn; apply nth_app_old; auto | exact (j_tr g Hg') | | ]; destruct (j_tr g Hg') as [A B C D]; unfold Live; rdc; rewrite ?HR in *.
      * intros [X|[X|X]]; auto. discriminate.
      * intros X. destruct (D X) as (D1 & D2 & D3 & D4). repeat split; auto; try congruence.
        { destruct (Nat.eqb_spec g (length (trs s))); auto. contradiction. }
        { intros [Y|Y]; auto. discriminate. }
  - intros g k E Hk. apply Nat.eqb_eq in E. subst g. destruct (closing_g (nth k (cl s) (CRet false)) (length (trs s))) eqn:X; auto.
    specialize (j_cg k _ Hk X). lia.
Qed.


Lemma pub_cases s v via s' : pub s v via = Some s' ->
  (acst s = v /\ s' = s) \/
  (acst s <> v /\ via = true /\ lc s = LCSel /\ s' = s <| acst := v |> <| lc := LCUpd v |>) \/
  (acst s <> v /\ via = false /\ ctxd s = true /\ s' = s <| acst := v |>).
Proof.
  unfold pub. destruct (cstate_eqb (acst s) v) eqn:E.
  - intros H; injection H as <-. left. split; auto. apply cstate_eqb_eq; auto.
  - apply cstate_eqb_neq in E. destruct via.
    + destruct (lc s) eqn:L; try discriminate. intros H; injection H as <-. right; left. auto.
    + destruct (ctxd s) eqn:C; try discriminate. intros H; injection H as <-. right; right. auto.
Qed.

Ltac pre3 H := unfold step in H; crack H; injection H as <-;
  repeat match goal with
  | H : negb (Nat.ltb _ _) = false |- _ => apply negb_ltb in H
  | H : Nat.ltb _ _ = true |- _ => apply ltb_lt in H
  | H : _ good = false |- _ => discriminate H
  | H : cstate_eqb _ _ = true |- _ => apply cstate_eqb_eq in H
  | H : cstate_eqb _ _ = false |- _ => apply cstate_eqb_neq in H
  | H : pub _ _ _ = Some _ |- _ => apply pub_cases in H; destruct H as [[? ->]|[(? & ? & ? & ->)|(? & ? & ? & ->)]] end.

Lemma no_t1_if s : Inv s -> acst s <> Shutdown -> forall k, k < length (cl s) -> after_t1 (getC s k) = false.
Proof. intros I N k Hk. destruct (after_t1 (getC s k)) eqn:E; auto. destruct (i_t1 _ I k Hk E). contradiction. Qed.
Lemma no_ret_if_rt s : Inv s -> rt s <> RExit -> forall k, k < length (cl s) -> getC s k <> CRet true.
Proof. intros I N k Hk E. apply N. apply (i_t4 _ I k Hk). rewrite E. reflexivity. Qed.
Lemma hold_facts s : Inv s -> rt_hold (rt s) = true -> amu s = Some HRt /\ acst s <> Shutdown /\ (forall g, g < length (trs s) -> wp (getT s g) <> WPHold)
   /\ (forall k, k < length (cl s) -> after_t1 (getC s k) = false) /\ (forall k, k < length (cl s) -> getC s k <> CRet true).
Proof.
  intros I H. destruct (i_lock _ I H) as [A B]. repeat split; auto.
  - intros g Hg W. pose proof (i_lockw _ I g Hg W). congruence.
  - apply no_t1_if; auto.
  - apply no_ret_if_rt; auto. destruct (rt s); try discriminate.
Qed.
Lemma free_facts s : Inv s -> free s = true -> amu s = None /\ rt_hold (rt s) = false /\ (forall g, g < length (trs s) -> wp (getT s g) <> WPHold).
Proof.
  intros I F. assert (A : amu s = None) by (unfold free in F; destruct (amu s); congruence). repeat split; auto.
  - destruct (rt_hold (rt s)) eqn:E; auto. destruct (i_lock _ I E). congruence.
  - intros g Hg W. pose proof (i_lockw _ I g Hg W). congruence.
Qed.

(* RTop: take the lock, or leave if shut down *)
Lemma step_rt_top s s' via : Inv s -> rt s = RTop -> step good s (LRt via) = Some s' -> Inv s'.
Proof.
  intros I HR H. pose proof I as I0. dI I0. unfold step in H. rewrite HR in H. pre3 H.
  all: match goal with H : negb (free _) = false |- _ => apply negb_false_iff in H; destruct (free_facts _ I H) as (FA & FH & FW) end.
  all: std HR; t4g j_t4; trs_ s j_tr HR; prop.
  intros g Hg W. exfalso. apply (FW g Hg W).
Qed.

(* RHoldTop: forget the transport, report Connecting, unlock, dial *)
Lemma step_rt_holdtop s s' via : Inv s -> rt s = RHoldTop -> step good s (LRt via) = Some s' -> Inv s'.
Proof.
  intros I HR H. pose proof I as I0. dI I0. unfold step in H. rewrite HR in H. pre3 H.
  all: destruct (hold_facts s I ltac:(rewrite HR; reflexivity)) as (HA & HS & HW & HT & HN).
  all: std HR; t4g j_t4; t1g HT; whg HW; trs_ s j_tr HR; prop.
Qed.


(* RGot: the dial succeeded *)
Lemma step_rt_got s s' via g : Inv s -> rt s = RGot g -> step good s (LRt via) = Some s' -> Inv s'.
Proof.
  intros I HR H. pose proof I as I0. dI I0. unfold step in H. rewrite HR in H. pre3 H.
  all: match goal with H : negb (free _) = false |- _ => apply negb_false_iff in H; destruct (free_facts _ I H) as (FA & FH & FW) end.
  all: assert (AN : actr s = None) by (apply noactr_none; auto; rewrite HR; auto).
  all: assert (Hg : g < length (trs s)) by (apply j_rtg; rewrite HR; cbn; apply Nat.eqb_refl).
  all: destruct (j_tr g Hg) as [TA TB TC TD].
  - (* closing a closed channel cannot happen: the fresh transport has not been closed by anybody *)
    exfalso. match goal with H : cconn _ = true |- _ => destruct (TD H) as (_ & X & _) end. rewrite HR in X. cbn in X. rewrite Nat.eqb_refl in X. discriminate.
  - (* shut down meanwhile: close the fresh transport *)
    match goal with H : cconn _ = false |- _ => rename H into HC end.
    assert (NR : forall k, k < length (cl s) -> getC s k <> CRet true) by (apply no_ret_if_rt; auto; congruence).
    std HR; t4g j_t4; rewrite ?upd_length; auto.
    + intros k Hk E. exfalso. apply (NR k Hk E).
    + intros g0 Hg0. rewrite nth_upd. destruct (Nat.eqb g g0 && Nat.ltb g (length (trs s))) eqn:E; cbn; apply j_lockw; auto.
    + intros g0 Hg0. destruct (Nat.eq_dec g0 g) as [->|Hne].
      * constructor; unfold getT, Live, pumps_gone, getT; cbn -[nth upd]; rewrite !nth_upd, Nat.eqb_refl; destruct (Nat.ltb_spec g (length (trs s))); try lia; cbn; auto.
        { intros _. repeat split; auto; try congruence.
          intros k Hk E. specialize (j_fresh g k ltac:(cbn; apply Nat.eqb_refl) Hk). unfold getC in j_fresh. rewrite E in j_fresh. cbn in j_fresh. rewrite Nat.eqb_refl in j_fresh. discriminate. }
      * apply (TrInv_upd s); [unfold getT; cbn -[nth upd]; rewrite nth_upd; destruct (Nat.eqb_spec g g0); [congruence|reflexivity] | exact (j_tr g0 Hg0) | | ];
        destruct (j_tr g0 Hg0) as [A B C D]; unfold Live; rdc; rewrite ?HR in *.
        { intros [X|[X|X]]; auto; try (apply Nat.eqb_eq in X; contradiction); try discriminate. }
        { intros X. destruct (D X) as (D1 & D2 & D3 & D4). repeat split; auto; intros [Y|Y]; auto; discriminate. }
  - (* it has closed already: start again *)
    match goal with H : fired _ = true |- _ => pose proof (TB H) as WX end.
    std HR; t4g j_t4; trs_ s j_tr HR; prop.
    intros [X|[X|X]]; auto. cbn in X. apply Nat.eqb_eq in X. subst g0. right. exact WX.
  - (* take the lock to record it *)
    std HR; t4g j_t4; whg FW; trs_ s j_tr HR; prop.
Qed.


(* RHoldGot: record the transport, report Ready, unlock, wait *)
Lemma step_rt_holdgot s s' via g : Inv s -> rt s = RHoldGot g -> step good s (LRt via) = Some s' -> Inv s'.
Proof.
  intros I HR H. pose proof I as I0. dI I0. unfold step in H. rewrite HR in H. pre3 H.
  all: destruct (hold_facts s I ltac:(rewrite HR; reflexivity)) as (HA & HS & HW & HT & HN).
  all: assert (AN : actr s = None) by (apply noactr_none; auto; rewrite HR; auto).
  all: assert (Hg : g < length (trs s)) by (apply j_rtg; rewrite HR; cbn; apply Nat.eqb_refl).
  all: destruct (j_tr g Hg) as [TA TB TC TD].
  all: std HR; t4g j_t4; t1g HT; whg HW; trs_ s j_tr HR; prop.
  all: intros X; destruct (D X) as (D1 & D2 & D3 & D4); repeat split; auto;
    [ intros E; injection E as <-; cbn in D2; rewrite Nat.eqb_refl in D2; discriminate | intros [Y|Y]; auto; discriminate ].
Qed.

(* RFailed: the dial failed *)
Lemma step_rt_failed s s' via : Inv s -> rt s = RFailed -> step good s (LRt via) = Some s' -> Inv s'.
Proof.
  intros I HR H. pose proof I as I0. dI I0. unfold step in H. rewrite HR in H. pre3 H.
  all: match goal with H : negb (free _) = false |- _ => apply negb_false_iff in H; destruct (free_facts _ I H) as (FA & FH & FW) end.
  all: assert (AN : actr s = None) by (apply noactr_none; auto; rewrite HR; auto).
  all: std HR; t4g j_t4; whg FW; trs_ s j_tr HR; prop.
Qed.

Lemma step_rt_holdfail s s' via : Inv s -> rt s = RHoldFail -> step good s (LRt via) = Some s' -> Inv s'.
Proof.
  intros I HR H. pose proof I as I0. dI I0. unfold step in H. rewrite HR in H. pre3 H.
  all: destruct (hold_facts s I ltac:(rewrite HR; reflexivity)) as (HA & HS & HW & HT & HN).
  all: assert (AN : actr s = None) by (apply noactr_none; auto; rewrite HR; auto).
  all: std HR; t4g j_t4; t1g HT; whg HW; trs_ s j_tr HR; prop.
Qed.


Lemma step_rt_closing s s' via g : Inv s -> rt s = RClosing g -> step good s (LRt via) = Some s' -> Inv s'.
Proof.
  intros I HR H. pose proof I as I0. dI I0. unfold step in H. rewrite HR in H. pre3 H.
  match goal with H : pumps_gone _ _ = true |- _ => rename H into PG end.
  assert (AN : actr s = None) by (apply noactr_none; auto; rewrite HR; auto).
  std HR; t4g j_t4; trs_ s j_tr HR; prop.
  - intros [X|[X|X]]; auto. cbn in X. apply Nat.eqb_eq in X. subst g0. right.
    unfold pumps_gone, getT in PG. destruct (rp (nth g (trs s) _)); try discriminate. destruct (wp (nth g (trs s) _)) eqn:W; try discriminate. reflexivity.
  - intros X. destruct (D X) as (D1 & D2 & D3 & D4). repeat split; auto. intros [Y|Y]; auto. injection Y as <-. right. right. exact PG.
Qed.

Lemma step_rt s s' via : Inv s -> step good s (LRt via) = Some s' -> Inv s'.
Proof.
  intros I H. destruct (rt s) eqn:HR.
  - eapply step_rt_top; eauto.
  - eapply step_rt_holdtop; eauto.
  - unfold step in H. rewrite HR in H. destruct (crashed s); discriminate.
  - eapply step_rt_got; eauto.
  - eapply step_rt_holdgot; eauto.
  - eapply step_rt_failed; eauto.
  - eapply step_rt_holdfail; eauto.
  - unfold step in H. rewrite HR in H. destruct (crashed s); discriminate.
  - unfold step in H. rewrite HR in H. destruct (crashed s); discriminate.
  - eapply step_rt_closing; eauto.
  - unfold step in H. rewrite HR in H. destruct (crashed s); discriminate.
Qed.



(* ---- Close ---- *)
Lemma step_newclose s s' : Inv s -> step good s LNewClose = Some s' -> Inv s'.
Proof.
  intros I H. pose proof I as I0. dI I0. pre3 H.
  assert (GC : forall k, k < length (cl s) -> nth k (cl s ++ [C0]) (CRet false) = nth k (cl s) (CRet false)) by (intros; apply nth_app_old; auto).
  assert (GL : nth (length (cl s)) (cl s ++ [C0]) (CRet false) = C0) by apply nth_app_last.
  assert (K : forall k, k < length (cl s) + 1 -> k < length (cl s) \/ k = length (cl s)) by (intros; lia).
  constructor; rdc; rewrite ?app_length; cbn [length]; auto.
  - intros A k Hk. destruct (K k Hk) as [Hk'| ->]; [rewrite GC by auto; apply j_addr; auto | rewrite GL; auto].
  - intros k1 k2 H1 H2. destruct (K k1 H1) as [H1'| ->]; destruct (K k2 H2) as [H2'| ->]; rewrite ?GL; rewrite ?GC by auto; cbn; auto; try discriminate.
  - intros k Hk. destruct (K k Hk) as [Hk'| ->]; [rewrite GC by auto; apply j_ctx; auto | rewrite GL; congruence].
  - intros k Hk. destruct (K k Hk) as [Hk'| ->]; [rewrite GC by auto; apply j_t1; auto | rewrite GL; discriminate].
  - intros k Hk. destruct (K k Hk) as [Hk'| ->]; [rewrite GC by auto; apply j_t4; auto | rewrite GL; discriminate].
  - intros k Hk. destruct (K k Hk) as [Hk'| ->]; [rewrite GC by auto; apply j_t5; auto | rewrite GL; discriminate].
  - intros k Hk. destruct (K k Hk) as [Hk'| ->]; [rewrite GC by auto; intros E; exact (j_ret k Hk' E) | rewrite GL; discriminate].
  - intros k g Hk. destruct (K k Hk) as [Hk'| ->]; [rewrite GC by auto; apply j_cg; auto | rewrite GL; discriminate].
  - intros A. destruct (j_shut A) as (k & Hk & E). exists k. split; [lia | rewrite GC by auto; auto].
  - intros g A. destruct (j_wait g A) as [X|[X [(k & Hk & E)|Y]]]; auto. right. split; auto. left. exists k. split; [lia | rewrite GC by auto; auto].
  - intros g Hg. apply (TrInv_upd s); [reflexivity | exact (j_tr g Hg) | | ]; destruct (j_tr g Hg) as [A B C D]; unfold Live; rdc.
    + intros [X|[X|(k & Hk & E)]]; auto. left. right. right. exists k. rewrite app_length. split; [lia | rewrite GC by auto; auto].
    + intros X. destruct (D X) as (D1 & D2 & D3 & D4). rewrite app_length. cbn [length]. repeat split; auto.
      * intros k Hk. destruct (K k Hk) as [Hk'| ->]; [rewrite GC by auto; auto | rewrite GL; discriminate].
      * intros [(k & Hk & E)|Y]; auto. left. exists k. split; [lia | rewrite GC by auto; auto].
  - intros g k F Hk. destruct (K k Hk) as [Hk'| ->]; [rewrite GC by auto; auto | rewrite GL; reflexivity].
Qed.

Lemma inv_setC_pure s k p' : Inv s -> k < length (cl s) ->
  (addr s = true -> isC01 p' = true) ->
  (tearing p' = true -> tearing (getC s k) = true) ->
  (p' <> C0 -> ctxd s = true) ->
  (after_t1 p' = true -> acst s = Shutdown /\ actr s = None) ->
  (after_t4 p' = true -> rt s = RExit) ->
  (after_t5 p' = true -> csm s = Shutdown) ->
  (p' = CRet true -> wg_clear s = true) ->
  (forall g, closing_g p' g = true -> closing_g (getC s k) g = true) ->
  (after_t1 (getC s k) = true -> after_t1 p' = true) ->
  (forall g, closing_g (getC s k) g = true -> closing_g p' g = false -> pumps_gone s g = true) ->
  (forall g, p' <> T2 g) ->
  (forall g, p' = T3 g -> getC s k = T3 g) ->
  Inv (setC s k p').
Proof.
  intros I Hk C1 C2 C3 C4 C5 C6 C7 C8 C9 C10 C11 C12. pose proof I as I0. dI I0.
  assert (GS : forall k', getC (setC s k p') k' = if Nat.eqb k k' then p' else getC s k').
  { intros k'. rewrite getC_setC. destruct (Nat.ltb_spec k (length (cl s))); [|lia]. rewrite andb_true_r. reflexivity. }
  assert (LEN : length (cl (setC s k p')) = length (cl s)) by apply len_setC.
  assert (PGW : forall g, pumps_gone s g = true -> wp (getT s g) = WPExit).
  { intros g H. unfold pumps_gone in H. destruct (rp (getT s g)); try discriminate. destruct (wp (getT s g)); try discriminate. reflexivity. }
  constructor; try (rdc; assumption).
  - intros A k' Hk'. rewrite GS. destruct (Nat.eqb_spec k k'); auto. apply j_addr; auto. rewrite LEN in Hk'; auto.
  - intros k1 k2 H1 H2. rewrite LEN in *. rewrite !GS. destruct (Nat.eqb_spec k k1); destruct (Nat.eqb_spec k k2); intros T1 T2; try congruence.
    + subst k1. apply j_uniq; auto.
    + subst k2. apply j_uniq; auto.
    + apply j_uniq; auto.
  - intros k' Hk'. rewrite LEN in *. rewrite GS. destruct (Nat.eqb_spec k k'); auto. apply j_ctx; auto.
  - intros k' Hk'. rewrite LEN in *. rewrite GS. destruct (Nat.eqb_spec k k'); auto. apply j_t1; auto.
  - intros k' Hk'. rewrite LEN in *. rewrite GS. destruct (Nat.eqb_spec k k'); auto. apply j_t4; auto.
  - intros k' Hk'. rewrite LEN in *. rewrite GS. destruct (Nat.eqb_spec k k'); auto. apply j_t5; auto.
  - intros k' Hk'. rewrite LEN in *. rewrite GS. change (wg_clear (setC s k p')) with (wg_clear s). destruct (Nat.eqb_spec k k'); auto. apply j_ret; auto.
  - intros k' g Hk'. rewrite LEN in *. rewrite GS. change (trs (setC s k p')) with (trs s). destruct (Nat.eqb_spec k k'); [intros X; apply (j_cg k g Hk); auto | apply j_cg; auto].
  - intros A. destruct (j_shut A) as (k' & Hk' & E). exists k'. rewrite LEN, GS. split; auto. destruct (Nat.eqb_spec k k'); auto. subst. auto.
  - intros g A. destruct (j_wait g A) as [X|[X [(k' & Hk' & E)|Y]]]; auto. right. split; auto.
    destruct (Nat.eq_dec k k') as [<-|Hne].
    + destruct (closing_g p' g) eqn:Q.
      * left. exists k. rewrite LEN, GS, Nat.eqb_refl. auto.
      * right. apply PGW. apply C10; auto.
    + left. exists k'. rewrite LEN, GS. destruct (Nat.eqb_spec k k'); [contradiction|auto].
  - intros g Hg. apply (TrInv_upd s); [reflexivity | exact (j_tr g Hg) | | ]; destruct (j_tr g Hg) as [A B C D].
    + intros [X|[X|(k' & Hk' & E)]]; [left; left; exact X | left; right; left; exact X | ].
      destruct (Nat.eq_dec k k') as [<-|Hne].
      * destruct (closing_g p' g) eqn:Q.
        { left. right. right. exists k. rewrite LEN, GS, Nat.eqb_refl. auto. }
        { right. apply PGW. apply C10; auto. }
      * left. right. right. exists k'. rewrite LEN, GS. destruct (Nat.eqb_spec k k'); [contradiction|auto].
    + intros X. destruct (D X) as (D1 & D2 & D3 & D4). repeat split; auto.
      * intros k' Hk'. rewrite LEN in Hk'. rewrite GS. destruct (Nat.eqb_spec k k'); auto.
      * intros [(k' & Hk' & E)|Y]; auto. destruct (Nat.eq_dec k k') as [<-|Hne].
        { destruct (closing_g p' g) eqn:Q.
          - destruct p'; cbn in Q; try discriminate.
            + apply Nat.eqb_eq in Q. subst. exfalso. apply (C11 g0). reflexivity.
            + apply Nat.eqb_eq in Q. subst. left. exists k. rewrite LEN, GS, Nat.eqb_refl. auto.
          - right. right. apply C10; auto. rewrite E. cbn. apply Nat.eqb_refl. }
        { left. exists k'. rewrite LEN, GS. destruct (Nat.eqb_spec k k'); [contradiction|auto]. }
  - intros g k' F Hk'. rewrite LEN in Hk'. rewrite GS. destruct (Nat.eqb_spec k k'); [|apply j_fresh; auto].
    destruct (closing_g p' g) eqn:Q; auto. rewrite <- (j_fresh g k F Hk). symmetry. apply C8. exact Q.
Qed.

Lemma inv_ctxd s : Inv s -> Inv (s <| ctxd := true |>).
Proof.
  intros I. pose proof I as I0. dI I0. constructor; try (rdc; assumption); rdc; auto.
  intros g Hg. eapply TrInv_ext; [ | | | | apply (j_tr g Hg)]; reflexivity.
Qed.

Lemma set_csm_shutdown s : Inv s -> Inv (set_csm good s Shutdown) /\ csm (set_csm good s Shutdown) = Shutdown /\ cl (set_csm good s Shutdown) = cl s
   /\ ctxd (set_csm good s Shutdown) = ctxd s /\ acst (set_csm good s Shutdown) = acst s /\ actr (set_csm good s Shutdown) = actr s /\ rt (set_csm good s Shutdown) = rt s
   /\ addr (set_csm good s Shutdown) = addr s.
Proof.
  intros I. unfold set_csm. destruct (cstate_eqb (csm s) Shutdown) eqn:E.
  - apply cstate_eqb_eq in E. cbn. split; [exact I | repeat split; auto].
  - cbn. split; [|repeat split; auto]. eapply inv_ext; [exact I | reflexivity.. | | ]; cbn; auto.
    intros k Hk X. exact (i_ret _ I k Hk X).
Qed.

(* the Close steps which only move the program counter of the Close call *)
Lemma step_close_pure s s' k via : Inv s -> step good s (LClose k via) = Some s' ->
  match getC s k with C0 | T3 _ | T4 | T5 | T6 => True | C1 => addr s = false | _ => False end -> Inv s'.
Proof.
  intros I H L. pose proof I as I0. dI I0. unfold step in H. destruct (crashed s); [discriminate|].
  destruct (negb (Nat.ltb k (length (cl s)))) eqn:HK; [discriminate|]. apply negb_ltb in HK.
  pose proof (j_ctx k HK) as CX. pose proof (j_t1 k HK) as T1X. pose proof (j_t4 k HK) as T4X. pose proof (j_t5 k HK) as T5X.
  destruct (getC s k) eqn:E; try contradiction.
  - (* C0 *) injection H as <-. apply inv_setC_pure; try (apply inv_ctxd; exact I); auto;
      change (getC (s <| ctxd := true |>) k) with (getC s k); rewrite ?E; cbn; auto; try (intros; discriminate); try (intros; congruence).
  - (* C1, second Close *) rewrite L in H. cbn in H. injection H as <-.
    apply inv_setC_pure; auto; rewrite ?E; cbn; auto; try (intros; discriminate); try (intros; congruence).
    all: try (intros _; apply CX; discriminate).
    all: try (intros A; pose proof (j_addr A k HK) as Z; rewrite E in Z; discriminate Z).
  - (* T3 *) destruct (pumps_gone s g) eqn:PG; [|discriminate]. injection H as <-.
    apply inv_setC_pure; auto; rewrite ?E; cbn; auto; try (intros; discriminate); try (intros; congruence).
    all: try (intros _; apply CX; discriminate).
    all: try (intros A; pose proof (j_addr A k HK) as Z; rewrite E in Z; discriminate Z).
    all: try (intros g0 X _; apply Nat.eqb_eq in X; subst; auto).
  - (* T4 *) destruct (rt s) eqn:R; try discriminate. injection H as <-.
    apply inv_setC_pure; auto; rewrite ?E; cbn; auto; try (intros; discriminate); try (intros; congruence).
    all: try (intros _; apply CX; discriminate).
    all: try (intros A; pose proof (j_addr A k HK) as Z; rewrite E in Z; discriminate Z).
  - (* T5 *) injection H as <-. destruct (set_csm_shutdown s I) as (I1 & S1 & S2 & S3 & S4 & S5 & S6 & S7).
    apply inv_setC_pure; auto; unfold getC; rewrite ?S1, ?S2, ?S3, ?S4, ?S5, ?S6, ?S7; fold (getC s k); rewrite ?E; cbn; auto; try (intros; discriminate); try (intros; congruence).
    all: try (intros _; apply CX; discriminate).
    all: try (intros A; pose proof (j_addr A k HK) as Z; rewrite E in Z; discriminate Z).
  - (* T6 *) destruct (wg_clear s) eqn:W; [|discriminate]. injection H as <-.
    apply inv_setC_pure; auto; rewrite ?E; cbn; auto; try (intros; discriminate); try (intros; congruence).
    all: try (intros _; apply CX; discriminate).
    all: try (intros A; pose proof (j_addr A k HK) as Z; rewrite E in Z; discriminate Z).
Qed.

(* C1 -> T1: the first Close detaches the address connection *)
Lemma step_close_c1 s s' k via : Inv s -> getC s k = C1 -> addr s = true -> step good s (LClose k via) = Some s' -> Inv s'.
Proof.
  intros I E A H. pose proof I as I0. dI I0. unfold step in H. destruct (crashed s) eqn:CR; [discriminate|].
  destruct (negb (Nat.ltb k (length (cl s)))) eqn:HK; [discriminate|]. apply negb_ltb in HK.
  rewrite E, A in H. injection H as <-.
  assert (GS : forall k', getC (setC (s <| addr := false |>) k T1) k' = if Nat.eqb k k' then T1 else getC s k').
  { intros k'. rewrite getC_setC. change (cl (s <| addr := false |>)) with (cl s). change (getC (s <| addr := false |>) k') with (getC s k'). destruct (Nat.ltb_spec k (length (cl s))); [|lia]. rewrite andb_true_r. reflexivity. }
  assert (LEN : length (cl (setC (s <| addr := false |>) k T1)) = length (cl s)) by (exact (len_setC (s <| addr := false |>) k T1)).
  assert (ALL : forall k', k' < length (cl s) -> isC01 (getC s k') = true) by (apply j_addr; auto).
  assert (NS : acst s <> Shutdown).
  { intros X. destruct (j_shut X) as (k' & Hk' & Y). specialize (ALL k' Hk'). destruct (getC s k'); discriminate. }
  constructor; try (rdc; assumption); cbn -[getC nth upd length Nat.eqb Nat.ltb wg_clear pumps_gone]; rewrite ?upd_length.
  - intros X. discriminate.
  - intros k1 k2 H1 H2. rewrite !GS. destruct (Nat.eqb_spec k k1); destruct (Nat.eqb_spec k k2); intros T1 T2; try congruence.
    + specialize (ALL k2 H2). destruct (getC s k2); discriminate.
    + specialize (ALL k1 H1). destruct (getC s k1); discriminate.
    + specialize (ALL k1 H1). destruct (getC s k1); discriminate.
  - intros k' Hk'. rewrite GS. destruct (Nat.eqb_spec k k'); [intros _; apply (j_ctx k HK); rewrite E; discriminate | apply j_ctx; auto].
  - intros k' Hk'. rewrite GS. destruct (Nat.eqb_spec k k'); [discriminate | apply j_t1; auto].
  - intros k' Hk'. rewrite GS. destruct (Nat.eqb_spec k k'); [discriminate | apply j_t4; auto].
  - intros k' Hk'. rewrite GS. destruct (Nat.eqb_spec k k'); [discriminate | apply j_t5; auto].
  - intros k' Hk'. rewrite GS. destruct (Nat.eqb_spec k k'); [discriminate | apply j_ret; auto].
  - intros k' g Hk'. rewrite GS. destruct (Nat.eqb_spec k k'); [discriminate | apply j_cg; auto].
  - intros X. contradiction.
  - intros g X. destruct (j_wait g X) as [Y|[Y _]]; auto. contradiction.
  - intros g Hg. apply (TrInv_upd s); [reflexivity | exact (j_tr g Hg) | | ]; destruct (j_tr g Hg) as [TA TB TC TD].
    + intros [X|[X|(k' & Hk' & Y)]]; [left; left; exact X | left; right; left; exact X | ].
      specialize (ALL k' Hk'). destruct (getC s k'); discriminate.
    + intros X. destruct (TD X) as (D1 & D2 & D3 & D4). repeat split; auto.
      * intros k' Hk'. rewrite LEN in Hk'. rewrite GS. destruct (Nat.eqb_spec k k'); [discriminate | auto].
      * intros [(k' & Hk' & Y)|Y]; auto. specialize (ALL k' Hk'). rewrite Y in ALL. discriminate.
  - intros g k' F Hk'. rewrite GS. destruct (Nat.eqb_spec k k'); [reflexivity | apply j_fresh; auto].
Qed.

(* T1: the teardown's critical section *)
Lemma close_t1_core s k l' p' : Inv s -> k < length (cl s) -> getC s k = T1 -> free s = true -> acst s <> Shutdown ->
  p' = match actr s with Some g => T2 g | None => T4 end ->
  Inv (setC (s <| actr := None |> <| acst := Shutdown |> <| lc := l' |>) k p').
Proof.
  intros I HK E F NS ->. pose proof I as I0. dI I0.
  destruct (free_facts s I F) as (FA & FH & FW).
  set (p' := match actr s with Some g => T2 g | None => T4 end).
  set (s1 := s <| actr := None |> <| acst := Shutdown |> <| lc := l' |>).
  assert (GS : forall k', getC (setC s1 k p') k' = if Nat.eqb k k' then p' else getC s k').
  { intros k'. rewrite getC_setC. change (cl s1) with (cl s). change (getC s1 k') with (getC s k'). destruct (Nat.ltb_spec k (length (cl s))); [|lia]. rewrite andb_true_r. reflexivity. }
  assert (UQ : forall k', k' < length (cl s) -> k' <> k -> tearing (getC s k') = false).
  { intros k' Hk' Hne. destruct (tearing (getC s k')) eqn:T; auto. exfalso. apply Hne. apply j_uniq; auto. rewrite E. reflexivity. }
  assert (P1 : after_t1 p' = true) by (unfold p'; destruct (actr s); reflexivity).
  assert (AD : addr s = false). { destruct (addr s) eqn:A; auto. specialize (j_addr eq_refl k HK). rewrite E in j_addr. discriminate. }
  assert (NT : forall k' q, k' < length (cl s) -> k' <> k -> getC s k' = q -> tearing q = true -> False).
  { intros k' q Hk' Hne <- T. rewrite (UQ k' Hk' Hne) in T. discriminate. }
  constructor; try (rdc; assumption); cbn -[getC nth upd length Nat.eqb Nat.ltb wg_clear pumps_gone]; rewrite ?upd_length.
  - intros X. congruence.
  - intros k1 k2 H1 H2. rewrite !GS. destruct (Nat.eqb_spec k k1); destruct (Nat.eqb_spec k k2); intros T1 T2; try congruence; exfalso.
    + eapply (NT k2); eauto.
    + eapply (NT k1); eauto.
    + eapply (NT k1); eauto.
  - intros k' Hk'. rewrite GS. destruct (Nat.eqb_spec k k'); [intros _; apply (j_ctx k HK); rewrite E; discriminate | apply j_ctx; auto].
  - intros k' Hk' _. auto.
  - intros k' Hk'. rewrite GS. destruct (Nat.eqb_spec k k'); [unfold p'; destruct (actr s); discriminate | apply j_t4; auto].
  - intros k' Hk'. rewrite GS. destruct (Nat.eqb_spec k k'); [unfold p'; destruct (actr s); discriminate | apply j_t5; auto].
  - intros k' Hk'. rewrite GS. destruct (Nat.eqb_spec k k'); [unfold p'; destruct (actr s); discriminate | ].
    intros X. exfalso. eapply (NT k'); eauto.
  - intros k' g Hk'. rewrite GS. destruct (Nat.eqb_spec k k'); [|apply j_cg; auto].
    unfold p'. destruct (actr s) eqn:AC; cbn; [|discriminate]. intros X. apply Nat.eqb_eq in X. subst. apply (j_actr n eq_refl).
  - intros _. exists k. rewrite GS, Nat.eqb_refl. auto.
  - intros g X. discriminate.
  - intros g X. right. split; auto. destruct (j_wait g X) as [Y|[Y _]]; [|contradiction].
    left. exists k. rewrite GS, Nat.eqb_refl. split; auto. unfold p'. rewrite Y. cbn. apply Nat.eqb_refl.
  - intros g _ X. discriminate.
  - intros g _. reflexivity.
  - intros X. congruence.
  - intros g Hg. apply (TrInv_upd s); [reflexivity | exact (j_tr g Hg) | | ]; destruct (j_tr g Hg) as [TA TB TC TD].
    + intros [X|[X|(k' & Hk' & Y)]].
      * left. right. right. exists k. change (cl (setC s1 k p')) with (upd (cl s) k (fun _ => p')). rewrite upd_length, GS, Nat.eqb_refl. split; auto. unfold p'. rewrite X. cbn. apply Nat.eqb_refl.
      * left. right. left. exact X.
      * left. right. right. exists k'. change (cl (setC s1 k p')) with (upd (cl s) k (fun _ => p')). rewrite upd_length, GS. split; auto.
        destruct (Nat.eqb_spec k k'); auto. subst k'. rewrite E in Y. discriminate.
    + intros X. destruct (TD X) as (D1 & D2 & D3 & D4). change (cl (setC s1 k p')) with (upd (cl s) k (fun _ => p')). rewrite upd_length. repeat split; auto.
      * discriminate.
      * intros k' Hk'. rewrite GS. destruct (Nat.eqb_spec k k'); auto. unfold p'. destruct (actr s) eqn:AC; [|discriminate]. intros Z. injection Z as ->. apply D1. reflexivity.
      * intros [(k' & Hk' & Y)|Y]; auto. left. exists k'. rewrite GS. split; auto. destruct (Nat.eqb_spec k k'); auto. subst k'. rewrite E in Y. discriminate.
  - intros g k' FR Hk'. rewrite GS. destruct (Nat.eqb_spec k k'); [|apply j_fresh; auto].
    unfold p'. destruct (actr s) eqn:AC; auto. exfalso. assert (Z : actr s = None) by (apply noactr_none; auto; destruct (rt s); cbn in FR; try discriminate; reflexivity). congruence.
Qed.

Lemma step_close_t1 s s' k via : Inv s -> getC s k = T1 -> step good s (LClose k via) = Some s' -> Inv s'.
Proof.
  intros I E H. pose proof I as I0. dI I0. unfold step in H. destruct (crashed s) eqn:CR; [discriminate|].
  destruct (negb (Nat.ltb k (length (cl s)))) eqn:HK; [discriminate|]. apply negb_ltb in HK.
  rewrite E in H. destruct (negb (free s)) eqn:F; [discriminate|]. apply negb_false_iff in F.
  destruct (cstate_eqb (acst s) Shutdown) eqn:SH.
  - (* the state cannot be Shutdown before the first teardown *)
    exfalso. apply cstate_eqb_eq in SH. destruct (j_shut SH) as (k' & Hk' & X).
    assert (k' = k). { apply j_uniq; auto. - destruct (getC s k'); try discriminate; try reflexivity. destruct tore; discriminate || reflexivity. - rewrite E. reflexivity. }
    subst. rewrite E in X. discriminate.
  - apply cstate_eqb_neq in SH.
    destruct (pub (s <| actr := None |>) Shutdown via) as [s1|] eqn:P; [|discriminate]. injection H as <-.
    apply pub_cases in P. destruct P as [[P _]|[(_ & _ & _ & ->)|(_ & _ & _ & ->)]].
    + cbn in P. contradiction.
    + apply close_t1_core; auto.
    + change (Inv (setC (s <| actr := None |> <| acst := Shutdown |> <| lc := lc s |>) k match actr s with Some g => T2 g | None => T4 end)).
      apply close_t1_core; auto.
Qed.

(* T2: close(closeConn) of the transport which was current *)
Lemma step_close_t2 s s' k via g : Inv s -> getC s k = T2 g -> step good s (LClose k via) = Some s' -> Inv s'.
Proof.
  intros I E H. pose proof I as I0. dI I0. unfold step in H. destruct (crashed s) eqn:CR; [discriminate|].
  destruct (negb (Nat.ltb k (length (cl s)))) eqn:HK; [discriminate|]. apply negb_ltb in HK.
  rewrite E in H.
  assert (Hg : g < length (trs s)) by (apply (j_cg k g HK); rewrite E; cbn; apply Nat.eqb_refl).
  destruct (j_tr g Hg) as [TA TB TC TD].
  destruct (cconn (getT s g)) eqn:CC.
  { exfalso. destruct (TD eq_refl) as (_ & _ & X & _). apply (X k HK E). }
  injection H as <-.
    set (s1 := setT s g (fun t => t <| cconn := true |>)).
    assert (GS : forall k', getC (setC s1 k (T3 g)) k' = if Nat.eqb k k' then T3 g else getC s k').
    { intros k'. rewrite getC_setC. change (cl s1) with (cl s). change (getC s1 k') with (getC s k'). destruct (Nat.ltb_spec k (length (cl s))); [|lia]. rewrite andb_true_r. reflexivity. }
    assert (GT : forall g', getT (setC s1 k (T3 g)) g' = if Nat.eqb g g' then (getT s g') <| cconn := true |> else getT s g').
    { intros g'. change (getT (setC s1 k (T3 g)) g') with (getT (setT s g (fun t => t <| cconn := true |>)) g'). rewrite getT_setT.
      destruct (Nat.ltb_spec g (length (trs s))); [|lia]. rewrite andb_true_r. reflexivity. }
    assert (UQ : forall k', k' < length (cl s) -> k' <> k -> tearing (getC s k') = false).
    { intros k' Hk' Hne. destruct (tearing (getC s k')) eqn:T; auto. exfalso. apply Hne. apply j_uniq; auto. rewrite E. reflexivity. }
    assert (NT : forall k' q, k' < length (cl s) -> k' <> k -> getC s k' = q -> tearing q = true -> False).
    { intros k' q Hk' Hne <- T. rewrite (UQ k' Hk' Hne) in T. discriminate. }
    destruct (j_t1 k HK ltac:(rewrite E; reflexivity)) as [SH AN].
    assert (LC : length (cl (setC s1 k (T3 g))) = length (cl s)) by (exact (len_setC s1 k (T3 g))).
    assert (LT : length (trs (setC s1 k (T3 g))) = length (trs s)) by (exact (len_setT s g _)).
    assert (WPE : forall g', wp (getT (setC s1 k (T3 g)) g') = wp (getT s g')) by (intros g'; rewrite GT; destruct (Nat.eqb g g'); reflexivity).
    assert (PGE : forall g', pumps_gone (setC s1 k (T3 g)) g' = pumps_gone s g').
    { intros g'. unfold pumps_gone. rewrite GT. destruct (Nat.eqb g g'); reflexivity. }
    constructor; try (rdc; assumption); rewrite ?LC, ?LT;
      change (addr (setC s1 k (T3 g))) with (addr s); change (ctxd (setC s1 k (T3 g))) with (ctxd s); change (acst (setC s1 k (T3 g))) with (acst s);
      change (actr (setC s1 k (T3 g))) with (actr s); change (rt (setC s1 k (T3 g))) with (rt s); change (csm (setC s1 k (T3 g))) with (csm s);
      change (amu (setC s1 k (T3 g))) with (amu s).
    - intros A k' Hk'. rewrite GS. destruct (Nat.eqb_spec k k') as [<-|]; [|apply j_addr; auto]. specialize (j_addr A k HK). rewrite E in j_addr. discriminate.
    - intros k1 k2 H1 H2. rewrite !GS. destruct (Nat.eqb_spec k k1); destruct (Nat.eqb_spec k k2); intros T1 T2; try congruence; exfalso.
      + eapply (NT k2); eauto.
      + eapply (NT k1); eauto.
      + eapply (NT k1); eauto.
    - intros k' Hk'. rewrite GS. destruct (Nat.eqb_spec k k'); [intros _; apply (j_ctx k HK); rewrite E; discriminate | apply j_ctx; auto].
    - intros k' Hk' _. auto.
    - intros k' Hk'. rewrite GS. destruct (Nat.eqb_spec k k'); [discriminate | apply j_t4; auto].
    - intros k' Hk'. rewrite GS. destruct (Nat.eqb_spec k k'); [discriminate | apply j_t5; auto].
    - intros k' Hk'. rewrite GS. destruct (Nat.eqb_spec k k'); [discriminate | ]. intros X. exfalso. eapply (NT k'); eauto.
    - intros k' g0 Hk'. rewrite GS. destruct (Nat.eqb_spec k k'); [|apply j_cg; auto]. cbn. intros X. apply Nat.eqb_eq in X. subst. auto.
    - intros _. exists k. rewrite GS, Nat.eqb_refl. auto.
    - intros g0 X. congruence.
    - exact j_rtg.
    - intros g0 X. right. split; auto. rewrite WPE. destruct (j_wait g0 X) as [Y|[_ [(k' & Hk' & Y)|Y]]]; [congruence| |auto].
      left. exists k'. rewrite GS. split; auto. destruct (Nat.eqb_spec k k'); auto. subst k'. rewrite E in Y. exact Y.
    - intros g0 _ X. congruence.
    - intros g0 Hg0. rewrite WPE. apply j_lockw; auto.
    - intros g0 Hg0. destruct (j_tr g0 Hg0) as [A B C D].
      assert (LV : Live s g0 -> Live (setC s1 k (T3 g)) g0).
      { intros [X|[X|(k' & Hk' & Y)]]; [left; exact X | right; left; exact X | ]. right. right. exists k'. rewrite LC, GS. split; auto.
        destruct (Nat.eqb_spec k k'); auto. subst k'. rewrite E in Y. exact Y. }
      constructor; rewrite ?WPE.
      + rewrite GT. destruct (Nat.eqb g g0); exact A.
      + rewrite GT. destruct (Nat.eqb g g0); exact B.
      + destruct C as [C|C]; auto.
      + rewrite GT, LC, PGE. change (actr (setC s1 k (T3 g))) with (actr s). change (rt (setC s1 k (T3 g))) with (rt s).
        destruct (Nat.eqb_spec g g0) as [<-|Hne].
        * intros _. repeat split.
          { congruence. }
          { destruct (rt_fresh (rt s) g) eqn:FR; auto. specialize (j_fresh g k FR HK). rewrite E in j_fresh. cbn in j_fresh. rewrite Nat.eqb_refl in j_fresh. discriminate. }
          { intros k' Hk'. rewrite GS. destruct (Nat.eqb_spec k k'); [discriminate|]. intros X. eapply (NT k'); eauto. }
          { left. exists k. rewrite GS, Nat.eqb_refl. auto. }
        * intros X. destruct (D X) as (D1 & D2 & D3 & D4). repeat split; auto.
          { intros k' Hk'. rewrite GS. destruct (Nat.eqb_spec k k'); [discriminate | auto]. }
          { destruct D4 as [(k' & Hk' & Y)|[Y|Y]]; auto. left. exists k'. rewrite GS. split; auto. destruct (Nat.eqb_spec k k'); auto. subst k'. rewrite E in Y. discriminate. }
    - intros g0 k' FR Hk'. rewrite GS. destruct (Nat.eqb_spec k k') as [<-|]; [|apply j_fresh; auto].
      specialize (j_fresh g0 k FR HK). rewrite E in j_fresh. exact j_fresh.
Qed.

Lemma step_close s s' k via : Inv s -> step good s (LClose k via) = Some s' -> Inv s'.
Proof.
  intros I H. destruct (getC s k) eqn:E.
  - eapply step_close_pure; eauto. rewrite E. exact Logic.I.
  - destruct (addr s) eqn:A.
    + eapply step_close_c1; eauto.
    + eapply step_close_pure; eauto. rewrite E. exact A.
  - eapply step_close_t1; eauto.
  - eapply step_close_t2; eauto.
  - eapply step_close_pure; eauto. rewrite E. exact Logic.I.
  - eapply step_close_pure; eauto. rewrite E. exact Logic.I.
  - eapply step_close_pure; eauto. rewrite E. exact Logic.I.
  - eapply step_close_pure; eauto. rewrite E. exact Logic.I.
  - unfold step in H. destruct (crashed s); [discriminate|]. destruct (negb (Nat.ltb k (length (cl s)))); [discriminate|]. rewrite E in H. discriminate.
  - unfold step in H. destruct (crashed s); [discriminate|]. destruct (negb (Nat.ltb k (length (cl s)))); [discriminate|]. rewrite E in H. discriminate.
Qed.

Theorem inv_step s l s' : Inv s -> step good s l = Some s' -> Inv s'.
Proof.
  intros I H. destruct l.
  - eapply step_newclose; eauto.
  - eapply step_close; eauto.
  - eapply step_rt; eauto.
  - eapply step_dial; eauto.
  - eapply step_timer; eauto.
  - eapply step_rtctx; eauto.
  - eapply step_rtfired; eauto.
  - eapply step_pump; eauto. exact Logic.I.
  - eapply step_pump; eauto. exact Logic.I.
  - eapply step_pump; eauto. exact Logic.I.
  - eapply step_hand; eauto.
  - eapply step_pump; eauto. exact Logic.I.
  - eapply step_pump; eauto. exact Logic.I.
  - eapply step_pump; eauto. exact Logic.I.
  - eapply step_pump; eauto. exact Logic.I.
  - eapply step_wplock; eauto.
  - eapply step_wprel; eauto.
  - eapply step_pump; eauto. exact Logic.I.
  - eapply step_pubs; eauto. exact Logic.I.
  - eapply step_pubs; eauto. exact Logic.I.
  - eapply step_lr; eauto.
  - eapply step_pubs; eauto. exact Logic.I.
  - eapply step_gs; eauto. exact Logic.I.
  - eapply step_gs; eauto. exact Logic.I.
  - eapply step_gs; eauto. exact Logic.I.
Qed.

Theorem inv_exec ls : forall s, Inv s -> Inv (exec good s ls).
Proof.
  induction ls as [|l r IH]; intros s I; cbn; auto.
  destruct (step good s l) eqn:E; auto. apply IH. eapply inv_step; eauto.
Qed.

(* ---- what the invariant gives ---- *)
Lemma existsb_nth {A} (P : A -> bool) l d : existsb P l = true -> exists k, k < length l /\ P (nth k l d) = true.
Proof. intros H. apply existsb_exists in H as (x & Hx & Px). destruct (In_nth _ _ d Hx) as (k & Hk & <-). eauto. Qed.

Theorem inv_final s : Inv s -> tore s = true -> final s = true.
Proof.
  intros I T. pose proof I as I0. dI I0. unfold tore in T. apply (existsb_nth _ _ (CRet false)) in T as (k & Hk & P).
  fold (getC s k) in P. destruct (getC s k) eqn:E; try discriminate. destruct tore; try discriminate.
  assert (AD : addr s = false). { destruct (addr s) eqn:A; auto. specialize (j_addr eq_refl k Hk). rewrite E in j_addr. discriminate. }
  assert (CT : ctxd s = true) by (apply (j_ctx k Hk); rewrite E; discriminate).
  destruct (j_t1 k Hk ltac:(rewrite E; reflexivity)) as [SH AN].
  pose proof (j_t4 k Hk ltac:(rewrite E; reflexivity)) as RX.
  pose proof (j_t5 k Hk ltac:(rewrite E; reflexivity)) as CS.
  pose proof (j_ret k Hk E) as WG. pose proof WG as WG0. apply wg_clear_spec in WG as (LC & LR & HRs & GSs).
  unfold final. rewrite AD, CT, SH, CS, RX, LC, LR. cbn.
  apply andb_true_iff. split.
  - apply (forallb_nth _ _ (mkTr RPExit WPExit HRExit true true true true true true)). intros g Hg. fold (getT s g).
    destruct (j_tr g Hg) as [TA TB TC TD].
    assert (WX : wp (getT s g) = WPExit).
    { destruct TC as [[X|[X|(k' & Hk' & X)]]|X]; auto.
      - congruence.
      - rewrite RX in X. discriminate.
      - assert (k' = k). { apply j_uniq; auto. - destruct (getC s k'); cbn in X; try discriminate; reflexivity. - rewrite E. reflexivity. }
        subst. rewrite E in X. discriminate. }
    destruct (TA ltac:(unfold wp_left; rewrite WX; reflexivity)) as [WD SK].
    unfold tr_gone. rewrite WX, SK, WD. cbn. specialize (HRs g Hg). destruct (hr (getT s g)); try congruence; destruct (rp (getT s g)); cbn; auto.
  - unfold wg_clear in WG0. apply andb_true_iff in WG0 as [_ X]. exact X.
Qed.

Theorem call_after_close : forall ls i, let s := exec good init ls in
  addr s = false -> i < length (gs s) -> getG s i = GInv0 -> step good s (LG i GA) = Some (setG s i (GDone true)).
Proof.
  intros ls i s A Hi G. pose proof (i_nc _ (inv_exec ls init inv_init)) as NC. fold s in NC.
  unfold step. rewrite NC. apply Nat.ltb_lt in Hi. rewrite Hi. cbn. rewrite G, A. reflexivity.
Qed.

Theorem nothing_after_close : forall ls, let s := exec good init ls in tore s = true ->
  (forall g kind, step good s (LHand g kind) = None) /\ (forall ok, step good s (LDial ok) = None) /\ (forall via, step good s (LRt via) = None).
Proof.
  intros ls s T. pose proof (inv_exec ls init inv_init) as I. fold s in I. pose proof (inv_final s I T) as F.
  unfold final in F. repeat (apply andb_true_iff in F as [F ?]).
  assert (RX : rt s = RExit) by (destruct (rt s); try discriminate; reflexivity).
  assert (NC : crashed s = false) by (apply (i_nc _ I)).
  repeat split.
  - intros g kind. unfold step. rewrite NC. destruct (negb (Nat.ltb g (length (trs s)))) eqn:L; auto. apply negb_ltb in L.
    match goal with H : forallb tr_gone (trs s) = true |- _ => rewrite (forallb_nth _ _ (mkTr RPExit WPExit HRExit true true true true true true)) in H; specialize (H g L); fold (getT s g) in H end.
    unfold tr_gone in *. destruct (rp (getT s g)); auto. destruct (hr (getT s g)); auto.
    repeat match goal with H : _ && _ = true |- _ => apply andb_true_iff in H as [H ?] end. discriminate.
  - intros ok. unfold step. rewrite NC, RX. reflexivity.
  - intros via. unfold step. rewrite NC, RX. reflexivity.
Qed.
