(* Safety of stopping a server (Model/StopLTS.v with cfg = good). *)
From Coq Require Import List Arith Bool Lia.
From WV Require Import Model.StopLTS.
Import ListNotations.

Lemma upd_length {A} (l : list A) n f : length (upd l n f) = length l.
Proof. revert n; induction l as [|x r IH]; intros [|n]; simpl; auto. Qed.
Lemma nth_upd_same {A} (l : list A) n f d : n < length l -> nth n (upd l n f) d = f (nth n l d).
Proof. revert n; induction l as [|x r IH]; intros [|n] H; simpl in *; try lia; auto. apply IH; lia. Qed.
Lemma nth_upd_other {A} (l : list A) n m f d : n <> m -> nth m (upd l n f) d = nth m l d.
Proof. revert n m; induction l as [|x r IH]; intros [|n] [|m] H; simpl; auto; try congruence. Qed.
Lemma nth_upd {A} (l : list A) n m f d : n < length l -> nth m (upd l n f) d = if Nat.eqb n m then f (nth m l d) else nth m l d.
Proof. intros H. destruct (Nat.eqb_spec n m) as [->|Hne]; [apply nth_upd_same; auto | apply nth_upd_other; auto]. Qed.
Lemma nth_app_last {A} (l : list A) x d : nth (length l) (l ++ [x]) d = x.
Proof. rewrite app_nth2; auto. rewrite Nat.sub_diag. reflexivity. Qed.
Lemma nth_app_old {A} (l : list A) x n d : n < length l -> nth n (l ++ [x]) d = nth n l d.
Proof. intros. apply app_nth1; auto. Qed.
Lemma forallb_nth {A} (P : A -> bool) l d : forallb P l = true <-> forall k, k < length l -> P (nth k l d) = true.
Proof.
  split.
  - intros H k Hk. rewrite forallb_forall in H. apply H. apply nth_In; auto.
  - intros H. apply forallb_forall. intros x Hx. destruct (In_nth _ _ d Hx) as (k & Hk & <-). auto.
Qed.
Lemma existsb_nth {A} (P : A -> bool) l d : existsb P l = true -> exists k, k < length l /\ P (nth k l d) = true.
Proof. intros H. apply existsb_exists in H as (x & Hx & Px). destruct (In_nth _ _ d Hx) as (k & Hk & <-). eauto. Qed.
Lemma negb_ltb a b : negb (Nat.ltb a b) = false -> a < b.
Proof. intros H. apply negb_false_iff in H. apply Nat.ltb_lt. exact H. Qed.

Definition isP01 (p : spc) : bool := match p with P0 | P1 => true | _ => false end.
Definition tearing (p : spc) : bool := match p with P2 | P3 | P4 | PRet true | PCrash => true | _ => false end.
Definition after_p3 (p : spc) : bool := match p with P4 | PRet true => true | _ => false end.
Definition after_p2 (p : spc) : bool := match p with P3 | P4 | PRet true => true | _ => false end.
Definition wp_left (t : sess) : bool := match wp t with WLeft | WDone => true | _ => false end.

Record SInv (t : sess) : Prop := mkSInv {
  s_rel : rel t = true -> wp t = WDone;
  s_left : wp_left t = true -> cconn t = true /\ sock t = true;
  s_done : wp t = WDone -> reg t = false;
  s_closing : wp t = WClosing -> cconn t = true /\ sock t = true;
  s_unreg : reg t = false -> cconn t = true;
  s_done_rel : wp t = WDone -> rel t = true
}.

Record Inv (s : st) : Prop := mkInv {
  i_nc : crashed s = false;
  i_cmgr : cmgr s = true -> forall k, k < length (stops s) -> isP01 (getP s k) = true;
  i_uniq : forall k1 k2, k1 < length (stops s) -> k2 < length (stops s) -> tearing (getP s k1) = true -> tearing (getP s k2) = true -> k1 = k2;
  i_quit : forall k, k < length (stops s) -> getP s k <> P0 -> quit s = true;
  i_p3 : forall k, k < length (stops s) -> after_p3 (getP s k) = true -> forall i, i < length (ss s) -> rel (getS s i) = true;
  i_ret : forall k b, k < length (stops s) -> getP s k = PRet b -> done s = true;
  i_ss : forall i, i < length (ss s) -> SInv (getS s i);
  i_hs : forall j, j < length (hs s) -> getK s j <> KRefused true;
  i_p2 : forall k, k < length (stops s) -> after_p2 (getP s k) = true -> forall i, i < length (ss s) -> cconn (getS s i) = true;
  i_nopc : forall k, k < length (stops s) -> getP s k <> PCrash
}.

Lemma inv_init : Inv init.
Proof. constructor; cbn; intros; try lia; try discriminate; auto. Qed.

Ltac crack H :=
  repeat match type of H with
  | (if ?x then _ else _) = Some _ => destruct x eqn:?; try discriminate H
  | match ?x with _ => _ end = Some _ => destruct x eqn:?; try discriminate H
  end.
Ltac dI I := destruct I as [j_nc j_cmgr j_uniq j_quit j_p3 j_ret j_ss j_hs j_p2 j_nopc].

(* a step which changes one session only *)
Lemma inv_setS s i f : Inv s -> i < length (ss s) -> SInv (f (getS s i)) -> (rel (getS s i) = true -> rel (f (getS s i)) = true) ->
  (cconn (getS s i) = true -> cconn (f (getS s i)) = true) -> Inv (setS s i f).
Proof.
  intros I Hi HS HR HC. dI I.
  assert (GS : forall i', getS (setS s i f) i' = if Nat.eqb i i' then f (getS s i') else getS s i').
  { intros i'. unfold getS, setS. cbn. apply nth_upd. exact Hi. }
  constructor; auto.
  - intros k Hk A i' Hi'. unfold setS in Hi'. cbn in Hi'. rewrite upd_length in Hi'. rewrite GS. specialize (j_p3 k Hk A i' Hi').
    destruct (Nat.eqb_spec i i'); auto. subst. auto.
  - intros i' Hi'. unfold setS in Hi'. cbn in Hi'. rewrite upd_length in Hi'. rewrite GS. destruct (Nat.eqb_spec i i'); auto. subst. auto.
  - intros k Hk A i' Hi'. unfold setS in Hi'. cbn in Hi'. rewrite upd_length in Hi'. rewrite GS. specialize (j_p2 k Hk A i' Hi').
    destruct (Nat.eqb_spec i i'); auto. subst. auto.
Qed.

Ltac pre H := unfold step in H; crack H; injection H as <-;
  repeat match goal with
  | H : negb (Nat.ltb _ _) = false |- _ => apply negb_ltb in H
  | H : Nat.ltb _ _ = true |- _ => apply Nat.ltb_lt in H
  | H : _ good = false |- _ => discriminate H end.

Lemma step_sess s s' l : Inv s -> step good s l = Some s' ->
  match l with LNet _ | LSockDie _ | LRp _ | LHand _ | LWpCwp _ | LWpErr _ | LWpCconn _ _ | LWpClosed _ | LWpAfter _ | LHr _ | LRevoke _ => True | _ => False end -> Inv s'.
Proof.
  intros I H L. destruct l; try contradiction; pre H.
  all: match goal with Hi : ?i < length (ss _) |- _ => apply inv_setS; auto; destruct (i_ss _ I i Hi) as [A B C D U DR]; unfold wp_leave; cbn; auto end.
  all: try (constructor; unfold wp_left in *; cbn; intros; repeat match goal with H : wp _ = _ |- _ => rewrite H in * | H : rp _ = _ |- _ => rewrite H in * end; try discriminate; try congruence; auto).
  all: try (match goal with H : rel _ = true, A : rel _ = true -> _ |- _ => specialize (A H); discriminate end).
  all: try (match goal with H : match wp _ with _ => _ end = true, B : match wp _ with _ => _ end = true -> _ |- _ => destruct (B H); split; auto end).
  all: try (match goal with D : ?x = ?x -> _ /\ _ |- _ => destruct (D eq_refl); split; auto end).
  all: try (match goal with B : true = true -> _ /\ _ |- _ => destruct (B eq_refl); auto end).
Qed.

Lemma step_serve_api s s' l : Inv s -> step good s l = Some s' -> match l with LServe | LApi _ => True | _ => False end -> Inv s'.
Proof.
  intros I H L. destruct l; try contradiction; pre H; auto.
  all: try (match goal with H : _ || _ = false |- _ => cbn in H; rewrite orb_true_r in H; discriminate end).
  all: dI I; constructor; unfold getP, getS, getK in *; cbn; auto.
Qed.


(* ---- Stop ---- *)
Lemma getP_setP s k p k' : k < length (stops s) -> getP (setP s k p) k' = if Nat.eqb k k' then p else getP s k'.
Proof. intros H. unfold getP, setP. cbn. apply nth_upd. exact H. Qed.

Lemma nth_map_lt {A} (f : A -> A) l i d : i < length l -> nth i (map f l) d = f (nth i l d).
Proof. revert i; induction l as [|x r IH]; intros [|i] H; simpl in *; try lia; auto. apply IH; lia. Qed.

Lemma inv_setP s s1 k p' : Inv s -> k < length (stops s) ->
  stops s1 = stops s -> hs s1 = hs s -> crashed s1 = crashed s -> length (ss s1) = length (ss s) ->
  (forall i, i < length (ss s) -> SInv (getS s1 i) /\ (rel (getS s i) = true -> rel (getS s1 i) = true) /\ (cconn (getS s i) = true -> cconn (getS s1 i) = true)) ->
  (after_p2 p' = true -> forall i, i < length (ss s) -> cconn (getS s1 i) = true) ->
  (cmgr s1 = true -> isP01 p' = true /\ cmgr s = true) ->
  (tearing p' = true -> tearing (getP s k) = true \/ (forall k', k' < length (stops s) -> k' <> k -> tearing (getP s k') = false)) ->
  (quit s = true -> quit s1 = true) -> (p' <> P0 -> quit s1 = true) ->
  (after_p3 p' = true -> forall i, i < length (ss s) -> rel (getS s i) = true) ->
  (done s = true -> done s1 = true) -> (forall b, p' = PRet b -> done s1 = true) -> p' <> PCrash ->
  Inv (setP s1 k p').
Proof.
  intros I HK E1 E2 E3 E4 HS CP2 C1 C2 C3 C4 C5 C6 C7 C8. dI I.
  assert (GP : forall k', getP (setP s1 k p') k' = if Nat.eqb k k' then p' else getP s k').
  { intros k'. rewrite getP_setP by (rewrite E1; auto). unfold getP. rewrite E1. reflexivity. }
  assert (LP : length (stops (setP s1 k p')) = length (stops s)) by (unfold setP; cbn; rewrite upd_length, E1; auto).
  assert (GSs : forall i, getS (setP s1 k p') i = getS s1 i) by reflexivity.
  assert (GK : forall j, getK (setP s1 k p') j = getK s j) by (intros j; unfold getK, setP; cbn; rewrite E2; auto).
  constructor.
  - unfold setP; cbn. congruence.
  - intros A k' Hk'. rewrite LP in Hk'. rewrite GP. destruct (C1 A) as [X Y]. destruct (Nat.eqb_spec k k'); auto.
  - intros k1 k2 H1 H2. rewrite LP in *. rewrite !GP. destruct (Nat.eqb_spec k k1); destruct (Nat.eqb_spec k k2); intros T1 T2; try congruence.
    + subst k1. destruct (C2 T1) as [X|X]; [apply j_uniq; auto | rewrite (X k2 H2) in T2; [discriminate|congruence]].
    + subst k2. destruct (C2 T2) as [X|X]; [apply j_uniq; auto | rewrite (X k1 H1) in T1; [discriminate|congruence]].
    + apply j_uniq; auto.
  - intros k' Hk'. rewrite LP in Hk'. rewrite GP. change (quit (setP s1 k p')) with (quit s1). destruct (Nat.eqb_spec k k'); auto. intros X. apply C3. eapply j_quit; eauto.
  - intros k' Hk' A i Hi. rewrite LP in Hk'. change (length (ss (setP s1 k p'))) with (length (ss s1)) in Hi. rewrite E4 in Hi. rewrite GP in A. rewrite GSs.
    destruct (HS i Hi) as (_ & R & _). apply R. destruct (Nat.eqb_spec k k'); [apply C5; auto | eapply j_p3; eauto].
  - intros k' b Hk'. rewrite LP in Hk'. rewrite GP. change (done (setP s1 k p')) with (done s1). destruct (Nat.eqb_spec k k'); [apply C7 | intros X; apply C6; eapply j_ret; eauto].
  - intros i Hi. change (length (ss (setP s1 k p'))) with (length (ss s1)) in Hi. rewrite E4 in Hi. rewrite GSs. apply HS; auto.
  - intros j Hj. change (length (hs (setP s1 k p'))) with (length (hs s1)) in Hj. rewrite E2 in Hj. rewrite GK. apply j_hs; auto.
  - intros k' Hk' A i Hi. rewrite LP in Hk'. change (length (ss (setP s1 k p'))) with (length (ss s1)) in Hi. rewrite E4 in Hi. rewrite GP in A. rewrite GSs.
    destruct (Nat.eqb_spec k k'); [apply CP2; auto | destruct (HS i Hi) as (_ & _ & R); apply R; eapply j_p2; eauto].
  - intros k' Hk'. rewrite LP in Hk'. rewrite GP. destruct (Nat.eqb_spec k k'); auto.
Qed.

Lemma step_stop s s' k : Inv s -> step good s (LStop k) = Some s' -> Inv s'.
Proof.
  intros I H. pose proof I as I0. dI I0. unfold step in H. destruct (crashed s) eqn:CR; [discriminate|].
  destruct (negb (Nat.ltb k (length (stops s)))) eqn:HK; [discriminate|]. apply negb_ltb in HK.
  assert (SS : forall i, i < length (ss s) -> SInv (getS s i) /\ (rel (getS s i) = true -> rel (getS s i) = true) /\ (cconn (getS s i) = true -> cconn (getS s i) = true)) by (intros i Hi; split; [apply j_ss; auto | split; auto]).
  destruct (getP s k) eqn:E; try discriminate.
  - (* P0 *) injection H as <-. apply (inv_setP s); auto; cbn; try discriminate; try congruence; auto; try (intros; discriminate).
  - (* P1 *) destruct (cmgr s) eqn:CM.
    + injection H as <-. apply (inv_setP s); auto; cbn; try discriminate; try congruence; auto; try (intros; discriminate).
      * intros _. right. intros k' Hk' _. specialize (j_cmgr eq_refl k' Hk'). destruct (getP s k'); try discriminate; reflexivity.
      * intros _. apply (j_quit k HK). rewrite E. discriminate.
    + cbn in H. injection H as <-. apply (inv_setP s); auto; cbn; try discriminate; try congruence; auto; try (intros; discriminate).
      * intros _. apply (j_quit k HK). rewrite E. discriminate.
  - (* P2 *) injection H as <-.
    assert (CMF : cmgr s = false). { destruct (cmgr s) eqn:CM; auto. specialize (j_cmgr eq_refl k HK). rewrite E in j_cmgr. discriminate. }
    apply (inv_setP s); auto; cbn; try discriminate; try congruence; auto.
    + rewrite map_length. auto.
    + intros i Hi. unfold getS. cbn.
      rewrite nth_map_lt by auto.
      fold (getS s i). destruct (j_ss i Hi) as [A B C D U DR]. destruct (reg (getS s i)) eqn:RG; (split; [|split; auto]); auto; try (constructor; auto).

      * unfold wp_left; cbn. intros X. destruct (B X). auto.
      * cbn. intros X. exfalso. specialize (C X). discriminate.
      * cbn. intros X. destruct (D X). auto.
    + intros _ i Hi. unfold getS. cbn. rewrite nth_map_lt by auto. fold (getS s i). destruct (j_ss i Hi) as [A B C D U DR].
      destruct (reg (getS s i)) eqn:RG; cbn; auto.
    + intros _. left. rewrite E. reflexivity.
    + intros _. apply (j_quit k HK). rewrite E. discriminate.
  - (* P3 *) cbn in H. destruct (forallb rel (ss s)) eqn:FR; [|discriminate]. injection H as <-.
    apply (inv_setP s); auto; cbn; try discriminate; try congruence; auto.
    + intros _. apply (j_p2 k HK). rewrite E. reflexivity.
    + intros X. rewrite X in *. specialize (j_cmgr eq_refl k HK). rewrite E in j_cmgr. discriminate.
    + intros _. left. rewrite E. reflexivity.
    + intros _. apply (j_quit k HK). rewrite E. discriminate.
    + intros _ i Hi. rewrite (forallb_nth _ _ (mkSess RExit WDone HExit false true true true true)) in FR. apply FR. auto.
  - (* P4 *) injection H as <-. apply (inv_setP s); auto; cbn; try discriminate; try congruence; auto.
    + intros _. apply (j_p2 k HK). rewrite E. reflexivity.
    + intros X. rewrite X in *. specialize (j_cmgr eq_refl k HK). rewrite E in j_cmgr. discriminate.
    + intros _. left. rewrite E. reflexivity.
    + intros _. apply (j_quit k HK). rewrite E. discriminate.
    + intros _. apply (j_p3 k HK). rewrite E. reflexivity.
Qed.

Lemma step_newstop s s' : Inv s -> step good s LNewStop = Some s' -> Inv s'.
Proof.
  intros I H. pose proof I as I0. dI I0. unfold step in H. destruct (crashed s) eqn:CR; [discriminate|]. injection H as <-.
  assert (GP : forall k, k < length (stops s) -> getP (s <| stops := stops s ++ [P0] |>) k = getP s k) by (intros; unfold getP; cbn; apply nth_app_old; auto).
  assert (GL : getP (s <| stops := stops s ++ [P0] |>) (length (stops s)) = P0) by (unfold getP; cbn; apply nth_app_last).
  assert (K : forall k, k < length (stops s ++ [P0]) -> k < length (stops s) \/ k = length (stops s)) by (intros k; rewrite app_length; cbn; lia).
  constructor; cbn -[getP]; auto.
  - intros A k Hk. destruct (K k Hk) as [X| ->]; [rewrite GP by auto; auto | rewrite GL; auto].
  - intros k1 k2 H1 H2. destruct (K k1 H1) as [X1| ->]; destruct (K k2 H2) as [X2| ->]; rewrite ?GL; rewrite ?GP by auto; auto; discriminate.
  - intros k Hk. destruct (K k Hk) as [X| ->]; [rewrite GP by auto; apply j_quit; auto | rewrite GL; congruence].
  - intros k Hk. destruct (K k Hk) as [X| ->]; [rewrite GP by auto; apply j_p3; auto | rewrite GL; discriminate].
  - intros k b Hk. destruct (K k Hk) as [X| ->]; [rewrite GP by auto; apply j_ret; auto | rewrite GL; discriminate].
  - intros k Hk. destruct (K k Hk) as [X| ->]; [rewrite GP by auto; apply j_p2; auto | rewrite GL; discriminate].
  - intros k Hk. destruct (K k Hk) as [X| ->]; [rewrite GP by auto; apply j_nopc; auto | rewrite GL; discriminate].
Qed.

Lemma getK_setK s j p j' : j < length (hs s) -> getK (setK s j p) j' = if Nat.eqb j j' then p else getK s j'.
Proof. intros H. unfold getK, setK. cbn. apply nth_upd. exact H. Qed.

(* a handshake step which only moves the handshake's program counter *)
Lemma inv_setK s j p : Inv s -> j < length (hs s) -> p <> KRefused true -> Inv (setK s j p).
Proof.
  intros I Hj Hp. dI I. constructor; auto.
  intros j' Hj'. unfold setK in Hj'. cbn in Hj'. rewrite upd_length in Hj'. rewrite getK_setK by auto. destruct (Nat.eqb_spec j j'); auto.
Qed.

Lemma step_newhs s s' : Inv s -> step good s LNewHs = Some s' -> Inv s'.
Proof.
  intros I H. dI I. unfold step in H. destruct (crashed s) eqn:CR; [discriminate|]. injection H as <-.
  constructor; auto. intros j Hj. cbn in Hj. rewrite app_length in Hj. cbn in Hj. unfold getK. cbn.
  destruct (Nat.eq_dec j (length (hs s))) as [->|Hne]; [rewrite nth_app_last; discriminate | rewrite nth_app_old by lia; apply j_hs; lia].
Qed.

Lemma step_hs s s' j ok : Inv s -> step good s (LHs j ok) = Some s' -> Inv s'.
Proof.
  intros I H. pose proof I as I0. dI I0. unfold step in H. destruct (crashed s) eqn:CR; [discriminate|].
  destruct (negb (Nat.ltb j (length (hs s)))) eqn:HJ; [discriminate|]. apply negb_ltb in HJ.
  destruct (getK s j) eqn:E; try discriminate.
  - (* K0 *) cbn in H. destruct (quit s); injection H as <-; apply inv_setK; auto; discriminate.
  - (* K1 *) destruct (cmgr s); cbn in H; injection H as <-; apply inv_setK; auto; destruct ok; discriminate.
  - (* K2 *) injection H as <-. apply inv_setK; auto. destruct ok; discriminate.
  - (* K3 *) destruct (cmgr s) eqn:CM.
    + destruct ok.
      * (* admitted: a new session *) injection H as <-.
        assert (NT : forall k, k < length (stops s) -> after_p3 (getP s k) = false).
        { intros k Hk. specialize (j_cmgr eq_refl k Hk). destruct (getP s k); try discriminate; reflexivity. }
        assert (I1 : Inv (s <| ss := ss s ++ [sess0] |>)).
        { constructor; try (exact CR || exact j_uniq || exact j_quit || exact j_ret || exact j_hs || exact j_nopc).
          - intros _. exact (j_cmgr eq_refl).
          - intros k Hk A. change (getP (s <| ss := ss s ++ [sess0] |>) k) with (getP s k) in A. change (length (stops (s <| ss := ss s ++ [sess0] |>))) with (length (stops s)) in Hk. rewrite NT in A by auto. discriminate.
          - intros i Hi. cbn in Hi. rewrite app_length in Hi. cbn in Hi. unfold getS. cbn.
            destruct (Nat.eq_dec i (length (ss s))) as [->|Hne]; [rewrite nth_app_last; constructor; cbn; intros; try discriminate | rewrite nth_app_old by lia; apply j_ss; lia].
          - intros k Hk A. exfalso. change (getP (s <| ss := ss s ++ [sess0] |>) k) with (getP s k) in A. change (length (stops (s <| ss := ss s ++ [sess0] |>))) with (length (stops s)) in Hk.
            specialize (j_cmgr eq_refl k Hk). destruct (getP s k); discriminate. }
        apply inv_setK; auto. discriminate.
      * injection H as <-. apply inv_setK; auto. discriminate.
    + cbn in H. injection H as <-. apply inv_setK; auto. discriminate.
  - (* KServing *) destruct (rel (getS s i) || quit s); [|discriminate]. injection H as <-. apply inv_setK; auto. discriminate.
Qed.

Theorem inv_step s l s' : Inv s -> step good s l = Some s' -> Inv s'.
Proof.
  intros I H. destruct l.
  - eapply step_newstop; eauto.
  - eapply step_stop; eauto.
  - eapply step_serve_api; eauto. exact Logic.I.
  - eapply step_newhs; eauto.
  - eapply step_hs; eauto.
  - eapply step_sess; eauto. exact Logic.I.
  - eapply step_sess; eauto. exact Logic.I.
  - eapply step_sess; eauto. exact Logic.I.
  - eapply step_sess; eauto. exact Logic.I.
  - eapply step_sess; eauto. exact Logic.I.
  - eapply step_sess; eauto. exact Logic.I.
  - eapply step_sess; eauto. exact Logic.I.
  - eapply step_sess; eauto. exact Logic.I.
  - eapply step_sess; eauto. exact Logic.I.
  - eapply step_sess; eauto. exact Logic.I.
  - eapply step_sess; eauto. exact Logic.I.
  - eapply step_serve_api; eauto. exact Logic.I.
Qed.

Theorem inv_exec ls : forall s, Inv s -> Inv (exec good s ls).
Proof.
  induction ls as [|l r IH]; intros s I; cbn; auto.
  destruct (step good s l) eqn:E; auto. apply IH. eapply inv_step; eauto.
Qed.

Theorem inv_final s : Inv s -> tore s = true -> final s = true.
Proof.
  intros I T. pose proof I as I0. dI I0. unfold tore in T. apply (existsb_nth _ _ (PRet false)) in T as (k & Hk & P).
  fold (getP s k) in P. destruct (getP s k) eqn:E; try discriminate. destruct tore; try discriminate.
  assert (CM : cmgr s = false). { destruct (cmgr s) eqn:A; auto. specialize (j_cmgr eq_refl k Hk). rewrite E in j_cmgr. discriminate. }
  assert (Q : quit s = true) by (apply (j_quit k Hk); rewrite E; discriminate).
  assert (D : done s = true) by (eapply j_ret; eauto).
  unfold final. rewrite CM, Q, D. cbn. apply andb_true_iff. split.
  - apply (forallb_nth _ _ (mkSess RExit WDone HExit false true true true true)). intros i Hi. fold (getS s i).
    pose proof (j_p3 k Hk ltac:(rewrite E; reflexivity) i Hi) as R. destruct (j_ss i Hi) as [A B C D0].
    pose proof (A R) as W. destruct (B ltac:(unfold wp_left; rewrite W; reflexivity)) as [CC SK].
    unfold sess_gone. rewrite W, SK, R, (C W), CC. cbn. destruct (rp (getS s i)); reflexivity.
  - apply (forallb_nth _ _ KRet). intros j Hj. fold (getK s j). specialize (j_hs j Hj). destruct (getK s j) as [| | | | |[|]|]; auto; congruence.
Qed.

Theorem second_stop_returns : forall ls k, let s := exec good init ls in
  cmgr s = false -> k < length (stops s) -> getP s k = P1 -> step good s (LStop k) = Some (setP (s <| done := true |>) k (PRet false)).
Proof.
  intros ls k s C Hk G. pose proof (i_nc _ (inv_exec ls init inv_init)) as NC. fold s in NC.
  unfold step. rewrite NC. apply Nat.ltb_lt in Hk. rewrite Hk. cbn. rewrite G, C. reflexivity.
Qed.

Theorem nothing_admitted_after_stop : forall ls, let s := exec good init ls in cmgr s = false ->
  forall j ok s', step good s (LHs j ok) = Some s' -> length (ss s') = length (ss s).
Proof.
  intros ls s C j ok s' H. unfold step in H. destruct (crashed s); [discriminate|]. destruct (negb (Nat.ltb j (length (hs s)))); [discriminate|].
  rewrite C in H. destruct (getK s j); cbn in H; try discriminate;
    repeat match type of H with (if ?x then _ else _) = Some _ => destruct x end; try discriminate; injection H as <-; reflexivity.
Qed.

Theorem api_after_stop_returns : forall ls a, let s := exec good init ls in step good s (LApi a) = Some s.
Proof.
  intros ls a s. pose proof (i_nc _ (inv_exec ls init inv_init)) as NC. fold s in NC.
  unfold step. rewrite NC. cbn. rewrite orb_true_r. reflexivity.
Qed.

(* ---- Stop returns: bounded escape ---- *)
Definition sess_escape (i : nat) (t : sess) : list lab :=
  match wp t with
  | WSel => [LWpCconn i true; LWpClosed i; LWpAfter i]
  | WClosing => [LWpClosed i; LWpAfter i]
  | WLeft => [LWpAfter i]
  | WDone => [] end.

(* what a schedule which only runs session steps leaves alone *)
Record SameBut (s s' : st) : Prop := mkSame {
  sb_len : length (ss s') = length (ss s);
  sb_stops : stops s' = stops s;
  sb_hs : hs s' = hs s;
  sb_cr : crashed s' = crashed s;
  sb_cmgr : cmgr s' = cmgr s;
  sb_quit : quit s' = quit s;
  sb_done : done s' = done s
}.
Lemma SameBut_refl s : SameBut s s. Proof. constructor; auto. Qed.
Lemma SameBut_trans a b c : SameBut a b -> SameBut b c -> SameBut a c.
Proof. intros [] []. constructor; congruence. Qed.
Lemma SameBut_setS s i f : SameBut s (setS s i f).
Proof. constructor; auto. unfold setS; cbn. apply upd_length. Qed.

Lemma getS_setS s i f j : i < length (ss s) -> getS (setS s i f) j = if Nat.eqb i j then f (getS s j) else getS s j.
Proof. intros H. unfold getS, setS. cbn. apply nth_upd. exact H. Qed.

Lemma exec_app c s a b : exec c s (a ++ b) = exec c (exec c s a) b.
Proof. revert s; induction a as [|l r IH]; intros s; cbn; auto. destruct (step c s l); auto. Qed.

Definition Only (i : nat) (s s' : st) : Prop := (forall j, j <> i -> getS s' j = getS s j) /\ SameBut s s'.
Lemma Only_trans i a b c : Only i a b -> Only i b c -> Only i a c.
Proof. intros [A1 A2] [B1 B2]. split; [intros j Hj; rewrite B1, A1; auto | eapply SameBut_trans; eauto]. Qed.
Lemma Only_setS s i f : i < length (ss s) -> Only i s (setS s i f).
Proof. intros H. split; [|apply SameBut_setS]. intros j Hj. rewrite getS_setS by auto. destruct (Nat.eqb_spec i j); congruence. Qed.

Lemma run_after s i : crashed s = false -> i < length (ss s) -> wp (getS s i) = WLeft ->
  let s' := exec good s [LWpAfter i] in rel (getS s' i) = true /\ Only i s s'.
Proof.
  intros CR Hi W. assert (L : Nat.ltb i (length (ss s)) = true) by (apply Nat.ltb_lt; auto).
  cbn. unfold step. rewrite CR, L. cbn. rewrite W. split; [|apply Only_setS; auto].
  rewrite getS_setS by auto. rewrite Nat.eqb_refl. reflexivity.
Qed.

Lemma run_closed s i : crashed s = false -> i < length (ss s) -> wp (getS s i) = WClosing ->
  let s' := exec good s [LWpClosed i; LWpAfter i] in rel (getS s' i) = true /\ Only i s s'.
Proof.
  intros CR Hi W. assert (L : Nat.ltb i (length (ss s)) = true) by (apply Nat.ltb_lt; auto).
  change [LWpClosed i; LWpAfter i] with ([LWpClosed i] ++ [LWpAfter i]). cbv zeta. rewrite exec_app.
  assert (E : exec good s [LWpClosed i] = setS s i (wp_leave good)). { cbn. unfold step. rewrite CR, L. cbn. rewrite W. reflexivity. }
  rewrite E. destruct (run_after (setS s i (wp_leave good)) i) as [R O]; auto.
  - unfold setS; cbn. rewrite upd_length. auto.
  - rewrite getS_setS by auto. rewrite Nat.eqb_refl. reflexivity.
  - split; auto. eapply Only_trans; [apply Only_setS; auto | exact O].
Qed.

Lemma run_sel s i : crashed s = false -> i < length (ss s) -> wp (getS s i) = WSel -> cconn (getS s i) = true ->
  let s' := exec good s [LWpCconn i true; LWpClosed i; LWpAfter i] in rel (getS s' i) = true /\ Only i s s'.
Proof.
  intros CR Hi W CC. assert (L : Nat.ltb i (length (ss s)) = true) by (apply Nat.ltb_lt; auto).
  change [LWpCconn i true; LWpClosed i; LWpAfter i] with ([LWpCconn i true] ++ [LWpClosed i; LWpAfter i]). cbv zeta. rewrite exec_app.
  assert (E : exec good s [LWpCconn i true] = setS s i (fun t => t <| wp := WClosing |> <| sock := true |>)).
  { cbn. unfold step. rewrite CR, L. cbn. rewrite W, CC. reflexivity. }
  rewrite E. destruct (run_closed (setS s i (fun t => t <| wp := WClosing |> <| sock := true |>)) i) as [R O]; auto.
  - unfold setS; cbn. rewrite upd_length. auto.
  - rewrite getS_setS by auto. rewrite Nat.eqb_refl. reflexivity.
  - split; auto. eapply Only_trans; [apply Only_setS; auto | exact O].
Qed.

Lemma sess_escape_ok s i : crashed s = false -> i < length (ss s) -> SInv (getS s i) -> cconn (getS s i) = true ->
  let s' := exec good s (sess_escape i (getS s i)) in rel (getS s' i) = true /\ Only i s s'.
Proof.
  intros CR Hi SI CC. unfold sess_escape. destruct (wp (getS s i)) eqn:W.
  - apply run_sel; auto.
  - apply run_closed; auto.
  - apply run_after; auto.
  - cbn. split; [apply (s_done_rel _ SI W) | split; [auto | apply SameBut_refl]].
Qed.

Fixpoint esc_all (n : nat) (s : st) : list lab :=
  match n with 0 => [] | S m => esc_all m s ++ sess_escape m (getS s m) end.

Lemma esc_all_ok n : forall s, crashed s = false -> n <= length (ss s) ->
  (forall i, i < length (ss s) -> SInv (getS s i) /\ cconn (getS s i) = true) ->
  let s' := exec good s (esc_all n s) in
  (forall i, i < n -> rel (getS s' i) = true) /\ (forall j, n <= j -> getS s' j = getS s j) /\ SameBut s s'.
Proof.
  induction n as [|m IH]; intros s CR Hn HS; cbn.
  - split; [|split]; auto; try (intros; lia). apply SameBut_refl.
  - rewrite exec_app. destruct (IH s CR ltac:(lia) HS) as (R1 & U1 & S1). set (s1 := exec good s (esc_all m s)) in *.
    assert (Em : getS s1 m = getS s m) by (apply U1; lia). rewrite <- Em.
    destruct (HS m ltac:(lia)) as [SI CC].
    destruct (sess_escape_ok s1 m) as [R2 [O2 S2]].
    + rewrite (sb_cr _ _ S1). exact CR.
    + rewrite (sb_len _ _ S1). lia.
    + rewrite Em. exact SI.
    + rewrite Em. exact CC.
    + split; [|split].
      * intros i Hi. destruct (Nat.eq_dec i m) as [->|Hne]; auto. rewrite O2 by auto. apply R1. lia.
      * intros j Hj. rewrite O2 by lia. apply U1. lia.
      * eapply SameBut_trans; eauto.
Qed.

Lemma esc_all_length n s : length (esc_all n s) <= 3 * n.
Proof.
  induction n as [|m IH]; cbn; auto. rewrite app_length. unfold sess_escape. destruct (wp (getS s m)); cbn; lia.
Qed.

Definition is_pump (l : lab) : Prop := match l with LWpCconn _ true | LWpClosed _ | LWpAfter _ => True | _ => False end.
Lemma esc_all_pump n s : Forall is_pump (esc_all n s).
Proof.
  induction n as [|m IH]; cbn; auto. apply Forall_app. split; auto. unfold sess_escape. destruct (wp (getS s m)); repeat constructor.
Qed.

(* one step of Stop k, when it is enabled *)
Definition adv (s : st) (k : nat) : st := exec good s [LStop k].
Lemma adv_spec s k : crashed s = false -> k < length (stops s) ->
  crashed (adv s k) = false /\ length (stops (adv s k)) = length (stops s) /\ length (ss (adv s k)) = length (ss s) /\
  match getP s k with
  | P0 => getP (adv s k) k = P1
  | P1 => getP (adv s k) k = P2 \/ getP (adv s k) k = PRet false
  | P2 => getP (adv s k) k = P3
  | P3 => (forallb rel (ss s) = true -> getP (adv s k) k = P4) /\ (getP (adv s k) k = P3 \/ getP (adv s k) k = P4)
  | P4 => getP (adv s k) k = PRet true
  | p => getP (adv s k) k = p
  end.
Proof.
  intros CR Hk. assert (L : Nat.ltb k (length (stops s)) = true) by (apply Nat.ltb_lt; auto).
  assert (LP : forall s1 p, stops s1 = stops s -> length (stops (setP s1 k p)) = length (stops s)) by (intros s1 p X; unfold setP; cbn; rewrite upd_length, X; auto).
  assert (GP : forall s1 p, stops s1 = stops s -> getP (setP s1 k p) k = p) by (intros s1 p X; rewrite getP_setP by (rewrite X; auto); rewrite Nat.eqb_refl; auto).
  unfold adv, exec. unfold step. rewrite CR, L. cbn [negb].
  destruct (getP s k) eqn:E.
  - rewrite GP, LP by reflexivity. repeat split; auto.
  - destruct (cmgr s); cbn [stop_again good]; rewrite GP, LP by reflexivity; repeat split; auto.
  - rewrite GP, LP by reflexivity. repeat split; auto. unfold setP; cbn. apply map_length.
  - cbn [stop_waits good negb orb]. destruct (forallb rel (ss s)) eqn:F.
    + rewrite GP, LP by reflexivity. repeat split; auto.
    + rewrite E. repeat split; auto. discriminate.
  - rewrite GP, LP by reflexivity. repeat split; auto.
  - rewrite E. auto.
  - rewrite E. auto.
Qed.

Lemma exec_cons c s l r : exec c s (l :: r) = exec c (exec c s [l]) r.
Proof. cbn. destruct (step c s l); reflexivity. Qed.

Lemma pump_same s l : is_pump l -> SameBut s (exec good s [l]).
Proof.
  intros P. cbn. destruct (step good s l) eqn:E; [|apply SameBut_refl].
  destruct l; try contradiction; try (destruct ok; try contradiction); unfold step in E;
    repeat match type of E with
    | (if ?x then _ else _) = Some _ => destruct x; try discriminate E
    | match ?x with _ => _ end = Some _ => destruct x; try discriminate E end; injection E as <-; apply SameBut_setS.
Qed.
Lemma pumps_same ls : forall s, Forall is_pump ls -> SameBut s (exec good s ls).
Proof.
  induction ls as [|l r IH]; intros s F; [apply SameBut_refl|]. inversion F as [|? ? Hl Hr]; subst. rewrite exec_cons.
  eapply SameBut_trans; [apply pump_same; exact Hl | apply IH; exact Hr].
Qed.

Theorem stop_escapes s k : Inv s -> k < length (stops s) ->
  let s3 := exec good s [LStop k; LStop k; LStop k] in
  let hl := [LStop k; LStop k; LStop k] ++ esc_all (length (ss s3)) s3 ++ [LStop k; LStop k] in
  (exists b, getP (exec good s hl) k = PRet b) /\ length hl <= 5 + 3 * length (ss s).
Proof.
  intros I Hk s3 hl.
  pose proof (i_nc _ I) as CR. pose proof (i_nopc _ I k Hk) as NPC.
  assert (E3 : s3 = adv (adv (adv s k) k) k). { unfold s3, adv. rewrite exec_cons. rewrite (exec_cons good _ (LStop k) [LStop k]). reflexivity. }
  destruct (adv_spec s k CR Hk) as (C1 & L1 & N1 & Q1). set (s1 := adv s k) in *.
  assert (Hk1 : k < length (stops s1)) by lia.
  destruct (adv_spec s1 k C1 Hk1) as (C2 & L2 & N2 & Q2). set (s2 := adv s1 k) in *.
  assert (Hk2 : k < length (stops s2)) by lia.
  destruct (adv_spec s2 k C2 Hk2) as (C3 & L3 & N3 & Q3). rewrite <- E3 in *.
  assert (Hk3 : k < length (stops s3)) by lia.
  assert (PC : getP s3 k = P3 \/ getP s3 k = P4 \/ exists b, getP s3 k = PRet b).
  { destruct (getP s k) eqn:G0; try contradiction.
    - rewrite Q1 in Q2. destruct Q2 as [Q2|Q2]; rewrite Q2 in Q3; eauto.
    - destruct Q1 as [Q1|Q1]; rewrite Q1 in Q2; rewrite Q2 in Q3; [destruct Q3 as [_ [X|X]]; auto | eauto].
    - rewrite Q1 in Q2. destruct Q2 as [_ [Q2|Q2]]; rewrite Q2 in Q3; [destruct Q3 as [_ [X|X]]; auto | eauto].
    - destruct Q1 as [_ [Q1|Q1]]; rewrite Q1 in Q2; [destruct Q2 as [_ [Q2|Q2]]; rewrite Q2 in Q3; [destruct Q3 as [_ [X|X]]; auto | eauto] | rewrite Q2 in Q3; eauto].
    - rewrite Q1 in Q2. rewrite Q2 in Q3. eauto.
    - rewrite Q1 in Q2. rewrite Q2 in Q3. eauto. }
  (* the state after them is reachable, so the invariant holds *)
  assert (I3 : Inv s3) by (apply inv_exec; exact I).
  set (n := length (ss s3)) in *.
  assert (PS : SameBut s3 (exec good s3 (esc_all n s3))) by (apply pumps_same; apply esc_all_pump).
  set (s4 := exec good s3 (esc_all n s3)) in *.
  assert (G4 : getP s4 k = getP s3 k) by (unfold getP; rewrite (sb_stops _ _ PS); auto).
  assert (C4 : crashed s4 = false) by (rewrite (sb_cr _ _ PS); auto).
  assert (Hk4 : k < length (stops s4)) by (rewrite (sb_stops _ _ PS); auto).
  assert (EX : exec good s hl = adv (adv s4 k) k).
  { unfold hl. rewrite exec_app. fold s3. rewrite exec_app. fold s4. unfold adv. rewrite exec_cons. reflexivity. }
  split.
  - rewrite EX.
    destruct (adv_spec s4 k C4 Hk4) as (C5 & L5 & N5 & P5). set (s5 := adv s4 k) in *.
    assert (Hk5 : k < length (stops s5)) by lia.
    destruct (adv_spec s5 k C5 Hk5) as (C6 & L6 & N6 & P6).
    rewrite G4 in P5.
    assert (AR : getP s3 k = P3 \/ getP s3 k = P4 -> forallb rel (ss s4) = true).
    { intros X. assert (A2 : after_p2 (getP s3 k) = true) by (destruct X as [X|X]; rewrite X; reflexivity).
      destruct (esc_all_ok n s3 C3 (Nat.le_refl _)) as (R & _ & _).
      - intros i Hi. split; [apply (i_ss _ I3 i Hi) | apply (i_p2 _ I3 k Hk3 A2 i Hi)].
      - apply (forallb_nth _ _ (mkSess RExit WDone HExit false true true true true)). intros i Hi. fold (getS s4 i). apply R. rewrite (sb_len _ _ PS) in Hi. exact Hi. }
    destruct PC as [X|[X|[b X]]].
    + rewrite X in P5. destruct P5 as [P5 _]. rewrite (P5 (AR (or_introl X))) in P6. eauto.
    + rewrite X in P5. rewrite P5 in P6. eauto.
    + rewrite X in P5. rewrite P5 in P6. eauto.
  - unfold hl. rewrite !app_length. cbn [length]. pose proof (esc_all_length n s3). unfold n in *. rewrite N3, N2, N1 in *. lia.
Qed.

Theorem stop_returns : forall ls k, let s := exec good init ls in k < length (stops s) ->
  exists hl, length hl <= 5 + 3 * length (ss s) /\ Forall (fun l => l = LStop k \/ is_pump l) hl /\ exists b, getP (exec good s hl) k = PRet b.
Proof.
  intros ls k s Hk. pose proof (inv_exec ls init inv_init) as I. fold s in I.
  destruct (stop_escapes s k I Hk) as [E B].
  eexists. split; [exact B|]. split; [|exact E].
  apply Forall_app. split; [repeat constructor; auto|]. apply Forall_app. split; [|repeat constructor; auto].
  eapply Forall_impl; [|apply esc_all_pump]. intros l P. right. exact P.
Qed.

Theorem serve_returns : forall ls, let s := exec good init ls in done s = true -> serve s = true -> step good s LServe = Some (s <| serve := false |>).
Proof.
  intros ls s D V. pose proof (i_nc _ (inv_exec ls init inv_init)) as NC. fold s in NC. unfold step. rewrite NC, D, V. reflexivity.
Qed.


(* ---- what Stop does not wait for ends by its own steps ---- *)
Definition rp_out (t : sess) : bool := match rp t with RExit => true | _ => false end.
Definition hr_out (t : sess) : bool := match hr t with HExit => true | _ => false end.
Definition gone_all (s : st) : Prop := crashed s = false /\ forall i, i < length (ss s) -> sess_gone (getS s i) = true.
Definition is_rest (l : lab) : bool := match l with LRp _ | LHr _ => true | _ => false end.

Lemma len_setS s i f : length (ss (setS s i f)) = length (ss s).
Proof. unfold setS. cbn. apply upd_length. Qed.

Lemma step_rest s l : gone_all s -> is_rest l = true ->
  step good s l = None \/
  exists i f, i < length (ss s) /\ step good s l = Some (setS s i f) /\
    (forall t, sess_gone t = true -> sess_gone (f t) = true) /\
    (forall t, rp_out t = true -> rp_out (f t) = true) /\ (forall t, hr_out t = true -> hr_out (f t) = true) /\
    (match l with LRp _ => rp_out (f (getS s i)) = true | _ => hr_out (f (getS s i)) = true end) /\
    (match l with LRp j | LHr j => j = i | _ => True end).
Proof.
  intros [NC G] R. destruct l; try discriminate R.
  - (* LRp *) destruct (lt_dec i (length (ss s))) as [Hi|Hi].
    2: { left. unfold step. rewrite NC. rewrite (proj2 (Nat.ltb_ge _ _)) by lia. reflexivity. }
    specialize (G i Hi). unfold sess_gone in G. rewrite !andb_true_iff in G. destruct G as [[[[_ SK] _] _] RP].
    apply Nat.ltb_lt in Hi as Hi'. unfold step. rewrite NC, Hi'. cbn [negb]. cbv zeta.
    destruct (rp (getS s i)) eqn:E.
    + right. rewrite SK. exists i. eexists. split; [exact Hi|]. split; [reflexivity|].
      repeat split; auto; intros t; unfold sess_gone, rp_out, hr_out; cbn; auto. rewrite !andb_true_iff. tauto.
    + right. cbn [srp_cconn good andb]. rewrite RP. exists i. eexists. split; [exact Hi|]. split; [reflexivity|].
      repeat split; auto; intros t; unfold sess_gone, rp_out, hr_out; cbn; auto. rewrite !andb_true_iff. tauto.
    + left. reflexivity.
  - (* LHr *) destruct (lt_dec i (length (ss s))) as [Hi|Hi].
    2: { left. unfold step. rewrite NC. rewrite (proj2 (Nat.ltb_ge _ _)) by lia. reflexivity. }
    specialize (G i Hi). unfold sess_gone in G. rewrite !andb_true_iff in G. destruct G as [[[[_ _] RL] _] _].
    apply Nat.ltb_lt in Hi as Hi'. unfold step. rewrite NC, Hi'. cbn [negb].
    destruct (hr (getS s i)) eqn:E.
    + right. rewrite RL. exists i. eexists. split; [exact Hi|]. split; [reflexivity|].
      repeat split; auto; intros t; unfold sess_gone, rp_out, hr_out; cbn; auto.
    + left. reflexivity.
Qed.

Lemma rest_gen ls : forall s, gone_all s -> forallb is_rest ls = true ->
  let s' := exec good s ls in
  gone_all s' /\ stops s' = stops s /\ hs s' = hs s /\ quit s' = quit s /\ cmgr s' = cmgr s /\ done s' = done s /\ length (ss s') = length (ss s) /\
  (forall i, rp_out (getS s i) = true -> rp_out (getS s' i) = true) /\
  (forall i, hr_out (getS s i) = true -> hr_out (getS s' i) = true) /\
  (forall i, In (LRp i) ls -> i < length (ss s) -> rp_out (getS s' i) = true) /\
  (forall i, In (LHr i) ls -> i < length (ss s) -> hr_out (getS s' i) = true).
Proof.
  induction ls as [|l r IH]; intros s G R; cbn [exec].
  - cbn. split; [exact G|]. repeat split; auto; intros i [].
  - cbn in R. apply andb_true_iff in R as [Rl Rr].
    destruct (step_rest s l G Rl) as [N|(i & f & Hi & S & FG & FR & FH & FL & FI)].
    + rewrite N. destruct (IH s G Rr) as (A & B1 & B2 & B3 & B4 & B5 & B6 & C & D & E & F).
      split; [exact A|]. repeat split; auto.
      * intros j [->|I] Hj; auto. 
        (* the step was disabled: the pump had gone already *)
        apply C. destruct G as [NC G]. unfold step in N. rewrite NC in N. apply Nat.ltb_lt in Hj as Hj'. rewrite Hj' in N. cbn [negb] in N. cbv zeta in N.
        specialize (G j Hj). unfold sess_gone in G. rewrite !andb_true_iff in G. destruct G as [[[[_ SK] _] _] RP].
        unfold rp_out. destruct (rp (getS s j)); auto.
        -- rewrite SK in N. discriminate.
        -- cbn [srp_cconn good andb] in N. rewrite RP in N. discriminate.
      * intros j [->|I] Hj; auto.
        apply D. destruct G as [NC G]. unfold step in N. rewrite NC in N. apply Nat.ltb_lt in Hj as Hj'. rewrite Hj' in N. cbn [negb] in N.
        specialize (G j Hj). unfold sess_gone in G. rewrite !andb_true_iff in G. destruct G as [[[[_ _] RL] _] _].
        unfold hr_out. destruct (hr (getS s j)); auto. rewrite RL in N. discriminate.
    + rewrite S. set (s1 := setS s i f).
      assert (G1 : gone_all s1).
      { destruct G as [NC G]. split; [exact NC|]. intros j Hj. subst s1. rewrite len_setS in Hj. rewrite getS_setS by auto. destruct (Nat.eqb i j); auto. }
      destruct (IH s1 G1 Rr) as (A & B1 & B2 & B3 & B4 & B5 & B6 & C & D & E & F).
      assert (L1 : length (ss s1) = length (ss s)) by apply len_setS.
      split; [exact A|]. repeat split; auto; try lia.
      * intros j H. apply C. subst s1. rewrite getS_setS by auto. destruct (Nat.eqb i j); auto.
      * intros j H. apply D. subst s1. rewrite getS_setS by auto. destruct (Nat.eqb i j); auto.
      * intros j [->|I] Hj; [|apply E; auto; lia]. subst i. apply C. subst s1. rewrite getS_setS by auto. rewrite Nat.eqb_refl. exact FL.
      * intros j [->|I] Hj; [|apply F; auto; lia]. subst i. apply D. subst s1. rewrite getS_setS by auto. rewrite Nat.eqb_refl. exact FL.
Qed.

Definition rest_of (n : nat) : list lab := map LRp (seq 0 n) ++ map LHr (seq 0 n).

(* after a Stop which tore the server down has returned: what it does not wait for - read pumps on their way out, the readers
   of the sessions - ends by its own next steps (at most two per session), and then no goroutine serving a session remains *)
Theorem nothing_left_after_stop ls : let s := exec good init ls in tore s = true ->
  let s' := exec good s (rest_of (length (ss s))) in
  final s' = true /\ forallb rp_out (ss s') = true /\ forallb hr_out (ss s') = true.
Proof.
  intros s T s'. pose proof (inv_exec ls init inv_init) as I. fold s in I.
  pose proof (inv_final s I T) as F.
  assert (gone_all s) as G.
  { split; [apply (i_nc _ I)|]. intros i Hi. unfold final in F. rewrite !andb_true_iff in F. destruct F as [[_ F] _].
    rewrite (forallb_nth _ _ (mkSess RExit WDone HExit false true true true true)) in F. apply F; auto. }
  assert (forallb is_rest (rest_of (length (ss s))) = true) as R.
  { unfold rest_of. rewrite forallb_app. apply andb_true_iff. split; apply forallb_forall; intros l H; apply in_map_iff in H as (i & <- & _); reflexivity. }
  destruct (rest_gen _ s G R) as (A & B1 & B2 & B3 & B4 & B5 & B6 & C & D & E & F'). fold s' in A, B1, B2, B3, B4, B5, B6, C, D, E, F'.
  split; [|split].
  - apply inv_final; [unfold s', s; rewrite <- exec_app; apply inv_exec; apply inv_init|].
    unfold tore in *. rewrite B1. exact T.
  - rewrite (forallb_nth _ _ (mkSess RExit WDone HExit false true true true true)). intros i Hi. apply E; [|lia].
    unfold rest_of. apply in_or_app. left. apply in_map. apply in_seq. lia.
  - rewrite (forallb_nth _ _ (mkSess RExit WDone HExit false true true true true)). intros i Hi. apply F'; [|lia].
    unfold rest_of. apply in_or_app. right. apply in_map. apply in_seq. lia.
Qed.


(* ---- an ended session keeps nothing ---- *)
(* at any moment of any schedule: a session whose close callback has run is unregistered, has released its wait-group unit and
   its reader, its socket is closed, and what is left of it - a read pump, the reader - ends by its own next step *)
Theorem ended_session_leaves ls i : let s := exec good init ls in
  i < length (ss s) -> wp (getS s i) = WDone ->
  reg (getS s i) = false /\ rel (getS s i) = true /\ sock (getS s i) = true /\
  (rp (getS s i) <> RExit -> exists s', step good s (LRp i) = Some s') /\
  (hr (getS s i) = HRun -> exists s', step good s (LHr i) = Some s').
Proof.
  intros s Hi W. pose proof (inv_exec ls init inv_init) as I. fold s in I.
  pose proof (i_nc _ I) as NC. destruct (i_ss _ I i Hi) as [_ SL SD _ _ SR].
  destruct SL as [CC SK]; [unfold wp_left; rewrite W; reflexivity|].
  apply Nat.ltb_lt in Hi as Hi'.
  split; [auto|]. split; [auto|]. split; [auto|]. split.
  - intros R. unfold step. rewrite NC, Hi'. cbn [negb]. cbv zeta. destruct (rp (getS s i)) eqn:E; [| |contradiction].
    + rewrite SK. eauto.
    + cbn [srp_cconn good andb]. rewrite CC. eauto.
  - intros H. unfold step. rewrite NC, Hi'. cbn [negb]. rewrite H, (SR W). eauto.
Qed.
