From Coq Require Import List Arith Bool Lia.
From Hammer Require Import Tactics.
From WV Require Import Model.Rendezvous.
Import ListNotations.

(* Pinned code (cap = 0): deadlock witness. Invoker 1 registers, sends, its ctx ends and it picks the ctx arm;
   responder 0 for id 1 takes the lock and finds the entry. Now nobody can move for call 1. *)
Definition witness := [LI 1; LI 1; LResp 0 1; LCtx 1; LR 0; LIctx 1].
Definition stuck (cap1 : bool) (s : st) (i j : nat) :=
  match step cap1 s (LI i), step cap1 s (LIctx i), step cap1 s (LR j) with None, None, None => true | _, _, _ => false end.
Lemma server_unbuffered_refuted :
  let s := exec false init witness in
  ctx s 1 = true /\ ipcs s 1 = ICtx /\ mu s = Some (TR 0) /\ stuck false s 1 0 = true.
Proof. vm_compute. repeat split. Qed.
(* same schedule with capacity 1: everybody finishes *)
Eval vm_compute in (let s := exec true init (witness ++ [LR 0; LR 0; LI 1; LI 1]) in (ipcs s 1, snd (rpcs s 0), mu s, table s)).

(* ---------- capacity 1: invariant, ranking function, bounded escape ---------- *)
Definition iholding p := match p with IHold1 | IHold2 => true | _ => false end.
Definition rholding p := match p with RFound | RSent | RMiss => true | _ => false end.
Definition iactive p := match p with IHold1 | ISent | ICtx | IHold2 => true | _ => false end.

Record Inv (s : st) : Prop := {
  h_i : forall i, iholding (ipcs s i) = true <-> mu s = Some (TI i);
  h_r : forall j, rholding (snd (rpcs s j)) = true <-> mu s = Some (TR j);
  h_found : forall j, snd (rpcs s j) = RFound -> mem (fst (rpcs s j)) (table s) = true;
  h_tab : forall x, mem x (table s) = true -> ipcs s x <> I0;
  h_buf : forall x, mem x (buf s) = true -> mem x (table s) = true -> exists j, rpcs s j = (x, RSent);
  h_buf0 : forall x, mem x (buf s) = true -> ipcs s x <> I0
}.

Lemma mem_cons x y l : mem x (y :: l) = Nat.eqb x y || mem x l. Proof. reflexivity. Qed.
Lemma mem_rm x y l : mem x (rm y l) = negb (Nat.eqb y x) && mem x l.
Proof. induction l as [|z l IH]; simpl. now rewrite andb_false_r.
  destruct (Nat.eqb y z) eqn:E; simpl; rewrite IH.
  - apply Nat.eqb_eq in E; subst. rewrite (Nat.eqb_sym x z). destruct (Nat.eqb z x); simpl; auto.
  - destruct (Nat.eqb x z) eqn:E2; simpl; auto. apply Nat.eqb_eq in E2; subst. rewrite E. reflexivity.
Qed.
Lemma upd_eq {A} (f : nat -> A) k v x : upd f k v x = if Nat.eqb x k then v else f x. Proof. reflexivity. Qed.

Lemma inv_init : Inv init.
Proof. constructor; simpl; intros; try discriminate; split; discriminate. Qed.

Ltac eqbs := repeat match goal with
  | H : context [Nat.eqb ?a ?b] |- _ => let E := fresh "E" in destruct (Nat.eqb a b) eqn:E; [apply Nat.eqb_eq in E; subst | apply Nat.eqb_neq in E]
  | |- context [Nat.eqb ?a ?b] => let E := fresh "E" in destruct (Nat.eqb a b) eqn:E; [apply Nat.eqb_eq in E; subst | apply Nat.eqb_neq in E]
  end.
Ltac fin := constructor; simpl; intros; rewrite ?upd_eq, ?mem_cons, ?mem_rm in *; eqbs; simpl in *;
  try (match goal with H : snd (rpcs ?s ?j0) = RFound, HR : (forall j : nat, rholding (snd (rpcs ?s j)) = true <-> _) |- _ =>
         let K := fresh "K" in pose proof (proj1 (HR j0)) as K; rewrite H in K; specialize (K eq_refl) end);
  try congruence;
  try (timeout 10 (hauto lq: on));
  try (match goal with |- exists j0, upd _ ?j _ j0 = _ => exists j; rewrite upd_eq, Nat.eqb_refl; reflexivity end);
  try (match goal with
       | HB : (forall x : nat, mem x (buf _) = true -> mem x (table _) = true -> exists _, _),
         H1 : mem ?x0 (buf _) = true, H2 : mem ?x0 (table _) = true |- exists j0, upd _ ?j _ j0 = _ =>
         let j1 := fresh "j1" in let Hj1 := fresh "Hj1" in let EE := fresh "EE" in
         destruct (HB x0 H1 H2) as [j1 Hj1]; exists j1; rewrite upd_eq; destruct (Nat.eqb j1 j) eqn:EE;
         [apply Nat.eqb_eq in EE; subst; congruence | exact Hj1] end);
  try (timeout 20 sauto).
Ltac left_over := match goal with |- ?G => idtac "REMAINING:" G end; try (repeat match goal with H : ?T |- _ => idtac "   " H ":" T; clear H end).

Lemma inv_step s l s' : Inv s -> step true s l = Some s' -> Inv s'.
Proof.
  intros [Hi Hr Hf Ht Hb Hb0] Hs.
  destruct l; simpl in Hs.
  - (* LI i *)
    pose proof (Hi i) as Hii; pose proof (Ht i) as Hti; pose proof (Hb0 i) as Hbi.
    destruct (ipcs s i) eqn:Ei; try discriminate Hs; unfold free, set_i in Hs; simpl in Hii.
    + destruct (mu s) eqn:Em; try discriminate Hs. inversion Hs; subst; clear Hs. fin. all: left_over.
    + assert (Hmu : mu s = Some (TI i)) by (apply Hi; rewrite Ei; reflexivity). inversion Hs; subst; clear Hs. fin. all: left_over.
    + destruct (mem i (buf s)) eqn:Eb; try discriminate Hs. inversion Hs; subst; clear Hs. fin. all: left_over.
    + destruct (mu s) eqn:Em; try discriminate Hs. inversion Hs; subst; clear Hs. fin. all: left_over.
    + assert (Hmu : mu s = Some (TI i)) by (apply Hi; rewrite Ei; reflexivity). inversion Hs; subst; clear Hs. fin. all: left_over.
  - (* LIctx *)
    pose proof (Hi i) as Hii; pose proof (Ht i) as Hti; pose proof (Hb0 i) as Hbi.
    destruct (ipcs s i) eqn:Ei; try discriminate Hs. destruct (ctx s i); try discriminate Hs. unfold set_i in Hs. simpl in Hii.
    inversion Hs; subst; clear Hs. fin. all: left_over.
  - (* LR j *)
    pose proof (Hr j) as Hrj; pose proof (Hf j) as Hfj.
    destruct (rpcs s j) as [x p] eqn:Ej. simpl in Hrj, Hfj. destruct p; try discriminate Hs; unfold free, set_r in Hs; simpl in Hrj.
    + destruct (mu s) eqn:Em; try discriminate Hs. destruct (mem x (table s)) eqn:Et; inversion Hs; subst; clear Hs; fin. all: left_over.
    + assert (Hmu : mu s = Some (TR j)) by (apply Hr; rewrite Ej; reflexivity). destruct (mem x (buf s)) eqn:Eb; try discriminate Hs. inversion Hs; subst; clear Hs. fin. all: left_over.
    + assert (Hmu : mu s = Some (TR j)) by (apply Hr; rewrite Ej; reflexivity). inversion Hs; subst; clear Hs. fin. all: left_over.
    + assert (Hmu : mu s = Some (TR j)) by (apply Hr; rewrite Ej; reflexivity). inversion Hs; subst; clear Hs. fin. all: left_over.
  - (* LCtx *) inversion Hs; subst; clear Hs. fin. all: left_over.
  - (* LResp *) pose proof (Hr j) as Hrj; pose proof (Hf j) as Hfj. destruct (rpcs s j) as [x0 p] eqn:Ej. simpl in Hs, Hrj, Hfj. destruct p; try discriminate Hs. unfold set_r in Hs. inversion Hs; subst; clear Hs. fin. all: left_over.
Qed.

Lemma inv_exec ls : forall s, Inv s -> Inv (exec true s ls).
Proof. induction ls as [|l r IH]; simpl; intros s H; auto. destruct (step true s l) eqn:E; auto. apply IH. eapply inv_step; eauto. Qed.


(* ---- ranking function and bounded escape for a caller whose context has ended ---- *)
Definition own (p : ipc) : nat := match p with I0 => 5 | IHold1 => 4 | ISent => 3 | ICtx => 2 | IHold2 => 1 | _ => 0 end.
Definition hrank (s : st) (i : nat) : nat :=
  match mu s with
  | None => 0
  | Some (TI k) => if Nat.eqb k i then 0 else 1
  | Some (TR j) => match snd (rpcs s j) with RFound => 2 | _ => 1 end
  end.
Definition rank s i := own (ipcs s i) + hrank s i.
Definition helper (s : st) (i : nat) : lab :=
  match mu s with
  | Some (TI k) => LI k
  | Some (TR j) => LR j
  | None => match ipcs s i with ISent => LIctx i | _ => LI i end
  end.
(* only the caller itself and the current lock holder ever move *)
Definition mover_ok (s : st) (i : nat) (l : lab) : Prop :=
  l = LI i \/ l = LIctx i \/ (exists k, l = LI k /\ mu s = Some (TI k)) \/ (exists j, l = LR j /\ mu s = Some (TR j)).

Lemma helper_ok s i : mover_ok s i (helper s i).
Proof. unfold mover_ok, helper. destruct (mu s) as [[k|j]|]; [ right; right; left; eauto | right; right; right; eauto | destruct (ipcs s i); auto ]. Qed.

Lemma progress s i : Inv s -> ctx s i = true -> own (ipcs s i) > 0 ->
  exists s', step true s (helper s i) = Some s' /\ rank s' i < rank s i /\ ctx s' i = true.
Proof.
  intros [Hi Hr Hf Ht Hb Hb0] Hc Ho. unfold helper, rank, hrank.
  pose proof (Hi i) as Hii.
  destruct (mu s) as [[k|j]|] eqn:Em.
  - (* held by invoker k *)
    pose proof (proj2 (Hi k) eq_refl) as Hk. simpl.
    destruct (ipcs s k) eqn:Ek; try discriminate Hk; unfold set_i; eexists; (split; [reflexivity|]); simpl; rewrite ?upd_eq;
    destruct (Nat.eqb k i) eqn:E; try (apply Nat.eqb_eq in E; subst; rewrite Ek in *); rewrite ?Nat.eqb_refl, ?(Nat.eqb_sym i k), ?E; simpl; split; auto; lia.
  - (* held by responder j *)
    pose proof (proj2 (Hr j) eq_refl) as Hj. pose proof (Hf j) as Hfj. simpl.
    destruct (rpcs s j) as [x p] eqn:Ej; simpl in *.
    destruct p; try discriminate Hj.
    + (* RFound: the send cannot block *)
      assert (Hnb : mem x (buf s) = false).
      { destruct (mem x (buf s)) eqn:Eb; auto. destruct (Hb x Eb (Hfj eq_refl)) as [j' Hj'].
        assert (Hq : Some (TR j) = Some (TR j')) by (apply Hr; rewrite Hj'; reflexivity). assert (j' = j) by congruence. subst. rewrite Ej in Hj'. discriminate. }
      rewrite Hnb. eexists; split; [reflexivity|]. simpl. rewrite Em. rewrite upd_eq, Nat.eqb_refl. simpl. split; auto; lia.
    + eexists; split; [reflexivity|]. simpl. split; auto; lia.
    + unfold set_r. eexists; split; [reflexivity|]. simpl. split; auto; lia.
  - (* free: the caller moves *)
    destruct (ipcs s i) eqn:Ei; simpl in Ho; try lia; simpl; rewrite ?Ei; unfold free, set_i; rewrite ?Em, ?Hc; simpl.
    + eexists; split; [reflexivity|]. simpl. rewrite upd_eq, !Nat.eqb_refl. simpl. split; auto; lia.
    + exfalso. simpl in Hii. assert (None = Some (TI i)) by (apply Hii; reflexivity). discriminate.
    + eexists; split; [reflexivity|]. simpl. rewrite ?Em, upd_eq, Nat.eqb_refl. simpl. split; auto; lia.
    + eexists; split; [reflexivity|]. simpl. rewrite upd_eq, !Nat.eqb_refl. simpl. split; auto; lia.
    + exfalso. simpl in Hii. assert (None = Some (TI i)) by (apply Hii; reflexivity). discriminate.
Qed.

Fixpoint esc (n : nat) (s : st) (i : nat) : list lab :=
  match n with
  | 0 => []
  | S n' => if Nat.eqb (own (ipcs s i)) 0 then [] else
            let l := helper s i in
            match step true s l with Some s' => l :: esc n' s' i | None => [] end
  end.

Lemma esc_works n : forall s i, Inv s -> ctx s i = true -> rank s i <= n -> own (ipcs (exec true s (esc n s i)) i) = 0.
Proof.
  induction n as [|n IH]; intros s i HI Hc Hr; simpl.
  - unfold rank in Hr. lia.
  - destruct (Nat.eqb (own (ipcs s i)) 0) eqn:E0; simpl. now apply Nat.eqb_eq in E0.
    apply Nat.eqb_neq in E0. destruct (progress s i HI Hc) as (s' & Hs & Hlt & Hc'); [lia|].
    rewrite Hs. simpl. rewrite Hs. apply IH; auto. eapply inv_step; eauto. lia.
Qed.

Lemma esc_len n : forall s i, length (esc n s i) <= n.
Proof. induction n as [|n IH]; intros; simpl; auto. destruct (Nat.eqb _ 0); simpl; [lia|]. destruct (step true s (helper s i)); simpl; [specialize (IH s0 i)|]; lia. Qed.

(* C02 (server, capacity-1 channel): for EVERY schedule, a caller whose context has ended can be driven to return
   by at most 7 steps of itself and of whoever holds the lock right now; nothing else has to happen. *)
Theorem returns_after_ctx : forall sched i,
  let s := exec true init sched in
  ctx s i = true ->
  let e := esc (rank s i) s i in
  own (ipcs (exec true s e) i) = 0 /\ length e <= 7.
Proof.
  intros sched i s Hc e. split.
  - apply esc_works; auto. apply inv_exec, inv_init.
  - eapply Nat.le_trans. apply esc_len. unfold rank, hrank, own.
    destruct (ipcs s i); destruct (mu s) as [[k|j]|]; try destruct (Nat.eqb k i); try destruct (snd (rpcs s j)); simpl; lia.
Qed.

(* ---- nobody blocks while holding the lock: the holder releases it within two steps of its own ---- *)
Definition holder_label (t : tid) : lab := match t with TI k => LI k | TR j => LR j end.

Lemma holder_moves s t : Inv s -> mu s = Some t ->
  exists s', step true s (holder_label t) = Some s' /\
    (mu s' = None \/ (exists j, t = TR j /\ mu s' = Some t /\ snd (rpcs s' j) = RSent)).
Proof.
  intros [Hi Hr Hf Ht Hb Hb0] Em. destruct t as [k|j]; cbn [holder_label step].
  - pose proof (proj2 (Hi k) Em) as Hk. destruct (ipcs s k) eqn:Ek; try discriminate Hk; unfold set_i; eexists; (split; [reflexivity|left; reflexivity]).
  - pose proof (proj2 (Hr j) Em) as Hj. pose proof (Hf j) as Hfj. destruct (rpcs s j) as [x p] eqn:Ej; cbn [snd fst] in *.
    destruct p; try discriminate Hj.
    + assert (Hnb : mem x (buf s) = false).
      { destruct (mem x (buf s)) eqn:Eb; auto. destruct (Hb x Eb (Hfj eq_refl)) as [j' Hj'].
        assert (Hq : Some (TR j) = Some (TR j')) by (rewrite <- Em; apply Hr; rewrite Hj'; reflexivity). assert (j' = j) by congruence. subst. rewrite Ej in Hj'. discriminate. }
      rewrite Hnb. eexists; split; [reflexivity|]. right. exists j. cbn. rewrite upd_eq, Nat.eqb_refl. auto.
    + eexists; split; [reflexivity|left; reflexivity].
    + unfold set_r. eexists; split; [reflexivity|left; reflexivity].
Qed.

Theorem lock_released sched : let s := exec true init sched in
  forall t, mu s = Some t -> exists e, length e <= 2 /\ Forall (fun l => l = holder_label t) e /\ mu (exec true s e) = None.
Proof.
  intros s t Em. assert (I : Inv s) by (apply inv_exec, inv_init).
  destruct (holder_moves s t I Em) as (s1 & S1 & [N|(j & -> & M1 & P1)]).
  - exists [holder_label t]. repeat split; [cbn; lia|repeat constructor|]. cbn [exec]. rewrite S1. exact N.
  - assert (I1 : Inv s1) by (eapply inv_step; eauto).
    destruct (holder_moves s1 (TR j) I1 M1) as (s2 & S2 & [N|(j2 & E & M2 & P2)]).
    + exists [LR j; LR j]. repeat split; [cbn; lia|repeat constructor|]. cbn [exec holder_label] in *. rewrite S1, S2. exact N.
    + (* impossible: the responder was at RSent, its next step releases *)
      exfalso. inversion E; subst j2. cbn [holder_label step] in S2. destruct (rpcs s1 j) as [x p] eqn:Ej. cbn [snd] in P1. subst p.
      inversion S2; subst s2. cbn in M2. discriminate.
Qed.

(* ---- a call that returned by its context is gone for good ---- *)
Lemma timeout_terminal s i l s' : ipcs s i = ITimeout -> step true s l = Some s' -> ipcs s' i = ITimeout.
Proof. intros E S. destruct l as [k|k|j|k|j x]; cbn [step] in S.
  - destruct (Nat.eq_dec k i) as [->|N].
    + rewrite E in S. discriminate.
    + destruct (ipcs s k); try discriminate S; unfold set_i, free in S;
        repeat match type of S with context [if ?c then _ else _] => destruct c end; try discriminate S; inversion S; subst; cbn; rewrite ?upd_eq;
        destruct (Nat.eqb_spec i k); try congruence.
  - destruct (ipcs s k) eqn:Ek; try discriminate S. destruct (ctx s k); try discriminate S. inversion S; subst. cbn. rewrite upd_eq.
    destruct (Nat.eqb_spec i k); [subst; congruence|exact E].
  - destruct (rpcs s j) as [x p]. destruct p; try discriminate S; unfold set_r, free in S;
      repeat match type of S with context [if ?c then _ else _] => destruct c end; try discriminate S; inversion S; subst; cbn; auto.
  - inversion S; subst; exact E.
  - destruct (snd (rpcs s j)); try discriminate S. inversion S; subst; exact E.
Qed.
Theorem no_stale_delivery sched1 sched2 i : ipcs (exec true init sched1) i = ITimeout ->
  ipcs (exec true (exec true init sched1) sched2) i = ITimeout.
Proof. generalize (exec true init sched1). induction sched2 as [|l r IH]; intros s E; [exact E|]. cbn [exec].
  destruct (step true s l) eqn:S; [apply IH; eapply timeout_terminal; eauto|apply IH; exact E]. Qed.
