From Coq Require Import List Arith.
From WV Require Import Model.Multi.
Import ListNotations.
Open Scope nat_scope.

Lemma isolated : forall h ms K, mexec ms h K = exec (ms K) (concerns K h).
Proof. induction h as [|[k l] h IH]; intros ms K; [reflexivity|].
  unfold mexec, concerns in *. cbn [fold_left filter fst snd]. rewrite IH. unfold mstep at 1. cbn [fst snd].
  destruct (Nat.eqb K k); reflexivity. Qed.

(* whatever other peers do - including responses that carry ids pending towards K - session K
   evolves exactly as if they had done nothing *)
Corollary others_irrelevant h1 h2 ms K : concerns K h1 = concerns K h2 -> mexec ms h1 K = mexec ms h2 K.
Proof. intros E. now rewrite !isolated, E. Qed.
