From Coq Require Import List Arith Bool Lia.
From Hammer Require Import Tactics.
From WV Require Import Model.RendezvousC.
Import ListNotations.

Definition iholding p := match p with IHold1 | IHold2 _ => true | _ => false end.
Definition rholding p := match p with RHold _ => true | _ => false end.

Record Inv (s : st) : Prop := {
  h_i : forall i, iholding (ipcs s i) = true <-> mu s = Some (TI i);
  h_r : forall j, rholding (snd (rpcs s j)) = true <-> mu s = Some (TR j)
}.

Lemma upd_eq {A} (f : nat -> A) k v x : upd f k v x = if Nat.eqb x k then v else f x. Proof. reflexivity. Qed.
Lemma inv_init : Inv init. Proof. constructor; simpl; intros; split; discriminate. Qed.

Ltac eqbs := repeat match goal with
  | H : context [Nat.eqb ?a ?b] |- _ => let E := fresh "E" in destruct (Nat.eqb a b) eqn:E; [apply Nat.eqb_eq in E; subst | apply Nat.eqb_neq in E]
  | |- context [Nat.eqb ?a ?b] => let E := fresh "E" in destruct (Nat.eqb a b) eqn:E; [apply Nat.eqb_eq in E; subst | apply Nat.eqb_neq in E]
  end.
Ltac spec_all :=
  repeat match goal with
  | H : (forall i : nat, iholding _ = true <-> _), x : nat |- _ => lazymatch goal with | _ : iholding (_ x) = true <-> _ |- _ => fail | _ => pose proof (H x) end
  end;
  repeat match goal with
  | H : (forall j : nat, rholding _ = true <-> _), x : nat |- _ => lazymatch goal with | _ : rholding (snd (_ x)) = true <-> _ |- _ => fail | _ => pose proof (H x) end
  end.
Ltac fin := constructor; simpl; intros; rewrite ?upd_eq in *; eqbs; simpl in *; try congruence; spec_all;
  try (split; intros; try congruence; try discriminate; (timeout 20 (hauto lq: on)));
  try (timeout 20 (hauto lq: on)); try (timeout 30 sauto).

Lemma inv_step s l s' : Inv s -> step s l = Some s' -> Inv s'.
Proof.
  intros [Hi Hr] Hs. destruct l; simpl in Hs.
  - pose proof (Hi i) as Hii. destruct (ipcs s i) eqn:Ei; simpl in Hs; try discriminate Hs; unfold free, set_i in Hs; simpl in Hii.
    + destruct (mu s) eqn:Em; try discriminate Hs. inversion Hs; subst; clear Hs. fin.
    + assert (Hmu : mu s = Some (TI i)) by (apply Hi; rewrite Ei; reflexivity). inversion Hs; subst; clear Hs. fin.
    + destruct (mem i (buf s)); try discriminate Hs. inversion Hs; subst; clear Hs. fin.
    + destruct (mu s) eqn:Em; try discriminate Hs. inversion Hs; subst; clear Hs. fin.
    + destruct (mu s) eqn:Em; try discriminate Hs. inversion Hs; subst; clear Hs. fin.
    + assert (Hmu : mu s = Some (TI i)) by (apply Hi; rewrite Ei; reflexivity). inversion Hs; subst; clear Hs. fin.
  - pose proof (Hi i) as Hii. destruct (ipcs s i) eqn:Ei; try discriminate Hs. destruct (ctx s i); try discriminate Hs. unfold set_i in Hs. simpl in Hii.
    inversion Hs; subst; clear Hs. fin.
  - pose proof (Hr j) as Hrj. destruct (rpcs s j) as [x p] eqn:Ej. simpl in Hrj. destruct p; try discriminate Hs; unfold free, set_r in Hs; simpl in Hrj.
    + destruct (mu s) eqn:Em; try discriminate Hs. inversion Hs; subst; clear Hs. fin.
    + assert (Hmu : mu s = Some (TR j)) by (apply Hr; rewrite Ej; reflexivity). inversion Hs; subst; clear Hs. fin.
    + inversion Hs; subst; clear Hs. fin.
  - inversion Hs; subst; clear Hs. fin.
  - pose proof (Hr j) as Hrj. destruct (rpcs s j) as [x0 p] eqn:Ej. simpl in Hs, Hrj. destruct p; try discriminate Hs. unfold set_r in Hs. inversion Hs; subst; clear Hs. fin.
Qed.
Lemma inv_exec ls : forall s, Inv s -> Inv (exec s ls).
Proof. induction ls as [|l r IH]; simpl; intros s H; auto. destruct (step s l) eqn:E; auto. apply IH. eapply inv_step; eauto. Qed.

(* nobody blocks while holding cc.mu: every critical section is one step long *)
Definition holder_label (t : tid) : lab := match t with TI k => LI k | TR j => LR j end.
Theorem lock_released sched : let s := exec init sched in
  forall t, mu s = Some t -> exists s', step s (holder_label t) = Some s' /\ mu s' = None.
Proof.
  intros s t Em. assert (I : Inv s) by (apply inv_exec, inv_init). destruct I as [Hi Hr].
  destruct t as [k|j]; cbn [holder_label step].
  - pose proof (proj2 (Hi k) Em) as Hk. destruct (ipcs s k) eqn:Ek; try discriminate Hk; unfold set_i; eexists; split; reflexivity.
  - pose proof (proj2 (Hr j) Em) as Hj. destruct (rpcs s j) as [x p] eqn:Ej; cbn [snd] in Hj. destruct p; try discriminate Hj.
    unfold set_r. eexists; split; reflexivity.
Qed.

(* a caller whose context has ended returns within five steps of itself and of the lock holder *)
Definition own (p : ipc) : nat := match p with I0 => 5 | IHold1 => 4 | ISent => 3 | IGot => 2 | ICtx => 2 | IHold2 _ => 1 | _ => 0 end.
Definition hrank (s : st) (i : nat) : nat := match mu s with None => 0 | Some (TI k) => if Nat.eqb k i then 0 else 1 | Some (TR _) => 1 end.
Definition rank s i := own (ipcs s i) + hrank s i.
Definition helper (s : st) (i : nat) : lab :=
  match mu s with
  | Some t => holder_label t
  | None => match ipcs s i with ISent => LIctx i | _ => LI i end
  end.

Lemma progress s i : Inv s -> ctx s i = true -> own (ipcs s i) > 0 ->
  exists s', step s (helper s i) = Some s' /\ rank s' i < rank s i /\ ctx s' i = true.
Proof.
  intros [Hi Hr] Hc Ho. unfold helper, rank, hrank. pose proof (Hi i) as Hii.
  destruct (mu s) as [[k|j]|] eqn:Em; cbn [holder_label].
  - pose proof (proj2 (Hi k) eq_refl) as Hk. simpl.
    destruct (ipcs s k) eqn:Ek; try discriminate Hk; unfold set_i; eexists; (split; [reflexivity|]); simpl; rewrite ?upd_eq;
    destruct (Nat.eqb k i) eqn:E; try (apply Nat.eqb_eq in E; subst; rewrite Ek in *); rewrite ?Nat.eqb_refl, ?(Nat.eqb_sym i k), ?E; simpl; split; auto;
    try lia; destruct ok; simpl; lia.
  - pose proof (proj2 (Hr j) eq_refl) as Hj. simpl. destruct (rpcs s j) as [x p] eqn:Ej; simpl in *. destruct p; try discriminate Hj.
    unfold set_r. eexists; split; [reflexivity|]. simpl. split; auto; lia.
  - destruct (ipcs s i) eqn:Ei; simpl in Ho; try lia; simpl; rewrite ?Ei; unfold free, set_i; rewrite ?Em, ?Hc; simpl.
    + eexists; split; [reflexivity|]. simpl. rewrite upd_eq, !Nat.eqb_refl. simpl. split; auto; lia.
    + exfalso. simpl in Hii. assert (None = Some (TI i)) by (apply Hii; reflexivity). discriminate.
    + eexists; split; [reflexivity|]. simpl. rewrite ?Em, upd_eq, Nat.eqb_refl. simpl. split; auto; lia.
    + eexists; split; [reflexivity|]. simpl. rewrite upd_eq, !Nat.eqb_refl. simpl. split; auto; lia.
    + eexists; split; [reflexivity|]. simpl. rewrite upd_eq, !Nat.eqb_refl. simpl. split; auto; lia.
    + exfalso. simpl in Hii. assert (None = Some (TI i)) by (apply Hii; reflexivity). discriminate.
Qed.

Fixpoint esc (n : nat) (s : st) (i : nat) : list lab :=
  match n with
  | 0 => []
  | S n' => if Nat.eqb (own (ipcs s i)) 0 then [] else
            let l := helper s i in
            match step s l with Some s' => l :: esc n' s' i | None => [] end
  end.
Lemma esc_works n : forall s i, Inv s -> ctx s i = true -> rank s i <= n -> own (ipcs (exec s (esc n s i)) i) = 0.
Proof.
  induction n as [|n IH]; intros s i HI Hc Hr; simpl.
  - unfold rank in Hr. lia.
  - destruct (Nat.eqb (own (ipcs s i)) 0) eqn:E0; simpl. now apply Nat.eqb_eq in E0.
    apply Nat.eqb_neq in E0. destruct (progress s i HI Hc) as (s' & Hs & Hlt & Hc'); [lia|].
    rewrite Hs. simpl. rewrite Hs. apply IH; auto. eapply inv_step; eauto. lia.
Qed.
Lemma esc_len n : forall s i, length (esc n s i) <= n.
Proof. induction n as [|n IH]; intros; simpl; auto. destruct (Nat.eqb _ 0); simpl; [lia|]. destruct (step s (helper s i)); simpl; [specialize (IH s0 i)|]; lia. Qed.

Theorem returns_after_ctx : forall sched i,
  let s := exec init sched in
  ctx s i = true ->
  let e := esc (rank s i) s i in
  own (ipcs (exec s e) i) = 0 /\ length e <= 6.
Proof.
  intros sched i s Hc e. split.
  - apply esc_works; auto. apply inv_exec, inv_init.
  - eapply Nat.le_trans. apply esc_len. unfold rank, hrank, own.
    destruct (ipcs s i); destruct (mu s) as [[k|j]|]; try destruct (Nat.eqb k i); simpl; lia.
Qed.

(* a responder never waits for anybody: once it has the lock it finishes by three steps of its own *)
Theorem responder_never_blocks s j x : rpcs s j = (x, RSend) -> exists s', step s (LR j) = Some s' /\ snd (rpcs s' j) = RDone.
Proof. intros E. cbn [step]. rewrite E. eexists; split; [reflexivity|]. cbn. rewrite upd_eq, Nat.eqb_refl. reflexivity. Qed.
