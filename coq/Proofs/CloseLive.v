(* Close returns: bounded escape for the Close model (cfg = good).
   From every reachable state, for every Close call which has not returned, and provided no user
   handler is running, a computable helper label is enabled and strictly decreases a rank; so a
   schedule of at most `rank` helper steps - steps of that Close, of the current lock holder, of
   the pumps, readers, publisher, reader manager and per-message goroutines of the connection, the
   failure of a dial in progress - ends with the Close returned. No fairness is assumed and no
   step of the network, of the peer, of a handler or of another caller is used. *)
From Coq Require Import List Arith Bool Lia.
From WV Require Import Model.CloseLTS Proofs.CloseInv Proofs.CloseP.
Import ListNotations.

(* ---- a second invariant: who holds the lock, and that what Close waits for has been told to end ---- *)
Definition amu_ok (s : st) : Prop :=
  match amu s with
  | None => True
  | Some HRt => rt_hold (rt s) = true
  | Some (HWp g) => g < length (trs s) /\ wp (getT s g) = WPHold
  end.
Record Inv2 (s : st) : Prop := mkInv2 {
  j2_amu : amu_ok s;
  j2_t3 : forall k g, k < length (cl s) -> getC s k = T3 g -> cconn (getT s g) = true;
  j2_rc : forall g, rt s = RClosing g -> cconn (getT s g) = true
}.
Lemma inv2_init : Inv2 init.
Proof. constructor; cbn; auto; intros; try discriminate; try lia. Qed.


Lemma set_csm_fields s v : cl (set_csm good s v) = cl s /\ trs (set_csm good s v) = trs s /\ amu (set_csm good s v) = amu s /\ rt (set_csm good s v) = rt s.
Proof. unfold set_csm. destruct (cstate_eqb _ _); [auto|]. destruct (_ && _); auto. Qed.
Lemma cl_set_csm s v : cl (set_csm good s v) = cl s. Proof. apply set_csm_fields. Qed.
Lemma trs_set_csm s v : trs (set_csm good s v) = trs s. Proof. apply set_csm_fields. Qed.
Lemma amu_set_csm s v : amu (set_csm good s v) = amu s. Proof. apply set_csm_fields. Qed.
Lemma rt_set_csm s v : rt (set_csm good s v) = rt s. Proof. apply set_csm_fields. Qed.

Ltac nu := repeat (rewrite ?nth_upd, ?upd_length;
   match goal with
   | |- context[if (Nat.eqb ?a ?b && Nat.ltb ?c ?d) then _ else _] => destruct (Nat.eqb_spec a b); destruct (Nat.ltb_spec c d); cbn [andb]
   end).
Ltac fin T R := cbn; intros; subst; try discriminate; try congruence; try lia; eauto;
   try (match goal with H : _ = T3 _ |- _ => injection H as <- end; eauto);
   try (eapply T; eauto; fail); try (eapply R; eauto; fail).
Ltac pubif := repeat match goal with
   | H : (if ?c then pub _ _ _ else Some _) = Some _ |- _ => destruct c eqn:?;
        [apply pub_cases in H; destruct H as [[? ->]|[(? & ? & ? & ->)|(? & ? & ? & ->)]] | injection H as <-] end.

Lemma inv2_step s l s' : Inv s -> Inv2 s -> step good s l = Some s' -> crashed s' = false -> Inv2 s'.
Proof.
  intros I I2 H NC. destruct I2 as [A T R]. pose proof I as I0. dI I0.
  destruct l; pre3 H; pubif; try (cbn in NC; discriminate NC).
  all: repeat match goal with |- context[match ?x with _ => _ end] => is_var x; destruct x end.
  all: try match goal with |- context[match lrcur ?x with _ => _ end] => destruct (lrcur x) end.
  all: constructor; unfold amu_ok in *; rdc; rewrite ?cl_set_csm, ?trs_set_csm, ?amu_set_csm, ?rt_set_csm in *; rewrite ?upd_length, ?app_length in *; auto.
  all: try (intros; discriminate).
  all: try (match goal with |- context[match actr ?x with _ => _ end] => destruct (actr x) end).
  all: try (intros k0 g0 Hk0; nu; fin T R; fail).
  all: try (intros g0; nu; fin T R; fail).
  all: try (match goal with |- context[match amu ?x with _ => _ end] => destruct (amu x) as [[|g1]|] eqn:AM; auto;
              try (cbn in A; congruence);
              try (match goal with H : rt _ = _ |- _ => rewrite H in A end; cbn in A; discriminate);
              try (destruct A as [A1 A2]; split; [rewrite ?app_length; lia|]; nu; fin T R; rewrite ?nth_app_old by lia; auto) end; fail).
  all: try (intros k0 g0 Hk0; destruct (Nat.eq_dec k0 (length (cl s))); [subst; rewrite nth_app_last; intros HH; discriminate HH | rewrite nth_app_old by (cbn in Hk0; lia); intros HH; eapply T; [|exact HH]; cbn in Hk0; lia]; fail).
  all: try (intros k0 g0 Hk0; nu; fin T R; rewrite nth_overflow by lia; reflexivity).
  all: try (intros g0; nu; fin T R; rewrite nth_overflow by lia; reflexivity).
  all: try (intros k0 g0 Hk0 HH; assert (g0 < length (trs s)) by (apply (j_cg k0 g0 Hk0); unfold getC; rewrite HH; cbn; apply Nat.eqb_refl); rewrite nth_app_old by lia; eauto; fail).
  all: try (split; [lia|]; rewrite nth_upd_same by lia; reflexivity).
Qed.

(* a Close call which has crashed has crashed the process *)
Definition NoCr (s : st) : Prop := forall k, getC s k <> CCrash.
Lemma nocr_init : NoCr init.
Proof. intros [|k]; cbn; discriminate. Qed.
Lemma nocr_step s l s' : NoCr s -> step good s l = Some s' -> crashed s' = false -> NoCr s'.
Proof.
  intros N H NC.
  destruct l; pre3 H; pubif; try (cbn in NC; discriminate NC).
  all: repeat match goal with |- context[match ?x with _ => _ end] => is_var x; destruct x end.
  all: try match goal with |- context[match lrcur ?x with _ => _ end] => destruct (lrcur x) end.
  all: intros k0; specialize (N k0); unfold NoCr in *; rdc; rewrite ?cl_set_csm in *; auto.
  all: try (match goal with |- context[match actr ?x with _ => _ end] => destruct (actr x) end).
  all: try (nu; try discriminate; auto; fail).
  destruct (lt_dec k0 (length (cl s))); [rewrite nth_app_old by lia; auto|].
  destruct (Nat.eq_dec k0 (length (cl s))); [subst; rewrite nth_app_last; discriminate|].
  rewrite nth_overflow; [discriminate|]. rewrite app_length; cbn; lia.
Qed.


(* ---- the helper: the next step of whatever the Close call k is waiting for ---- *)
Fixpoint find_idx {A} (p : A -> bool) (l : list A) : option nat :=
  match l with [] => None | x :: r => if p x then Some 0 else option_map S (find_idx p r) end.
Lemma find_idx_some {A} (p : A -> bool) l d i : find_idx p l = Some i -> i < length l /\ p (nth i l d) = true.
Proof.
  revert i; induction l as [|x r IH]; cbn; intros i H; [discriminate|].
  destruct (p x) eqn:E; [injection H as <-; split; [lia|auto]|].
  destruct (find_idx p r) as [j|]; [|discriminate]. injection H as <-. destruct (IH j eq_refl). split; [lia|auto].
Qed.
Lemma find_idx_none {A} (p : A -> bool) l : find_idx p l = None -> forallb (fun x => negb (p x)) l = true.
Proof.
  induction l as [|x r IH]; cbn; auto. destruct (p x); [discriminate|]. destruct (find_idx p r); [discriminate|]. auto.
Qed.

Definition unlock (s : st) : lab := match amu s with Some (HWp g) => LWpRel g false | _ => LRt false end.
Definition drive (s : st) (g : nat) (dflt : lab) : lab :=
  match wp (getT s g) with
  | WPSel => LWpCconn g false
  | WPClosing => LWpClosed g
  | WPAfter => if free s then LWpLock g else unlock s
  | WPHold => LWpRel g false
  | WPExit => match rp (getT s g) with RPExit => dflt | _ => LRp g end
  end.
Definition drive_rt (s : st) : lab :=
  match rt s with
  | RTop | RFailed | RGot _ => if free s then LRt false else unlock s
  | RHoldTop | RHoldGot _ | RHoldFail => LRt false
  | RDialing _ => LDial false
  | RBackoff | RWait _ => LRtCtx
  | RClosing g => drive s g (LRt false)
  | RExit => LTimer
  end.
Definition hr_sel (t : tr) : bool := match hr t with HRSel => true | _ => false end.
Definition drive_wg (s : st) (dflt : lab) : lab :=
  match lc s with
  | LCUpd _ => LLc
  | LCSel => LLcExit
  | LCExit =>
    match lr s with
    | LR0 | LR1 | LR3 _ => LLr
    | LR4 => LLrExit
    | LRExit =>
      match find_idx hr_sel (trs s) with
      | Some g => LHr g
      | None =>
        match find_idx in_wg (gs s) with
        | Some i => match getG s i with GWrite _ _ => LG i GAClosed | _ => LG i GA end
        | None => dflt
        end
      end
    end
  end.
Definition helper (s : st) (k : nat) : lab :=
  match getC s k with
  | T1 => if free s then LClose k false else unlock s
  | T3 g => drive s g (LClose k false)
  | T4 => match rt s with RExit => LClose k false | _ => drive_rt s end
  | T6 => drive_wg s (LClose k false)
  | _ => LClose k false
  end.

(* ---- the rank ---- *)
Definition d_c (p : clc) : nat := match p with C0 => 9 | C1 => 8 | T1 => 7 | T2 _ => 6 | T3 _ => 5 | T4 => 4 | T5 => 3 | T6 => 2 | _ => 0 end.
Definition d_rt (r : rtc) : nat :=
  match r with RExit => 0 | RTop | RFailed | RBackoff | RWait _ | RClosing _ => 1 | RDialing _ | RGot _ | RHoldGot _ | RHoldFail => 2 | RHoldTop => 3 end.
Definition d_wp (p : wpc) : nat := match p with WPSel => 4 | WPClosing => 3 | WPAfter => 2 | WPHold => 1 | WPExit => 0 end.
Definition d_rp (p : rpc) : nat := match p with RPExit => 0 | _ => 1 end.
Definition d_hr (p : hrc) : nat := match p with HRSel => 1 | _ => 0 end.
Definition d_tr (t : tr) : nat := d_wp (wp t) + d_rp (rp t) + d_hr (hr t).
Arguments d_tr : simpl never.
Definition d_lc (p : lcc) : nat := match p with LCUpd _ => 2 | LCSel => 1 | LCExit => 0 end.
Definition d_lr (p : lrc) : nat := match p with LR0 => 5 | LR1 => 4 | LR3 (Some _) => 3 | LR3 None => 2 | LR4 => 1 | LRExit => 0 end.
Definition d_g (p : gpc) : nat := match p with GGet | GResp | GWrite true _ => 1 | _ => 0 end.
Definition sum (l : list nat) : nat := fold_right Nat.add 0 l.
Arguments sum : simpl never.
Definition rk (s : st) : nat := d_rt (rt s) + sum (map d_tr (trs s)) + d_lc (lc s) + d_lr (lr s) + sum (map d_g (gs s)).
Definition rank (s : st) (k : nat) : nat := d_c (getC s k) + rk s.

Lemma sum_upd {A} (f : A -> nat) l n g d : n < length l ->
  sum (map f (upd l n g)) + f (nth n l d) = sum (map f l) + f (g (nth n l d)).
Proof.
  unfold sum. revert n; induction l as [|x r IH]; intros [|n] H; cbn in *; try lia.
  specialize (IH n ltac:(lia)). lia.
Qed.
Lemma sum_app l1 l2 : sum (l1 ++ l2) = sum l1 + sum l2.
Proof. unfold sum. induction l1; cbn; auto. lia. Qed.

Definition no_body (s : st) : Prop := forall i, getG s i <> GBody.

(* what a step of the helper leaves alone *)
Definition quiet (s s' : st) : Prop := cl s' = cl s /\ no_body s' /\ rk s' < rk s.

Lemma pub_false s v : ctxd s = true -> exists s', pub s v false = Some s' /\ (s' = s \/ s' = s <| acst := v |>).
Proof. intros C. unfold pub. destruct (cstate_eqb _ _); [eauto|]. rewrite C. eauto. Qed.

Lemma rk_tr s g f : g < length (trs s) -> rk (setT s g f) + d_tr (getT s g) = rk s + d_tr (f (getT s g)).
Proof.
  intros H. unfold rk, setT, getT. cbn.
  pose proof (sum_upd d_tr (trs s) g f (mkTr RPExit WPExit HRExit true true true true true true) H). unfold sum in *. lia.
Qed.

Lemma unlock_progress s : Inv s -> Inv2 s -> no_body s -> ctxd s = true -> free s = false ->
  exists s', step good s (unlock s) = Some s' /\ quiet s s'.
Proof.
  intros I I2 NB C F. pose proof (i_nc _ I) as NC. destruct I2 as [A _ _]. unfold amu_ok, free, unlock in *.
  destruct (amu s) as [[|g]|] eqn:AM; [| |discriminate].
  - unfold step. rewrite NC. cbv iota beta.
    destruct (rt s) eqn:RT; try discriminate A.
    + match goal with |- context[pub ?x ?v false] => destruct (pub_false x v C) as (s1 & -> & [->| ->]) end; eexists; split; eauto; unfold quiet, rk, no_body, getG; cbn; rewrite RT; cbn; repeat split; auto; lia.
    + match goal with |- context[pub ?x ?v false] => destruct (pub_false x v C) as (s1 & -> & [->| ->]) end; eexists; split; eauto; unfold quiet, rk, no_body, getG; cbn; rewrite RT; cbn; repeat split; auto; lia.
    + match goal with |- context[pub ?x ?v false] => destruct (pub_false x v C) as (s1 & -> & [->| ->]) end; eexists; split; eauto; unfold quiet, rk, no_body, getG; cbn; rewrite RT; cbn; repeat split; auto; lia.
  - destruct A as [Hg Hw]. unfold step. rewrite NC. cbv iota beta. apply Nat.ltb_lt in Hg as Hg'. rewrite Hg'. cbn [negb]. cbv iota beta. rewrite Hw.
    assert (exists s1, (if cstate_eqb (acst s) Ready then pub s Idle false else Some s) = Some s1 /\ (s1 = s \/ s1 = s <| acst := Idle |>)) as (s1 & -> & E).
    { destruct (cstate_eqb _ _); [apply pub_false; auto|eauto]. }
    eexists; split; eauto.
    assert (trs s1 = trs s /\ rk s1 = rk s /\ cl s1 = cl s /\ gs s1 = gs s /\ getT s1 g = getT s g) as (E1 & E2 & E3 & E4 & E5) by (destruct E as [->| ->]; auto).
    unfold quiet. repeat split.
    + cbn. auto.
    + unfold no_body, getG in *. cbn. rewrite E4. auto.
    + assert (g < length (trs s1)) as Hg1 by (rewrite E1; auto).
      pose proof (rk_tr s1 g (fun t => t <| wp := WPExit |> <| fired := true |>) Hg1) as P.
      rewrite E5 in P. unfold d_tr in P. cbn in P. rewrite Hw in P. cbn in P.
      change (rk (setT s1 g (fun t => t <| wp := WPExit |> <| fired := true |>) <| amu := None |>)) with (rk (setT s1 g (fun t => t <| wp := WPExit |> <| fired := true |>))). lia.
Qed.

Ltac rk_setT Hg :=
  match goal with |- rk ?X < rk ?s =>
    match X with context[setT ?s1 ?g1 ?F] =>
      pose proof (rk_tr s1 g1 F Hg) as P; change (rk X) with (rk (setT s1 g1 F)); set (RR := rk (setT s1 g1 F)) in *; clearbody RR end end.
Ltac fin_setT Hg NB := eexists; split; [reflexivity|]; unfold quiet; split; [reflexivity|]; split; [exact NB|]; rk_setT Hg.

Lemma drive_progress s g dflt : Inv s -> Inv2 s -> no_body s -> ctxd s = true -> g < length (trs s) ->
  cconn (getT s g) = true -> pumps_gone s g = false ->
  exists s', step good s (drive s g dflt) = Some s' /\ quiet s s'.
Proof.
  intros I I2 NB C Hg CC PG. pose proof (i_nc _ I) as NC. pose proof (i_tr _ I g Hg) as [TL _ _ _].
  apply Nat.ltb_lt in Hg as Hg'. unfold drive, pumps_gone in *.
  destruct (wp (getT s g)) eqn:Hw.
  - unfold step. rewrite NC, Hg'. cbn [negb]. cbv zeta. rewrite Hw, CC.
    fin_setT Hg NB. unfold d_tr, wp_leave in P. cbn in P. rewrite Hw in P. cbn in P. lia.
  - unfold step. rewrite NC, Hg'. cbn [negb]. rewrite Hw.
    fin_setT Hg NB. unfold d_tr, wp_leave in P. cbn in P. rewrite Hw in P. cbn in P. lia.
  - destruct (free s) eqn:F.
    + unfold step. rewrite NC, Hg'. cbn [negb]. rewrite Hw, F.
      fin_setT Hg NB. unfold d_tr in P. cbn in P. rewrite Hw in P. cbn in P. lia.
    + apply unlock_progress; auto.
  - pose proof (i_lockw _ I g Hg Hw) as AM.
    replace (LWpRel g false) with (unlock s) by (unfold unlock; rewrite AM; reflexivity).
    apply unlock_progress; auto. unfold free. rewrite AM. reflexivity.
  - destruct (rp (getT s g)) eqn:Hr; [| |discriminate PG].
    + destruct TL as [_ SK]; [unfold wp_left; rewrite Hw; reflexivity|].
      unfold step. rewrite NC, Hg'. cbn [negb]. cbv zeta. rewrite Hr, SK.
      fin_setT Hg NB. unfold d_tr in P. cbn in P. rewrite Hr in P. cbn in P. lia.
    + unfold step. rewrite NC, Hg'. cbn [negb]. cbv zeta. rewrite Hr, CC. cbn [rp_cconn good andb orb].
      fin_setT Hg NB. unfold d_tr in P. cbn in P. rewrite Hr in P. cbn in P. lia.
Qed.

Lemma rk_rt s r : rk (s <| rt := r |>) + d_rt (rt s) = rk s + d_rt r.
Proof. unfold rk. cbn. lia. Qed.
Ltac fin_rt NB RT := eexists; split; [reflexivity|]; unfold quiet; split; [reflexivity|]; split; [exact NB|];
  match goal with |- rk (?s <| rt := ?r |>) < _ => pose proof (rk_rt s r) as P; set (RR := rk (s <| rt := r |>)) in *; clearbody RR; rewrite RT in P; cbn in P; lia end.

Lemma pumps_gone_true s g : pumps_gone s g = true -> wp (getT s g) = WPExit /\ rp (getT s g) = RPExit.
Proof. unfold pumps_gone. destruct (rp _), (wp _); try discriminate; auto. Qed.

Lemma drive_rt_progress s : Inv s -> Inv2 s -> no_body s -> ctxd s = true -> acst s = Shutdown -> rt s <> RExit ->
  exists s', step good s (drive_rt s) = Some s' /\ quiet s s'.
Proof.
  intros I I2 NB C SH NE. pose proof (i_nc _ I) as NC. unfold drive_rt.
  destruct (rt s) eqn:RT; try congruence.
  - destruct (free s) eqn:F; [|apply unlock_progress; auto].
    unfold step. rewrite NC, RT, F, SH. cbn [negb cstate_eqb]. fin_rt NB RT.
  - destruct (i_lock _ I) as [_ X]; [rewrite RT; reflexivity|congruence].
  - unfold step. rewrite NC, RT. fin_rt NB RT.
  - destruct (free s) eqn:F; [|apply unlock_progress; auto].
    assert (g < length (trs s)) as Hg by (apply (i_rtg _ I); rewrite RT; cbn; apply Nat.eqb_refl).
    assert (cconn (getT s g) = false) as CC.
    { destruct (cconn (getT s g)) eqn:E; auto. destruct (i_tr _ I g Hg) as [_ _ _ X]. destruct (X E) as (_ & Y & _).
      rewrite RT in Y. cbn in Y. rewrite Nat.eqb_refl in Y. discriminate. }
    unfold step. rewrite NC, RT, F, SH, CC. cbn [negb cstate_eqb].
    eexists; split; [reflexivity|]; unfold quiet; split; [reflexivity|]; split; [exact NB|].
    match goal with |- rk (?s1 <| rt := ?r |>) < _ => pose proof (rk_rt s1 r) as P; set (RR0 := rk (s1 <| rt := r |>)) in *; clearbody RR0 end.
    match type of P with context[setT ?s1 ?g1 ?F] => pose proof (rk_tr s1 g1 F Hg) as Q; set (RR := rk (setT s1 g1 F)) in *; clearbody RR end.
    unfold d_tr in Q. cbn in Q, P. rewrite RT in P. cbn in P. lia.
  - destruct (i_lock _ I) as [_ X]; [rewrite RT; reflexivity|congruence].
  - destruct (free s) eqn:F; [|apply unlock_progress; auto].
    unfold step. rewrite NC, RT, F, SH. cbn [negb cstate_eqb]. fin_rt NB RT.
  - destruct (i_lock _ I) as [_ X]; [rewrite RT; reflexivity|congruence].
  - unfold step. rewrite NC, RT, C. fin_rt NB RT.
  - unfold step. rewrite NC, RT, C. fin_rt NB RT.
  - assert (g < length (trs s)) as Hg by (apply (i_rtg _ I); rewrite RT; cbn; apply Nat.eqb_refl).
    destruct (pumps_gone s g) eqn:PG.
    + destruct (pumps_gone_true _ _ PG) as [Hw Hr]. unfold drive. rewrite Hw, Hr.
      unfold step. rewrite NC, RT, PG. fin_rt NB RT.
    + apply drive_progress; auto. apply (j2_rc _ I2); auto.
Qed.

Lemma sum_upd_le {A} (f : A -> nat) l n g c : (forall x, f (g x) <= f x + c) -> sum (map f (upd l n g)) <= sum (map f l) + c.
Proof.
  intros H. unfold sum. revert n; induction l as [|x r IH]; intros [|n]; cbn; try lia.
  - specialize (H x). lia.
  - specialize (IH n). lia.
Qed.
Lemma rk_tr_le s g f c : (forall t, d_tr (f t) <= d_tr t + c) -> rk (setT s g f) <= rk s + c.
Proof. intros H. unfold rk, setT. cbn. pose proof (sum_upd_le d_tr (trs s) g f c H). lia. Qed.
Lemma rk_lr s r : rk (s <| lr := r |>) + d_lr (lr s) = rk s + d_lr r.
Proof. unfold rk. cbn. lia. Qed.
Lemma rk_lc s r : rk (s <| lc := r |>) + d_lc (lc s) = rk s + d_lc r.
Proof. unfold rk. cbn. lia. Qed.
Lemma rk_g s i p : i < length (gs s) -> rk (setG s i p) + d_g (getG s i) = rk s + d_g p.
Proof.
  intros H. unfold rk, setG, getG. cbn.
  pose proof (sum_upd d_g (gs s) i (fun _ => p) (GDone true) H). unfold sum in *. lia.
Qed.
Lemma no_body_setG s i p : no_body s -> p <> GBody -> no_body (setG s i p).
Proof.
  intros NB H j. rewrite getG_setG. destruct (_ && _); auto.
Qed.
Lemma set_csm_cases s v : set_csm good s v = s \/ set_csm good s v = s <| csm := v |> <| nch := true |>.
Proof. unfold set_csm. destruct (cstate_eqb _ _); auto. destruct (_ && _); auto. Qed.
Lemma forallb_ext' {A} (p q : A -> bool) l : (forall x, p x = q x) -> forallb p l = forallb q l.
Proof. intros H. induction l; cbn; auto. rewrite H, IHl. auto. Qed.

Lemma drive_wg_progress s dflt : Inv s -> Inv2 s -> no_body s -> ctxd s = true -> addr s = false ->
  (forall g, wdn (getT s g) = true) -> wg_clear s = false ->
  exists s', step good s (drive_wg s dflt) = Some s' /\ quiet s s'.
Proof.
  intros I I2 NB C AD WD WG. pose proof (i_nc _ I) as NC. unfold drive_wg.
  destruct (lc s) eqn:LC.
  - (* LCSel *) unfold step. rewrite NC, LC, C. eexists; split; [reflexivity|]. unfold quiet; split; [reflexivity|]; split; [exact NB|].
    pose proof (rk_lc s LCExit) as P. set (RR := rk (s <| lc := LCExit |>)) in *. clearbody RR. rewrite LC in P. cbn in P. lia.
  - (* LCUpd *) unfold step. rewrite NC, LC. eexists; split; [reflexivity|].
    destruct (set_csm_cases s v) as [-> | ->]; (unfold quiet; split; [reflexivity|]; split; [exact NB|]).
    + pose proof (rk_lc s LCSel) as P. set (RR := rk (s <| lc := LCSel |>)) in *. clearbody RR. rewrite LC in P. cbn in P. lia.
    + pose proof (rk_lc s LCSel) as P. change (rk (s <| csm := v |> <| nch := true |> <| lc := LCSel |>)) with (rk (s <| lc := LCSel |>)).
      set (RR := rk (s <| lc := LCSel |>)) in *. clearbody RR. rewrite LC in P. cbn in P. lia.
  - (* LCExit *) destruct (lr s) eqn:LR.
    + (* LR0 *) unfold step. rewrite NC, LR. eexists; split; [reflexivity|]. unfold quiet; split; [reflexivity|]; split; [exact NB|].
      pose proof (rk_lr s LR1) as P. change (rk (s <| nch := false |> <| lr := LR1 |>)) with (rk (s <| lr := LR1 |>)).
      set (RR := rk (s <| lr := LR1 |>)) in *. clearbody RR. rewrite LR in P. cbn in P. lia.
    + (* LR1 *) unfold step. rewrite NC, LR, AD.
      assert ((if cstate_eqb (csm s) Ready then Some (s <| lr := LR3 None |>) else Some (s <| lr := LR3 None |>)) = Some (s <| lr := LR3 None |>)) as -> by (destruct (cstate_eqb _ _); auto).
      eexists; split; [reflexivity|]. unfold quiet; split; [reflexivity|]; split; [exact NB|].
      pose proof (rk_lr s (LR3 None)) as P. set (RR := rk (s <| lr := LR3 None |>)) in *. clearbody RR. rewrite LR in P. cbn in P. lia.
    + (* LR3 *) unfold step. rewrite NC, LR. cbv zeta.
      match goal with |- context[if ?c then _ else _] => destruct c end.
      * eexists; split; [reflexivity|]. unfold quiet; split; [reflexivity|]; split; [exact NB|].
        pose proof (rk_lr s LR4) as P. set (RR := rk (s <| lr := LR4 |>)) in *. clearbody RR. rewrite LR in P. destruct t; cbn in P; lia.
      * eexists; split; [reflexivity|].
        set (s1 := match lrcur s with Some o => setT s o (fun t0 => t0 <| hdone := true |>) | None => s end).
        assert (cl s1 = cl s /\ gs s1 = gs s /\ lr s1 = lr s /\ rk s1 <= rk s) as (E1 & E2 & E3 & E4).
        { subst s1. destruct (lrcur s); [|auto]. repeat split; auto.
          pose proof (rk_tr_le s n (fun t0 => t0 <| hdone := true |>) 0) as Q. rewrite Nat.add_0_r in Q. apply Q. intros; unfold d_tr; cbn; lia. }
        set (s2 := match t with Some g => setT s1 g (fun t0 => t0 <| hr := HRSel |> <| hdone := false |>) | None => s1 end).
        assert (cl s2 = cl s /\ gs s2 = gs s /\ lr s2 = lr s /\ rk s2 + d_lr LR4 < rk s + d_lr (LR3 t)) as (F1 & F2 & F3 & F4).
        { subst s2. destruct t as [g|]; [|cbn; repeat split; auto; lia]. repeat split; auto.
          pose proof (rk_tr_le s1 g (fun t0 => t0 <| hr := HRSel |> <| hdone := false |>) 1) as Q. cbn.
          assert (rk (setT s1 g (fun t0 => t0 <| hr := HRSel |> <| hdone := false |>)) <= rk s1 + 1); [|lia].
          apply Q. intros t0; unfold d_tr; cbn. destruct (hr t0); cbn; lia. }
        clearbody s2. unfold quiet. split; [exact F1|]. split; [unfold no_body, getG in *; cbn; rewrite F2; exact NB|].
        pose proof (rk_lr s2 LR4) as P. change (rk (s2 <| lrcur := t |> <| lr := LR4 |>)) with (rk (s2 <| lr := LR4 |>)).
        set (RR := rk (s2 <| lr := LR4 |>)) in *. clearbody RR. rewrite F3, LR in P. lia.
    + (* LR4 *) unfold step. rewrite NC, LR, C. eexists; split; [reflexivity|]. unfold quiet; split; [reflexivity|]; split; [exact NB|].
      pose proof (rk_lr s LRExit) as P. set (RR := rk (s <| lr := LRExit |>)) in *. clearbody RR. rewrite LR in P. cbn in P. lia.
    + (* LRExit *)
      destruct (find_idx hr_sel (trs s)) as [g|] eqn:FH.
      { destruct (find_idx_some _ _ (mkTr RPExit WPExit HRExit true true true true true true) _ FH) as [Hg HS].
        change (nth g (trs s) _) with (getT s g) in HS. unfold hr_sel in HS.
        destruct (hr (getT s g)) eqn:HR; try discriminate HS.
        apply Nat.ltb_lt in Hg as Hg'. unfold step. rewrite NC, Hg'. cbn [negb]. cbv zeta. rewrite HR, C, orb_true_r.
        fin_setT Hg NB. unfold d_tr in P. cbn in P. rewrite HR in P. cbn in P. lia. }
      destruct (find_idx in_wg (gs s)) as [i|] eqn:FG.
      { destruct (find_idx_some _ _ (GDone true) _ FG) as [Hi HS].
        change (nth i (gs s) _) with (getG s i) in HS. apply Nat.ltb_lt in Hi as Hi'.
        destruct (getG s i) as [| | | | | |w g| | |] eqn:G; try discriminate HS.
        - destruct (NB i G).
        - unfold step. rewrite NC, Hi'. cbn [negb]. rewrite G, AD. cbn [handler_nil good].
          eexists; split; [reflexivity|]. unfold quiet; split; [reflexivity|]; split; [apply no_body_setG; auto; discriminate|].
          pose proof (rk_g s i (GDone true) Hi) as P. rewrite G in P. cbn in P. lia.
        - unfold step. rewrite NC, Hi'. cbn [negb]. rewrite G.
          eexists; split; [reflexivity|]. unfold quiet; split; [reflexivity|]; split; [apply no_body_setG; auto; discriminate|].
          pose proof (rk_g s i (GDone false) Hi) as P. rewrite G in P. cbn in P. lia.
        - destruct w; [|discriminate HS].
          unfold step. rewrite NC, Hi'. cbn [negb]. rewrite G. cbv zeta. rewrite WD. cbn [wr_wdone good andb]. rewrite orb_true_r.
          eexists; split; [reflexivity|]. unfold quiet; split; [reflexivity|]; split; [apply no_body_setG; auto; discriminate|].
          pose proof (rk_g s i (GDone true) Hi) as P. rewrite G in P. cbn in P. lia. }
      exfalso. apply find_idx_none in FH, FG. unfold wg_clear in WG. rewrite LC, LR, FG in WG.
      rewrite (forallb_ext' _ (fun x => negb (hr_sel x))) in WG; [rewrite FH in WG; discriminate|].
      intros x. unfold hr_sel. destruct (hr x); reflexivity.
Qed.

Lemma find_idx_none' {A} (p : A -> bool) l : forallb (fun x => negb (p x)) l = true -> find_idx p l = None.
Proof.
  induction l as [|x r IH]; cbn; auto. destruct (p x); cbn; [discriminate|]. intros H. rewrite IH; auto.
Qed.
Lemma drive_wg_clear s dflt : wg_clear s = true -> drive_wg s dflt = dflt.
Proof.
  unfold wg_clear, drive_wg. rewrite !andb_true_iff. intros [[[A B] C] D].
  destruct (lc s); try discriminate. destruct (lr s); try discriminate.
  rewrite find_idx_none'.
  - rewrite find_idx_none'; auto.
  - rewrite <- C. apply forallb_ext'. intros x. unfold hr_sel. destruct (hr x); reflexivity.
Qed.

Lemma rank_setC s k p : k < length (cl s) -> rank (setC s k p) k = d_c p + rk s.
Proof. intros H. unfold rank. rewrite getC_setC, Nat.eqb_refl. apply Nat.ltb_lt in H. rewrite H. reflexivity. Qed.

Lemma quiet_rank s s' k : quiet s s' -> no_body s' /\ length (cl s') = length (cl s) /\ rank s' k < rank s k.
Proof. intros (A & B & C). unfold rank, getC. rewrite A. repeat split; auto. lia. Qed.

Definition prog (s : st) (k : nat) (s' : st) : Prop := no_body s' /\ length (cl s') = length (cl s) /\ rank s' k < rank s k.

Lemma all_written s k : Inv s -> k < length (cl s) -> getC s k = T6 -> forall g, wdn (getT s g) = true.
Proof.
  intros I Hk E g. destruct (lt_dec g (length (trs s))) as [Hg|Hg]; [|unfold getT; rewrite nth_overflow by lia; reflexivity].
  destruct (i_tr _ I g Hg) as [TL _ [LV|WE] _].
  - exfalso. destruct LV as [LV|[LV|(k' & Hk' & LV)]].
    + destruct (i_t1 _ I k Hk) as [_ X]; [rewrite E; reflexivity|congruence].
    + rewrite (i_t4 _ I k Hk) in LV; [discriminate|rewrite E; reflexivity].
    + assert (k' = k) as ->.
      { apply (i_uniq _ I); auto; [|rewrite E; reflexivity]. destruct (getC s k'); try discriminate LV; reflexivity. }
      rewrite E in LV. discriminate.
  - apply TL. unfold wp_left. rewrite WE. reflexivity.
Qed.

Lemma helper_progress s k : Inv s -> Inv2 s -> NoCr s -> no_body s -> k < length (cl s) -> (forall b, getC s k <> CRet b) ->
  exists s', step good s (helper s k) = Some s' /\ prog s k s'.
Proof.
  intros I I2 NCr NB Hk NR. pose proof (i_nc _ I) as NC. apply Nat.ltb_lt in Hk as Hk'.
  assert (forall s1, cl s1 = cl s -> k < length (cl s1)) as HK1 by (intros s1 ->; auto).
  unfold helper. destruct (getC s k) eqn:E.
  - (* C0 *) unfold step. rewrite NC, Hk'. cbn [negb]. rewrite E. eexists; split; [reflexivity|]. unfold prog. split; [exact NB|]. split; [rewrite len_setC; reflexivity|].
    rewrite rank_setC by (apply HK1; reflexivity). unfold rank. rewrite E. change (rk (s <| ctxd := true |>)) with (rk s). cbn. lia.
  - (* C1 *) unfold step. rewrite NC, Hk'. cbn [negb]. rewrite E. destruct (addr s); cbn [close_again good].
    + eexists; split; [reflexivity|]. unfold prog. split; [exact NB|]. split; [rewrite len_setC; reflexivity|].
      rewrite rank_setC by (apply HK1; reflexivity). unfold rank. rewrite E. change (rk (s <| addr := false |>)) with (rk s). cbn. lia.
    + eexists; split; [reflexivity|]. unfold prog. split; [exact NB|]. split; [rewrite len_setC; reflexivity|].
      rewrite rank_setC by auto. unfold rank. rewrite E. cbn. lia.
  - (* T1 *) assert (ctxd s = true) as C by (apply (i_ctx _ I k Hk); rewrite E; discriminate).
    destruct (free s) eqn:F.
    + unfold step. rewrite NC, Hk'. cbn [negb]. rewrite E, F. cbn [negb].
      destruct (cstate_eqb (acst s) Shutdown).
      * eexists; split; [reflexivity|]. unfold prog. split; [exact NB|]. split; [rewrite len_setC; reflexivity|].
        rewrite rank_setC by auto. unfold rank. rewrite E. cbn. lia.
      * match goal with |- context[pub ?x ?v false] => destruct (pub_false x v C) as (s1 & -> & [->| ->]) end.
        -- eexists; split; [reflexivity|]. unfold prog. split; [exact NB|]. split; [rewrite len_setC; reflexivity|].
           rewrite rank_setC by (apply HK1; reflexivity). unfold rank. rewrite E. change (rk (s <| actr := None |>)) with (rk s). destruct (actr s); cbn; lia.
        -- eexists; split; [reflexivity|]. unfold prog. split; [exact NB|]. split; [rewrite len_setC; reflexivity|].
           rewrite rank_setC by (apply HK1; reflexivity). unfold rank. rewrite E. change (rk (s <| actr := None |> <| acst := Shutdown |>)) with (rk s). destruct (actr s); cbn; lia.
    + destruct (unlock_progress s I I2 NB C F) as (s' & ST & Q). exists s'. split; auto. apply quiet_rank; auto.
  - (* T2 *) assert (g < length (trs s)) as Hg by (apply (i_cg _ I k g Hk); rewrite E; cbn; apply Nat.eqb_refl).
    assert (cconn (getT s g) = false) as CC.
    { destruct (cconn (getT s g)) eqn:CC; auto. destruct (i_tr _ I g Hg) as [_ _ _ X]. destruct (X CC) as (_ & _ & Y & _). destruct (Y k Hk E). }
    unfold step. rewrite NC, Hk'. cbn [negb]. rewrite E, CC.
    eexists; split; [reflexivity|]. unfold prog. split; [exact NB|]. split; [rewrite len_setC; reflexivity|].
    rewrite rank_setC by (apply HK1; reflexivity). unfold rank. rewrite E.
    pose proof (rk_tr_le s g (fun t => t <| cconn := true |>) 0) as Q. cbn. rewrite Nat.add_0_r in Q.
    assert (rk (setT s g (fun t => t <| cconn := true |>)) <= rk s); [|lia]. apply Q. intros; unfold d_tr; cbn; lia.
  - (* T3 *) assert (g < length (trs s)) as Hg by (apply (i_cg _ I k g Hk); rewrite E; cbn; apply Nat.eqb_refl).
    assert (ctxd s = true) as C by (apply (i_ctx _ I k Hk); rewrite E; discriminate).
    destruct (pumps_gone s g) eqn:PG.
    + destruct (pumps_gone_true _ _ PG) as [Hw Hr]. unfold drive. rewrite Hw, Hr.
      unfold step. rewrite NC, Hk'. cbn [negb]. rewrite E, PG.
      eexists; split; [reflexivity|]. unfold prog. split; [exact NB|]. split; [rewrite len_setC; reflexivity|].
      rewrite rank_setC by auto. unfold rank. rewrite E. cbn. lia.
    + destruct (drive_progress s g (LClose k false) I I2 NB C Hg (j2_t3 _ I2 k g Hk E) PG) as (s' & ST & Q). exists s'. split; auto. apply quiet_rank; auto.
  - (* T4 *) assert (ctxd s = true) as C by (apply (i_ctx _ I k Hk); rewrite E; discriminate).
    destruct (i_t1 _ I k Hk) as [SH _]; [rewrite E; reflexivity|].
    destruct (rt s) eqn:RT.
    11: { unfold step. rewrite NC, Hk'. cbn [negb]. rewrite E, RT.
      eexists; split; [reflexivity|]. unfold prog. split; [exact NB|]. split; [rewrite len_setC; reflexivity|].
      rewrite rank_setC by auto. unfold rank. rewrite E. cbn. lia. }
    all: destruct (drive_rt_progress s I I2 NB C SH) as (s' & ST & Q); [rewrite RT; discriminate|]; exists s'; split; auto; apply quiet_rank; auto.
  - (* T5 *) unfold step. rewrite NC, Hk'. cbn [negb]. rewrite E.
    eexists; split; [reflexivity|]. unfold prog.
    destruct (set_csm_cases s Shutdown) as [-> | ->]; (split; [exact NB|]; split; [rewrite len_setC; reflexivity|]).
    + rewrite rank_setC by auto. unfold rank. rewrite E. cbn. lia.
    + rewrite rank_setC by (apply HK1; reflexivity). unfold rank. rewrite E. change (rk (s <| csm := Shutdown |> <| nch := true |>)) with (rk s). cbn. lia.
  - (* T6 *) assert (ctxd s = true) as C by (apply (i_ctx _ I k Hk); rewrite E; discriminate).
    destruct (wg_clear s) eqn:WG.
    + rewrite drive_wg_clear by auto. unfold step. rewrite NC, Hk'. cbn [negb]. rewrite E, WG.
      eexists; split; [reflexivity|]. unfold prog. split; [exact NB|]. split; [rewrite len_setC; reflexivity|].
      rewrite rank_setC by auto. unfold rank. rewrite E. cbn. lia.
    + assert (addr s = false) as AD.
      { destruct (addr s) eqn:AD; auto. pose proof (i_addr _ I AD k Hk) as X. rewrite E in X. discriminate. }
      destruct (drive_wg_progress s (LClose k false) I I2 NB C AD (all_written s k I Hk E) WG) as (s' & ST & Q). exists s'. split; auto. apply quiet_rank; auto.
  - destruct (NR tore); reflexivity.
  - destruct (NCr k E).
Qed.

(* ---- every reachable state satisfies the three invariants ---- *)
Record Inv3 (s : st) : Prop := mkInv3 { k_inv : Inv s; k_inv2 : Inv2 s; k_nocr : NoCr s }.
Lemma inv3_init : Inv3 init.
Proof. constructor; [apply inv_init|apply inv2_init|apply nocr_init]. Qed.
Lemma inv3_step s l s' : Inv3 s -> step good s l = Some s' -> Inv3 s'.
Proof.
  intros [A B C] H. pose proof (inv_step _ _ _ A H) as A'. pose proof (i_nc _ A') as NC.
  constructor; [exact A'|exact (inv2_step _ _ _ A B H NC)|exact (nocr_step _ _ _ C H NC)].
Qed.
Lemma inv3_exec ls : forall s, Inv3 s -> Inv3 (exec good s ls).
Proof.
  induction ls as [|l r IH]; intros s I; cbn; auto.
  destruct (step good s l) eqn:E; auto. apply IH. eapply inv3_step; eauto.
Qed.

(* the helper's schedule *)
Fixpoint help (n : nat) (s : st) (k : nat) : list lab :=
  match n with
  | 0 => []
  | S m => match getC s k with
           | CRet _ => []
           | _ => let l := helper s k in l :: match step good s l with Some s' => help m s' k | None => [] end
           end
  end.

Lemma help_returns n : forall s k, Inv3 s -> no_body s -> k < length (cl s) -> rank s k <= n ->
  exists s', run good s (help n s k) = Some s' /\ (exists b, getC s' k = CRet b) /\ length (help n s k) <= rank s k /\ no_body s'.
Proof.
  induction n as [|n IH]; intros s k I3 NB Hk R.
  - destruct I3 as [I I2 NCr]. destruct (getC s k) eqn:E.
    9: { exists s. cbn. split; auto. split; eauto. split; [lia|auto]. }
    all: exfalso; destruct (helper_progress s k I I2 NCr NB Hk) as (s' & _ & _ & _ & X); [intros b; rewrite E; discriminate|lia].
  - destruct (getC s k) eqn:E.
    9: { exists s. cbn. rewrite E. cbn. split; auto. split; eauto. split; [lia|auto]. }
    all: destruct I3 as [I I2 NCr]; destruct (helper_progress s k I I2 NCr NB Hk) as (s' & ST & NB' & L & X); [intros b; rewrite E; discriminate|].
    all: destruct (IH s' k) as (s'' & RUN & RET & LEN & NB''); [eapply inv3_step; eauto; constructor; auto|auto|lia|lia|].
    all: exists s''; cbn [help]; rewrite E; cbv zeta; rewrite ST; cbn [run]; rewrite ST; split; auto; split; auto; split; [cbn [length]; lia|auto].
Qed.

Lemma sum_le_len {A} (f : A -> nat) c l : (forall x, f x <= c) -> sum (map f l) <= c * length l.
Proof. intros H. unfold sum. induction l as [|x r IH]; cbn; [lia|]. specialize (H x). lia. Qed.
Lemma rank_bound s k : rank s k <= 19 + 6 * length (trs s) + length (gs s).
Proof.
  unfold rank, rk.
  pose proof (sum_le_len d_tr 6 (trs s)) as A. pose proof (sum_le_len d_g 1 (gs s)) as B.
  assert (d_c (getC s k) <= 9) by (destruct (getC s k); cbn; lia).
  assert (d_rt (rt s) <= 3) by (destruct (rt s); cbn; lia).
  assert (d_lc (lc s) <= 2) by (destruct (lc s); cbn; lia).
  assert (d_lr (lr s) <= 5) by (destruct (lr s) as [| |[|]| |]; cbn; lia).
  assert (sum (map d_tr (trs s)) <= 6 * length (trs s)) by (apply A; intros t; unfold d_tr; destruct (wp t), (rp t), (hr t); cbn; lia).
  assert (sum (map d_g (gs s)) <= 1 * length (gs s)) by (apply B; intros [| | | | | |[|]?| | |]; cbn; lia).
  lia.
Qed.

(* Close returns: from every reachable state in which no user handler is running, for every Close call,
   the schedule `help` - every label of which is enabled when its turn comes - ends with that call
   returned, and is no longer than 19 + 6 * (transports ever created) + (goroutines ever started). *)
Theorem close_returns ls0 k : let s := exec good init ls0 in
  k < length (cl s) -> no_body s ->
  exists ls s', run good s ls = Some s' /\ (exists b, getC s' k = CRet b) /\
                length ls <= 19 + 6 * length (trs s) + length (gs s).
Proof.
  intros s Hk NB. pose proof (inv3_exec ls0 init inv3_init) as I3. fold s in I3.
  destruct (help_returns (rank s k) s k I3 NB Hk (le_n _)) as (s' & RUN & RET & LEN & _).
  exists (help (rank s k) s k), s'. split; auto. split; auto. pose proof (rank_bound s k). lia.
Qed.


(* ---- what is left after Close ends by its own steps ---- *)
(* `final` lets a read pump be on its way out (its socket is closed, or it holds a message and closeConn / writeDone is closed).
   Every such read pump ends by its own next step, whatever else happens, and nothing else changes. *)
Definition rp_out (t : tr) : bool := match rp t with RPExit => true | _ => false end.
Definition gone_all (s : st) : Prop := crashed s = false /\ forall g, g < length (trs s) -> tr_gone (getT s g) = true.

Lemma step_rp_gone s g : gone_all s -> g < length (trs s) ->
  (rp (getT s g) = RPExit /\ step good s (LRp g) = None) \/
  (step good s (LRp g) = Some (setT s g (fun t => t <| rp := RPExit |> <| cwp := true |>))).
Proof.
  intros [NC G] Hg. specialize (G g Hg). unfold tr_gone in G. rewrite !andb_true_iff in G. destruct G as [[[_ SK] _] R].
  apply Nat.ltb_lt in Hg as Hg'. unfold step. rewrite NC, Hg'. cbn [negb]. cbv zeta.
  destruct (rp (getT s g)) eqn:E.
  - right. rewrite SK. reflexivity.
  - right. cbn [rp_cconn rp_wdone good andb]. rewrite orb_comm in R. rewrite R. reflexivity.
  - left. auto.
Qed.

Lemma gone_all_setT s g : gone_all s -> gone_all (setT s g (fun t => t <| rp := RPExit |> <| cwp := true |>)).
Proof.
  intros [NC G]. split; [exact NC|]. intros g' Hg'. rewrite len_setT in Hg'. rewrite getT_setT.
  destruct (_ && _); [|auto]. specialize (G g' Hg'). unfold tr_gone in *. cbn. rewrite !andb_true_iff in *. tauto.
Qed.

Lemma read_pumps_end_gen idx : forall s, gone_all s ->
  let s' := exec good s (map LRp idx) in
  gone_all s' /\ cl s' = cl s /\ length (trs s') = length (trs s) /\
  (forall g, rp_out (getT s g) = true -> rp_out (getT s' g) = true) /\
  (forall g, In g idx -> g < length (trs s) -> rp_out (getT s' g) = true) /\
  (forall g, wp (getT s' g) = wp (getT s g) /\ hr (getT s' g) = hr (getT s g) /\ sockc (getT s' g) = sockc (getT s g)).
Proof.
  induction idx as [|g r IH]; intros s G; cbn [map exec].
  - cbn. split; [exact G|]. repeat split; auto; intros g [].
  - destruct (lt_dec g (length (trs s))) as [Hg|Hg].
    + destruct (step_rp_gone s g G Hg) as [[E N]|S].
      * rewrite N. destruct (IH s G) as (A & CL & B & C & D & F). split; [exact A|]. repeat split; auto; try apply F.
        intros g' [<-|I] H'; auto. apply C. unfold rp_out. rewrite E. reflexivity.
      * rewrite S. set (s1 := setT s g _). destruct (IH s1 (gone_all_setT s g G)) as (A & CL & B & C & D & F).
        assert (L1 : length (trs s1) = length (trs s)) by apply len_setT.
        split; [exact A|]. split; [rewrite CL; reflexivity|]. repeat split; auto.
        -- lia.
        -- intros g' H'. apply C. subst s1. rewrite getT_setT. destruct (_ && _); auto.
        -- intros g' [<-|I] H'; [|apply D; auto; lia]. apply C. subst s1. rewrite getT_setT, Nat.eqb_refl. apply Nat.ltb_lt in Hg. rewrite Hg. reflexivity.
        -- destruct (F g0) as (F1 & _ & _). rewrite F1. subst s1. rewrite getT_setT. destruct (_ && _); reflexivity.
        -- destruct (F g0) as (_ & F1 & _). rewrite F1. subst s1. rewrite getT_setT. destruct (_ && _); reflexivity.
        -- destruct (F g0) as (_ & _ & F1). rewrite F1. subst s1. rewrite getT_setT. destruct (_ && _); reflexivity.
    + assert (step good s (LRp g) = None) as N.
      { destruct G as [NC _]. unfold step. rewrite NC. rewrite (proj2 (Nat.ltb_ge _ _)) by lia. reflexivity. }
      rewrite N. destruct (IH s G) as (A & CL & B & C & D & F). split; [exact A|]. repeat split; auto; try apply F.
      intros g' [<-|I] H'; [lia|auto].
Qed.

Lemma exec_app c s a b : exec c s (a ++ b) = exec c (exec c s a) b.
Proof. revert s; induction a as [|l r IH]; intros s; cbn; auto. destruct (step c s l); auto. Qed.

(* after a Close which tore the connection down has returned: the read pumps which are still on their way out end by their
   own next steps - a schedule of at most one step per transport - and then no goroutine of the connection is left at all *)
Theorem nothing_left_after_close ls : let s := exec good init ls in tore s = true ->
  let s' := exec good s (map LRp (seq 0 (length (trs s)))) in
  final s' = true /\ forallb rp_out (trs s') = true.
Proof.
  intros s T s'. pose proof (inv_exec ls init inv_init) as I. fold s in I.
  pose proof (inv_final s I T) as F.
  assert (gone_all s) as G.
  { split; [apply (i_nc _ I)|]. intros g Hg. unfold final in F. rewrite !andb_true_iff in F. destruct F as [[_ F] _].
    rewrite (forallb_nth _ _ (mkTr RPExit WPExit HRExit true true true true true true)) in F. apply F; auto. }
  destruct (read_pumps_end_gen (seq 0 (length (trs s))) s G) as (A & CL & B & C & D & E). fold s' in A, CL, B, C, D, E.
  split.
  - apply inv_final; [unfold s', s; rewrite <- exec_app; apply inv_exec; apply inv_init|].
    unfold tore in *. rewrite CL. exact T.
  - rewrite (forallb_nth _ _ (mkTr RPExit WPExit HRExit true true true true true true)). intros g Hg. apply D; [|lia].
    apply in_seq. lia.
Qed.


(* ---- pumps do not accumulate over reconnects ---- *)
Definition is_closing (p : clc) : bool := match p with T2 _ | T3 _ => true | _ => false end.
Definition g_of (p : clc) : list nat := match p with T2 g | T3 g => [g] | _ => [] end.
Definition rt_g (r : rtc) : list nat := match r with RGot g | RHoldGot g | RWait g | RClosing g => [g] | _ => [] end.
Definition live_list (s : st) : list nat :=
  (match actr s with Some g => [g] | None => [] end) ++ rt_g (rt s) ++
  (match find_idx is_closing (cl s) with Some k => g_of (getC s k) | None => [] end).

Lemma live_list_short s : length (live_list s) <= 3.
Proof.
  unfold live_list. rewrite !app_length.
  assert (length (match actr s with Some g => [g] | None => [] end) <= 1) by (destruct (actr s); cbn; lia).
  assert (length (rt_g (rt s)) <= 1) by (destruct (rt s); cbn; lia).
  assert (length (match find_idx is_closing (cl s) with Some k => g_of (getC s k) | None => [] end) <= 1)
    by (destruct (find_idx _ _); [destruct (getC s n)|]; cbn; lia).
  lia.
Qed.

Lemma live_in_list s g : Inv s -> Live s g -> In g (live_list s).
Proof.
  intros I [A|[R|(k & Hk & C)]]; unfold live_list.
  - rewrite A. cbn. auto.
  - apply in_or_app. right. apply in_or_app. left. destruct (rt s); cbn in *; try discriminate; apply Nat.eqb_eq in R; auto.
  - apply in_or_app. right. apply in_or_app. right.
    destruct (find_idx is_closing (cl s)) as [k0|] eqn:F.
    + destruct (find_idx_some _ _ (CRet false) _ F) as [Hk0 P]. fold (getC s k0) in P.
      assert (k0 = k) as ->.
      { apply (i_uniq _ I); auto; [destruct (getC s k0)|destruct (getC s k)]; try discriminate; reflexivity. }
      destruct (getC s k); cbn in *; try discriminate; apply Nat.eqb_eq in C; auto.
    + apply find_idx_none in F. rewrite (forallb_nth _ _ (CRet false)) in F. specialize (F k Hk). fold (getC s k) in F.
      destruct (getC s k); cbn in *; discriminate.
Qed.

(* at any moment of any schedule - any number of connection losses, failed dials, reconnects, Close calls - at most three
   transports have a write pump which has not ended (the current one, the one the reconnect loop has in its hands, the one a Close
   is closing), and the read pump of a transport whose write pump has ended is gone or ends by its own next step *)
Theorem pumps_do_not_accumulate ls : let s := exec good init ls in
  (exists l, length l <= 3 /\ forall g, g < length (trs s) -> wp (getT s g) <> WPExit -> In g l) /\
  (forall g, g < length (trs s) -> wp (getT s g) = WPExit -> rp (getT s g) <> RPExit -> exists s', step good s (LRp g) = Some s').
Proof.
  intros s. pose proof (inv_exec ls init inv_init) as I. fold s in I. split.
  - exists (live_list s). split; [apply live_list_short|]. intros g Hg W.
    destruct (i_tr _ I g Hg) as [_ _ [L|E] _]; [apply live_in_list; auto|contradiction].
  - intros g Hg W R. destruct (i_tr _ I g Hg) as [TL _ _ _]. destruct TL as [WD SK]; [unfold wp_left; rewrite W; reflexivity|].
    pose proof (i_nc _ I) as NC. apply Nat.ltb_lt in Hg as Hg'. unfold step. rewrite NC, Hg'. cbn [negb]. cbv zeta.
    destruct (rp (getT s g)) eqn:E; [| |contradiction].
    + rewrite SK. eauto.
    + cbn [rp_cconn rp_wdone good andb]. rewrite WD, orb_true_r. eauto.
Qed.
