From Coq Require Import List Bool NArith Arith Lia.
From WV Require Import Model.Auth Proofs.DispatchP.
Import ListNotations.

Lemma listed_In k allow : listed k allow = true <-> In k allow.
Proof. induction allow as [|v r IH]; cbn [listed In]; [split; [discriminate|tauto]|].
  rewrite orb_true_iff, IH, beqb_eq. split; intros [H|H]; auto. Qed.

Theorem verify_accept_iff allow raw :
  verify allow raw = Accept <-> exists k, raw = [Parsed Ed25519 k] /\ In k allow.
Proof. split.
  - destruct raw as [|[|[|] k] [|c r]]; cbn [verify]; try discriminate.
    destruct (listed k allow) eqn:L; [|discriminate]. intros _. exists k. split; [reflexivity|now apply listed_In].
  - intros (k & -> & I). cbn [verify]. apply listed_In in I. now rewrite I. Qed.

Theorem valid_keys_spec ks : valid_keys ks = true <-> Forall (fun k => length k = 32%nat) ks.
Proof. unfold valid_keys. rewrite forallb_forall, Forall_forall. split; intros H k I; specialize (H k I); now apply Nat.eqb_eq. Qed.

Theorem accepted_key_len allow raw : valid_keys allow = true -> verify allow raw = Accept ->
  exists k, raw = [Parsed Ed25519 k] /\ length k = 32%nat.
Proof. intros V A. apply verify_accept_iff in A as (k & E & I). exists k. split; [exact E|].
  apply valid_keys_spec in V. rewrite Forall_forall in V. now apply V. Qed.

(* nothing but the single listed Ed25519 certificate is accepted *)
Theorem refuse_cases allow :
  verify allow [] = Refuse /\ (forall c1 c2 r, verify allow (c1 :: c2 :: r) = Refuse) /\
  verify allow [Unparseable] = Refuse /\ (forall k, verify allow [Parsed OtherAlg k] = Refuse) /\
  (forall k, ~ In k allow -> verify allow [Parsed Ed25519 k] = Refuse).
Proof. repeat split; try reflexivity.
  - intros c1 c2 r. destruct c1 as [|[|] k]; reflexivity.
  - intros k N. cbn [verify]. destruct (listed k allow) eqn:L; [apply listed_In in L; contradiction|reflexivity]. Qed.
