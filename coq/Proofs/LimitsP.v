From Coq Require Import ZArith List Bool Lia.
From WV Require Import Model.Limits.
Import ListNotations.
Open Scope Z_scope.

Definition orelse (o : option Z) (x : Z) : Z := match o with Some v => v | None => x end.

Lemma last_rl_d_acc os : forall x, last_rl_d os (Some x) = Some (orelse (last_rl_d os None) x).
Proof. induction os as [|o os IH]; intros x; cbn [last_rl_d]; [reflexivity|]. destruct o; rewrite ?IH; auto. Qed.
Lemma last_wt_d_acc os : forall x, last_wt_d os (Some x) = Some (orelse (last_wt_d os None) x).
Proof. induction os as [|o os IH]; intros x; cbn [last_wt_d]; [reflexivity|]. destruct o; rewrite ?IH; auto. Qed.
Lemma last_rl_s_acc os : forall x, last_rl_s os (Some x) = Some (orelse (last_rl_s os None) x).
Proof. induction os as [|o os IH]; intros x; cbn [last_rl_s]; [reflexivity|]. destruct o; rewrite ?IH; auto. Qed.
Lemma last_wt_s_acc os : forall x, last_wt_s os (Some x) = Some (orelse (last_wt_s os None) x).
Proof. induction os as [|o os IH]; intros x; cbn [last_wt_s]; [reflexivity|]. destruct o; rewrite ?IH; auto. Qed.

Lemma fold_dial : forall os c,
  rl (fold_left apply_dial os c) = orelse (last_rl_d os None) (rl c) /\
  wt (fold_left apply_dial os c) = orelse (last_wt_d os None) (wt c).
Proof. induction os as [|o os IH]; intros c; cbn [fold_left last_rl_d last_wt_d]; [split; reflexivity|].
  destruct (IH (apply_dial c o)) as [A B]. rewrite A, B.
  destruct o; cbn [apply_dial rl wt]; rewrite ?last_rl_d_acc, ?last_wt_d_acc; split; reflexivity. Qed.
Lemma fold_srv : forall os c,
  rl (fold_left apply_srv os c) = orelse (last_rl_s os None) (rl c) /\
  wt (fold_left apply_srv os c) = orelse (last_wt_s os None) (wt c).
Proof. induction os as [|o os IH]; intros c; cbn [fold_left last_rl_s last_wt_s]; [split; reflexivity|].
  destruct (IH (apply_srv c o)) as [A B]. rewrite A, B.
  destruct o; cbn [apply_srv rl wt]; rewrite ?last_rl_s_acc, ?last_wt_s_acc; split; reflexivity. Qed.

Theorem client_read_limit K os : rl (client_eff K os) = or_default (last_rl_d os None) (tr_read_limit K).
Proof. unfold client_eff, effective, client_cfg. cbn [rl]. destruct (fold_dial os {| rl := 0; wt := 0 |}) as [A _].
  rewrite A. cbn [rl]. unfold or_default, orelse. destruct (last_rl_d os None); reflexivity. Qed.
Theorem client_write_timeout K os : wt (client_eff K os) = or_default (last_wt_d os None) (tr_write_timeout K).
Proof. unfold client_eff, effective, client_cfg. cbn [wt]. destruct (fold_dial os {| rl := 0; wt := 0 |}) as [_ B].
  rewrite B. cbn [wt]. unfold or_default, orelse. destruct (last_wt_d os None); reflexivity. Qed.

Theorem server_read_limit K os : srv_read_limit K <> 0 ->
  rl (server_eff K os) = or_default (last_rl_s os None) (srv_read_limit K).
Proof. intros NZ. unfold server_eff, effective, server_cfg, server_opts. cbn [rl].
  destruct (fold_srv os {| rl := srv_read_limit K; wt := srv_ws_timeout K |}) as [A _]. rewrite A. cbn [rl].
  unfold or_default, orelse. destruct (last_rl_s os None) as [v|].
  - destruct (v =? 0) eqn:E; [|rewrite E; reflexivity]. destruct (srv_read_limit K =? 0) eqn:E2; [apply Z.eqb_eq in E2; contradiction|reflexivity].
  - destruct (srv_read_limit K =? 0) eqn:E2; [apply Z.eqb_eq in E2; contradiction|]. now rewrite E2. Qed.
Theorem server_write_timeout K os : srv_ws_timeout K = tr_write_timeout K ->
  wt (server_eff K os) = or_default (last_wt_s os None) (srv_ws_timeout K).
Proof. intros EQ. unfold server_eff, effective, server_cfg, server_opts. cbn [wt].
  destruct (fold_srv os {| rl := srv_read_limit K; wt := srv_ws_timeout K |}) as [_ B]. rewrite B. cbn [wt].
  unfold or_default, orelse. destruct (last_wt_s os None) as [v|].
  - destruct (v =? 0); [symmetry; exact EQ|reflexivity].
  - destruct (srv_ws_timeout K =? 0) eqn:E; [symmetry; exact EQ|reflexivity]. Qed.

Lemma deliver_over limit size : 0 < limit -> limit < size -> deliver limit size = false.
Proof. unfold deliver. intros. destruct (Z.leb_spec limit 0); destruct (Z.leb_spec size limit); cbn; auto; lia. Qed.
Lemma deliver_upto limit size : size <= limit -> deliver limit size = true.
Proof. unfold deliver. intros. destruct (Z.leb_spec limit 0); destruct (Z.leb_spec size limit); cbn; auto; lia. Qed.

(* ---- independence: what the options of one kind set does not depend on the options of the other kinds ---- *)
Definition is_rl_d (o : dial_opt) : bool := match o with DReadLimit _ => true | _ => false end.
Definition is_wt_d (o : dial_opt) : bool := match o with DWriteTimeout _ => true | _ => false end.
Definition is_rl_s (o : srv_opt) : bool := match o with SReadLimit _ => true | _ => false end.
Definition is_wt_s (o : srv_opt) : bool := match o with SHTTPReadTimeout _ _ => true | _ => false end.
Lemma last_rl_d_filter os : forall acc, last_rl_d (filter is_rl_d os) acc = last_rl_d os acc.
Proof. induction os as [|[v|d|] r IH]; intros acc; cbn; auto. Qed.
Lemma last_wt_d_filter os : forall acc, last_wt_d (filter is_wt_d os) acc = last_wt_d os acc.
Proof. induction os as [|[v|d|] r IH]; intros acc; cbn; auto. Qed.
Lemma last_rl_s_filter os : forall acc, last_rl_s (filter is_rl_s os) acc = last_rl_s os acc.
Proof. induction os as [|[v|a b|] r IH]; intros acc; cbn; auto. Qed.
Lemma last_wt_s_filter os : forall acc, last_wt_s (filter is_wt_s os) acc = last_wt_s os acc.
Proof. induction os as [|[v|a b|] r IH]; intros acc; cbn; auto. Qed.
Theorem client_independent K os :
  rl (client_eff K os) = rl (client_eff K (filter is_rl_d os)) /\ wt (client_eff K os) = wt (client_eff K (filter is_wt_d os)).
Proof. rewrite !client_read_limit, !client_write_timeout, last_rl_d_filter, last_wt_d_filter. auto. Qed.
Theorem server_independent K os : srv_read_limit K <> 0 -> srv_ws_timeout K = tr_write_timeout K ->
  rl (server_eff K os) = rl (server_eff K (filter is_rl_s os)) /\ wt (server_eff K os) = wt (server_eff K (filter is_wt_s os)).
Proof. intros A B. rewrite !server_read_limit, !server_write_timeout, last_rl_s_filter, last_wt_s_filter; auto. Qed.
