From Coq Require Import ZArith List Bool Lia.
From WV Require Import Model.Backoff.
Import ListNotations.
Open Scope Z_scope.
Ltac Zify.zify_post_hook ::= Z.div_mod_to_equations.

Definition sane (c : bcfg) : Prop :=
  0 < base c /\ base c <= cap c /\ 0 < mden c /\ mden c <= mnum c /\ 0 <= jnum c /\ jnum c <= jden c /\ 0 < jden c.

Lemma documented_sane : sane documented. Proof. unfold sane, documented; cbn; lia. Qed.

Lemma next_interval_bounds c cur : sane c -> 0 < cur -> cur <= cap c ->
  cur <= next_interval c cur /\ next_interval c cur <= cap c.
Proof. intros (Hb & Hbc & Hd & Hm & _) H0 H1. unfold next_interval.
  destruct (Z.leb_spec (cap c * mden c) (cur * mnum c)) as [L|L]; [lia|].
  split.
  - apply Z.div_le_lower_bound; nia.
  - apply Z.lt_le_incl. apply Z.div_lt_upper_bound; lia. Qed.

Lemma interval_bounds c : sane c -> forall n, 0 < interval c n /\ interval c n <= cap c /\ interval c n <= interval c (S n).
Proof. intros S. induction n as [|n IH]; cbn [interval].
  - pose proof (next_interval_bounds c (base c) S) as B. destruct S as (Hb & Hbc & ?). specialize (B Hb Hbc). lia.
  - destruct IH as (P & L & M). cbn [interval] in M.
    pose proof (next_interval_bounds c (interval c n) S P L) as B0.
    pose proof (next_interval_bounds c (next_interval c (interval c n)) S ltac:(lia) ltac:(lia)) as B. lia. Qed.

Theorem interval_le_cap c n : sane c -> interval c n <= cap c.
Proof. intros S. apply (interval_bounds c S n). Qed.
Theorem interval_monotone c n : sane c -> interval c n <= interval c (S n).
Proof. intros S. apply (interval_bounds c S n). Qed.
Theorem interval_base c : interval c 0 = base c. Proof. reflexivity. Qed.

(* strict growth until the cap is reached *)
Theorem interval_grows c n : sane c -> interval c n < cap c -> mden c < mnum c ->
  mden c <= interval c n * (mnum c - mden c) -> interval c n < interval c (S n).
Proof. intros S L M G. cbn [interval]. unfold next_interval.
  destruct (Z.leb_spec (cap c * mden c) (interval c n * mnum c)); [lia|].
  destruct S as (_ & _ & Hd & _). apply Z.div_le_lower_bound with (a := interval c n * mnum c) (q := interval c n + 1) in Hd; nia. Qed.

(* the ceiling: no pause exceeds cap + jitter*cap + 1 ns *)
Theorem pause_ceiling c n p : sane c -> in_pause c (interval c n) p = true ->
  p <= (cap c * (jden c + jnum c)) / jden c + 1.
Proof. intros S H. unfold in_pause in H. apply andb_prop in H as [_ H]. apply Z.leb_le in H. unfold hi in H.
  pose proof (interval_le_cap c n S). destruct S as (_ & _ & _ & _ & J0 & _ & J1).
  assert ((interval c n * (jden c + jnum c)) / jden c <= (cap c * (jden c + jnum c)) / jden c) by (apply Z.div_le_mono; nia).
  lia. Qed.
Theorem pause_floor c n p : sane c -> in_pause c (interval c n) p = true -> 0 <= p.
Proof. intros S H. unfold in_pause in H. apply andb_prop in H as [H _]. apply Z.leb_le in H. unfold lo in H.
  pose proof (interval_bounds c S n) as (P & _). destruct S as (_ & _ & _ & _ & J0 & J2 & J1).
  assert (0 <= (interval c n * (jden c - jnum c)) / jden c) by (apply Z.div_pos; nia). lia. Qed.

Example documented_ceiling : (cap documented * (jden documented + jnum documented)) / jden documented + 1 = 144000000001.
Proof. reflexivity. Qed.

(* Reset: the next draw after a Reset uses interval 0, whatever happened before *)
Theorem reset_restarts n ops1 ops2 : run_ops n (ops1 ++ Reset :: Next :: ops2) =
  run_ops n ops1 ++ O :: run_ops 1 ops2.
Proof. revert n. induction ops1 as [|o r IH]; intros n; cbn [app run_ops]; [reflexivity|].
  destruct o; [now rewrite IH|apply IH]. Qed.

(* the loop: the k-th consecutive failure sleeps with interval k-1; a success restarts at 0 *)
Theorem loop_after_success n o1 o2 : loop_sleeps n (o1 ++ true :: o2) = loop_sleeps n o1 ++ loop_sleeps O o2.
Proof. revert n. induction o1 as [|o r IH]; intros n; cbn [app loop_sleeps]; [reflexivity|].
  destruct o; [apply IH|now rewrite IH]. Qed.
Theorem loop_failures n k : loop_sleeps n (repeat false k) = map (fun i => (n + i)%nat) (seq 0 k).
Proof. revert n. induction k as [|k IH]; intros n; cbn [repeat loop_sleeps seq map]; [reflexivity|].
  rewrite IH, <- seq_shift, map_map. f_equal; [lia|]. apply map_ext. intros; lia. Qed.
Theorem loop_one_sleep_per_failure n os : length (loop_sleeps n os) = length (filter negb os).
Proof. revert n. induction os as [|o r IH]; intros n; cbn [loop_sleeps filter length]; [reflexivity|].
  destruct o; cbn [negb length]; rewrite IH; reflexivity. Qed.
