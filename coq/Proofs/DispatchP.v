From Coq Require Import List Bool NArith Arith Lia.
From WV Require Import Model.Dispatch.
Import ListNotations.
Open Scope N_scope.

Lemma beqb_eq a : forall b, beqb a b = true <-> a = b.
Proof. induction a as [|x a IH]; destruct b as [|y b]; cbn [beqb]; try (split; congruence).
  rewrite andb_true_iff, N.eqb_eq, IH. split; [intros [-> ->]; reflexivity | intros H; inversion H; auto]. Qed.

Lemma mem_In x l : mem x l = true <-> In x l.
Proof. induction l as [|y l IH]; cbn [mem In]; [split; [discriminate|tauto]|].
  rewrite orb_true_iff, IH, beqb_eq. split; intros [H|H]; auto. Qed.

Lemma remove1_incl x l : incl (remove1 x l) l.
Proof. induction l as [|y l IH]; cbn [remove1]; [apply incl_refl|].
  destruct (beqb x y); [apply incl_tl, incl_refl|]. intros z [->|H]; [left; reflexivity|right; apply IH, H]. Qed.
Lemma remove1_length x l : (length (remove1 x l) <= length l)%nat.
Proof. induction l as [|y l IH]; cbn [remove1 length]; [lia|]. destruct (beqb x y); cbn [length]; lia. Qed.
Lemma remove1_mem_length x l : mem x l = true -> length l = S (length (remove1 x l)).
Proof. induction l as [|y l IH]; cbn [mem remove1 length]; [discriminate|].
  destruct (beqb x y); cbn [orb length]; [reflexivity|]. intros H. now rewrite (IH H). Qed.

(* ---- one frame ---- *)
Lemma process_run e f q : fst (process e f) = ERun q ->
  decode f = Good (MReq q) /\ accepts e q = true.
Proof. unfold process. destruct (decode f) as [[|r|p]| |]; cbn; try discriminate.
  - destruct (accepts e r) eqn:A; cbn; [|discriminate]. intros H; inversion H; subst; auto.
  - destruct (mem _ _); cbn; discriminate. Qed.

Lemma accepts_spec e q : accepts e q = true ->
  exists ms, e_svc e = Some ms /\ In (r_method q) ms /\ (e_role e = Srv -> is_v4 (r_callid q) = true).
Proof. unfold accepts. destruct (e_svc e) as [ms|]; [|discriminate]. rewrite andb_true_iff, mem_In.
  intros [H1 H2]. exists ms. repeat split; auto. intros R; now rewrite R in H2. Qed.

Lemma process_deliver e f p : fst (process e f) = EDeliver p ->
  decode f = Good (MResp p) /\ In (p_callid p) (e_pending e).
Proof. unfold process. destruct (decode f) as [[|r|q]| |]; cbn; try discriminate.
  - destruct (accepts e r); cbn; discriminate.
  - destruct (mem (p_callid q) (e_pending e)) eqn:M; cbn; [|discriminate]. intros H; inversion H; subst.
    split; [reflexivity|now apply mem_In]. Qed.

Lemma process_static e f : let e' := snd (process e f) in
  e_role e' = e_role e /\ e_svc e' = e_svc e /\ incl (e_pending e') (e_pending e) /\
  (length (e_pending e') <= length (e_pending e))%nat.
Proof. unfold process. destruct (decode f) as [[|r|p]| |]; cbn; try (repeat split; auto using incl_refl; lia).
  - destruct (accepts e r); cbn; repeat split; auto using incl_refl.
  - destruct (mem _ _); cbn; [|repeat split; auto using incl_refl].
    destruct (e_role e) eqn:R; cbn; repeat split; auto using incl_refl, remove1_incl, remove1_length. Qed.

(* the request path does not depend on the pending table *)
Lemma process_request_indep e1 e2 f q : decode f = Good (MReq q) ->
  e_role e1 = e_role e2 -> e_svc e1 = e_svc e2 -> fst (process e1 f) = fst (process e2 f).
Proof. intros D R S. unfold process. rewrite D. unfold accepts. rewrite R, S.
  destruct (match e_svc e2 with Some ms => _ | None => false end); reflexivity. Qed.

(* ---- sequences ---- *)
Lemma run_static : forall fs e, let e' := snd (run e fs) in
  e_role e' = e_role e /\ e_svc e' = e_svc e /\ incl (e_pending e') (e_pending e) /\
  (length (e_pending e') <= length (e_pending e))%nat.
Proof. induction fs as [|f fs IH]; intros e; cbn [run]; [cbn; repeat split; auto using incl_refl|].
  pose proof (process_static e f) as P. destruct (process e f) as [x e1]. cbn [snd] in P.
  specialize (IH e1). destruct (run e1 fs) as [xs e2]. cbn [snd] in *.
  destruct P as (P1 & P2 & P3 & P4). destruct IH as (I1 & I2 & I3 & I4).
  repeat split; try congruence; [eapply incl_tran; eauto | lia]. Qed.

Lemma run_effects_length : forall fs e, length (fst (run e fs)) = length fs.
Proof. induction fs as [|f fs IH]; intros e; cbn [run]; [reflexivity|].
  destruct (process e f) as [x e1]. specialize (IH e1). destruct (run e1 fs). cbn [fst length] in *. now rewrite IH. Qed.

Lemma run_keeps_serving fs e f q : decode f = Good (MReq q) ->
  fst (process (snd (run e fs)) f) = fst (process e f).
Proof. intros D. pose proof (run_static fs e) as (R & S & _). eapply process_request_indep; eauto. Qed.

(* every handler start in a sequence is justified by its own frame *)
Lemma run_effects_sound : forall fs e i q, nth_error (fst (run e fs)) i = Some (ERun q) ->
  exists f ms, nth_error fs i = Some f /\ decode f = Good (MReq q) /\ e_svc e = Some ms /\ In (r_method q) ms /\
               (e_role e = Srv -> is_v4 (r_callid q) = true).
Proof. induction fs as [|f fs IH]; intros e i q; cbn [run]; [destruct i; discriminate|].
  pose proof (process_static e f) as P. pose proof (process_run e f q) as PR.
  destruct (process e f) as [x e1]. cbn [fst snd] in *. specialize (IH e1).
  destruct (run e1 fs) as [xs e2]. cbn [fst] in *. destruct i as [|i]; cbn [nth_error].
  - intros H; inversion H; subst. destruct (PR eq_refl) as [D A]. apply accepts_spec in A as (ms & S & I & V).
    exists f, ms. auto.
  - intros H. destruct (IH i q H) as (f' & ms & N & D & S & I & V). destruct P as (P1 & P2 & _).
    exists f', ms. repeat split; auto; try congruence. intros R. apply V. congruence. Qed.
