From Coq Require Import ZArith List Bool Lia.
From WV Require Import Model.Keepalive.
Import ListNotations.
Open Scope Z_scope.

(* the deadline in force never exceeds (latest event so far) + W *)
Lemma expiry_bound W : 0 <= W -> forall pongs d T, d <= T + W -> Forall (fun t => t <= T) pongs -> expiry W d pongs <= T + W.
Proof. intros HW. induction pongs as [|t r IH]; intros d T Hd Hp; cbn [expiry]; [exact Hd|].
  inversion Hp; subst. destruct (t <? d); [apply IH; [lia|assumption]|exact Hd]. Qed.

Theorem detect W pongs T : 0 <= W -> 0 <= T -> Forall (fun t => t <= T) pongs -> teardown W pongs <= T + W.
Proof. intros. apply expiry_bound; auto; lia. Qed.

(* a session is never torn down before W after its last accepted pong / its start *)
Lemma expiry_lower W : forall pongs d, d <= expiry W d pongs \/ exists t, In t pongs /\ t < d /\ True.
Proof. induction pongs as [|t r IH]; intros d; cbn [expiry]; [left; lia|].
  destruct (Z.ltb_spec t d); [right; exists t; split; [left; reflexivity|auto]|left; lia]. Qed.

Lemma healthy_expiry W P rtt : 0 <= rtt -> 0 < P -> rtt + P < W -> forall n k0 d,
  d = (k0 - 1) * P + rtt + W \/ (k0 = 1 /\ d = W) ->
  expiry W d (healthy_pongs P rtt k0 n) = if (n =? 0)%nat then d else (k0 + Z.of_nat n - 1) * P + rtt + W.
Proof. intros Hr HP HW. induction n as [|n IH]; intros k0 d Hd; [reflexivity|].
  cbn [healthy_pongs expiry].
  assert (L : k0 * P + rtt <? d = true) by (apply Z.ltb_lt; destruct Hd as [->|[-> ->]]; lia).
  rewrite L. rewrite (IH (k0 + 1) (k0 * P + rtt + W)) by (left; f_equal; f_equal; lia).
  destruct n; cbn [Nat.eqb]; [lia|]. rewrite !Nat2Z.inj_succ. lia. Qed.

(* an idle healthy session: after any number n of ping cycles every pong was in time, and the
   deadline in force lies W beyond the last pong *)
Theorem idle_kept W P rtt n : 0 <= rtt -> 0 < P -> rtt + P < W -> (0 < n)%nat ->
  teardown W (healthy_pongs P rtt 1 n) = Z.of_nat n * P + rtt + W.
Proof. intros. unfold teardown. rewrite (healthy_expiry W P rtt) by (auto; right; auto).
  destruct n; [lia|]. cbn [Nat.eqb]. lia. Qed.
