From Coq Require Import List Arith Bool Lia.
From WV Require Import Model.Lockset.
Import ListNotations.

Definition excl (hs : list hold) : Prop :=
  forall t1 l m1 t2 m2, In (t1, l, m1) hs -> In (t2, l, m2) hs -> (m1 = W \/ m2 = W) -> t1 = t2.

Lemma mode_eqb_eq a b : mode_eqb a b = true <-> a = b.
Proof. destruct a, b; simpl; split; intros H; try discriminate; reflexivity. Qed.

Lemma hold_eqb_eq a b : hold_eqb a b = true <-> a = b.
Proof.
  destruct a as [[t1 l1] m1], b as [[t2 l2] m2]. unfold hold_eqb. split.
  - intros H. apply andb_prop in H as [H Hm]. apply andb_prop in H as [Ht Hl].
    apply Nat.eqb_eq in Ht, Hl. apply mode_eqb_eq in Hm. subst. reflexivity.
  - intros H. inversion H; subst. rewrite !Nat.eqb_refl. destruct m2; reflexivity.
Qed.

Lemma in_remove1 h x hs : In x (remove1 h hs) -> In x hs.
Proof. induction hs as [|y r IH]; simpl; auto. destruct (hold_eqb h y); simpl; intuition. Qed.

Lemma in_remove1_other h x hs : x <> h -> In x hs -> In x (remove1 h hs).
Proof.
  intros Hne. induction hs as [|y r IH]; simpl; auto. intros [->|H].
  - destruct (hold_eqb h x) eqn:E. { apply hold_eqb_eq in E. congruence. } left; reflexivity.
  - destruct (hold_eqb h y); simpl; auto.
Qed.

Lemma can_acq_spec hs l m : can_acq hs l m = true -> forall t' m', In (t', l, m') hs -> m = R /\ m' = R.
Proof.
  unfold can_acq. rewrite forallb_forall. intros H t' m' Hin. specialize (H _ Hin). simpl in H.
  rewrite Nat.eqb_refl in H. simpl in H. destruct m, m'; try discriminate; auto.
Qed.

Lemma run_app hs a b : run hs (a ++ b) = match run hs a with Some h => run h b | None => None end.
Proof.
  revert hs. induction a as [|e a IH]; intros hs; simpl; auto. destruct e as [t l m|t l m|t s]; simpl; auto.
  - destruct (can_acq hs l m); auto.
  - destruct (existsb _ hs); auto.
Qed.

Lemma excl_step hs e hs' : excl hs -> run hs [e] = Some hs' -> excl hs'.
Proof.
  intros Hx. destruct e as [t l m|t l m|t s]; simpl.
  - destruct (can_acq hs l m) eqn:E; [|discriminate]. intros H; inversion H; subst; clear H.
    intros t1 l1 m1 t2 m2 [H1|H1] [H2|H2] Hw.
    + congruence.
    + inversion H1; subst. destruct (can_acq_spec _ _ _ E _ _ H2) as [-> ->]. destruct Hw; discriminate.
    + inversion H2; subst. destruct (can_acq_spec _ _ _ E _ _ H1) as [-> ->]. destruct Hw; discriminate.
    + eapply Hx; eauto.
  - destruct (existsb _ hs); [|discriminate]. intros H; inversion H; subst; clear H.
    intros t1 l1 m1 t2 m2 H1 H2 Hw. apply in_remove1 in H1, H2. eapply Hx; eauto.
  - intros H; inversion H; subst; auto.
Qed.

Lemma excl_run tr : forall hs hs', excl hs -> run hs tr = Some hs' -> excl hs'.
Proof.
  induction tr as [|e r IH]; intros hs hs' Hx H. { simpl in H; inversion H; subst; auto. }
  change (e :: r) with ([e] ++ r) in H. rewrite run_app in H. destruct (run hs [e]) eqn:E; [|discriminate].
  eapply IH; [eapply excl_step; eauto | exact H].
Qed.

Lemma excl_nil : excl [].
Proof. intros ? ? ? ? ? []. Qed.

(* a hold persists as long as its thread does not release it *)
Lemma persist mid : forall hs hs' t l m, In (t, l, m) hs -> ~ In (Rel t l m) mid -> run hs mid = Some hs' -> In (t, l, m) hs'.
Proof.
  induction mid as [|e r IH]; intros hs hs' t l m Hin Hno H; simpl in H. { inversion H; subst; auto. }
  assert (Hno' : ~ In (Rel t l m) r) by (intros C; apply Hno; right; exact C).
  destruct e as [t' l' m'|t' l' m'|t' s'].
  - destruct (can_acq hs l' m'); [|discriminate]. apply (IH ((t', l', m') :: hs)); auto. right; exact Hin.
  - destruct (existsb (hold_eqb (t', l', m')) hs); [|discriminate]. apply (IH (remove1 (t', l', m') hs)); auto.
    apply in_remove1_other; auto. intros E. inversion E; subst. apply Hno. left; reflexivity.
  - apply (IH hs); auto.
Qed.

Lemma hold_dec (a b : hold) : {a = b} + {a <> b}.
Proof. destruct (hold_eqb a b) eqn:E; [left; apply hold_eqb_eq; exact E | right; intros ->; assert (hold_eqb b b = true) by (apply hold_eqb_eq; reflexivity); congruence]. Qed.

(* a hold which is absent before and present after was acquired in between; the first such
   acquisition happens in a state which does not contain it *)
Lemma first_acq mid : forall hs hs' t l m, run hs mid = Some hs' -> ~ In (t, l, m) hs -> In (t, l, m) hs' ->
  exists m1 m2 hsm, mid = m1 ++ Acq t l m :: m2 /\ run hs m1 = Some hsm /\ can_acq hsm l m = true.
Proof.
  induction mid as [|e r IH]; intros hs hs' t l m H Hno Hin; simpl in H. { inversion H; subst; contradiction. }
  destruct e as [t' l' m'|t' l' m'|t' s'].
  - destruct (can_acq hs l' m') eqn:E; [|discriminate].
    destruct (hold_dec (t', l', m') (t, l, m)) as [Heq|Hne].
    + inversion Heq; subst. exists [], r, hs. repeat split; auto.
    + destruct (IH ((t', l', m') :: hs) hs' t l m H) as (m1 & m2 & hsm & -> & Hr & Hc); auto.
      { intros [C|C]; [congruence|contradiction]. }
      exists (Acq t' l' m' :: m1), m2, hsm. repeat split; auto. simpl. rewrite E. exact Hr.
  - destruct (existsb (hold_eqb (t', l', m')) hs) eqn:E; [|discriminate].
    destruct (IH (remove1 (t', l', m') hs) hs' t l m H) as (m1 & m2 & hsm & -> & Hr & Hc); auto.
    { intros C. apply in_remove1 in C. contradiction. }
    exists (Rel t' l' m' :: m1), m2, hsm. repeat split; auto. simpl. rewrite E. exact Hr.
  - destruct (IH hs hs' t l m H) as (m1 & m2 & hsm & -> & Hr & Hc); auto.
    exists (Acc t' s' :: m1), m2, hsm. repeat split; auto.
Qed.

Lemma consistent_app rows pre : forall hs hs1 rest, run hs pre = Some hs1 -> consistent rows hs (pre ++ rest) -> consistent rows hs1 rest.
Proof.
  induction pre as [|e r IH]; intros hs hs1 rest H C; simpl in *. { inversion H; subst; auto. }
  destruct e as [t l m|t l m|t s].
  - destruct (can_acq hs l m); [|discriminate]. eapply IH; eauto.
  - destruct (existsb _ hs); [|discriminate]. eapply IH; eauto.
  - destruct C as [_ C]. eapply IH; eauto.
Qed.

Lemma holds_at_in hs t l m : holds_at hs t l m = true -> exists m', In (t, l, m') hs /\ (m = W -> m' = W).
Proof.
  unfold holds_at. rewrite existsb_exists. intros [[[t' l'] m'] [Hin H]]. apply andb_prop in H as [H Hm]. apply andb_prop in H as [Ht Hl].
  apply Nat.eqb_eq in Ht, Hl. subst. exists m'. split; auto. intros ->. apply mode_eqb_eq in Hm. exact Hm.
Qed.

Lemma consistentb_sound rows : forall tr hs, consistentb rows hs tr = true -> consistent rows hs tr.
Proof.
  induction tr as [|e r IH]; intros hs H; simpl in *; auto. destruct e as [t l m|t l m|t s]; auto.
  apply andb_prop in H as [H1 H2]. split; auto. intros x Hx l m Hin. rewrite Hx in H1.
  rewrite forallb_forall in H1. exact (H1 _ Hin).
Qed.

(* ---- the table ---- *)
Lemma lookup_in rows : forall s x, lookup rows s = Some x -> In x rows /\ r_site x = s.
Proof.
  induction rows as [|y r IH]; intros s x H; simpl in H; [discriminate|].
  destruct (Nat.eqb (r_site y) s) eqn:E. { inversion H; subst. apply Nat.eqb_eq in E. split; auto. left; auto. }
  destruct (IH _ _ H). split; auto. right; auto.
Qed.

Lemma nodupb_lookup rows : nodupb (map r_site rows) = true -> forall x, In x rows -> lookup rows (r_site x) = Some x.
Proof.
  induction rows as [|y r IH]; intros Hn x Hin; simpl in *; [contradiction|].
  apply andb_prop in Hn as [Hn1 Hn2]. destruct Hin as [->|Hin]. { rewrite Nat.eqb_refl. reflexivity. }
  destruct (Nat.eqb (r_site y) (r_site x)) eqn:E; [|auto].
  exfalso. apply Nat.eqb_eq in E. apply negb_true_iff in Hn1.
  assert (X : existsb (Nat.eqb (r_site y)) (map r_site r) = true); [|congruence].
  apply existsb_exists. exists (r_site x). split. { apply in_map. exact Hin. } apply Nat.eqb_eq. exact E.
Qed.

Lemma share_spec a b : share a b = true ->
  exists l ma mb, In (l, ma) (r_req a) /\ In (l, mb) (r_req b) /\ (r_wr a = true -> ma = W) /\ (r_wr b = true -> mb = W).
Proof.
  unfold share. rewrite existsb_exists. intros [[l ma] [Ha H]]. apply andb_prop in H as [Hma H].
  apply existsb_exists in H as [[l' mb] [Hb H]]. apply andb_prop in H as [Hl Hmb]. apply Nat.eqb_eq in Hl. subst l'.
  exists l, ma, mb. repeat split; auto.
  - intros Hw. unfold req_ok in Hma. rewrite Hw in Hma. apply mode_eqb_eq. exact Hma.
  - intros Hw. unfold req_ok in Hmb. rewrite Hw in Hmb. apply mode_eqb_eq. exact Hmb.
Qed.

Lemma check_pair rows a b : check_table rows = true -> In a rows -> In b rows -> pair_ok a b = true.
Proof.
  unfold check_table. intros H Ha Hb. apply andb_prop in H as [_ H]. rewrite forallb_forall in H.
  specialize (H _ Ha). rewrite forallb_forall in H. exact (H _ Hb).
Qed.

(* The discipline is sound: in every execution which respects the semantics of the locks and in
   which the table tells the truth about the locks held at each access, two accesses of one
   location by different threads, one of them a write, at sites the table classes as guarded,
   are ordered by a release of a common lock by the first thread followed by an acquisition of
   that lock by the second - a happens-before edge of the Go memory model. They are never
   concurrent. *)
Theorem discipline_sound rows pre t1 sa mid t2 sb post a b :
  check_table rows = true ->
  In a rows -> In b rows -> r_site a = sa -> r_site b = sb ->
  guarded a = true -> guarded b = true -> r_loc a = r_loc b -> (r_wr a || r_wr b) = true ->
  t1 <> t2 ->
  well_locked (pre ++ Acc t1 sa :: mid ++ Acc t2 sb :: post) ->
  consistent rows [] (pre ++ Acc t1 sa :: mid ++ Acc t2 sb :: post) ->
  exists l ma mb m1 m2, mid = m1 ++ Acq t2 l mb :: m2 /\ In (Rel t1 l ma) m1.
Proof.
  intros Hck Hina Hinb Hsa Hsb Hga Hgb Hloc Hconf Hne Hwl Hc. unfold well_locked in Hwl.
  assert (Hnd : nodupb (map r_site rows) = true) by (unfold check_table in Hck; apply andb_prop in Hck as [X _]; exact X).
  pose proof (check_pair _ _ _ Hck Hina Hinb) as Hp. unfold pair_ok in Hp.
  rewrite Hga, Hgb, Hconf in Hp. rewrite (proj2 (Nat.eqb_eq _ _) Hloc) in Hp. simpl in Hp.
  destruct (share_spec _ _ Hp) as (l & ma & mb & Ia & Ib & Wa & Wb).
  rewrite run_app in Hwl. destruct (run [] pre) as [hs1|] eqn:E1; [|congruence].
  pose proof (consistent_app _ _ _ _ _ E1 Hc) as C1. simpl in C1. destruct C1 as [Ha C1].
  simpl in Hwl. rewrite run_app in Hwl. destruct (run hs1 mid) as [hs2|] eqn:E2; [|congruence].
  pose proof (consistent_app _ _ _ _ _ E2 C1) as C2. simpl in C2. destruct C2 as [Hb _].
  subst sa sb.
  specialize (Ha a (nodupb_lookup _ Hnd _ Hina) _ _ Ia). specialize (Hb b (nodupb_lookup _ Hnd _ Hinb) _ _ Ib).
  destruct (holds_at_in _ _ _ _ Ha) as (ma' & Ina & Sa). destruct (holds_at_in _ _ _ _ Hb) as (mb' & Inb & Sb).
  assert (X1 : excl hs1) by (eapply excl_run; [apply excl_nil | exact E1]).
  assert (Hw : ma' = W \/ mb' = W).
  { apply orb_prop in Hconf as [Hw|Hw]; [left; apply Sa, Wa, Hw | right; apply Sb, Wb, Hw]. }
  (* t2 does not hold l when t1 makes its access *)
  assert (Hno2 : ~ In (t2, l, mb') hs1). { intros C. apply Hne. eapply (X1 t1 l ma' t2 mb'); eauto. }
  destruct (first_acq _ _ _ _ _ _ E2 Hno2 Inb) as (m1 & m2 & hsm & -> & Hr1 & Hcan).
  exists l, ma', mb', m1, m2. split; [reflexivity|].
  destruct (in_dec (fun x y : ev => ltac:(decide equality; try apply Nat.eq_dec; decide equality)) (Rel t1 l ma') m1) as [Hin|Hno]; [exact Hin|].
  exfalso. pose proof (persist _ _ _ _ _ _ Ina Hno Hr1) as P.
  destruct (can_acq_spec _ _ _ Hcan _ _ P) as [-> ->]. destruct Hw; discriminate.
Qed.

(* non-vacuity: a table with a writer and a reader of one location under one lock passes, and a
   well-locked consistent trace through both sites exists *)
Example table_ok : check_table [mkRow 0 7 true [(3, W)] Guarded; mkRow 1 7 false [(3, R)] Guarded; mkRow 2 7 false [] Exempt] = true.
Proof. reflexivity. Qed.
Example trace_ok :
  let rows := [mkRow 0 7 true [(3, W)] Guarded; mkRow 1 7 false [(3, R)] Guarded] in
  let tr := [Acq 1 3 W; Acc 1 0; Rel 1 3 W; Acq 2 3 R; Acc 2 1; Rel 2 3 R] in
  run [] tr <> None /\ consistentb rows [] tr = true.
Proof. simpl. split; [discriminate|reflexivity]. Qed.
(* and a table in which the reader takes no lock is rejected *)
Example table_bad : bad_pairs [mkRow 0 7 true [(3, W)] Guarded; mkRow 1 7 false [] Guarded] = [(0, 1); (1, 0)].
Proof. reflexivity. Qed.
(* a write site without an exclusive lock conflicts with itself *)
Example table_bad_self : bad_pairs [mkRow 0 7 true [(3, R)] Guarded] = [(0, 0)].
Proof. reflexivity. Qed.
