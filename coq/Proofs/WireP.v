From Coq Require Import List Bool NArith Arith Lia ZifyN ZifyNat ZifyBool.
From WV Require Import Model.Wire Proofs.VarintP.
Import ListNotations.
Open Scope N_scope.

Lemma take_app v rest : take (len v) (v ++ rest) = Some (v, rest).
Proof. unfold take, len. rewrite app_length. destruct (N.leb_spec (N.of_nat (length v)) (N.of_nat (length v + length rest))); [|lia].
  rewrite Nat2N.id, firstn_app, Nat.sub_diag, firstn_all, skipn_app, Nat.sub_diag, skipn_all. simpl. now rewrite app_nil_r. Qed.

Lemma take_len_fld v rest : len v < 2 ^ 64 -> take_len (varint (len v) ++ v ++ rest) = Some (v, rest).
Proof. intros H. unfold take_len. rewrite unvarint_varint by exact H. apply take_app. Qed.

Lemma tag_small num rest : 1 <= num -> num <= 15 -> tag ((num * 8 + 2) :: rest) = Some (num, 2, rest).
Proof. intros H1 H2. unfold tag, unvarint. cbn [vdec]. destruct (N.ltb_spec (num * 8 + 2) 128); [|lia]. cbn [Nat.eqb andb].
  replace (0 + (num * 8 + 2) * 2 ^ 0) with (num * 8 + 2) by (cbn; lia).
  replace ((num * 8 + 2) / 8) with num by lia. replace ((num * 8 + 2) mod 8) with 2 by lia.
  destruct (N.eqb_spec num 0); [lia|]. destruct (N.leb_spec (2 ^ 29) num); [cbn in *; lia|]. reflexivity. Qed.

Definition small (v : bytes) : Prop := len v < 2 ^ 64.

(* ---- Request ---- *)
Lemma req_fld1 f acc v rest : v <> [] -> utf8 v = true -> small v ->
  dec_req (S f) acc (fld 1 v ++ rest) = dec_req f {| r_method := v; r_callid := r_callid acc; r_payload := r_payload acc |} rest.
Proof. intros Hne Hu Hl. unfold fld. destruct v as [|x v']; [congruence|]. set (v := x :: v') in *.
  cbn [app dec_req]. rewrite (tag_small 1) by lia.
  change (2 =? 4) with false. change (1 =? 1) with true. change (2 =? 2) with true. cbn [andb].
  rewrite <- app_assoc, take_len_fld by exact Hl. rewrite Hu. reflexivity. Qed.
Lemma req_fld2 f acc v rest : v <> [] -> utf8 v = true -> small v ->
  dec_req (S f) acc (fld 2 v ++ rest) = dec_req f {| r_method := r_method acc; r_callid := v; r_payload := r_payload acc |} rest.
Proof. intros Hne Hu Hl. unfold fld. destruct v as [|x v']; [congruence|]. set (v := x :: v') in *.
  cbn [app dec_req]. rewrite (tag_small 2) by lia.
  change (2 =? 4) with false. change (2 =? 1) with false. change (2 =? 2) with true. cbn [andb].
  rewrite <- app_assoc, take_len_fld by exact Hl. rewrite Hu. reflexivity. Qed.
Lemma req_fld3 f acc v rest : v <> [] -> small v ->
  dec_req (S f) acc (fld 3 v ++ rest) = dec_req f {| r_method := r_method acc; r_callid := r_callid acc; r_payload := v |} rest.
Proof. intros Hne Hl. unfold fld. destruct v as [|x v']; [congruence|]. set (v := x :: v') in *.
  cbn [app dec_req]. rewrite (tag_small 3) by lia.
  change (2 =? 4) with false. change (3 =? 1) with false. change (3 =? 2) with false. change (3 =? 3) with true. change (2 =? 2) with true. cbn [andb].
  rewrite <- app_assoc, take_len_fld by exact Hl. reflexivity. Qed.
Lemma req_nil f acc : dec_req f acc [] = Good acc. Proof. destruct f; reflexivity. Qed.

(* ---- Response ---- *)
Lemma resp_fld1 f acc v rest : v <> [] -> utf8 v = true -> small v ->
  dec_resp (S f) acc (fld 1 v ++ rest) = dec_resp f {| p_callid := v; p_payload := p_payload acc; p_error := p_error acc |} rest.
Proof. intros Hne Hu Hl. unfold fld. destruct v as [|x v']; [congruence|]. set (v := x :: v') in *.
  cbn [app dec_resp]. rewrite (tag_small 1) by lia.
  change (2 =? 4) with false. change (1 =? 1) with true. change (2 =? 2) with true. cbn [andb].
  rewrite <- app_assoc, take_len_fld by exact Hl. rewrite Hu. reflexivity. Qed.
Lemma resp_fld2 f acc v rest : v <> [] -> small v ->
  dec_resp (S f) acc (fld 2 v ++ rest) = dec_resp f {| p_callid := p_callid acc; p_payload := v; p_error := p_error acc |} rest.
Proof. intros Hne Hl. unfold fld. destruct v as [|x v']; [congruence|]. set (v := x :: v') in *.
  cbn [app dec_resp]. rewrite (tag_small 2) by lia.
  change (2 =? 4) with false. change (2 =? 1) with false. change (2 =? 2) with true. cbn [andb].
  rewrite <- app_assoc, take_len_fld by exact Hl. reflexivity. Qed.
Lemma resp_fld3 f acc v rest : v <> [] -> utf8 v = true -> small v ->
  dec_resp (S f) acc (fld 3 v ++ rest) = dec_resp f {| p_callid := p_callid acc; p_payload := p_payload acc; p_error := v |} rest.
Proof. intros Hne Hu Hl. unfold fld. destruct v as [|x v']; [congruence|]. set (v := x :: v') in *.
  cbn [app dec_resp]. rewrite (tag_small 3) by lia.
  change (2 =? 4) with false. change (3 =? 1) with false. change (3 =? 2) with false. change (3 =? 3) with true. change (2 =? 2) with true. cbn [andb].
  rewrite <- app_assoc, take_len_fld by exact Hl. rewrite Hu. reflexivity. Qed.
Lemma resp_nil f acc : dec_resp f acc [] = Good acc. Proof. destruct f; reflexivity. Qed.

Lemma fld_nil n : fld n [] = []. Proof. reflexivity. Qed.
Lemma fld_len3 n v : v <> [] -> (3 <= length (fld n v))%nat.
Proof. destruct v as [|x v']; [congruence|]. intros _. unfold fld. cbn [length]. rewrite app_length. cbn [length].
  pose proof (varint_nonempty (len (x :: v'))). lia. Qed.

Definition small_req (r : req) := small (r_method r) /\ small (r_callid r) /\ small (r_payload r).
Definition small_resp (p : resp) := small (p_callid p) /\ small (p_payload p) /\ small (p_error p).

Lemma dec_req_body_fuel r : wf_req r = true -> small_req r -> forall f, (3 <= f)%nat -> dec_req f req0 (body_req r) = Good r.
Proof.
  unfold wf_req. intros Hw (Lm & Lc & Lp) f Hf. apply andb_prop in Hw as [Hm Hc].
  destruct f as [|[|[|f]]]; try lia.
  unfold body_req. destruct r as [m c p]; cbn [r_method r_callid r_payload] in *.
  destruct m as [|m0 m']; destruct c as [|c0 c']; destruct p as [|p0 p']; rewrite ?fld_nil; cbn [app];
  repeat first [ rewrite req_fld1 by (try discriminate; assumption)
               | rewrite req_fld2 by (try discriminate; assumption)
               | rewrite <- (app_nil_r (fld 3 _)), req_fld3 by (try discriminate; assumption)
               | rewrite <- (app_nil_r (fld 2 _)), req_fld2 by (try discriminate; assumption)
               | rewrite <- (app_nil_r (fld 1 _)), req_fld1 by (try discriminate; assumption) ];
  rewrite ?req_nil; reflexivity.
Qed.

Lemma dec_req_body r : wf_req r = true -> small_req r -> dec_req (length (body_req r)) req0 (body_req r) = Good r.
Proof.
  intros Hw Hs. destruct (body_req r) eqn:E.
  - destruct r as [m c p]. unfold body_req in E; cbn [r_method r_callid r_payload] in E.
    destruct m; [|discriminate E]. destruct c; [|discriminate E]. destruct p; [|discriminate E]. reflexivity.
  - rewrite <- E. apply dec_req_body_fuel; auto.
    destruct r as [m c p]. unfold body_req in *; cbn [r_method r_callid r_payload] in *.
    rewrite !app_length.
    destruct m as [|m0 m']; [destruct c as [|c0 c']; [destruct p as [|p0 p']; [discriminate E|]|]|].
    + pose proof (fld_len3 3 (p0 :: p') ltac:(discriminate)). lia.
    + pose proof (fld_len3 2 (c0 :: c') ltac:(discriminate)). lia.
    + pose proof (fld_len3 1 (m0 :: m') ltac:(discriminate)). lia.
Qed.

Lemma dec_resp_body_fuel r : wf_resp r = true -> small_resp r -> forall f, (3 <= f)%nat -> dec_resp f resp0 (body_resp r) = Good r.
Proof.
  unfold wf_resp. intros Hw (Lm & Lc & Lp) f Hf. apply andb_prop in Hw as [Hm Hc].
  destruct f as [|[|[|f]]]; try lia.
  unfold body_resp. destruct r as [m c p]; cbn [p_callid p_payload p_error] in *.
  destruct m as [|m0 m']; destruct c as [|c0 c']; destruct p as [|p0 p']; rewrite ?fld_nil; cbn [app];
  repeat first [ rewrite resp_fld1 by (try discriminate; assumption)
               | rewrite resp_fld2 by (try discriminate; assumption)
               | rewrite <- (app_nil_r (fld 3 _)), resp_fld3 by (try discriminate; assumption)
               | rewrite <- (app_nil_r (fld 2 _)), resp_fld2 by (try discriminate; assumption)
               | rewrite <- (app_nil_r (fld 1 _)), resp_fld1 by (try discriminate; assumption) ];
  rewrite ?resp_nil; reflexivity.
Qed.

Lemma dec_resp_body r : wf_resp r = true -> small_resp r -> dec_resp (length (body_resp r)) resp0 (body_resp r) = Good r.
Proof.
  intros Hw Hs. destruct (body_resp r) eqn:E.
  - destruct r as [m c p]. unfold body_resp in E; cbn [p_callid p_payload p_error] in E.
    destruct m; [|discriminate E]. destruct c; [|discriminate E]. destruct p; [|discriminate E]. reflexivity.
  - rewrite <- E. apply dec_resp_body_fuel; auto.
    destruct r as [m c p]. unfold body_resp in *; cbn [p_callid p_payload p_error] in *.
    rewrite !app_length.
    destruct m as [|m0 m']; [destruct c as [|c0 c']; [destruct p as [|p0 p']; [discriminate E|]|]|].
    + pose proof (fld_len3 3 (p0 :: p') ltac:(discriminate)). lia.
    + pose proof (fld_len3 2 (c0 :: c') ltac:(discriminate)). lia.
    + pose proof (fld_len3 1 (m0 :: m') ltac:(discriminate)). lia.
Qed.

(* ---- Message ---- *)
Definition small_msg (m : msg) : Prop :=
  match m with
  | MNone => True
  | MReq r => small_req r /\ small (body_req r)
  | MResp p => small_resp p /\ small (body_resp p)
  end.

Lemma dec_msg_nil f acc : dec_msg f acc [] = Good acc. Proof. destruct f; reflexivity. Qed.

Theorem roundtrip m : wf m = true -> small_msg m ->
  exists b, encode m = Some b /\ decode b = Good m.
Proof.
  intros Hw Hs. destruct m as [|r|p]; cbn [wf small_msg encode] in *.
  - exists []. split; reflexivity.
  - rewrite Hw. eexists; split; [reflexivity|]. destruct Hs as [Hs Hb].
    unfold decode, sub. cbn [length dec_msg]. rewrite (tag_small 2) by lia.
    change (2 =? 4) with false. change (2 =? 2) with true. cbn [andb].
    rewrite <- (app_nil_r (body_req r)) at 2. rewrite take_len_fld by exact Hb.
    rewrite dec_req_body by assumption. apply dec_msg_nil.
  - rewrite Hw. eexists; split; [reflexivity|]. destruct Hs as [Hs Hb].
    unfold decode, sub. cbn [length dec_msg]. rewrite (tag_small 3) by lia.
    change (2 =? 4) with false. change (3 =? 2) with false. change (3 =? 3) with true. change (2 =? 2) with true. cbn [andb].
    rewrite <- (app_nil_r (body_resp p)) at 2. rewrite take_len_fld by exact Hb.
    rewrite dec_resp_body by assumption. apply dec_msg_nil.
Qed.

(* invalid UTF-8 in a string field: no frame is produced at all *)
Lemma encode_none m : encode m = None <-> wf m = false.
Proof. destruct m as [|r|p]; cbn [encode wf]; try (split; discriminate);
  match goal with |- context[if ?c then _ else _] => destruct c end; split; congruence. Qed.

(* distinct envelopes never share a frame *)
Theorem encode_injective m1 m2 b : small_msg m1 -> small_msg m2 ->
  encode m1 = Some b -> encode m2 = Some b -> m1 = m2.
Proof.
  intros S1 S2 E1 E2.
  assert (W1 : wf m1 = true) by (destruct (wf m1) eqn:W; [reflexivity|]; apply encode_none in W; congruence).
  assert (W2 : wf m2 = true) by (destruct (wf m2) eqn:W; [reflexivity|]; apply encode_none in W; congruence).
  destruct (roundtrip m1 W1 S1) as (b1 & Eb1 & D1). destruct (roundtrip m2 W2 S2) as (b2 & Eb2 & D2).
  rewrite E1 in Eb1. rewrite E2 in Eb2. inversion Eb1; inversion Eb2; subst. rewrite D1 in D2. now inversion D2.
Qed.

(* the published layout, as bytes *)
Lemma layout_request r : wf_req r = true ->
  encode (MReq r) = Some (18 :: varint (len (body_req r)) ++ fld 1 (r_method r) ++ fld 2 (r_callid r) ++ fld 3 (r_payload r)).
Proof. intros H. cbn [encode]. now rewrite H. Qed.
Lemma layout_response p : wf_resp p = true ->
  encode (MResp p) = Some (26 :: varint (len (body_resp p)) ++ fld 1 (p_callid p) ++ fld 2 (p_payload p) ++ fld 3 (p_error p)).
Proof. intros H. cbn [encode]. now rewrite H. Qed.
