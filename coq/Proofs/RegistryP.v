From Coq Require Import List Arith Bool Lia.
From Hammer Require Import Tactics.
From WV Require Import Model.Registry.
Import ListNotations.

Lemma mem_In x l : mem x l = true <-> In x l.
Proof. unfold mem. rewrite existsb_exists. split; [intros (y & I & E); apply Nat.eqb_eq in E; now subst|intros I; exists x; split; [exact I|apply Nat.eqb_refl]]. Qed.
Lemma fupd_eq f i x j : fupd f i x j = if Nat.eqb j i then x else f j. Proof. reflexivity. Qed.
Lemma lookup_In k v r : lookup k r = Some v -> In (k, v) r.
Proof. induction r as [|[k' v'] t IH]; cbn [lookup]; [discriminate|]. destruct (Nat.eqb_spec k k'); [intros E; inversion E; subst; left; reflexivity|intros E; right; auto]. Qed.
Lemma lookup_remove_key k k' r : lookup k' (remove_key k r) = if Nat.eqb k' k then None else lookup k' r.
Proof. induction r as [|[a v] t IH]; cbn [lookup remove_key]; [destruct (Nat.eqb k' k); reflexivity|].
  destruct (Nat.eqb_spec k a) as [->|N]; [rewrite IH; destruct (Nat.eqb_spec k' a); reflexivity|].
  cbn [lookup]. rewrite IH. destruct (Nat.eqb_spec k' a) as [->|N2]; [destruct (Nat.eqb_spec a k); [congruence|reflexivity]|reflexivity]. Qed.
Lemma In_remove_key k a v r : In (a, v) (remove_key k r) -> In (a, v) r /\ a <> k.
Proof. induction r as [|[a' v'] t IH]; cbn [remove_key]; [intros []|]. destruct (Nat.eqb_spec k a') as [->|N].
  - intros I. destruct (IH I). split; [right; auto|auto].
  - intros [E|I]; [inversion E; subst; split; [left; reflexivity|congruence]|destruct (IH I); split; [right; auto|auto]]. Qed.

(* the invariant: the registry holds exactly the registered sessions, one per key, all listed *)
Definition live (p : phase) : Prop := p = PRegistered \/ p = PClosing.
Record RInv (st : state) : Prop := {
  r_entry : forall k sid, In (k, sid) (reg st) -> key_of st sid = k /\ live (phase_of st sid) /\ lookup k (reg st) = Some sid;
  r_registered : forall sid, phase_of st sid = PRegistered -> lookup (key_of st sid) (reg st) = Some sid;
  r_listed : forall k sid, In (k, sid) (reg st) -> mem k (allow st) = true
}.

Definition keeps (ks : list nat) (e : nat * nat) : bool := mem (fst e) ks.
Definition swept (ks : list nat) (sid : nat) (e : nat * nat) : bool := Nat.eqb (snd e) sid && negb (mem (fst e) ks).

Lemma sweep_reg ks : forall r ss, fst (sweep ks r ss) = filter (keeps ks) r.
Proof. induction r as [|[k0 s0] t IH]; intros ss; cbn [sweep filter]; [reflexivity|].
  specialize (IH ss). destruct (sweep ks t ss) as [r1 ss1]. cbn [fst] in IH. unfold keeps at 1. cbn [fst].
  destruct (mem k0 ks); cbn [fst]; now rewrite IH. Qed.
Lemma sweep_key ks : forall r ss sid, s_key (snd (sweep ks r ss) sid) = s_key (ss sid).
Proof. induction r as [|[k0 s0] t IH]; intros ss sid; cbn [sweep]; [reflexivity|].
  specialize (IH ss). destruct (sweep ks t ss) as [r1 ss1]. cbn [snd] in IH.
  destruct (mem k0 ks); cbn [snd]; [apply IH|]. rewrite fupd_eq. destruct (Nat.eqb_spec sid s0) as [->|N]; cbn [s_key]; apply IH. Qed.
Lemma sweep_phase ks : forall r ss sid, s_phase (snd (sweep ks r ss) sid) = if existsb (swept ks sid) r then PClosing else s_phase (ss sid).
Proof. induction r as [|[k0 s0] t IH]; intros ss sid; cbn [sweep existsb]; [reflexivity|].
  specialize (IH ss sid). destruct (sweep ks t ss) as [r1 ss1]. cbn [snd] in IH. unfold swept at 1. cbn [fst snd].
  destruct (mem k0 ks); cbn [snd negb]; [rewrite andb_false_r; exact IH|]. rewrite andb_true_r, fupd_eq, (Nat.eqb_sym s0 sid).
  destruct (Nat.eqb sid s0); cbn [orb s_phase]; [reflexivity|exact IH]. Qed.

Lemma lookup_filter ks k r : lookup k (filter (keeps ks) r) = if mem k ks then lookup k r else None.
Proof. induction r as [|[a v] t IH]; cbn [filter lookup]; [destruct (mem k ks); reflexivity|].
  unfold keeps at 1. cbn [fst]. destruct (mem a ks) eqn:M; cbn [lookup]; destruct (Nat.eqb_spec k a) as [->|N]; rewrite ?M; auto.
  rewrite IH, M. reflexivity. Qed.

Record RInv' (st : state) : Prop := {
  i_inv : RInv st;
  i_fresh : forall sid, next st <= sid -> phase_of st sid = PEnded
}.

Lemma live_not p : live p -> p <> PNew /\ p <> PVerified /\ p <> PChecked /\ p <> PUpgraded /\ p <> PRefused /\ p <> PEnded.
Proof. intros [->| ->]; repeat split; discriminate. Qed.

(* changing the phase of a session no registry entry refers to, or keeping it live, preserves everything *)
Lemma set_phase_other st sid p : RInv st -> (forall k, ~ In (k, sid) (reg st)) -> p <> PRegistered -> RInv (set_phase st sid p).
Proof.
  intros [E R L] N NP. constructor; unfold set_phase, phase_of, key_of in *; cbn [reg sess allow] in *.
  - intros k s I. destruct (E k s I) as (A & B & C). rewrite !fupd_eq. destruct (Nat.eqb_spec s sid) as [->|Ne]; [exfalso; eapply N; eauto|auto].
  - intros s. rewrite !fupd_eq. destruct (Nat.eqb_spec s sid) as [->|Ne]; cbn [s_phase s_key]; [congruence|apply R].
  - exact L.
Qed.

Lemma no_entry_if_not_live st sid : RInv st -> ~ live (phase_of st sid) -> forall k, ~ In (k, sid) (reg st).
Proof. intros [E _ _] NL k I. destruct (E k sid I) as (_ & B & _). contradiction. Qed.

Lemma RInv_step st l : RInv' st -> RInv' (step st l).
Proof.
  intros [Iv Fr]. pose proof Iv as [E R L].
  destruct l as [k|sid|sid|sid|sid|sid|sid|ks]; cbn [step].
  - (* LConnect *)
    constructor; [constructor|]; unfold phase_of, key_of in *; cbn [reg sess allow next] in *.
    + intros k0 s I. destruct (E k0 s I) as (A & B & C). rewrite !fupd_eq. destruct (Nat.eqb_spec s (next st)) as [->|Ne]; [|auto].
      exfalso. rewrite (Fr (next st) (Nat.le_refl _)) in B. destruct B; discriminate.
    + intros s. rewrite !fupd_eq. destruct (Nat.eqb_spec s (next st)) as [->|Ne]; cbn [s_phase s_key]; [discriminate|apply R].
    + exact L.
    + intros s Hs. rewrite fupd_eq. destruct (Nat.eqb_spec s (next st)); [lia|apply Fr; lia].
  - (* LVerify *)
    destruct (phase_of st sid) eqn:P; try (constructor; assumption).
    constructor.
    + apply set_phase_other; auto; [apply no_entry_if_not_live; auto; rewrite P; intros [H|H]; discriminate|destruct (mem _ _); discriminate].
    + intros s Hs. unfold set_phase, phase_of. cbn [sess next] in *. rewrite fupd_eq. destruct (Nat.eqb_spec s sid) as [->|Ne]; [|apply Fr; exact Hs].
      rewrite (Fr sid Hs) in P. discriminate.
  - (* LCheck *)
    destruct (phase_of st sid) eqn:P; try (constructor; assumption).
    constructor.
    + apply set_phase_other; auto; [apply no_entry_if_not_live; auto; rewrite P; intros [H|H]; discriminate|destruct (lookup _ _); discriminate].
    + intros s Hs. unfold set_phase, phase_of. cbn [sess next] in *. rewrite fupd_eq. destruct (Nat.eqb_spec s sid) as [->|Ne]; [|apply Fr; exact Hs].
      rewrite (Fr sid Hs) in P. discriminate.
  - (* LUpgrade *)
    destruct (phase_of st sid) eqn:P; try (constructor; assumption).
    constructor.
    + apply set_phase_other; auto; [apply no_entry_if_not_live; auto; rewrite P; intros [H|H]; discriminate|discriminate].
    + intros s Hs. unfold set_phase, phase_of. cbn [sess next] in *. rewrite fupd_eq. destruct (Nat.eqb_spec s sid) as [->|Ne]; [|apply Fr; exact Hs].
      rewrite (Fr sid Hs) in P. discriminate.
  - (* LRegister *)
    destruct (phase_of st sid) eqn:P; try (constructor; assumption).
    assert (NoE : forall k, ~ In (k, sid) (reg st)) by (apply no_entry_if_not_live; auto; rewrite P; intros [H|H]; discriminate).
    assert (FrS : forall s, next st <= s -> s <> sid) by (intros s Hs ->; rewrite (Fr sid Hs) in P; discriminate).
    destruct (mem (key_of st sid) (allow st)) eqn:M; cbn [andb].
    2:{ constructor; [apply set_phase_other; auto; discriminate|].
        intros s Hs. unfold set_phase, phase_of. cbn [sess next]. rewrite fupd_eq. destruct (Nat.eqb_spec s sid); [exfalso; eapply FrS; eauto|apply Fr; exact Hs]. }
    destruct (lookup (key_of st sid) (reg st)) eqn:Lk.
    { constructor; [apply set_phase_other; auto; discriminate|].
      intros s Hs. unfold set_phase, phase_of. cbn [sess next]. rewrite fupd_eq. destruct (Nat.eqb_spec s sid); [exfalso; eapply FrS; eauto|apply Fr; exact Hs]. }
    constructor; [constructor|]; unfold set_phase, phase_of, key_of in *; cbn [reg sess allow next] in *.
    + intros k0 s [Eq|I].
      * inversion Eq; subst. rewrite !fupd_eq, Nat.eqb_refl. cbn [s_key s_phase lookup]. rewrite Nat.eqb_refl. repeat split; auto. left; reflexivity.
      * destruct (E k0 s I) as (A & B & C). rewrite !fupd_eq. destruct (Nat.eqb_spec s sid) as [->|Ne]; [exfalso; eapply NoE; eauto|].
        repeat split; auto. cbn [lookup]. destruct (Nat.eqb_spec k0 (s_key (sess st sid))) as [->|Nk]; [congruence|exact C].
    + intros s. rewrite !fupd_eq. destruct (Nat.eqb_spec s sid) as [->|Ne]; cbn [s_phase s_key lookup].
      * intros _. now rewrite Nat.eqb_refl.
      * intros Ps. pose proof (R s Ps) as Rs. destruct (Nat.eqb_spec (s_key (sess st s)) (s_key (sess st sid))) as [Eq|Nk]; [rewrite Eq in Rs; congruence|exact Rs].
    + intros k0 s [Eq|I]; [inversion Eq; subst; exact M|eapply L; eauto].
    + intros s Hs. rewrite fupd_eq. destruct (Nat.eqb_spec s sid); [exfalso; eapply FrS; eauto|apply Fr; exact Hs].
  - (* LDie *)
    destruct (phase_of st sid) eqn:P; try (constructor; assumption).
    constructor; [constructor|]; unfold set_phase, phase_of, key_of in *; cbn [reg sess allow next] in *.
    + intros k0 s I. destruct (E k0 s I) as (A & B & C). rewrite !fupd_eq. destruct (Nat.eqb_spec s sid) as [->|Ne]; cbn [s_key s_phase]; auto.
      repeat split; auto. right; reflexivity.
    + intros s. rewrite !fupd_eq. destruct (Nat.eqb_spec s sid) as [->|Ne]; cbn [s_phase s_key]; [discriminate|apply R].
    + exact L.
    + intros s Hs. rewrite fupd_eq. destruct (Nat.eqb_spec s sid) as [->|Ne]; [rewrite (Fr sid Hs) in P; discriminate|apply Fr; exact Hs].
  - (* LTeardown *)
    destruct (phase_of st sid) eqn:P; try (constructor; assumption).
    assert (FrS : forall s, next st <= s -> s <> sid) by (intros s Hs ->; rewrite (Fr sid Hs) in P; discriminate).
    assert (Own : forall k, In (k, sid) (reg st) -> k = key_of st sid /\ lookup (key_of st sid) (reg st) = Some sid).
    { intros k I. destruct (E k sid I) as (A & _ & C). subst k. auto. }
    set (k := key_of st sid) in *.
    set (reg' := match lookup k (reg st) with Some s => if Nat.eqb s sid then remove_key k (reg st) else reg st | None => reg st end).
    assert (Sub : forall a v, In (a, v) reg' -> In (a, v) (reg st) /\ v <> sid /\ lookup a reg' = lookup a (reg st)).
    { intros a v I. unfold reg' in *. destruct (lookup k (reg st)) as [s|] eqn:Lk.
      - destruct (Nat.eqb_spec s sid) as [->|Ne].
        + apply In_remove_key in I as [I Na]. repeat split; auto.
          * intros ->. destruct (Own a I) as [Ea _]. contradiction.
          * rewrite lookup_remove_key. destruct (Nat.eqb_spec a k); [contradiction|reflexivity].
        + repeat split; auto. intros ->. destruct (Own a I) as [_ C]. congruence.
      - repeat split; auto. intros ->. destruct (Own a I) as [_ C]. congruence. }
    constructor; [constructor|]; unfold set_phase, phase_of, key_of in *; cbn [reg sess allow next] in *; fold reg'.
    + intros a v I. destruct (Sub a v I) as (I0 & Nv & Lk). destruct (E a v I0) as (A & B & C). rewrite !fupd_eq.
      destruct (Nat.eqb_spec v sid); [contradiction|]. repeat split; auto. congruence.
    + intros s. rewrite !fupd_eq. destruct (Nat.eqb_spec s sid) as [->|Ne]; cbn [s_phase s_key]; [discriminate|].
      intros Ps. pose proof (R s Ps) as Rs. pose proof (lookup_In _ _ _ Rs) as I.
      unfold reg'. destruct (lookup k (reg st)) as [s0|] eqn:Lk; [|exact Rs]. destruct (Nat.eqb_spec s0 sid) as [->|N0]; [|exact Rs].
      rewrite lookup_remove_key. destruct (Nat.eqb_spec (s_key (sess st s)) k) as [Eq|Nk]; [|exact Rs]. rewrite Eq in Rs. congruence.
    + intros a v I. destruct (Sub a v I) as (I0 & _). eapply L; eauto.
    + intros s Hs. rewrite fupd_eq. destruct (Nat.eqb_spec s sid); [exfalso; eapply FrS; eauto|apply Fr; exact Hs].
  - (* LUpdate *)
    pose proof (sweep_reg ks (reg st) (sess st)) as SR. pose proof (sweep_key ks (reg st) (sess st)) as SK. pose proof (sweep_phase ks (reg st) (sess st)) as SP.
    destruct (sweep ks (reg st) (sess st)) as [r' ss'] eqn:Sw. cbn [fst snd] in *. subst r'.
    constructor; [constructor|]; unfold phase_of, key_of in *; cbn [reg sess allow next] in *.
    + intros k s I. apply filter_In in I as [I Kp]. unfold keeps in Kp. cbn [fst] in Kp. destruct (E k s I) as (A & B & C).
      rewrite SK, SP, lookup_filter, Kp. repeat split; auto. destruct (existsb _ _); [right; reflexivity|exact B].
    + intros s. rewrite SK, SP. destruct (existsb (swept ks s) (reg st)) eqn:Ex; [discriminate|]. intros Ps.
      pose proof (R s Ps) as Rs. rewrite lookup_filter. destruct (mem (s_key (sess st s)) ks) eqn:M; [exact Rs|].
      exfalso. pose proof (lookup_In _ _ _ Rs) as I. assert (existsb (swept ks s) (reg st) = true); [|congruence].
      apply existsb_exists. exists (s_key (sess st s), s). split; [exact I|]. unfold swept. cbn [fst snd]. now rewrite Nat.eqb_refl, M.
    + intros k s I. apply filter_In in I as [_ Kp]. exact Kp.
    + intros s Hs. rewrite SP. destruct (existsb (swept ks s) (reg st)) eqn:Ex; [|apply Fr; exact Hs].
      exfalso. apply existsb_exists in Ex as ([a v] & I & Sw'). unfold swept in Sw'. cbn [fst snd] in Sw'. apply andb_prop in Sw' as [Ev _]. apply Nat.eqb_eq in Ev. subst v.
      destruct (E a s I) as (_ & B & _). rewrite (Fr s Hs) in B. destruct B; discriminate.
Qed.

Lemma RInv_init ks : RInv' (init ks).
Proof. constructor; [constructor|]; cbn; intros; try contradiction; try discriminate; reflexivity. Qed.
Lemma RInv_exec : forall ls st, RInv' st -> RInv' (exec st ls).
Proof. induction ls as [|l ls IH]; intros st I; [exact I|]. apply (IH (step st l)), RInv_step, I. Qed.
Lemma reach ks ls : RInv (exec (init ks) ls).
Proof. apply RInv_exec, RInv_init. Qed.

(* C11: at most one registered session per key *)
Theorem single_session ks ls s1 s2 : let st := exec (init ks) ls in
  phase_of st s1 = PRegistered -> phase_of st s2 = PRegistered -> key_of st s1 = key_of st s2 -> s1 = s2.
Proof. intros st P1 P2 K. destruct (reach ks ls) as [_ R _]. pose proof (R s1 P1) as A. pose proof (R s2 P2) as B. fold st in A, B. rewrite K in A. congruence. Qed.

(* the view is exact: the registry holds exactly the registered (or just dying) sessions *)
Theorem view_exact ks ls : let st := exec (init ks) ls in
  (forall k sid, route st k = Some sid -> key_of st sid = k /\ (phase_of st sid = PRegistered \/ phase_of st sid = PClosing)) /\
  (forall sid, phase_of st sid = PRegistered -> route st (key_of st sid) = Some sid).
Proof. intros st. destruct (reach ks ls) as [E R _]. split.
  - intros k sid H. apply lookup_In in H. destruct (E k sid H) as (A & B & _). auto.
  - exact R. Qed.

(* a refused handshake changes nothing of the registry nor of any other session *)
Theorem refusal_harmless st sid l : (l = LCheck sid \/ l = LRegister sid \/ l = LVerify sid) -> phase_of (step st l) sid = PRefused ->
  reg (step st l) = reg st /\ forall s, s <> sid -> sess (step st l) s = sess st s.
Proof. intros [->|[->| ->]] P; cbn [step] in *; destruct (phase_of st sid) eqn:Ph; try (split; [reflexivity|intros; reflexivity]).
  - unfold set_phase. cbn [reg sess]. split; [reflexivity|]. intros s N. rewrite fupd_eq. destruct (Nat.eqb_spec s sid); [contradiction|reflexivity].
  - destruct (mem _ _ && _) eqn:C.
    + unfold set_phase, phase_of in P. cbn [sess] in P. rewrite fupd_eq, Nat.eqb_refl in P. discriminate.
    + unfold set_phase. cbn [reg sess]. split; [reflexivity|]. intros s N. rewrite fupd_eq. destruct (Nat.eqb_spec s sid); [contradiction|reflexivity].
  - unfold set_phase. cbn [reg sess]. split; [reflexivity|]. intros s N. rewrite fupd_eq. destruct (Nat.eqb_spec s sid); [contradiction|reflexivity].
Qed.

(* the teardown of an old session never removes or hides another session *)
Theorem teardown_no_collateral ks ls sid k' s' : let st := exec (init ks) ls in
  s' <> sid -> route st k' = Some s' -> route (step st (LTeardown sid)) k' = Some s'.
Proof. intros st N H. unfold route in *. cbn [step]. destruct (phase_of st sid) eqn:P; try exact H.
  unfold set_phase. cbn [reg]. destruct (lookup (key_of st sid) (reg st)) as [s|] eqn:Lk; [|exact H].
  destruct (Nat.eqb_spec s sid) as [->|Ne]; [|exact H]. rewrite lookup_remove_key.
  destruct (Nat.eqb_spec k' (key_of st sid)) as [->|Nk]; [congruence|exact H]. Qed.
(* ... and it does remove its own registration *)
Theorem teardown_removes_own ks ls sid : let st := exec (init ks) ls in
  phase_of st sid = PClosing -> route st (key_of st sid) = Some sid -> route (step st (LTeardown sid)) (key_of st sid) = None.
Proof. intros st P H. unfold route in *. cbn [step]. rewrite P. unfold set_phase. cbn [reg]. rewrite H, Nat.eqb_refl, lookup_remove_key, Nat.eqb_refl. reflexivity. Qed.

(* C12: in every reachable state every registered session's key is listed *)
Theorem registered_are_listed ks ls k sid : let st := exec (init ks) ls in route st k = Some sid -> In k (allow st).
Proof. intros st H. destruct (reach ks ls) as [_ _ L]. apply mem_In. eapply L. apply lookup_In. exact H. Qed.

(* an update takes effect at once and completely: right after it, and ever after, no session of an
   unlisted key is registered; handshakes that were in progress cannot register later either *)
Theorem revocation_complete ks ls new ls2 k sid : let st := exec (step (exec (init ks) ls) (LUpdate new)) ls2 in
  (forall l, In l ls2 -> forall x, l <> LUpdate x) -> route st k = Some sid -> In k new.
Proof. intros st NoU H.
  assert (A : allow st = new).
  { unfold st. clear H. generalize (exec (init ks) ls). intros s0.
    assert (G : forall ls2 s, (forall l, In l ls2 -> forall x, l <> LUpdate x) -> allow (exec s ls2) = allow s).
    { clear. induction ls2 as [|l r IH]; intros s N; [reflexivity|]. cbn [exec fold_left]. change (fold_left step r (step s l)) with (exec (step s l) r).
      rewrite IH by (intros l' I; apply N; right; exact I).
      destruct l; cbn [step]; try reflexivity;
        try (destruct (phase_of s sid); try reflexivity; unfold set_phase; cbn [allow]; try reflexivity; destruct (mem _ _ && _); reflexivity).
      exfalso. eapply N; [left; reflexivity|reflexivity]. }
    rewrite G by exact NoU. cbn [step]. destruct (sweep new (reg s0) (sess s0)). reflexivity. }
  rewrite <- A. unfold st in *.
  assert (Eq : exec (step (exec (init ks) ls) (LUpdate new)) ls2 = exec (init ks) (ls ++ LUpdate new :: ls2)) by (unfold exec; rewrite fold_left_app; reflexivity).
  rewrite Eq in *. eapply registered_are_listed. exact H.
Qed.

(* ... and precisely: sessions of keys that stay listed are not touched *)
Theorem revocation_precise st new k : mem k new = true ->
  route (step st (LUpdate new)) k = route st k /\
  (forall sid, route st k = Some sid -> RInv st -> sess (step st (LUpdate new)) sid = sess st sid).
Proof. intros M. unfold route. cbn [step].
  pose proof (sweep_reg new (reg st) (sess st)) as SR. pose proof (sweep_key new (reg st) (sess st)) as SK. pose proof (sweep_phase new (reg st) (sess st)) as SP.
  destruct (sweep new (reg st) (sess st)) as [r' ss']. cbn [fst snd reg sess] in *. subst r'. split; [now rewrite lookup_filter, M|].
  intros sid H [E _ _]. specialize (SK sid). specialize (SP sid).
  assert (NS : existsb (swept new sid) (reg st) = false).
  { destruct (existsb (swept new sid) (reg st)) eqn:Ex; [|reflexivity]. apply existsb_exists in Ex as ([a v] & I & Sw). unfold swept in Sw. cbn [fst snd] in Sw.
    apply andb_prop in Sw as [Ev Nm]. apply Nat.eqb_eq in Ev. subst v. destruct (E a sid I) as (Ka & _ & _). destruct (E k sid (lookup_In _ _ _ H)) as (Kk & _ & _).
    unfold key_of in *. rewrite Ka in Kk. subst a. apply negb_true_iff in Nm. congruence. }
  rewrite NS in SP. destruct (ss' sid) as [k1 p1], (sess st sid) as [k2 p2]. cbn in *. congruence. Qed.
