From Coq Require Import List Bool NArith Arith Lia.
From WV Require Import Model.Session Proofs.DispatchP.
Import ListNotations.
Open Scope nat_scope.

(* ---------- list helpers ---------- *)
Lemma nth_error_upd {X} (l : list X) i x j :
  nth_error (upd l i x) j = if Nat.eqb i j then (match nth_error l j with Some _ => Some x | None => None end) else nth_error l j.
Proof. revert i j. induction l as [|y l IH]; intros i j; cbn [upd].
  - destruct (Nat.eqb i j); destruct j; reflexivity.
  - destruct i, j; cbn [nth_error Nat.eqb]; auto. Qed.
Lemma length_upd {X} (l : list X) i x : length (upd l i x) = length l.
Proof. revert i. induction l as [|y l IH]; intros [|i]; cbn [upd length]; auto. Qed.
Lemma nth_error_app_last {X} (l : list X) x : nth_error (l ++ [x]) (length l) = Some x.
Proof. rewrite nth_error_app2, Nat.sub_diag by lia. reflexivity. Qed.

(* ---------- stable facts ---------- *)
Definition call_at (s : state) (i : nat) (c : call) : Prop := exists st, nth_error (calls s) i = Some (c, st).
Definition h_at (s : state) (h : nat) (x : side) (r : req) (o : origin) : Prop :=
  exists hi, nth_error (hs s) h = Some hi /\ h_side hi = x /\ h_req hi = r /\ h_src hi = o.

Ltac unf := unfold set_pend, set_inq, set_calls, set_hs, set_up, pend, inq, svc in *.

Lemma calls_set_pend s x p : calls (set_pend s x p) = calls s. Proof. destruct x; reflexivity. Qed.
Lemma calls_set_inq s x q : calls (set_inq s x q) = calls s. Proof. destruct x; reflexivity. Qed.
Lemma hs_set_pend s x p : hs (set_pend s x p) = hs s. Proof. destruct x; reflexivity. Qed.
Lemma hs_set_inq s x q : hs (set_inq s x q) = hs s. Proof. destruct x; reflexivity. Qed.
Lemma pend_set_pend s x p y : pend (set_pend s x p) y = if side_eqb x y then p else pend s y.
Proof. destruct x, y; reflexivity. Qed.
Lemma pend_set_inq s x q y : pend (set_inq s x q) y = pend s y. Proof. destruct x, y; reflexivity. Qed.
Lemma inq_set_inq s x q y : inq (set_inq s x q) y = if side_eqb x y then q else inq s y.
Proof. destruct x, y; reflexivity. Qed.
Lemma inq_set_pend s x p y : inq (set_pend s x p) y = inq s y. Proof. destruct x, y; reflexivity. Qed.

(* the call records only grow, and only their state component changes *)
Lemma calls_step s l i c st : nth_error (calls s) i = Some (c, st) ->
  exists st', nth_error (calls (step s l)) i = Some (c, st').
Proof.
  intros H. assert (Hi : i < length (calls s)) by (apply nth_error_Some; congruence).
  destruct l as [c0 sent|to|h o|j|to m| |]; cbn [step].
  - destruct (negb (up s) || negb sent).
    + cbn [set_calls calls]. exists st. rewrite nth_error_app1; auto.
    + rewrite calls_set_inq, calls_set_pend. cbn [set_calls calls]. exists st. rewrite nth_error_app1; auto.
  - destruct (inq s to) as [|[m o] q]; [eauto|]. destruct m as [|r|p].
    + rewrite calls_set_inq. eauto.
    + destruct (accepts _ r); [cbn [set_hs calls]|]; rewrite calls_set_inq; eauto.
    + destruct (mem _ _); [|rewrite calls_set_inq; eauto].
      destruct (find_call _ _ _ _) as [k|]; [|rewrite calls_set_inq; eauto].
      cbn [set_calls calls]. rewrite calls_set_pend, calls_set_inq.
      rewrite nth_error_upd. destruct (Nat.eqb_spec k i) as [->|N]; [|eauto].
      rewrite H. erewrite nth_error_nth by exact H. cbn [fst]. eauto.
  - destruct (nth_error (hs s) h) as [hi|]; [|eauto]. destruct (h_out hi); [eauto|].
    destruct (up s); [rewrite calls_set_inq|]; cbn [set_hs calls]; eauto.
  - destruct (nth_error (calls s) j) as [[c1 [|]]|] eqn:E; eauto.
    cbn [set_calls calls]. rewrite calls_set_pend, nth_error_upd.
    destruct (Nat.eqb_spec j i) as [->|N]; [|eauto]. rewrite H. rewrite E in H. inversion H; subst. eauto.
  - destruct (up s); [rewrite calls_set_inq|]; eauto.
  - cbn [set_up calls]; eauto.
  - cbn [set_up calls]; eauto.
Qed.

Lemma call_at_step s l i c : call_at s i c -> call_at (step s l) i c.
Proof. intros [st H]. eapply calls_step; eauto. Qed.

Lemma length_calls_step s l : length (calls s) <= length (calls (step s l)).
Proof.
  destruct l as [c0 sent|to|h o|j|to m| |]; cbn [step].
  - destruct (negb (up s) || negb sent); [|rewrite calls_set_inq, calls_set_pend]; cbn [set_calls calls]; rewrite app_length; lia.
  - destruct (inq s to) as [|[m o] q]; [lia|]. destruct m as [|r|p].
    + rewrite calls_set_inq; lia.
    + destruct (accepts _ r); [cbn [set_hs calls]|]; rewrite calls_set_inq; lia.
    + destruct (mem _ _); [|rewrite calls_set_inq; lia]. destruct (find_call _ _ _ _); [|rewrite calls_set_inq; lia].
      cbn [set_calls calls]. rewrite length_upd, calls_set_pend, calls_set_inq. lia.
  - destruct (nth_error (hs s) h) as [hi|]; [|lia]. destruct (h_out hi); [lia|].
    destruct (up s); [rewrite calls_set_inq|]; cbn [set_hs calls]; lia.
  - destruct (nth_error (calls s) j) as [[c1 [|]]|]; try lia. cbn [set_calls calls]. rewrite length_upd, calls_set_pend. lia.
  - destruct (up s); [rewrite calls_set_inq|]; lia.
  - cbn; lia.
  - cbn; lia.
Qed.

(* handler instances only grow, and only their outcome changes *)
Lemma hs_step s l h hi : nth_error (hs s) h = Some hi ->
  exists hi', nth_error (hs (step s l)) h = Some hi' /\ h_side hi' = h_side hi /\ h_req hi' = h_req hi /\ h_src hi' = h_src hi /\
              (h_out hi <> None -> h_out hi' = h_out hi).
Proof.
  intros H. assert (Hl : h < length (hs s)) by (apply nth_error_Some; congruence).
  assert (Same : exists hi', nth_error (hs s) h = Some hi' /\ h_side hi' = h_side hi /\ h_req hi' = h_req hi /\ h_src hi' = h_src hi /\ (h_out hi <> None -> h_out hi' = h_out hi)) by (exists hi; auto).
  destruct l as [c0 sent|to|k o|j|to m| |]; cbn [step].
  - destruct (negb (up s) || negb sent); [|rewrite hs_set_inq, hs_set_pend]; exact Same.
  - destruct (inq s to) as [|[m o] q]; [exact Same|]. destruct m as [|r|p].
    + rewrite hs_set_inq; exact Same.
    + destruct (accepts _ r); [cbn [set_hs hs]; rewrite hs_set_inq, nth_error_app1 by exact Hl|rewrite hs_set_inq]; exact Same.
    + destruct (mem _ _); [|rewrite hs_set_inq; exact Same]. destruct (find_call _ _ _ _); [|rewrite hs_set_inq; exact Same].
      cbn [set_calls hs]. rewrite hs_set_pend, hs_set_inq. exact Same.
  - destruct (nth_error (hs s) k) as [hk|] eqn:E; [|exact Same]. destruct (h_out hk) eqn:O; [exact Same|].
    assert (G : exists hi', nth_error (upd (hs s) k {| h_side := h_side hk; h_req := h_req hk; h_src := h_src hk; h_out := Some o |}) h = Some hi' /\
                h_side hi' = h_side hi /\ h_req hi' = h_req hi /\ h_src hi' = h_src hi /\ (h_out hi <> None -> h_out hi' = h_out hi)).
    { rewrite nth_error_upd. destruct (Nat.eqb_spec k h) as [->|N]; [|exact Same].
      rewrite H. rewrite E in H. inversion H; subst. eexists; split; [reflexivity|]. cbn. repeat split; auto. intros C; congruence. }
    destruct (up s); [rewrite hs_set_inq|]; cbn [set_hs hs]; exact G.
  - destruct (nth_error (calls s) j) as [[c1 [|]]|]; try exact Same. cbn [set_calls hs]. rewrite hs_set_pend. exact Same.
  - destruct (up s); [rewrite hs_set_inq|]; exact Same.
  - exact Same.
  - exact Same.
Qed.

Lemma h_at_step s l h x r o : h_at s h x r o -> h_at (step s l) h x r o.
Proof. intros (hi & H & <- & <- & <-). destruct (hs_step s l h hi H) as (hi' & H' & A & B & C & _). exists hi'. auto. Qed.

(* ---------- C14: pending records = calls in flight ---------- *)
Definition is_pending (x : side) (m : call * cstate) : bool :=
  match snd m with CPending => side_eqb (c_from (fst m)) x | CDone _ _ => false end.
Definition inflight (s : state) (x : side) : list bytes := map (fun m => c_id (fst m)) (filter (is_pending x) (calls s)).
Definition ids (cs : list (call * cstate)) : list bytes := map (fun m => c_id (fst m)) cs.

Lemma side_eqb_eq x y : side_eqb x y = true <-> x = y. Proof. destruct x, y; cbn; split; congruence. Qed.
Lemma side_eqb_refl x : side_eqb x x = true. Proof. destruct x; reflexivity. Qed.

Lemma ids_upd cs i c st st' : nth_error cs i = Some (c, st) -> ids (upd cs i (c, st')) = ids cs.
Proof. revert i. induction cs as [|m cs IH]; intros [|i] H; cbn in *; try discriminate.
  - inversion H; subst. reflexivity.
  - unfold ids in *. cbn. f_equal. apply IH. exact H. Qed.

(* completing the pending call at position i removes exactly its id from the table of its side *)
Lemma inflight_done cs i c r v x : nth_error cs i = Some (c, CPending) -> NoDup (ids cs) ->
  map (fun m => c_id (fst m)) (filter (is_pending x) (upd cs i (c, CDone r v))) =
  if side_eqb (c_from c) x then remove1 (c_id c) (map (fun m => c_id (fst m)) (filter (is_pending x) cs))
  else map (fun m => c_id (fst m)) (filter (is_pending x) cs).
Proof.
  revert i. induction cs as [|m cs IH]; intros [|i] H ND; cbn in H; try discriminate.
  - inversion H; subst. cbn [upd filter is_pending snd fst].
    destruct (side_eqb (c_from c) x); [|reflexivity]. cbn [map remove1 fst]. rewrite (proj2 (beqb_eq _ _) eq_refl). reflexivity.
  - cbn [upd filter]. inversion ND as [|? ? NI ND']; subst. specialize (IH i H ND').
    destruct (is_pending x m) eqn:P; cbn [map]; rewrite IH; [|reflexivity].
    destruct (side_eqb (c_from c) x); [|reflexivity]. cbn [remove1].
    destruct (beqb (c_id c) (c_id (fst m))) eqn:E; [|reflexivity].
    exfalso. apply beqb_eq in E. apply NI. unfold ids. rewrite <- E.
    apply (in_map (fun m => c_id (fst m))) with (x := (c, CPending)). eapply nth_error_In; eauto. Qed.

Lemma find_call_spec cs x id : forall k i, find_call cs x id k = Some i ->
  exists j c, i = k + j /\ nth_error cs j = Some (c, CPending) /\ c_from c = x /\ c_id c = id.
Proof. induction cs as [|[c st] cs IH]; intros k i H; cbn [find_call] in H; [discriminate|].
  destruct st.
  - destruct (side_eqb (c_from c) x && beqb (c_id c) id) eqn:E.
    + inversion H; subst. apply andb_prop in E as [E1 E2]. exists 0, c. rewrite Nat.add_0_r.
      repeat split; auto; [now apply side_eqb_eq|now apply beqb_eq].
    + destruct (IH _ _ H) as (j & c' & -> & N & A & B). exists (S j), c'. repeat split; auto; lia.
  - destruct (IH _ _ H) as (j & c' & -> & N & A & B). exists (S j), c'. repeat split; auto; lia. Qed.

Lemma NoDup_app_remove_r {X} (a b : list X) : NoDup (a ++ b) -> NoDup a.
Proof. induction a as [|x a IH]; cbn [app]; intros H; [constructor|]. inversion H as [|? ? NI ND]; subst.
  constructor; [intros I; apply NI; apply in_or_app; auto|auto]. Qed.

Definition PInv (s : state) : Prop := forall x, pend s x = inflight s x.

Lemma filter_app_single {X} (f : X -> bool) l x : filter f (l ++ [x]) = filter f l ++ (if f x then [x] else []).
Proof. rewrite filter_app. reflexivity. Qed.

Lemma PInv_step s l : PInv s -> NoDup (ids (calls s) ++ call_ids [l]) -> PInv (step s l) /\ ids (calls (step s l)) = ids (calls s) ++ call_ids [l].
Proof.
  intros P ND. assert (NDc : NoDup (ids (calls s))) by (eapply NoDup_app_remove_r; eauto).
  destruct l as [c0 sent|to|h o|j|to m| |]; cbn [step call_ids].
  - destruct (negb (up s) || negb sent).
    + split; [|unfold ids; cbn [set_calls calls]; now rewrite map_app].
      intros x. unfold inflight. cbn [set_calls calls pend pendA pendB]. rewrite filter_app_single. cbn [is_pending snd]. rewrite app_nil_r.
      specialize (P x). destruct x; exact P.
    + split; [|unfold ids; rewrite calls_set_inq, calls_set_pend; cbn [set_calls calls]; now rewrite map_app].
      intros x. unfold inflight. rewrite pend_set_inq, pend_set_pend, calls_set_inq, calls_set_pend. cbn [set_calls calls].
      rewrite filter_app_single. cbn [is_pending snd fst]. rewrite map_app.
      replace (pend (set_calls s (calls s ++ [(c0, CPending)])) x) with (pend s x) by (destruct x; reflexivity).
      replace (pend (set_calls s (calls s ++ [(c0, CPending)])) (c_from c0)) with (pend s (c_from c0)) by (destruct (c_from c0); reflexivity).
      destruct (side_eqb (c_from c0) x) eqn:E.
      * apply side_eqb_eq in E. subst x. rewrite (P (c_from c0)). reflexivity.
      * rewrite app_nil_r. apply P.
  - rewrite app_nil_r. destruct (inq s to) as [|[m o] q]; [auto|]. destruct m as [|r|p].
    + split; [|now rewrite calls_set_inq]. intros x. unfold inflight. rewrite pend_set_inq, calls_set_inq. apply P.
    + destruct (accepts _ r); (split; [|cbn [set_hs calls]; now rewrite calls_set_inq]); intros x; unfold inflight; cbn [set_hs calls pend pendA pendB];
        try (rewrite pend_set_inq, calls_set_inq; apply P).
      specialize (P x). unfold inflight in P. destruct to, x; cbn in *; exact P.
    + destruct (mem _ _); [|split; [|now rewrite calls_set_inq]; intros x; unfold inflight; rewrite pend_set_inq, calls_set_inq; apply P].
      destruct (find_call _ _ _ _) as [k|] eqn:F; [|split; [|now rewrite calls_set_inq]; intros x; unfold inflight; rewrite pend_set_inq, calls_set_inq; apply P].
      destruct (find_call_spec _ _ _ _ _ F) as (j & c & -> & N & A & B). cbn [plus] in *.
      assert (Nth : nth j (calls (set_pend (set_inq s to q) to (remove1 (p_callid p) (pend (set_inq s to q) to)))) ({| c_from := Session.A; c_meth := []; c_pl := []; c_id := [] |}, CPending) = (c, CPending)).
      { rewrite calls_set_pend, calls_set_inq. apply nth_error_nth. exact N. }
      rewrite Nth. cbn [fst]. split.
      * intros x. unfold inflight. cbn [set_calls calls]. rewrite calls_set_pend, calls_set_inq.
        rewrite (inflight_done _ _ _ _ _ x N NDc).
        replace (pend (set_calls (set_pend (set_inq s to q) to (remove1 (p_callid p) (pend (set_inq s to q) to))) (upd (calls s) j (c, CDone (result_of p) o))) x)
          with (pend (set_pend (set_inq s to q) to (remove1 (p_callid p) (pend (set_inq s to q) to))) x) by (destruct x; reflexivity).
        rewrite pend_set_pend, !pend_set_inq. subst to. rewrite B.
        destruct (side_eqb (c_from c) x) eqn:E; [apply side_eqb_eq in E; subst x; now rewrite (P (c_from c))|apply P].
      * cbn [set_calls calls]. rewrite calls_set_pend, calls_set_inq. eapply ids_upd; eauto.
  - rewrite app_nil_r. destruct (nth_error (hs s) h) as [hi|]; [|auto]. destruct (h_out hi); [auto|].
    destruct (up s); (split; [|try rewrite calls_set_inq; reflexivity]); intros x; unfold inflight; try rewrite pend_set_inq, calls_set_inq; cbn [set_hs calls];
      specialize (P x); unfold inflight in P; destruct x; exact P.
  - rewrite app_nil_r. destruct (nth_error (calls s) j) as [[c1 [|]]|] eqn:E; auto.
    split.
    + intros x. unfold inflight. cbn [set_calls calls]. rewrite calls_set_pend. rewrite (inflight_done _ _ _ _ _ x E NDc).
      replace (pend (set_calls (set_pend s (c_from c1) (remove1 (c_id c1) (pend s (c_from c1)))) (upd (calls s) j (c1, CDone RTimeout (OCall j)))) x)
        with (pend (set_pend s (c_from c1) (remove1 (c_id c1) (pend s (c_from c1)))) x) by (destruct x; reflexivity).
      rewrite pend_set_pend. destruct (side_eqb (c_from c1) x) eqn:E2; [apply side_eqb_eq in E2; subst x; now rewrite (P (c_from c1))|apply P].
    + cbn [set_calls calls]. rewrite calls_set_pend. eapply ids_upd; eauto.
  - rewrite app_nil_r. destruct (up s); [|auto]. split; [|now rewrite calls_set_inq]. intros x. unfold inflight. rewrite pend_set_inq, calls_set_inq. apply P.
  - rewrite app_nil_r. split; [|reflexivity]. intros x. specialize (P x). unfold inflight in *. destruct x; exact P.
  - rewrite app_nil_r. split; [|reflexivity]. intros x. specialize (P x). unfold inflight in *. destruct x; exact P.
Qed.

Lemma call_ids_app a b : call_ids (a ++ b) = call_ids a ++ call_ids b.
Proof. induction a as [|l a IH]; cbn [app call_ids]; [reflexivity|]. destruct l; cbn [app]; rewrite ?IH; reflexivity. Qed.

Lemma call_ids_cons l ls : call_ids (l :: ls) = call_ids [l] ++ call_ids ls.
Proof. destruct l; reflexivity. Qed.

Lemma PInv_exec : forall ls s, PInv s -> NoDup (ids (calls s) ++ call_ids ls) ->
  PInv (exec s ls) /\ ids (calls (exec s ls)) = ids (calls s) ++ call_ids ls.
Proof.
  induction ls as [|l ls IH]; intros s P ND; [cbn [exec fold_left call_ids]; rewrite app_nil_r; auto|].
  rewrite call_ids_cons, app_assoc in ND.
  destruct (PInv_step s l P) as [P' E]; [eapply NoDup_app_remove_r; eauto|].
  destruct (IH (step s l) P') as [P'' E'']; [rewrite E; exact ND|].
  split; [exact P''|]. change (exec s (l :: ls)) with (exec (step s l) ls). rewrite E'', E, (call_ids_cons l ls), <- app_assoc. reflexivity. Qed.

Theorem pending_eq_inflight sa sb ls : NoDup (call_ids ls) ->
  forall x, pend (exec (init sa sb) ls) x = inflight (exec (init sa sb) ls) x.
Proof. intros ND. apply PInv_exec; [intros x; destruct x; reflexivity|exact ND]. Qed.

(* ---------- C01: well-founded frames, handler instances and results ---------- *)
Definition req_of (c : call) : req := {| r_method := c_meth c; r_callid := c_id c; r_payload := c_pl c |}.
Definition resp_for (r : req) (o : outcome) : resp :=
  match o with
  | Reply v => {| p_callid := r_callid r; p_payload := v; p_error := [] |}
  | FailWith v e => {| p_callid := r_callid r; p_payload := v; p_error := e |}
  | FailBare e => {| p_callid := r_callid r; p_payload := []; p_error := e |} end.

Definition item_ok (s : state) (x : side) (it : msg * origin) : Prop :=
  match snd it with
  | OCall i => exists c, call_at s i c /\ fst it = MReq (req_of c) /\ c_from c = other x
  | OHandler h => exists hi o, nth_error (hs s) h = Some hi /\ h_out hi = Some o /\ fst it = MResp (resp_for (h_req hi) o) /\ h_side hi = other x
  | OInjected => True
  end.
Definition h_ok (s : state) (hi : hinst) : Prop :=
  match h_src hi with
  | OCall i => exists c, call_at s i c /\ h_req hi = req_of c /\ c_from c = other (h_side hi)
  | OHandler _ => False
  | OInjected => True end.
Definition done_ok (s : state) (i : nat) (c : call) (st : cstate) : Prop :=
  match st with
  | CPending => True
  | CDone r (OCall j) => j = i /\ (r = RTimeout \/ r = RSendFail)
  | CDone r (OHandler h) => exists hi o, nth_error (hs s) h = Some hi /\ h_out hi = Some o /\ r = result_of (resp_for (h_req hi) o) /\
                             h_side hi = other (c_from c) /\ r_callid (h_req hi) = c_id c /\ (h_src hi = OCall i \/ h_src hi = OInjected)
  | CDone r OInjected => True
  end.
Definition WInv (s : state) : Prop :=
  (forall x, Forall (item_ok s x) (inq s x)) /\ Forall (h_ok s) (hs s) /\
  (forall i c st, nth_error (calls s) i = Some (c, st) -> done_ok s i c st).

Lemma item_ok_step s l x it : item_ok s x it -> item_ok (step s l) x it.
Proof. unfold item_ok. destruct (snd it) as [i|h|]; auto.
  - intros (c & C & E & F). exists c. split; [now apply call_at_step|auto].
  - intros (hi & o & N & O & E & F). destruct (hs_step s l h hi N) as (hi' & N' & A & B & C & D).
    exists hi', o. rewrite B, A. repeat split; auto. rewrite D; [exact O|congruence]. Qed.
Lemma h_ok_step s l hi hi' : h_ok s hi -> h_side hi' = h_side hi -> h_req hi' = h_req hi -> h_src hi' = h_src hi -> h_ok (step s l) hi'.
Proof. unfold h_ok. intros H A B C. rewrite C. destruct (h_src hi) as [i|h|]; auto.
  destruct H as (c & Ca & E & F). exists c. rewrite B, A. split; [now apply call_at_step|auto]. Qed.
Lemma done_ok_step s l i c st : done_ok s i c st -> done_ok (step s l) i c st.
Proof. unfold done_ok. destruct st as [|r [j|h|]]; auto.
  intros (hi & o & N & O & R & S & I & Src). destruct (hs_step s l h hi N) as (hi' & N' & A & B & C & D).
  exists hi', o. rewrite B, A, C. repeat split; auto. rewrite D; [exact O|congruence]. Qed.

Lemma Forall_item_step s l x q : Forall (item_ok s x) q -> Forall (item_ok (step s l) x) q.
Proof. intros H. eapply Forall_impl; [|exact H]. intros it. apply item_ok_step. Qed.

Lemma same_id_same_call cs i j ci cj sti stj : NoDup (ids cs) ->
  nth_error cs i = Some (ci, sti) -> nth_error cs j = Some (cj, stj) -> c_id ci = c_id cj -> i = j.
Proof. intros ND Hi Hj E. unfold ids in ND.
  assert (Ai : nth_error (map (fun m => c_id (fst m)) cs) i = Some (c_id ci)) by (rewrite nth_error_map, Hi; reflexivity).
  assert (Aj : nth_error (map (fun m => c_id (fst m)) cs) j = Some (c_id ci)) by (rewrite nth_error_map, Hj, E; reflexivity).
  eapply NoDup_nth_error; eauto; [apply nth_error_Some; congruence|congruence]. Qed.

(* ---- what a step does to the three components the invariant talks about ---- *)
Definition frame_of_call (c : call) (n : nat) : msg * origin := (MReq (req_of c), OCall n).
Definition done_hinst (hi : hinst) (o : outcome) : hinst := {| h_side := h_side hi; h_req := h_req hi; h_src := h_src hi; h_out := Some o |}.

Lemma view_call_fail s c sent : negb (up s) || negb sent = true ->
  (forall x, inq (step s (LCall c sent)) x = inq s x) /\ hs (step s (LCall c sent)) = hs s /\
  calls (step s (LCall c sent)) = calls s ++ [(c, CDone RSendFail (OCall (length (calls s))))].
Proof. intros F. cbn [step]. rewrite F. split; [intros x; destruct x; reflexivity|split; reflexivity]. Qed.
Lemma view_call_ok s c sent : negb (up s) || negb sent = false ->
  (forall x, inq (step s (LCall c sent)) x = if side_eqb (other (c_from c)) x then inq s x ++ [frame_of_call c (length (calls s))] else inq s x) /\
  hs (step s (LCall c sent)) = hs s /\ calls (step s (LCall c sent)) = calls s ++ [(c, CPending)].
Proof. intros F. cbn [step]. rewrite F. split; [intros x; destruct x, (c_from c); reflexivity|split; [destruct (c_from c); reflexivity|destruct (c_from c); reflexivity]]. Qed.
Lemma view_deliver_nil s to : inq s to = [] -> step s (LDeliver to) = s.
Proof. intros E. cbn [step]. now rewrite E. Qed.
Lemma view_deliver_drop s to m o q : inq s to = (m, o) :: q ->
  (match m with MNone => True | MReq r => accepts (ep_of s to) r = false
   | MResp p => mem (p_callid p) (pend s to) = false \/ find_call (calls s) to (p_callid p) 0 = None end) ->
  (forall x, inq (step s (LDeliver to)) x = if side_eqb to x then q else inq s x) /\ hs (step s (LDeliver to)) = hs s /\ calls (step s (LDeliver to)) = calls s.
Proof. intros E C. cbn [step]. rewrite E. destruct m as [|r|p].
  - split; [intros x; destruct x, to; reflexivity|split; destruct to; reflexivity].
  - rewrite C. split; [intros x; destruct x, to; reflexivity|split; destruct to; reflexivity].
  - destruct (mem _ _); [destruct C as [C|C]; [discriminate|rewrite C]|]; (split; [intros x; destruct x, to; reflexivity|split; destruct to; reflexivity]). Qed.
Lemma view_deliver_run s to r o q : inq s to = (MReq r, o) :: q -> accepts (ep_of s to) r = true ->
  (forall x, inq (step s (LDeliver to)) x = if side_eqb to x then q else inq s x) /\
  hs (step s (LDeliver to)) = hs s ++ [{| h_side := to; h_req := r; h_src := o; h_out := None |}] /\ calls (step s (LDeliver to)) = calls s.
Proof. intros E C. cbn [step]. rewrite E, C. split; [intros x; destruct x, to; reflexivity|split; destruct to; reflexivity]. Qed.
Lemma view_deliver_resp s to p o q j c : inq s to = (MResp p, o) :: q -> mem (p_callid p) (pend s to) = true ->
  find_call (calls s) to (p_callid p) 0 = Some j -> nth_error (calls s) j = Some (c, CPending) ->
  (forall x, inq (step s (LDeliver to)) x = if side_eqb to x then q else inq s x) /\ hs (step s (LDeliver to)) = hs s /\
  calls (step s (LDeliver to)) = upd (calls s) j (c, CDone (result_of p) o).
Proof. intros E M F N. cbn [step]. rewrite E, M, F. rewrite calls_set_pend, calls_set_inq. erewrite nth_error_nth by exact N. cbn [fst].
  split; [intros x; destruct x, to; reflexivity|split; destruct to; reflexivity]. Qed.
Lemma view_ret_up s h hi o : nth_error (hs s) h = Some hi -> h_out hi = None -> up s = true ->
  (forall x, inq (step s (LRet h o)) x = if side_eqb (other (h_side hi)) x then inq s x ++ [(MResp (resp_for (h_req hi) o), OHandler h)] else inq s x) /\
  hs (step s (LRet h o)) = upd (hs s) h (done_hinst hi o) /\ calls (step s (LRet h o)) = calls s.
Proof. intros N O U. cbn [step]. rewrite N, O, U. unfold done_hinst. destruct (h_side hi) eqn:S; (split; [intros x; destruct x, o; reflexivity|split; reflexivity]). Qed.
Lemma view_ret_down s h hi o : nth_error (hs s) h = Some hi -> h_out hi = None -> up s = false ->
  (forall x, inq (step s (LRet h o)) x = inq s x) /\ hs (step s (LRet h o)) = upd (hs s) h (done_hinst hi o) /\ calls (step s (LRet h o)) = calls s.
Proof. intros N O U. cbn [step]. rewrite N, O, U. split; [intros x; destruct x; reflexivity|split; reflexivity]. Qed.
Lemma view_ret_noop s h o : (nth_error (hs s) h = None \/ exists hi oo, nth_error (hs s) h = Some hi /\ h_out hi = Some oo) -> step s (LRet h o) = s.
Proof. intros [N|(hi & oo & N & O)]; cbn [step]; rewrite N; [reflexivity|now rewrite O]. Qed.
Lemma view_ctx s j c : nth_error (calls s) j = Some (c, CPending) ->
  (forall x, inq (step s (LCtx j)) x = inq s x) /\ hs (step s (LCtx j)) = hs s /\ calls (step s (LCtx j)) = upd (calls s) j (c, CDone RTimeout (OCall j)).
Proof. intros N. cbn [step]. rewrite N. split; [intros x; destruct x, (c_from c); reflexivity|split; destruct (c_from c); reflexivity]. Qed.
Lemma view_ctx_noop s j : (nth_error (calls s) j = None \/ exists c r v, nth_error (calls s) j = Some (c, CDone r v)) -> step s (LCtx j) = s.
Proof. intros [N|(c & r & v & N)]; cbn [step]; rewrite N; reflexivity. Qed.
Lemma view_inject s to m : up s = true ->
  (forall x, inq (step s (LInject to m)) x = if side_eqb to x then inq s x ++ [(m, OInjected)] else inq s x) /\
  hs (step s (LInject to m)) = hs s /\ calls (step s (LInject to m)) = calls s.
Proof. intros U. cbn [step]. rewrite U. split; [intros x; destruct x, to; reflexivity|split; destruct to; reflexivity]. Qed.
Lemma view_down s : (forall x, inq (step s LDown) x = []) /\ hs (step s LDown) = hs s /\ calls (step s LDown) = calls s.
Proof. cbn [step set_up]. split; [intros x; destruct x; reflexivity|split; reflexivity]. Qed.
Lemma view_up s : (forall x, inq (step s LUp) x = inq s x) /\ hs (step s LUp) = hs s /\ calls (step s LUp) = calls s.
Proof. cbn [step set_up]. split; [intros x; destruct x; reflexivity|split; reflexivity]. Qed.

(* generic closing argument: old frames, instances and results stay fine; only what is new needs a reason *)
Lemma WInv_close s s' :
  (forall x it, item_ok s x it -> item_ok s' x it) ->
  (forall h hi hi', nth_error (hs s) h = Some hi -> nth_error (hs s') h = Some hi' -> h_ok s hi -> h_ok s' hi') ->
  (forall i c st, done_ok s i c st -> done_ok s' i c st) ->
  WInv s ->
  (forall x it, In it (inq s' x) -> In it (inq s x) \/ item_ok s' x it) ->
  (forall h hi', nth_error (hs s') h = Some hi' -> (exists hi, nth_error (hs s) h = Some hi) \/ h_ok s' hi') ->
  (forall i c st, nth_error (calls s') i = Some (c, st) -> nth_error (calls s) i = Some (c, st) \/ done_ok s' i c st) ->
  WInv s'.
Proof. intros MI MH MD (Q & H & D) NQ NH NDn. split; [|split].
  - intros x. apply Forall_forall. intros it I. destruct (NQ x it I) as [Old|New]; [|exact New].
    apply MI. specialize (Q x). rewrite Forall_forall in Q. auto.
  - apply Forall_forall. intros hi' I. apply In_nth_error in I as [h N]. destruct (NH h hi' N) as [[hi Old]|New]; [|exact New].
    eapply MH; eauto. rewrite Forall_forall in H. apply H. eapply nth_error_In; eauto.
  - intros i c st N. destruct (NDn i c st N) as [Old|New]; [|exact New]. apply MD. eapply D; eauto. Qed.

Lemma WInv_step s l : WInv s -> NoDup (ids (calls s)) -> WInv (step s l).
Proof.
  intros W ND. pose proof W as (Q & H & D).
  apply (WInv_close s (step s l)); auto.
  - intros x it. apply item_ok_step.
  - intros h hi hi' N N' Ok. destruct (hs_step s l h hi N) as (hi2 & N2 & A & B & C & _). rewrite N' in N2. inversion N2; subst hi2. eapply h_ok_step; eauto.
  - intros i c st. apply done_ok_step.
  - (* frames *)
    intros x it I. destruct l as [c0 sent|to|h o|j|to m| |].
    + destruct (negb (up s) || negb sent) eqn:Fl.
      * destruct (view_call_fail s c0 sent Fl) as (E & _). rewrite E in I. auto.
      * destruct (view_call_ok s c0 sent Fl) as (E & _ & Ec). rewrite E in I. destruct (side_eqb (other (c_from c0)) x) eqn:Ex; [|auto].
        apply in_app_or in I as [I|[<-|[]]]; [auto|]. right. unfold item_ok, frame_of_call. cbn [snd fst]. exists c0.
        split; [exists CPending; rewrite Ec; apply nth_error_app_last|split; [reflexivity|]]. apply side_eqb_eq in Ex. subst x. destruct (c_from c0); reflexivity.
    + destruct (inq s to) as [|[m o] q] eqn:IQ; [rewrite (view_deliver_nil s to IQ) in I; auto|].
      assert (Sub : forall x it, In it (if side_eqb to x then q else inq s x) -> In it (inq s x)).
      { intros y it0 I0. destruct (side_eqb to y) eqn:Ey; [apply side_eqb_eq in Ey; subst y; rewrite IQ; right; exact I0|exact I0]. }
      destruct m as [|r|p].
      * destruct (view_deliver_drop s to MNone o q IQ Logic.I) as (E & _). rewrite E in I. left. eapply Sub; eauto.
      * destruct (accepts (ep_of s to) r) eqn:Acc.
        -- destruct (view_deliver_run s to r o q IQ Acc) as (E & _). rewrite E in I. left. eapply Sub; eauto.
        -- destruct (view_deliver_drop s to (MReq r) o q IQ Acc) as (E & _). rewrite E in I. left. eapply Sub; eauto.
      * destruct (mem (p_callid p) (pend s to)) eqn:Mem; [|destruct (view_deliver_drop s to (MResp p) o q IQ (or_introl Mem)) as (E & _); rewrite E in I; left; eapply Sub; eauto].
        destruct (find_call (calls s) to (p_callid p) 0) as [k|] eqn:F; [|destruct (view_deliver_drop s to (MResp p) o q IQ (or_intror F)) as (E & _); rewrite E in I; left; eapply Sub; eauto].
        destruct (find_call_spec _ _ _ _ _ F) as (j & c & -> & N & _). cbn [plus] in *.
        destruct (view_deliver_resp s to p o q j c IQ Mem F N) as (E & _). rewrite E in I. left. eapply Sub; eauto.
    + destruct (nth_error (hs s) h) as [hi|] eqn:Nh; [|rewrite (view_ret_noop s h o (or_introl Nh)) in I; auto].
      destruct (h_out hi) as [oo|] eqn:Oh; [rewrite (view_ret_noop s h o) in I; [auto|right; eauto]|].
      destruct (up s) eqn:Up.
      * destruct (view_ret_up s h hi o Nh Oh Up) as (E & Eh & _). rewrite E in I. destruct (side_eqb (other (h_side hi)) x) eqn:Ex; [|auto].
        apply in_app_or in I as [I|[<-|[]]]; [auto|]. right. unfold item_ok. cbn [snd fst]. exists (done_hinst hi o), o.
        rewrite Eh, nth_error_upd, Nat.eqb_refl, Nh. cbn [done_hinst h_out h_req h_side]. repeat split. apply side_eqb_eq in Ex. subst x. destruct (h_side hi); reflexivity.
      * destruct (view_ret_down s h hi o Nh Oh Up) as (E & _). rewrite E in I. auto.
    + destruct (nth_error (calls s) j) as [[c1 [|r1 v1]]|] eqn:E.
      * destruct (view_ctx s j c1 E) as (Ei & _). rewrite Ei in I. auto.
      * rewrite (view_ctx_noop s j) in I; [auto|right; eauto].
      * rewrite (view_ctx_noop s j (or_introl E)) in I. auto.
    + destruct (up s) eqn:Up; [|cbn [step] in I; rewrite Up in I; auto].
      destruct (view_inject s to m Up) as (E & _). rewrite E in I. destruct (side_eqb to x); [|auto].
      apply in_app_or in I as [I|[<-|[]]]; [auto|]. right. exact Logic.I.
    + destruct (view_down s) as (E & _). rewrite E in I. destruct I.
    + destruct (view_up s) as (E & _). rewrite E in I. auto.
  - (* handler instances *)
    intros h hi' N. destruct (Nat.lt_ge_cases h (length (hs s))) as [L|G].
    { left. destruct (nth_error (hs s) h) eqn:E; [eauto|apply nth_error_None in E; lia]. }
    right. destruct l as [c0 sent|to|h0 o|j|to m| |].
    + exfalso. destruct (negb (up s) || negb sent) eqn:Fl; [destruct (view_call_fail s c0 sent Fl) as (_ & E & _)|destruct (view_call_ok s c0 sent Fl) as (_ & E & _)];
        rewrite E in N; apply nth_error_None in G; congruence.
    + destruct (inq s to) as [|[m o] q] eqn:IQ; [exfalso; rewrite (view_deliver_nil s to IQ) in N; apply nth_error_None in G; congruence|].
      destruct m as [|r|p].
      * exfalso. destruct (view_deliver_drop s to MNone o q IQ Logic.I) as (_ & E & _). rewrite E in N. apply nth_error_None in G; congruence.
      * destruct (accepts (ep_of s to) r) eqn:Acc.
        -- destruct (view_deliver_run s to r o q IQ Acc) as (_ & E & Ec). rewrite E in N. rewrite nth_error_app2 in N by exact G.
           destruct (h - length (hs s)) as [|k]; [|destruct k; discriminate]. cbn in N. inversion N; subst hi'.
           unfold h_ok. cbn [h_src h_req h_side].
           assert (Hit : item_ok (step s (LDeliver to)) to (MReq r, o)).
           { apply item_ok_step. specialize (Q to). rewrite IQ in Q. inversion Q; auto. }
           unfold item_ok in Hit. cbn [snd fst] in Hit. destruct o as [i|h2|]; auto.
           ++ destruct Hit as (c & Ca & Er & Fr). inversion Er; subst r. exists c. repeat split; auto; try (destruct to, (c_from c); cbn in *; congruence).
           ++ destruct Hit as (hi & oo & _ & _ & Er & _). discriminate.
        -- exfalso. destruct (view_deliver_drop s to (MReq r) o q IQ Acc) as (_ & E & _). rewrite E in N. apply nth_error_None in G; congruence.
      * exfalso. destruct (mem (p_callid p) (pend s to)) eqn:Mem; [|destruct (view_deliver_drop s to (MResp p) o q IQ (or_introl Mem)) as (_ & E & _); rewrite E in N; apply nth_error_None in G; congruence].
        destruct (find_call (calls s) to (p_callid p) 0) as [k|] eqn:F; [|destruct (view_deliver_drop s to (MResp p) o q IQ (or_intror F)) as (_ & E & _); rewrite E in N; apply nth_error_None in G; congruence].
        destruct (find_call_spec _ _ _ _ _ F) as (j & c & -> & Nc & _). cbn [plus] in *.
        destruct (view_deliver_resp s to p o q j c IQ Mem F Nc) as (_ & E & _). rewrite E in N. apply nth_error_None in G; congruence.
    + exfalso. destruct (nth_error (hs s) h0) as [hi|] eqn:Nh; [|rewrite (view_ret_noop s h0 o (or_introl Nh)) in N; apply nth_error_None in G; congruence].
      destruct (h_out hi) as [oo|] eqn:Oh; [rewrite (view_ret_noop s h0 o) in N; [apply nth_error_None in G; congruence|right; eauto]|].
      assert (E : hs (step s (LRet h0 o)) = upd (hs s) h0 (done_hinst hi o)) by (destruct (up s) eqn:Up; [apply (view_ret_up s h0 hi o Nh Oh Up)|apply (view_ret_down s h0 hi o Nh Oh Up)]).
      rewrite E, nth_error_upd in N. apply nth_error_None in G. rewrite G in N. destruct (Nat.eqb h0 h); discriminate.
    + exfalso. destruct (nth_error (calls s) j) as [[c1 [|r1 v1]]|] eqn:E.
      * destruct (view_ctx s j c1 E) as (_ & Eh & _). rewrite Eh in N. apply nth_error_None in G; congruence.
      * rewrite (view_ctx_noop s j) in N; [apply nth_error_None in G; congruence|right; eauto].
      * rewrite (view_ctx_noop s j (or_introl E)) in N. apply nth_error_None in G; congruence.
    + exfalso. destruct (up s) eqn:Up; [destruct (view_inject s to m Up) as (_ & E & _); rewrite E in N|cbn [step] in N; rewrite Up in N]; apply nth_error_None in G; congruence.
    + exfalso. destruct (view_down s) as (_ & E & _). rewrite E in N. apply nth_error_None in G; congruence.
    + exfalso. destruct (view_up s) as (_ & E & _). rewrite E in N. apply nth_error_None in G; congruence.
  - (* results *)
    intros i c st N. destruct l as [c0 sent|to|h o|j|to m| |].
    + destruct (negb (up s) || negb sent) eqn:Fl.
      * destruct (view_call_fail s c0 sent Fl) as (_ & _ & E). rewrite E in N. destruct (Nat.lt_ge_cases i (length (calls s))) as [L|G].
        -- rewrite nth_error_app1 in N by exact L. auto.
        -- rewrite nth_error_app2 in N by exact G. destruct (i - length (calls s)) as [|k] eqn:K; [|destruct k; discriminate]. cbn in N. inversion N; subst. right. cbn. split; [lia|auto].
      * destruct (view_call_ok s c0 sent Fl) as (_ & _ & E). rewrite E in N. destruct (Nat.lt_ge_cases i (length (calls s))) as [L|G].
        -- rewrite nth_error_app1 in N by exact L. auto.
        -- rewrite nth_error_app2 in N by exact G. destruct (i - length (calls s)) as [|k]; [|destruct k; discriminate]. cbn in N. inversion N; subst. right. exact Logic.I.
    + destruct (inq s to) as [|[m o] q] eqn:IQ; [rewrite (view_deliver_nil s to IQ) in N; auto|].
      destruct m as [|r|p].
      * destruct (view_deliver_drop s to MNone o q IQ Logic.I) as (_ & _ & E). rewrite E in N. auto.
      * destruct (accepts (ep_of s to) r) eqn:Acc; [destruct (view_deliver_run s to r o q IQ Acc) as (_ & _ & E)|destruct (view_deliver_drop s to (MReq r) o q IQ Acc) as (_ & _ & E)]; rewrite E in N; auto.
      * destruct (mem (p_callid p) (pend s to)) eqn:Mem; [|destruct (view_deliver_drop s to (MResp p) o q IQ (or_introl Mem)) as (_ & _ & E); rewrite E in N; auto].
        destruct (find_call (calls s) to (p_callid p) 0) as [k|] eqn:F; [|destruct (view_deliver_drop s to (MResp p) o q IQ (or_intror F)) as (_ & _ & E); rewrite E in N; auto].
        destruct (find_call_spec _ _ _ _ _ F) as (j & cj & -> & Nc & A & B). cbn [plus] in *.
        destruct (view_deliver_resp s to p o q j cj IQ Mem F Nc) as (_ & Eh & E). rewrite E, nth_error_upd in N.
        destruct (Nat.eqb_spec j i) as [->|Ne]; [|auto]. rewrite Nc in N. inversion N; subst c st. right.
        assert (Hit : item_ok (step s (LDeliver to)) to (MResp p, o)).
        { apply item_ok_step. specialize (Q to). rewrite IQ in Q. inversion Q; auto. }
        unfold done_ok. unfold item_ok in Hit. cbn [snd fst] in Hit. destruct o as [i2|h2|]; auto.
        -- destruct Hit as (c2 & _ & Er & _). discriminate.
        -- destruct Hit as (hi & oo & Nh & Oh & Er & Sd). inversion Er; subst p. exists hi, oo.
           assert (Idc : r_callid (h_req hi) = c_id cj) by (rewrite B; destruct oo; reflexivity).
           repeat split; auto; [rewrite Sd, A; destruct to; reflexivity|].
           rewrite Eh in Nh. rewrite Forall_forall in H. pose proof (H hi (nth_error_In _ _ Nh)) as Hok. unfold h_ok in Hok.
           destruct (h_src hi) as [i3|h3|] eqn:Src; [|contradiction|auto]. left. f_equal.
           destruct Hok as (c3 & (st3 & N3) & E3 & F3). symmetry. eapply same_id_same_call; eauto. rewrite <- Idc, E3. reflexivity.
    + destruct (nth_error (hs s) h) as [hi|] eqn:Nh; [|rewrite (view_ret_noop s h o (or_introl Nh)) in N; auto].
      destruct (h_out hi) as [oo|] eqn:Oh; [rewrite (view_ret_noop s h o) in N; [auto|right; eauto]|].
      assert (E : calls (step s (LRet h o)) = calls s) by (destruct (up s) eqn:Up; [apply (view_ret_up s h hi o Nh Oh Up)|apply (view_ret_down s h hi o Nh Oh Up)]).
      rewrite E in N. auto.
    + destruct (nth_error (calls s) j) as [[c1 [|r1 v1]]|] eqn:E.
      * destruct (view_ctx s j c1 E) as (_ & _ & Ec). rewrite Ec, nth_error_upd in N. destruct (Nat.eqb_spec j i) as [->|Ne]; [|auto].
        rewrite E in N. inversion N; subst. right. cbn. auto.
      * rewrite (view_ctx_noop s j) in N; [auto|right; eauto].
      * rewrite (view_ctx_noop s j (or_introl E)) in N. auto.
    + destruct (up s) eqn:Up; [destruct (view_inject s to m Up) as (_ & _ & E); rewrite E in N|cbn [step] in N; rewrite Up in N]; auto.
    + destruct (view_down s) as (_ & _ & E). rewrite E in N. auto.
    + destruct (view_up s) as (_ & _ & E). rewrite E in N. auto.
Qed.

Lemma ids_step s l : NoDup (ids (calls s) ++ call_ids [l]) -> ids (calls (step s l)) = ids (calls s) ++ call_ids [l].
Proof. intros ND.
  assert (P : forall s0, PInv s0 \/ True) by (intros; right; exact I).
  (* reuse the computation done for PInv_step, which does not depend on PInv for this half *)
  destruct l as [c0 sent|to|h o|j|to m| |]; cbn [call_ids].
  - destruct (negb (up s) || negb sent) eqn:Fl; [destruct (view_call_fail s c0 sent Fl) as (_ & _ & E)|destruct (view_call_ok s c0 sent Fl) as (_ & _ & E)];
      rewrite E; unfold ids; now rewrite map_app.
  - rewrite app_nil_r. destruct (inq s to) as [|[m o] q] eqn:IQ; [now rewrite (view_deliver_nil s to IQ)|]. destruct m as [|r|p].
    + destruct (view_deliver_drop s to MNone o q IQ Logic.I) as (_ & _ & E). now rewrite E.
    + destruct (accepts (ep_of s to) r) eqn:Acc; [destruct (view_deliver_run s to r o q IQ Acc) as (_ & _ & E)|destruct (view_deliver_drop s to (MReq r) o q IQ Acc) as (_ & _ & E)]; now rewrite E.
    + destruct (mem (p_callid p) (pend s to)) eqn:Mem; [|destruct (view_deliver_drop s to (MResp p) o q IQ (or_introl Mem)) as (_ & _ & E); now rewrite E].
      destruct (find_call (calls s) to (p_callid p) 0) as [k|] eqn:F; [|destruct (view_deliver_drop s to (MResp p) o q IQ (or_intror F)) as (_ & _ & E); now rewrite E].
      destruct (find_call_spec _ _ _ _ _ F) as (j & cj & -> & Nc & A & B). cbn [plus] in *.
      destruct (view_deliver_resp s to p o q j cj IQ Mem F Nc) as (_ & _ & E). rewrite E. eapply ids_upd; eauto.
  - rewrite app_nil_r. destruct (nth_error (hs s) h) as [hi|] eqn:Nh; [|now rewrite (view_ret_noop s h o (or_introl Nh))].
    destruct (h_out hi) as [oo|] eqn:Oh; [rewrite (view_ret_noop s h o); [reflexivity|right; eauto]|].
    destruct (up s) eqn:Up; [destruct (view_ret_up s h hi o Nh Oh Up) as (_ & _ & E)|destruct (view_ret_down s h hi o Nh Oh Up) as (_ & _ & E)]; now rewrite E.
  - rewrite app_nil_r. destruct (nth_error (calls s) j) as [[c1 [|r1 v1]]|] eqn:E.
    + destruct (view_ctx s j c1 E) as (_ & _ & Ec). rewrite Ec. eapply ids_upd; eauto.
    + rewrite (view_ctx_noop s j); [reflexivity|right; eauto].
    + now rewrite (view_ctx_noop s j (or_introl E)).
  - rewrite app_nil_r. destruct (up s) eqn:Up; [destruct (view_inject s to m Up) as (_ & _ & E); now rewrite E|cbn [step]; now rewrite Up].
  - rewrite app_nil_r. destruct (view_down s) as (_ & _ & E). now rewrite E.
  - rewrite app_nil_r. destruct (view_up s) as (_ & _ & E). now rewrite E.
Qed.

Lemma WInv_init sa sb : WInv (init sa sb).
Proof. split; [|split]; [intros x; destruct x; constructor|constructor|intros i c st N; destruct i; discriminate]. Qed.

Lemma WInv_exec : forall ls s, WInv s -> NoDup (ids (calls s) ++ call_ids ls) -> WInv (exec s ls).
Proof. induction ls as [|l ls IH]; intros s W ND; [exact W|].
  rewrite call_ids_cons, app_assoc in ND. change (exec s (l :: ls)) with (exec (step s l) ls).
  apply IH; [apply WInv_step; [exact W|eapply NoDup_app_remove_r, NoDup_app_remove_r; eauto]|].
  rewrite ids_step; [exact ND|eapply NoDup_app_remove_r; eauto]. Qed.

(* ---------- honest histories: nothing is injected ---------- *)
Definition clean (o : origin) : Prop := o <> OInjected.
Definition HInv (s : state) : Prop :=
  (forall x, Forall (fun it => clean (snd it)) (inq s x)) /\ Forall (fun hi => clean (h_src hi)) (hs s) /\
  (forall i c r via, nth_error (calls s) i = Some (c, CDone r via) -> clean via).

Lemma Forall_upd {X} (P : X -> Prop) l i x : Forall P l -> P x -> Forall P (upd l i x).
Proof. revert i. induction l as [|y l IH]; intros [|i] H Px; cbn [upd]; auto; inversion H; subst; constructor; auto. Qed.

Lemma HInv_step s l : HInv s -> (forall to m, l <> LInject to m) -> HInv (step s l).
Proof.
  intros (Q & H & D) NI.
  assert (Qsub : forall to q x, (forall it, In it q -> In it (inq s to)) -> Forall (fun it => clean (snd it)) (if side_eqb to x then q else inq s x)).
  { intros to q x Sub. destruct (side_eqb to x); [|apply Q]. apply Forall_forall. intros it I. specialize (Q to). rewrite Forall_forall in Q. auto. }
  destruct l as [c0 sent|to|h o|j|to m| |].
  - destruct (negb (up s) || negb sent) eqn:Fl.
    + destruct (view_call_fail s c0 sent Fl) as (E1 & E2 & E3). split; [|split].
      * intros x. rewrite E1. apply Q.
      * rewrite E2. exact H.
      * intros i c r via N. rewrite E3 in N. destruct (Nat.lt_ge_cases i (length (calls s))) as [L|G].
        -- rewrite nth_error_app1 in N by exact L. eapply D; eauto.
        -- rewrite nth_error_app2 in N by exact G. destruct (i - length (calls s)) as [|k]; [|destruct k; discriminate]. cbn in N. inversion N; subst. discriminate.
    + destruct (view_call_ok s c0 sent Fl) as (E1 & E2 & E3). split; [|split].
      * intros x. rewrite E1. destruct (side_eqb _ x); [|apply Q]. apply Forall_app. split; [apply Q|constructor; [discriminate|constructor]].
      * rewrite E2. exact H.
      * intros i c r via N. rewrite E3 in N. destruct (Nat.lt_ge_cases i (length (calls s))) as [L|G].
        -- rewrite nth_error_app1 in N by exact L. eapply D; eauto.
        -- rewrite nth_error_app2 in N by exact G. destruct (i - length (calls s)) as [|k]; [|destruct k; discriminate]. cbn in N. inversion N.
  - destruct (inq s to) as [|[m o] q] eqn:IQ; [rewrite (view_deliver_nil s to IQ); split; [|split]; auto|].
    assert (Co : clean o) by (specialize (Q to); rewrite IQ in Q; inversion Q; auto).
    assert (Sub : forall it, In it q -> In it (inq s to)) by (intros it I; rewrite IQ; right; exact I).
    destruct m as [|r|p].
    + destruct (view_deliver_drop s to MNone o q IQ Logic.I) as (E1 & E2 & E3). split; [|split]; [intros x; rewrite E1; apply Qsub; auto|rewrite E2; exact H|rewrite E3; exact D].
    + destruct (accepts (ep_of s to) r) eqn:Acc.
      * destruct (view_deliver_run s to r o q IQ Acc) as (E1 & E2 & E3). split; [|split]; [intros x; rewrite E1; apply Qsub; auto| |rewrite E3; exact D].
        rewrite E2. apply Forall_app. split; [exact H|constructor; [exact Co|constructor]].
      * destruct (view_deliver_drop s to (MReq r) o q IQ Acc) as (E1 & E2 & E3). split; [|split]; [intros x; rewrite E1; apply Qsub; auto|rewrite E2; exact H|rewrite E3; exact D].
    + destruct (mem (p_callid p) (pend s to)) eqn:Mem; [|destruct (view_deliver_drop s to (MResp p) o q IQ (or_introl Mem)) as (E1 & E2 & E3); split; [|split]; [intros x; rewrite E1; apply Qsub; auto|rewrite E2; exact H|rewrite E3; exact D]].
      destruct (find_call (calls s) to (p_callid p) 0) as [k|] eqn:F; [|destruct (view_deliver_drop s to (MResp p) o q IQ (or_intror F)) as (E1 & E2 & E3); split; [|split]; [intros x; rewrite E1; apply Qsub; auto|rewrite E2; exact H|rewrite E3; exact D]].
      destruct (find_call_spec _ _ _ _ _ F) as (j & cj & -> & Nc & A & B). cbn [plus] in *.
      destruct (view_deliver_resp s to p o q j cj IQ Mem F Nc) as (E1 & E2 & E3). split; [|split]; [intros x; rewrite E1; apply Qsub; auto|rewrite E2; exact H|].
      intros i c r via N. rewrite E3, nth_error_upd in N. destruct (Nat.eqb_spec j i) as [->|Ne]; [|eapply D; eauto].
      rewrite Nc in N. inversion N; subst. exact Co.
  - destruct (nth_error (hs s) h) as [hi|] eqn:Nh; [|rewrite (view_ret_noop s h o (or_introl Nh)); split; [|split]; auto].
    destruct (h_out hi) as [oo|] eqn:Oh; [rewrite (view_ret_noop s h o); [split; [|split]; auto|right; eauto]|].
    assert (Ch : clean (h_src hi)) by (rewrite Forall_forall in H; apply H; eapply nth_error_In; eauto).
    destruct (up s) eqn:Up.
    + destruct (view_ret_up s h hi o Nh Oh Up) as (E1 & E2 & E3). split; [|split]; [| |rewrite E3; exact D].
      * intros x. rewrite E1. destruct (side_eqb _ x); [|apply Q]. apply Forall_app. split; [apply Q|constructor; [discriminate|constructor]].
      * rewrite E2. apply Forall_upd; auto.
    + destruct (view_ret_down s h hi o Nh Oh Up) as (E1 & E2 & E3). split; [|split]; [intros x; rewrite E1; apply Q| |rewrite E3; exact D].
      rewrite E2. apply Forall_upd; auto.
  - destruct (nth_error (calls s) j) as [[c1 [|r1 v1]]|] eqn:E.
    + destruct (view_ctx s j c1 E) as (E1 & E2 & E3). split; [|split]; [intros x; rewrite E1; apply Q|rewrite E2; exact H|].
      intros i c r via N. rewrite E3, nth_error_upd in N. destruct (Nat.eqb_spec j i) as [->|Ne]; [|eapply D; eauto]. rewrite E in N. inversion N; subst. discriminate.
    + rewrite (view_ctx_noop s j); [split; [|split]; auto|right; eauto].
    + rewrite (view_ctx_noop s j (or_introl E)). split; [|split]; auto.
  - exfalso. eapply NI; reflexivity.
  - destruct (view_down s) as (E1 & E2 & E3). split; [|split]; [intros x; rewrite E1; constructor|rewrite E2; exact H|rewrite E3; exact D].
  - destruct (view_up s) as (E1 & E2 & E3). split; [|split]; [intros x; rewrite E1; apply Q|rewrite E2; exact H|rewrite E3; exact D].
Qed.

Lemma HInv_exec : forall ls s, HInv s -> honest ls -> HInv (exec s ls).
Proof. induction ls as [|l ls IH]; intros s Hs Ho; [exact Hs|]. change (exec s (l :: ls)) with (exec (step s l) ls).
  apply IH; [apply HInv_step; [exact Hs|intros to m E; apply (Ho to m); left; now symmetry]|intros to m I; apply (Ho to m); right; exact I]. Qed.

Lemma HInv_init sa sb : HInv (init sa sb).
Proof. split; [|split]; [intros x; destruct x; constructor|constructor|intros i c r via N; destruct i; discriminate]. Qed.

(* ---------- the statement of C01 ---------- *)
Theorem own_outcome sa sb ls : NoDup (call_ids ls) -> honest ls ->
  let s := exec (init sa sb) ls in
  forall i c r via, nth_error (calls s) i = Some (c, CDone r via) ->
    (via = OCall i /\ (r = RTimeout \/ r = RSendFail)) \/
    (exists h hi o, via = OHandler h /\ nth_error (hs s) h = Some hi /\ h_src hi = OCall i /\ h_side hi = other (c_from c) /\
                    h_req hi = req_of c /\ h_out hi = Some o /\ r = result_of (resp_for (req_of c) o)).
Proof.
  intros ND Ho s i c r via N.
  assert (W : WInv s) by (apply WInv_exec; [apply WInv_init|exact ND]).
  assert (Hh : HInv s) by (apply HInv_exec; [apply HInv_init|exact Ho]).
  destruct W as (_ & Hk & D). destruct Hh as (_ & Hc & Dc). specialize (D i c _ N). specialize (Dc i c r via N).
  unfold done_ok in D. destruct via as [j|h|]; [|right|contradiction Dc; reflexivity].
  - left. destruct D as [-> D]. auto.
  - destruct D as (hi & o & Nh & Oh & R & Sd & Idc & Src). exists h, hi, o.
    rewrite Forall_forall in Hc. pose proof (Hc hi (nth_error_In _ _ Nh)) as Cl. destruct Src as [Src|Src]; [|contradiction].
    rewrite Forall_forall in Hk. pose proof (Hk hi (nth_error_In _ _ Nh)) as Ok. unfold h_ok in Ok. rewrite Src in Ok.
    destruct Ok as (c' & (st' & N') & Er & Fr). rewrite N in N'. inversion N'; subst c'.
    repeat split; auto. now rewrite <- Er.
Qed.

(* what a handler outcome means for the caller *)
Lemma result_reply r v : result_of (resp_for r (Reply v)) = RReply v. Proof. reflexivity. Qed.
Lemma result_fail_with r v e : e <> [] -> result_of (resp_for r (FailWith v e)) = RRemote e.
Proof. intros H. unfold result_of. cbn. destruct e; [contradiction|reflexivity]. Qed.
Lemma result_fail_bare r e : e <> [] -> result_of (resp_for r (FailBare e)) = RRemote e.
Proof. intros H. unfold result_of. cbn. destruct e; [contradiction|reflexivity]. Qed.

(* ---------- C05: at most one execution per call; at most one response per execution ---------- *)
Definition is_ocall (i : nat) (o : origin) : bool := match o with OCall j => Nat.eqb i j | _ => false end.
Definition cnt (i : nat) (l : list origin) : nat := length (filter (is_ocall i) l).
Definition origins (s : state) : list origin := map snd (inq s A) ++ map snd (inq s B) ++ map h_src (hs s).
Definition UInv (s : state) : Prop := forall i, cnt i (origins s) <= 1 /\ (length (calls s) <= i -> cnt i (origins s) = 0).

Lemma cnt_app i a b : cnt i (a ++ b) = cnt i a + cnt i b.
Proof. unfold cnt. now rewrite filter_app, app_length. Qed.
Lemma cnt_origins i s : cnt i (origins s) = cnt i (map snd (inq s A)) + cnt i (map snd (inq s B)) + cnt i (map h_src (hs s)).
Proof. unfold origins. rewrite !cnt_app. lia. Qed.
Lemma map_src_upd l h hi o : nth_error l h = Some hi -> map h_src (upd l h (done_hinst hi o)) = map h_src l.
Proof. revert h. induction l as [|y l IH]; intros [|h] N; cbn in *; try discriminate; [inversion N; subst; reflexivity|f_equal; auto]. Qed.

Lemma UInv_step s l : UInv s -> UInv (step s l).
Proof.
  intros U i. pose proof (U i) as [U1 U0]. rewrite cnt_origins in U1, U0. rewrite cnt_origins.
  pose proof (length_calls_step s l) as Len.
  assert (Same : forall s', (forall x, inq s' x = inq s x) -> map h_src (hs s') = map h_src (hs s) -> length (calls s) <= length (calls s') ->
            cnt i (map snd (inq s' A)) + cnt i (map snd (inq s' B)) + cnt i (map h_src (hs s')) <= 1 /\
            (length (calls s') <= i -> cnt i (map snd (inq s' A)) + cnt i (map snd (inq s' B)) + cnt i (map h_src (hs s')) = 0)).
  { intros s' E1 E2 E3. rewrite !E1, E2. split; [exact U1|intros L; apply U0; lia]. }
  destruct l as [c0 sent|to|h o|j|to m| |].
  - destruct (negb (up s) || negb sent) eqn:Fl.
    + destruct (view_call_fail s c0 sent Fl) as (E1 & E2 & E3). apply Same; auto. now rewrite E2.
    + destruct (view_call_ok s c0 sent Fl) as (E1 & E2 & E3). rewrite !E1, E2, E3, app_length. cbn [length].
      assert (New : forall x, cnt i (map snd (if side_eqb (other (c_from c0)) x then inq s x ++ [frame_of_call c0 (length (calls s))] else inq s x))
                     = cnt i (map snd (inq s x)) + (if side_eqb (other (c_from c0)) x then (if Nat.eqb i (length (calls s)) then 1 else 0) else 0)).
      { intros x. destruct (side_eqb _ x); [|lia]. rewrite map_app, cnt_app. cbn [map snd frame_of_call]. unfold cnt at 2. cbn [filter is_ocall]. destruct (Nat.eqb i (length (calls s))); reflexivity. }
      rewrite !New. destruct (Nat.eqb_spec i (length (calls s))) as [->|Ne].
      * specialize (U0 (Nat.le_refl _)). destruct (c_from c0); cbn [other side_eqb]; split; lia.
      * destruct (c_from c0); cbn [other side_eqb]; split; try lia; intros L; apply U0; lia.
  - destruct (inq s to) as [|[m o] q] eqn:IQ; [rewrite (view_deliver_nil s to IQ); split; [exact U1|exact U0] |].
    assert (Pop : forall x, cnt i (map snd (if side_eqb to x then q else inq s x)) + (if side_eqb to x then cnt i [o] else 0) = cnt i (map snd (inq s x))).
    { intros x. destruct (side_eqb to x) eqn:E; [|lia]. apply side_eqb_eq in E. subst x. rewrite IQ. cbn [map snd]. change (o :: map snd q) with ([o] ++ map snd q). rewrite cnt_app. lia. }
    pose proof (Pop A) as PA. pose proof (Pop B) as PB.
    assert (Drop : forall s', (forall x, inq s' x = if side_eqb to x then q else inq s x) -> map h_src (hs s') = map h_src (hs s) -> length (calls s) <= length (calls s') ->
            cnt i (map snd (inq s' A)) + cnt i (map snd (inq s' B)) + cnt i (map h_src (hs s')) <= 1 /\
            (length (calls s') <= i -> cnt i (map snd (inq s' A)) + cnt i (map snd (inq s' B)) + cnt i (map h_src (hs s')) = 0)).
    { intros s' E1 E2 E3. rewrite !E1, E2. split; [lia|intros L; assert (length (calls s) <= i) by lia; specialize (U0 H); lia]. }
    destruct m as [|r|p].
    + destruct (view_deliver_drop s to MNone o q IQ Logic.I) as (E1 & E2 & E3). apply Drop; auto. now rewrite E2.
    + destruct (accepts (ep_of s to) r) eqn:Acc.
      * destruct (view_deliver_run s to r o q IQ Acc) as (E1 & E2 & E3). rewrite !E1, E2, E3, map_app, cnt_app. cbn [map h_src].
        destruct to; cbn [side_eqb] in *; split; try lia; intros L; specialize (U0 L); lia.
      * destruct (view_deliver_drop s to (MReq r) o q IQ Acc) as (E1 & E2 & E3). apply Drop; auto. now rewrite E2.
    + destruct (mem (p_callid p) (pend s to)) eqn:Mem; [|destruct (view_deliver_drop s to (MResp p) o q IQ (or_introl Mem)) as (E1 & E2 & E3); apply Drop; auto; now rewrite E2].
      destruct (find_call (calls s) to (p_callid p) 0) as [k|] eqn:F; [|destruct (view_deliver_drop s to (MResp p) o q IQ (or_intror F)) as (E1 & E2 & E3); apply Drop; auto; now rewrite E2].
      destruct (find_call_spec _ _ _ _ _ F) as (j & cj & -> & Nc & _). cbn [plus] in *.
      destruct (view_deliver_resp s to p o q j cj IQ Mem F Nc) as (E1 & E2 & E3). apply Drop; auto; try (now rewrite E2); try (rewrite E3, length_upd; lia).
  - destruct (nth_error (hs s) h) as [hi|] eqn:Nh; [|rewrite (view_ret_noop s h o (or_introl Nh)); split; [exact U1|exact U0]].
    destruct (h_out hi) as [oo|] eqn:Oh; [rewrite (view_ret_noop s h o); [split; [exact U1|exact U0]|right; eauto]|].
    destruct (up s) eqn:Up.
    + destruct (view_ret_up s h hi o Nh Oh Up) as (E1 & E2 & E3). rewrite !E1, E2, E3, (map_src_upd _ _ _ _ Nh).
      assert (New : forall x, cnt i (map snd (if side_eqb (other (h_side hi)) x then inq s x ++ [(MResp (resp_for (h_req hi) o), OHandler h)] else inq s x)) = cnt i (map snd (inq s x))).
      { intros x. destruct (side_eqb _ x); [|reflexivity]. rewrite map_app, cnt_app. cbn. lia. }
      rewrite !New. split; [exact U1|exact U0].
    + destruct (view_ret_down s h hi o Nh Oh Up) as (E1 & E2 & E3). apply Same; auto; try (rewrite E2; apply (map_src_upd _ _ _ _ Nh)); try lia.
  - destruct (nth_error (calls s) j) as [[c1 [|r1 v1]]|] eqn:E.
    + destruct (view_ctx s j c1 E) as (E1 & E2 & E3). apply Same; auto; try (now rewrite E2); try (rewrite E3, length_upd; lia).
    + rewrite (view_ctx_noop s j); [split; [exact U1|exact U0]|right; eauto].
    + rewrite (view_ctx_noop s j (or_introl E)). split; [exact U1|exact U0].
  - destruct (up s) eqn:Up; [|cbn [step]; rewrite Up; split; [exact U1|exact U0]].
    destruct (view_inject s to m Up) as (E1 & E2 & E3). rewrite !E1, E2, E3.
    assert (New : forall x, cnt i (map snd (if side_eqb to x then inq s x ++ [(m, OInjected)] else inq s x)) = cnt i (map snd (inq s x))).
    { intros x. destruct (side_eqb to x); [|reflexivity]. rewrite map_app, cnt_app. cbn. lia. }
    rewrite !New. split; [exact U1|exact U0].
  - destruct (view_down s) as (E1 & E2 & E3). rewrite !E1, E2, E3. cbn [map]. change (cnt i []) with 0. split; [lia|intros L; specialize (U0 L); lia].
  - destruct (view_up s) as (E1 & E2 & E3). apply Same; auto; try (now rewrite E2); try lia.
Qed.

Lemma UInv_exec : forall ls s, UInv s -> UInv (exec s ls).
Proof. induction ls as [|l ls IH]; intros s U; [exact U|]. change (exec s (l :: ls)) with (exec (step s l) ls). apply IH, UInv_step, U. Qed.

(* for every history whatsoever, at most one handler instance is started by the request frame of a call *)
Theorem at_most_once sa sb ls i : cnt i (map h_src (hs (exec (init sa sb) ls))) <= 1.
Proof. assert (U : UInv (exec (init sa sb) ls)) by (apply UInv_exec; intros k; split; [cbn; lia|intros _; reflexivity]).
  destruct (U i) as [U1 _]. rewrite cnt_origins in U1. lia. Qed.

(* ---------- at most one response frame per handler instance ---------- *)
Definition AInv (s : state) : Prop :=
  NoDup (answered s) /\ (forall h, In h (answered s) -> exists hi o, nth_error (hs s) h = Some hi /\ h_out hi = Some o).

Lemma answered_set_inq s x q : answered (set_inq s x q) = answered s. Proof. destruct x; reflexivity. Qed.
Lemma answered_set_pend s x q : answered (set_pend s x q) = answered s. Proof. destruct x; reflexivity. Qed.

Lemma answered_step s l : answered (step s l) = answered s \/
  exists h hi o, l = LRet h o /\ nth_error (hs s) h = Some hi /\ h_out hi = None /\ up s = true /\ answered (step s l) = answered s ++ [h].
Proof. destruct l as [c0 sent|to|h o|j|to m| |]; cbn [step].
  - left. destruct (negb (up s) || negb sent); [reflexivity|]. now rewrite answered_set_inq, answered_set_pend.
  - left. destruct (inq s to) as [|[m o] q]; [reflexivity|]. destruct m as [|r|p]; [now rewrite answered_set_inq| |].
    + destruct (accepts _ r); [cbn [set_hs answered]|]; now rewrite answered_set_inq.
    + destruct (mem _ _); [|now rewrite answered_set_inq]. destruct (find_call _ _ _ _); [|now rewrite answered_set_inq].
      cbn [set_calls answered]. now rewrite answered_set_pend, answered_set_inq.
  - destruct (nth_error (hs s) h) as [hi|] eqn:Nh; [|left; reflexivity]. destruct (h_out hi) eqn:Oh; [left; reflexivity|].
    destruct (up s) eqn:Up; [right; exists h, hi, o; rewrite answered_set_inq; cbn [set_hs answered]; auto|left; reflexivity].
  - left. destruct (nth_error (calls s) j) as [[c1 [|]]|]; try reflexivity. cbn [set_calls answered]. now rewrite answered_set_pend.
  - left. destruct (up s); [now rewrite answered_set_inq|reflexivity].
  - left; reflexivity.
  - left; reflexivity.
Qed.

Lemma NoDup_app_last {X} (l : list X) x : NoDup l /\ ~ In x l -> NoDup (l ++ [x]).
Proof. intros [ND NI]. induction l as [|y l IH]; cbn [app]; [constructor; [intros []|constructor]|].
  inversion ND; subst. constructor.
  - intros I. apply in_app_or in I as [I|[<-|[]]]; [contradiction|apply NI; left; reflexivity].
  - apply IH; [assumption|intros I; apply NI; right; exact I]. Qed.

Lemma AInv_step s l : AInv s -> AInv (step s l).
Proof. intros (ND & Ex).
  assert (Keep : forall h, (exists hi o, nth_error (hs s) h = Some hi /\ h_out hi = Some o) -> exists hi o, nth_error (hs (step s l)) h = Some hi /\ h_out hi = Some o).
  { intros h (hi & o & N & O). destruct (hs_step s l h hi N) as (hi' & N' & _ & _ & _ & K). exists hi', o. split; [exact N'|]. rewrite K; [exact O|congruence]. }
  unfold AInv. destruct (answered_step s l) as [E|(h & hi & o & -> & N & O & U & E)]; rewrite E.
  - split; [exact ND|]. intros h I. apply Keep, Ex, I.
  - split.
    + apply NoDup_app_last. split; [exact ND|]. intros I. destruct (Ex h I) as (hi2 & o2 & N2 & O2). rewrite N in N2. inversion N2; subst. congruence.
    + intros h2 I. apply in_app_or in I as [I|[<-|[]]]; [apply Keep, Ex, I|].
      destruct (view_ret_up s h hi o N O U) as (_ & Eh & _). exists (done_hinst hi o), o. rewrite Eh, nth_error_upd, Nat.eqb_refl, N. split; reflexivity.
Qed.

Lemma AInv_exec : forall ls s, AInv s -> AInv (exec s ls).
Proof. induction ls as [|l ls IH]; intros s U; [exact U|]. change (exec s (l :: ls)) with (exec (step s l) ls). apply IH, AInv_step, U. Qed.

(* no handler instance is ever answered twice; one that returns while the session is up is answered *)
Theorem single_response sa sb ls : NoDup (answered (exec (init sa sb) ls)).
Proof. apply AInv_exec. split; [constructor|intros h []]. Qed.
Theorem answered_when_up s h hi o : nth_error (hs s) h = Some hi -> h_out hi = None -> up s = true ->
  In h (answered (step s (LRet h o))) /\
  In (MResp (resp_for (h_req hi) o), OHandler h) (inq (step s (LRet h o)) (other (h_side hi))).
Proof. intros N O U. destruct (view_ret_up s h hi o N O U) as (E1 & _).
  split.
  - destruct (answered_step s (LRet h o)) as [E|(h2 & hi2 & o2 & Eq & _ & _ & _ & E)].
    + exfalso. cbn [step] in E. rewrite N, O, U in E. rewrite answered_set_inq in E. cbn [set_hs answered] in E.
      assert (L : length (answered s ++ [h]) = length (answered s)) by (now rewrite E). rewrite app_length in L. cbn in L. lia.
    + inversion Eq; subst. rewrite E. apply in_or_app. right. left. reflexivity.
  - rewrite E1, side_eqb_refl. apply in_or_app. right. left. reflexivity. Qed.

(* distinct calls are served by distinct handler instances *)
Theorem distinct_calls_distinct_handlers sa sb ls : NoDup (call_ids ls) -> honest ls ->
  let s := exec (init sa sb) ls in
  forall i i' c c' r r' h, nth_error (calls s) i = Some (c, CDone r (OHandler h)) ->
    nth_error (calls s) i' = Some (c', CDone r' (OHandler h)) -> i = i'.
Proof. intros ND Ho s i i' c c' r r' h N N'.
  destruct (own_outcome sa sb ls ND Ho i c r _ N) as [[E _]|(h1 & hi1 & o1 & E1 & Nh1 & S1 & _)]; [discriminate|].
  destruct (own_outcome sa sb ls ND Ho i' c' r' _ N') as [[E _]|(h2 & hi2 & o2 & E2 & Nh2 & S2 & _)]; [discriminate|].
  inversion E1; inversion E2; subst h1 h2. fold s in Nh1, Nh2. rewrite Nh1 in Nh2. inversion Nh2; subst hi2. rewrite S1 in S2. now inversion S2. Qed.

Lemma filter_none_pending x : forall l : list (call * cstate), (forall m, In m l -> snd m <> CPending) -> filter (is_pending x) l = [].
Proof. induction l as [|m l IH]; intros Q; [reflexivity|]. cbn [filter].
  assert (Qm : snd m <> CPending) by (apply Q; left; reflexivity). unfold is_pending at 1.
  destruct (snd m); [contradiction|]. apply IH. intros m' I. apply Q. right. exact I. Qed.
Theorem empty_at_quiescence sa sb ls : NoDup (call_ids ls) ->
  (forall m, In m (calls (exec (init sa sb) ls)) -> snd m <> CPending) -> forall x, pend (exec (init sa sb) ls) x = [].
Proof. intros ND Q x. rewrite pending_eq_inflight by exact ND. unfold inflight. now rewrite filter_none_pending. Qed.
Lemma resp_for_callid r o : p_callid (resp_for r o) = r_callid r. Proof. destruct o; reflexivity. Qed.
