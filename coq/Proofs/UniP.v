From Coq Require Import List Bool NArith ZArith Arith Lia.
From WV Require Import Model.Uni Proofs.WireP.
Import ListNotations.

(* ---------- interpret ---------- *)
Open Scope N_scope.

Definition outcome_of (p : resp) : result :=
  match p_error p with
  | [] => match dec_resp (length (p_payload p)) resp0 (p_payload p) with Good v => RReply v | _ => RBadReply end
  | e => RRemote e end.

Lemma interpret_frame p b : small_msg (MResp p) -> encode (MResp p) = Some b -> interpret b = outcome_of p.
Proof.
  intros S E. assert (W : wf (MResp p) = true) by (destruct (wf (MResp p)) eqn:W; [reflexivity|]; apply encode_none in W; congruence).
  destruct (roundtrip (MResp p) W S) as (b' & E' & D). rewrite E in E'. inversion E'; subst b'.
  unfold interpret. rewrite D. reflexivity.
Qed.

(* the outcome does not depend on the call id the response carries *)
Lemma interpret_ignores_callid id1 id2 pl e b1 b2 :
  let p1 := {| p_callid := id1; p_payload := pl; p_error := e |} in
  let p2 := {| p_callid := id2; p_payload := pl; p_error := e |} in
  small_msg (MResp p1) -> small_msg (MResp p2) ->
  encode (MResp p1) = Some b1 -> encode (MResp p2) = Some b2 -> interpret b1 = interpret b2.
Proof. intros p1 p2 S1 S2 E1 E2. rewrite (interpret_frame p1 b1 S1 E1), (interpret_frame p2 b2 S2 E2). reflexivity. Qed.

Definition from_frame (r : result) : Prop :=
  match r with RCtx | RConnErr | RStuck => False | _ => True end.

Lemma interpret_from_frame f : from_frame (interpret f).
Proof. unfold interpret. destruct (decode f) as [[|q|p]| |]; cbn; auto.
  destruct (p_error p); [destruct (dec_resp _ _ _)|]; cbn; auto. Qed.

(* ---------- invoke ---------- *)
Fixpoint connects (tr : list op) : N :=
  match tr with [] => 0 | OConnect :: r => 1 + connects r | _ :: r => connects r end.
Lemma connects_app a b : connects (a ++ b) = connects a + connects b.
Proof. induction a as [|x a IH]; cbn [app connects]; [lia|]. destruct x; rewrite ?IH; lia. Qed.
Lemma connects_w dl c : connects (w_ops dl c) = 0. Proof. destruct dl; reflexivity. Qed.
Lemma connects_wr dl c : connects (wr_ops dl c) = 0. Proof. destruct dl; reflexivity. Qed.

Definition ends_with (tr suffix : list op) : Prop := exists pre, tr = pre ++ suffix.

(* Main invariant of the loop: a result that is not the context's or connectFn's error
   is the interpretation of a frame that was read, and that frame was read right after
   the request had been written on the newest connection. *)
Lemma invoke_sound : forall fuel dl conn next s tr r tr' s',
  invoke fuel dl conn next s tr = (r, tr', s') -> conn = connects tr -> next = conn + 1 ->
  from_frame r ->
  exists frame b, In (EvRead (Some frame) b) s /\ r = interpret frame /\
                  ends_with tr' (wr_ops dl (connects tr')).
Proof.
  induction fuel as [|f IH]; intros dl conn next s tr r tr' s' H Hc Hn Hr; [cbn in H; inversion H; subst; contradiction|].
  cbn [invoke] in H.
  destruct s as [|[wok wc|rr rc|cok] s1]; try (inversion H; subst; contradiction).
  destruct wok.
  - destruct s1 as [|[wok2 wc2|[frame|] rc|cok] s2]; try (inversion H; subst; contradiction).
    + inversion H; subst. exists frame, rc. split; [right; left; reflexivity|]. split; [reflexivity|].
      exists tr. rewrite connects_app, connects_wr. f_equal. f_equal. lia.
    + destruct rc; [inversion H; subst; contradiction|].
      destruct s2 as [|[wok3 wc3|rr3 rc3|[|]] s3]; try (inversion H; subst; contradiction).
      apply IH in H; auto.
      * destruct H as (frame & b & I & E & W). exists frame, b. split; [right; right; right; exact I|]. auto.
      * rewrite !connects_app, connects_wr. cbn. lia.
  - destruct wc; [inversion H; subst; contradiction|].
    destruct s1 as [|[wok2 wc2|rr2 rc2|[|]] s2]; try (inversion H; subst; contradiction).
    apply IH in H; auto.
    + destruct H as (frame & b & I & E & W). exists frame, b. split; [right; right; exact I|]. auto.
    + rewrite !connects_app, connects_w. cbn. lia.
Qed.

(* once the context is seen done after a failed operation, the call ends there: no further
   operation is performed and the rest of the script is left untouched *)
Lemma invoke_ctx_write_exit f dl conn next s tr :
  invoke (S f) dl conn next (EvWrite false true :: s) tr = (RCtx, tr ++ w_ops dl conn, s).
Proof. reflexivity. Qed.
Lemma invoke_ctx_read_exit f dl conn next b s tr :
  invoke (S f) dl conn next (EvWrite true b :: EvRead None true :: s) tr = (RCtx, tr ++ wr_ops dl conn, s).
Proof. reflexivity. Qed.

(* a failure under a live context is followed by a reconnect and the request is written again
   on the fresh connection *)
Lemma invoke_retry_after_write f dl conn next s tr :
  invoke (S f) dl conn next (EvWrite false false :: EvConnect true :: s) tr =
  invoke f dl next (next + 1) s (tr ++ w_ops dl conn ++ [OConnect]).
Proof. reflexivity. Qed.
Lemma invoke_retry_after_read f dl conn next b s tr :
  invoke (S f) dl conn next (EvWrite true b :: EvRead None false :: EvConnect true :: s) tr =
  invoke f dl next (next + 1) s (tr ++ wr_ops dl conn ++ [OConnect]).
Proof. reflexivity. Qed.

(* ---------- retryConnectWithBackoff ---------- *)
Open Scope Z_scope.

Lemma next_wait_closed k : next_wait (nth_wait k) = nth_wait (S k).
Proof. unfold next_wait, nth_wait. rewrite Nat2Z.inj_succ, Z.pow_succ_r by lia.
  unfold wait_cap, second. lia. Qed.

Lemma retry_waits : forall ds k ws r ws',
  retry (nth_wait k) ds ws = (r, ws') -> length ws = k ->
  (forall i, (i < length ws)%nat -> nth i ws 0 = nth_wait i) ->
  (forall i, (i < length ws')%nat -> nth i ws' 0 = nth_wait i).
Proof.
  induction ds as [|d ds IH]; intros k ws r ws' H L P; cbn [retry] in H.
  - inversion H; subst; exact P.
  - destruct d as [|[|]].
    + inversion H; subst; exact P.
    + inversion H; subst. intros i Hi. rewrite app_length in Hi. cbn [length] in Hi.
      destruct (Nat.eq_dec i (length ws)) as [->|N]; [rewrite app_nth2, Nat.sub_diag by lia; reflexivity|].
      rewrite app_nth1 by lia. apply P; lia.
    + rewrite next_wait_closed in H. eapply IH; [exact H| |].
      * rewrite app_length; cbn [length]; lia.
      * intros i Hi. rewrite app_length in Hi. cbn [length] in Hi.
        destruct (Nat.eq_dec i (length ws)) as [->|N]; [rewrite app_nth2, Nat.sub_diag by lia; cbn [nth]; now rewrite L|].
        rewrite app_nth1 by lia. apply P; lia.
Qed.

Lemma run_retry_waits ds r ws : run_retry ds = (r, ws) -> forall i, (i < length ws)%nat -> nth i ws 0 = nth_wait i.
Proof. unfold run_retry. change first_wait with (nth_wait 0). intros H. eapply retry_waits; [exact H|reflexivity|].
  intros i Hi; cbn in Hi; lia. Qed.

Lemma nth_wait_bounds k : second <= nth_wait k <= wait_cap.
Proof. unfold nth_wait, wait_cap, second. pose proof (Z.pow_pos_nonneg 2 (Z.of_nat k) ltac:(lia) ltac:(lia)). lia. Qed.
Lemma nth_wait_0 : nth_wait 0 = second. Proof. reflexivity. Qed.
Lemma nth_wait_doubles k : nth_wait (S k) = Z.min (2 * nth_wait k) wait_cap.
Proof. rewrite <- next_wait_closed. unfold next_wait. f_equal. lia. Qed.

(* one wait per failed dial; connected exactly when a dial succeeds *)
Fixpoint failed_before_ok (ds : list dial) : nat :=
  match ds with DialErr false :: r => S (failed_before_ok r) | _ => O end.
Lemma retry_count : forall ds w ws r ws', retry w ds ws = (r, ws') ->
  match r with
  | Connected => length ws' = (length ws + failed_before_ok ds)%nat
  | CtxEnded => length ws' = S (length ws + failed_before_ok ds)
  | CStuck => True end.
Proof. induction ds as [|d ds IH]; intros w ws r ws' H; cbn [retry] in H; [inversion H; subst; exact I|].
  destruct d as [|[|]]; cbn [failed_before_ok].
  - inversion H; subst. lia.
  - inversion H; subst. rewrite app_length. cbn [length]. lia.
  - apply IH in H. rewrite app_length in H. cbn [length] in H. destruct r; auto; lia. Qed.

(* ---- the connection held after a call ---- *)
Lemma held_exists f : forall conn next s, (conn < next)%N -> (fst (held f conn next s) < snd (held f conn next s))%N.
Proof.
  induction f as [|f IH]; intros conn next s H; cbn [held]; [exact H|].
  destruct s as [|[[|] cd|r cd|ok] s1]; try exact H.
  - destruct s1 as [|[ok2 cd2|[b|] [|]|ok2] s2]; try exact H.
    destruct s2 as [|[ok3 cd3|r3 cd3|[|]] s3]; try exact H. apply IH. lia.
  - destruct cd; try exact H. destruct s1 as [|[ok2 cd2|r2 cd2|[|]] s2]; try exact H. apply IH. lia.
Qed.
(* the operations of a call and the connection held afterwards agree: the call ends on the connection it leaves behind,
   unless its last act was a reconnect (then it leaves the new one) *)
Lemma held_next_bound f : forall conn next s, (snd (held f conn next s) <= next + N.of_nat (length s))%N.
Proof.
  induction f as [|f IH]; intros conn next s; cbn [held]; [cbn; lia|].
  destruct s as [|[[|] cd|r cd|ok] s1]; cbn [snd length]; try lia.
  - destruct s1 as [|[ok2 cd2|[b|] [|]|ok2] s2]; cbn [snd length]; try lia.
    destruct s2 as [|[ok3 cd3|r3 cd3|[|]] s3]; cbn [snd length]; try lia.
    specialize (IH next (next + 1)%N s3). lia.
  - destruct cd; cbn [snd length]; try lia. destruct s1 as [|[ok2 cd2|r2 cd2|[|]] s2]; cbn [snd length]; try lia.
    specialize (IH next (next + 1)%N s2). lia.
Qed.
