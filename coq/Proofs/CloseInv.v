(* The invariant of the Close model (Model/CloseLTS.v, cfg = good), as an executable predicate so
   that it can be tested on recorded and random schedules before (and besides) being proved. *)
From WV Require Export Model.CloseLTS.

Definition isC01 (p : clc) : bool := match p with C0 | C1 => true | _ => false end.
Definition tearing (p : clc) : bool := match p with T1 | T2 _ | T3 _ | T4 | T5 | T6 | CRet true | CCrash => true | _ => false end.
Definition closing_g (p : clc) (g : nat) : bool := match p with T2 h | T3 h => Nat.eqb g h | _ => false end.
Definition after_t1 (p : clc) : bool := match p with T2 _ | T3 _ | T4 | T5 | T6 | CRet true => true | _ => false end.
Definition after_t4 (p : clc) : bool := match p with T5 | T6 | CRet true => true | _ => false end.
Definition after_t5 (p : clc) : bool := match p with T6 | CRet true => true | _ => false end.
Definition rt_hold (r : rtc) : bool := match r with RHoldTop | RHoldGot _ | RHoldFail => true | _ => false end.
Definition rt_fresh (r : rtc) (g : nat) : bool := match r with RGot h | RHoldGot h => Nat.eqb g h | _ => false end.
Definition rt_uses (r : rtc) (g : nat) : bool := match r with RGot h | RHoldGot h | RWait h | RClosing h => Nat.eqb g h | _ => false end.
Definition rt_noactr (r : rtc) : bool := match r with RDialing _ | RGot _ | RHoldGot _ | RFailed | RHoldFail | RBackoff | RClosing _ => true | _ => false end.
Definition wp_is (t : tr) (p : wpc) : bool :=
  match wp t, p with WPSel, WPSel | WPClosing, WPClosing | WPAfter, WPAfter | WPHold, WPHold | WPExit, WPExit => true | _, _ => false end.
Definition wp_left (t : tr) : bool := match wp t with WPAfter | WPHold | WPExit => true | _ => false end.
Definition actr_is (s : st) (g : nat) : bool := match actr s with Some h => Nat.eqb g h | None => false end.
Definition count {A} (f : A -> bool) (l : list A) : nat := length (filter f l).
Definition idx {A} (l : list A) : list (nat * A) := combine (seq 0 (length l)) l.

Definition live (s : st) (g : nat) : bool := actr_is s g || rt_uses (rt s) g || existsb (fun p => closing_g p g) (cl s).

(* ---- per transport ---- *)
Definition tr_clauses (s : st) (g : nat) (t : tr) : list bool := [
  (* t0 *) ((if wp_left t then wdn t && sockc t else negb (wdn t)));
  (* t1 *) ((Bool.eqb (fired t) (wp_is t WPExit)));
  (* t2 *) ((match rp t with RPExit => cwp t | _ => negb (cwp t) end));
  (* t3 *) ((match wp t with WPClosing => cconn t && sockc t | _ => true end));
  (* t4 *) ((Bool.eqb (wp_is t WPHold) (match amu s with Some (HWp h) => Nat.eqb g h | _ => false end)));
  (* t5 *) ((live s g || wp_is t WPExit));
  (* t6 *) ((if cconn t then negb (actr_is s g) && negb (rt_fresh (rt s) g) && negb (existsb (fun p => match p with T2 h => Nat.eqb g h | _ => false end) (cl s))
                      && (existsb (fun p => match p with T3 h => Nat.eqb g h | _ => false end) (cl s) || (match rt s with RClosing h => Nat.eqb g h | _ => false end) || pumps_gone s g)
      else true))
].
Definition inv_tr (s : st) (g : nat) (t : tr) : bool := forallb (fun b => b) (tr_clauses s g t).

Definition clauses (s : st) : list bool := [
  (* 0 *) (negb (crashed s));
  (* 1 *) (forallb (fun p => match p with CCrash => false | _ => true end) (cl s));
  (* 2 *) (forallb (fun p => match p with GCrash => false | _ => true end) (gs s));
  (* 3 *) ((if addr s then forallb isC01 (cl s) else true));
  (* 4 *) ((count tearing (cl s) <=? 1));
  (* 5 *) (forallb (fun p => match p with C0 => true | _ => ctxd s end) (cl s));
  (* 6 *) (forallb (fun p => if after_t1 p then cstate_eqb (acst s) Shutdown && (match actr s with None => true | _ => false end) else true) (cl s));
  (* 7 *) (forallb (fun p => if after_t4 p then (match rt s with RExit => true | _ => false end) else true) (cl s));
  (* 8 *) (forallb (fun p => if after_t5 p then cstate_eqb (csm s) Shutdown else true) (cl s));
  (* 9 *) (forallb (fun p => match p with CRet true => wg_clear s | _ => true end) (cl s));
  (* 10 *) (forallb (fun p => match p with T2 g | T3 g => Nat.ltb g (length (trs s)) | _ => true end) (cl s));
  (* 11 *) ((if cstate_eqb (acst s) Shutdown then negb (addr s) && (0 <? count tearing (cl s)) else true));
  (* 12 *) ((match actr s with Some g => Nat.ltb g (length (trs s)) && negb (rt_noactr (rt s)) | None => true end));
  (* 13 *) ((match rt s with RGot g | RHoldGot g | RWait g | RClosing g => Nat.ltb g (length (trs s)) | _ => true end));
  (* 14 *) ((match rt s with RGot g | RHoldGot g => Nat.eqb (S g) (length (trs s)) | _ => true end));
  (* 15 *) ((match rt s with RWait g => (match actr s with Some h => Nat.eqb g h | None => cstate_eqb (acst s) Shutdown end) | _ => true end));
  (* 16 *) ((match rt s, actr s with (RTop | RHoldTop), Some g => fired (getT s g) | _, _ => true end));
  (* 17 *) ((match rt s with RClosing g => cconn (getT s g) && cstate_eqb (acst s) Shutdown | _ => true end));
  (* 18 *) ((match rt s with RDialing true => ctxd s | _ => true end));
  (* 19 *) ((Bool.eqb (rt_hold (rt s)) (match amu s with Some HRt => true | _ => false end)));
  (* 20 *) ((if rt_hold (rt s) then negb (cstate_eqb (acst s) Shutdown) else true));
  (* 21 *) ((match amu s with Some (HWp g) => Nat.ltb g (length (trs s)) | _ => true end));
  (* 22 *) ((match acst s with Ready => (match actr s with Some g => negb (fired (getT s g)) | None => false end) | _ => true end));
  (* 23 *) ((match lc s with LCExit => ctxd s | _ => true end));
  (* 24 *) ((match lr s with LRExit => ctxd s | _ => true end));
  (* 25 *) ((match lrcur s with Some g => Nat.ltb g (length (trs s)) | None => true end));
  (* 26 *) ((match lr s with LR3 (Some g) => Nat.ltb g (length (trs s)) | _ => true end));
  (* 27 *) (forallb (fun gp => match snd gp with GWrite _ g => Nat.ltb g (length (trs s)) | _ => true end) (idx (gs s)));
  (* 28 *) (forallb (fun gt => inv_tr s (fst gt) (snd gt)) (idx (trs s)))
].
Definition invb (s : st) : bool := forallb (fun b => b) (clauses s).
Definition failing (s : st) : list nat * list (nat * list nat) :=
  (map fst (filter (fun p => negb (snd p)) (idx (clauses s))),
   filter (fun p => match snd p with [] => false | _ => true end)
     (map (fun gt => (fst gt, map fst (filter (fun p => negb (snd p)) (idx (tr_clauses s (fst gt) (snd gt)))))) (idx (trs s)))).

(* every prefix of a schedule satisfies the invariant *)
Fixpoint inv_along (s : st) (ls : list lab) : bool :=
  invb s && match ls with [] => true | l :: r => match step good s l with Some s' => inv_along s' r | None => inv_along s r end end.

(* what the property needs from the invariant *)
Definition safe (s : st) : bool :=
  negb (crashed s) && (if tore s then final s else true).
Fixpoint safe_along (s : st) (ls : list lab) : bool :=
  safe s && match ls with [] => true | l :: r => match step good s l with Some s' => safe_along s' r | None => safe_along s r end end.
