From Coq Require Import List Arith Bool Lia.
From Hammer Require Import Tactics.
From WV Require Import Model.Notify.
Import ListNotations.

Definition held (s : sys) : option chan := match w s with W1 c | W2 c => Some c | _ => None end.
Definition wants (s : sys) (c : chan) : Prop :=      (* the waiter is parked on c for a good reason *)
  is_closed c (m s) = true \/
  match k s with KStateChange src => st (m s) = src | KReady => st (m s) <> READY /\ st (m s) <> SHUTDOWN end.

Definition Inv (s : sys) : Prop :=
  (forall c, cur (m s) = Some c -> c < next (m s) /\ is_closed c (m s) = false) /\
  (forall c, In c (closed (m s)) -> c < next (m s)) /\
  (forall c, held s = Some c -> c < next (m s) /\ (cur (m s) = Some c \/ is_closed c (m s) = true)) /\
  (forall c, w s = W2 c -> wants s c) /\
  (w s = WFalse -> false_by_ctx s = true \/ (k s = KReady /\ True)) /\
  (false_by_ctx s = true -> ctx_done s = true).

Lemma not_closed_fresh c cl : (forall x, In x cl -> x < c) -> existsb (Nat.eqb c) cl = false.
Proof. intros H. destruct (existsb (Nat.eqb c) cl) eqn:E; auto. apply existsb_exists in E. destruct E as [x [Hx E]]. apply Nat.eqb_eq in E; subst. apply H in Hx; lia. Qed.

Lemma inv_step s l s' : Inv s -> step s l = Some s' -> Inv s'.
Proof.
  intros (Hc & Hcl & Hh & Hp & Hf & Hfc) Hs. destruct s as [m0 w0 k0 cd fb]. destruct m0 as [st0 cur0 nx cl].
  unfold Inv, held, wants, is_closed, set_w in *; simpl in *.
  destruct l; simpl in Hs; unfold update, getchan, set_w in Hs; simpl in Hs.
  - destruct (Nat.eqb st0 s) eqn:E; destruct cur0 as [c0|]; inversion Hs; subst; clear Hs; simpl;
    destruct w0; simpl in *; destruct k0; simpl in *;
    timeout 120 (sauto use: Nat.eqb_refl, orb_true_r, Nat.eqb_eq, Nat.eqb_neq).
  - destruct cur0 as [c0|]; inversion Hs; subst; clear Hs; simpl; destruct w0; simpl in *;
    timeout 120 (sauto use: not_closed_fresh, Nat.lt_lt_succ_r, Nat.lt_succ_diag_r).
  - destruct w0; try discriminate Hs. destruct cur0 as [c0|]; inversion Hs; subst; clear Hs; simpl;
    timeout 120 (sauto use: not_closed_fresh, Nat.lt_lt_succ_r, Nat.lt_succ_diag_r).
  - destruct w0; try discriminate Hs. destruct k0.
    + destruct (Nat.eqb st0 src) eqn:E; inversion Hs; subst; clear Hs; simpl; timeout 120 (sauto use: Nat.eqb_eq).
    + destruct (Nat.eqb st0 READY) eqn:E; [inversion Hs; subst; clear Hs; simpl; timeout 120 sauto|].
      destruct (Nat.eqb st0 SHUTDOWN) eqn:E2; inversion Hs; subst; clear Hs; simpl; timeout 120 (sauto use: Nat.eqb_neq).
  - destruct w0; try discriminate Hs. unfold is_closed in Hs; simpl in Hs. destruct (existsb (Nat.eqb c) cl) eqn:E.
    + inversion Hs; subst; clear Hs; simpl. destruct k0; simpl; timeout 120 sauto.
    + destruct cd; simpl in Hs; try discriminate Hs. inversion Hs; subst; clear Hs; simpl. timeout 120 sauto.
  - inversion Hs; subst; clear Hs; simpl. timeout 120 sauto.
Qed.

Lemma inv_exec ls : forall s, Inv s -> Inv (exec s ls).
Proof. induction ls as [|l r IH]; simpl; intros s H; auto. destruct (step s l) eqn:E; auto. apply IH. eapply inv_step; eauto. Qed.
Lemma inv_init a kd : Inv (init a kd).
Proof. unfold Inv, init, held; simpl. repeat split; try discriminate; try contradiction. Qed.

Lemma k_step s l s' : step s l = Some s' -> k s' = k s.
Proof. destruct s as [m0 w0 k0 cd fb]; destruct l; simpl; unfold set_w; simpl; try (intros H; inversion H; reflexivity).
  - destruct w0; try discriminate. destruct (getchan m0). intros H; inversion H; reflexivity.
  - destruct w0; try discriminate. destruct k0; [destruct (Nat.eqb _ _)|destruct (Nat.eqb _ READY); [|destruct (Nat.eqb _ SHUTDOWN)]]; intros H; inversion H; reflexivity.
  - destruct w0; try discriminate. destruct (is_closed _ _); [intros H; inversion H; reflexivity|]. destruct cd; [intros H; inversion H; reflexivity|discriminate]. Qed.
Lemma k_exec ls : forall s, k (exec s ls) = k s.
Proof. induction ls as [|l r IH]; simpl; intros s; auto. destruct (step s l) eqn:E; auto. rewrite IH. eapply k_step; eauto. Qed.

(* No lost wake-up: in every reachable state a waiter that decided to block on c is either already
   woken (c closed) or the state really still is one it has to wait in *)
Theorem no_lost_wakeup a kd ls c : w (exec (init a kd) ls) = W2 c ->
  let s := exec (init a kd) ls in
  is_closed c (m s) = true \/
  match kd with KStateChange src => st (m s) = src | KReady => st (m s) <> READY /\ st (m s) <> SHUTDOWN end.
Proof. intros H s. destruct (inv_exec ls _ (inv_init a kd)) as (_ & _ & _ & Hp & _). specialize (Hp c H). unfold wants in Hp.
  fold s in Hp. unfold s in *. rewrite (k_exec ls (init a kd)) in Hp. exact Hp. Qed.

(* false only because the waiter's own context ended - or, waiting for Ready, because of Shutdown *)
Theorem false_only_ctx a src ls : w (exec (init a (KStateChange src)) ls) = WFalse -> ctx_done (exec (init a (KStateChange src)) ls) = true.
Proof. intros H. destruct (inv_exec ls _ (inv_init a (KStateChange src))) as (_ & _ & _ & _ & Hf & Hfc).
  destruct (Hf H) as [F|[K _]]; [auto|]. rewrite (k_exec ls (init a (KStateChange src))) in K. discriminate. Qed.

(* Wakes: from every reachable state in which the waiter is parked and the state differs from the
   one it was asked to leave, its next own step returns true - no step of anybody else is needed *)
Theorem wakes a src ls c : let s := exec (init a (KStateChange src)) ls in
  w s = W2 c -> st (m s) <> src -> exists s', step s LWSelect = Some s' /\ w s' = WTrue.
Proof. intros s H D. destruct (no_lost_wakeup a (KStateChange src) ls c H) as [C|E]; [|contradiction].
  fold s in C. unfold step. rewrite H, C. pose proof (k_exec ls (init a (KStateChange src))) as K. fold s in K. rewrite K. cbn.
  eexists; split; [reflexivity|reflexivity]. Qed.

(* the same for the server's peer-set channel, where every change closes the channel: a channel
   obtained before a change is closed in every later state *)
Lemma change_closes mm s c : cur mm = Some c -> is_closed c (change mm s) = true.
Proof. intros H. unfold change, is_closed. rewrite H. cbn. now rewrite Nat.eqb_refl. Qed.
Lemma closed_stays_update mm s c : is_closed c mm = true -> is_closed c (update mm s) = true.
Proof. unfold update, is_closed. destruct (Nat.eqb (st mm) s); auto. destruct (cur mm); cbn; auto. intros ->. apply orb_true_r. Qed.
Lemma closed_stays_change mm s c : is_closed c mm = true -> is_closed c (change mm s) = true.
Proof. unfold change, is_closed. destruct (cur mm); cbn; auto. intros ->. apply orb_true_r. Qed.
Lemma closed_stays_getchan mm c : is_closed c mm = true -> is_closed c (fst (getchan mm)) = true.
Proof. unfold getchan. destruct (cur mm); cbn; auto. Qed.

Theorem obtained_before_change_is_closed mm ops1 s ops2 :
  let '(m1, c) := getchan (fold_left rstep ops1 mm) in
  is_closed c (fold_left rstep ops2 (change m1 s)) = true.
Proof. destruct (getchan (fold_left rstep ops1 mm)) as [m1 c] eqn:G.
  assert (C : cur m1 = Some c). { unfold getchan in G. destruct (cur (fold_left rstep ops1 mm)) eqn:E; inversion G; subst; auto. }
  assert (H : is_closed c (change m1 s) = true) by (apply change_closes; exact C).
  revert H. generalize (change m1 s). induction ops2 as [|o r IH]; intros m2 H; [exact H|]. cbn [fold_left]. apply IH.
  destruct o; cbn [rstep]; [apply closed_stays_change|apply closed_stays_getchan]; exact H. Qed.

(* the blocking dial returns Ready only after reading Ready, and gives up only on a wait that
   returned false (which, by false_only_ctx, happens only when its context ended); until then
   every wait it made returned true from a state that was not Ready *)
Theorem dial_loop_spec its :
  (dial_loop its = DReady -> exists pre b post, its = pre ++ (READY, b) :: post /\ Forall (fun x => fst x <> READY /\ snd x = true) pre) /\
  (dial_loop its = DCtx -> exists pre s post, its = pre ++ (s, false) :: post /\ s <> READY /\ Forall (fun x => fst x <> READY /\ snd x = true) pre).
Proof.
  induction its as [|[s b] r [IH1 IH2]]; cbn [dial_loop]; [split; discriminate|].
  destruct (Nat.eqb_spec s READY) as [->|N].
  - split; [|discriminate]. intros _. exists [], b, r. split; [reflexivity|constructor].
  - destruct b.
    + split.
      * intros H. destruct (IH1 H) as (pre & b2 & post & -> & F). exists ((s, true) :: pre), b2, post. split; [reflexivity|constructor; auto].
      * intros H. destruct (IH2 H) as (pre & s2 & post & -> & Ns & F). exists ((s, true) :: pre), s2, post. repeat split; auto.
    + split; [discriminate|]. intros _. exists [], s, r. repeat split; auto.
Qed.
