From Coq Require Import List Arith Bool Lia.
From Hammer Require Import Tactics.
From WV Require Import Model.FsmPub.
Import ListNotations.

Lemma chain_app a l v : chain a l = true -> legal (last l a) v = true -> chain a (l ++ [v]) = true.
Proof. revert a. induction l as [|b l IH]; intros a C L; cbn [chain app last] in *; [now rewrite L|].
  apply andb_prop in C as [C1 C2]. rewrite C1. cbn [andb]. apply IH; [exact C2|]. destruct l as [|c l]; [exact L|].
  assert (E : forall d1 d2 : cstate, last (c :: l) d1 = last (c :: l) d2) by (clear; induction l as [|x l IH] in c |- *; intros; [reflexivity|cbn [last]; apply (IH x)]).
  now rewrite (E b a). Qed.
Lemma last_app_single {X} (l : list X) v d : last (l ++ [v]) d = v.
Proof. induction l as [|b l IH]; [reflexivity|]. cbn [app]. destruct (l ++ [v]) as [|x l0] eqn:E; [destruct l; discriminate|]. change (last (b :: x :: l0) d) with (last (x :: l0) d). exact IH. Qed.
Lemma cstate_eqb_eq a b : cstate_eqb a b = true <-> a = b.
Proof. destruct a, b; cbn; split; congruence. Qed.
Lemma mem_cons x y l : mem x (y :: l) = Nat.eqb x y || mem x l. Proof. reflexivity. Qed.

(* which states the reconnect loop can be in at each of its program points *)
Definition pc_ok (s : st) : Prop :=
  match r s with
  | RNone => acst s = Idle \/ acst s = Shutdown
  | RTop => acst s <> Ready
  | RDialing | RFailed => acst s = Connecting \/ acst s = Shutdown
  | RGot t => (acst s = Connecting \/ acst s = Shutdown) /\ t < nextt s
  | RBackoff => acst s = TransientFailure \/ acst s = Shutdown
  | RWait t => t < nextt s /\ ((acst s = Ready /\ tr s = Some t /\ mem t (fired s) = false) \/ (acst s = Idle /\ mem t (fired s) = true) \/ acst s = Shutdown)
  | RExit => acst s = Shutdown
  end.
Definition held (s : st) (t : nat) : Prop := r s = RGot t \/ r s = RWait t.

Record Inv (s : st) : Prop := {
  i_chain : chain Idle (auth s) = true;
  i_last : last (auth s) Idle = acst s;
  i_pub : ctx_done s = false -> pub s = auth s /\ csm s = acst s;
  i_pc : pc_ok s;
  i_ready : acst s = Ready -> exists t, r s = RWait t /\ tr s = Some t /\ mem t (fired s) = false;
  i_others : forall t, t < nextt s -> mem t (fired s) = true \/ acst s = Shutdown \/ held s t;
  i_bound : forall t, mem t (fired s) = true \/ mem t (dead s) = true -> t < nextt s;
  i_ctx : ctx_done s = true -> torn s = true;
  i_torn : torn s = true -> acst s = Shutdown;
  i_tr : forall t, tr s = Some t -> t < nextt s;
  i_torn_ctx : torn s = true -> ctx_done s = true;
  i_shut : acst s = Shutdown -> torn s = true
}.

Lemma inv_init : Inv init.
Proof. constructor; cbn; auto; try discriminate; try lia; try (intros t [H|H]; discriminate). Qed.

Ltac inv_cases :=
  match goal with
  | |- context [cstate_eqb ?a ?b] => let E := fresh "E" in destruct (cstate_eqb a b) eqn:E; [apply cstate_eqb_eq in E|]
  | |- context [mem ?a ?b] => let E := fresh "M" in destruct (mem a b) eqn:E
  end.

(* set_state preserves the history clauses when the edge is legal *)
Lemma set_state_hist s v : chain Idle (auth s) = true -> last (auth s) Idle = acst s -> (ctx_done s = false -> pub s = auth s /\ csm s = acst s) ->
  legal (acst s) v = true \/ acst s = v ->
  let s' := set_state s v in
  chain Idle (auth s') = true /\ last (auth s') Idle = acst s' /\ (ctx_done s' = false -> pub s' = auth s' /\ csm s' = acst s') /\
  acst s' = v /\ tr s' = tr s /\ dead s' = dead s /\ fired s' = fired s /\ r s' = r s /\ ctx_done s' = ctx_done s /\ torn s' = torn s /\ nextt s' = nextt s.
Proof.
  intros C L P Lg. unfold set_state. destruct (cstate_eqb (acst s) v) eqn:E.
  - apply cstate_eqb_eq in E. cbn. repeat split; auto; apply P; assumption.
  - destruct Lg as [Lg|Eq]; [|exfalso; rewrite Eq in E; destruct v; discriminate]. cbn.
    split; [apply chain_app; [exact C|now rewrite L]|]. split; [apply last_app_single|].
    split; [intros D; rewrite D in *; destruct (P eq_refl) as [-> _]; split; reflexivity|].
    repeat split; reflexivity.
Qed.

(* after these helper updates the history-related fields are those of s *)
Ltac hist_of s0 C L P v Lg :=
  let H := fresh "H" in
  pose proof (set_state_hist s0 v C L P Lg) as H; cbn zeta in H;
  destruct H as (?C' & ?L' & ?P' & ?A' & ?T' & ?D' & ?F' & ?R' & ?X' & ?O' & ?N');
  match goal with Hl : last _ Idle = acst _, Ha : acst _ = v |- _ => rewrite Ha in Hl end;
  match goal with Hp : ctx_done _ = false -> _, Ha : acst _ = v, Hx : ctx_done _ = ctx_done _ |- _ => rewrite Ha, Hx in Hp end.

Ltac fields := unfold pc_ok, held in *; cbn [set_r set_tr add_dead add_fired acst tr dead fired r ctx_done torn csm auth pub nextt] in *.
Ltac fin_inv := constructor; fields; subst;
  repeat match goal with H : _ = _ |- _ => first [rewrite H in * | idtac]; clear H end.

Lemma mem_add x t l : mem x (if mem t l then l else t :: l) = true -> x = t \/ mem x l = true.
Proof. destruct (mem t l); [auto|]. rewrite mem_cons. intros H. apply orb_prop in H as [H|H]; [left; now apply Nat.eqb_eq|auto]. Qed.

Lemma inv_step s l : Inv s -> l <> LCancelCtx -> Inv (step s l).
Proof.
  intros I0 NC. pose proof I0 as [C L P PC RD OT BD CX TN TR TC SH].
  destruct l; try congruence; cbn [step].
  - (* LConnect *)
    destruct (r s) eqn:Er; try (exact I0).
    destruct (cstate_eqb (acst s) Idle) eqn:Ea; [apply cstate_eqb_eq in Ea|exact I0].
    assert (Lg : legal (acst s) Connecting = true \/ acst s = Connecting) by (left; rewrite Ea; reflexivity).
    hist_of s C L P Connecting Lg.
    constructor; fields; rewrite ?A', ?T', ?D', ?F', ?X', ?O', ?N'; auto; try discriminate.
    all: try (intros t Ht; destruct (OT t Ht) as [H|[H|[H|H]]]; auto; congruence).
    all: try (intros Ht; apply TN in Ht; congruence).
  - (* LTop *)
    destruct (r s) eqn:Er; try (exact I0).
    assert (PC' : acst s <> Ready) by (unfold pc_ok in PC; rewrite Er in PC; exact PC).
    destruct (cstate_eqb (acst s) Shutdown) eqn:Es.
    + apply cstate_eqb_eq in Es. constructor; fields; auto; try congruence.
    + assert (Lg : legal (acst (set_tr s None)) Connecting = true \/ acst (set_tr s None) = Connecting) by (cbn; destruct (acst s); auto; try discriminate; contradiction).
      hist_of (set_tr s None) C L P Connecting Lg.
      constructor; fields; rewrite ?A', ?T', ?D', ?F', ?X', ?O', ?N'; auto; try discriminate.
      all: try (intros t Ht; destruct (OT t Ht) as [H|[H|[H|H]]]; auto; try congruence; rewrite H in Es; discriminate).
      all: try (intros Ht; apply TN in Ht; rewrite Ht in Es; discriminate).
  - (* LDialOk *)
    destruct (r s) eqn:Er; try (exact I0).
    assert (PC' : acst s = Connecting \/ acst s = Shutdown) by (unfold pc_ok in PC; rewrite Er in PC; exact PC).
    constructor; fields; auto.
    + intros H. destruct PC' as [E|E]; congruence.
    + intros t Ht. destruct (Nat.eq_dec t (nextt s)) as [->|Ne]; [right; right; left; reflexivity|].
      destruct (OT t ltac:(lia)) as [H|[H|[H|H]]]; auto; congruence.
    + intros t Ht. specialize (BD t Ht). lia.
    + intros t Ht. apply TR in Ht. lia.
  - (* LDialFail *)
    destruct (r s) eqn:Er; try (exact I0).
    assert (PC' : acst s = Connecting \/ acst s = Shutdown) by (unfold pc_ok in PC; rewrite Er in PC; exact PC).
    constructor; fields; auto.
    + intros H. destruct PC' as [E|E]; congruence.
    + intros t Ht. destruct (OT t Ht) as [H|[H|[H|H]]]; auto; congruence.
  - (* LAfterFail *)
    destruct (r s) eqn:Er; try (exact I0).
    assert (PC' : acst s = Connecting \/ acst s = Shutdown) by (unfold pc_ok in PC; rewrite Er in PC; exact PC).
    destruct (cstate_eqb (acst s) Shutdown) eqn:Es.
    + apply cstate_eqb_eq in Es. constructor; fields; auto; congruence.
    + assert (Ea : acst s = Connecting) by (destruct PC' as [E|E]; [exact E|rewrite E in Es; discriminate]).
      assert (Lg : legal (acst s) TransientFailure = true \/ acst s = TransientFailure) by (left; rewrite Ea; reflexivity).
      hist_of s C L P TransientFailure Lg.
      constructor; fields; rewrite ?A', ?T', ?D', ?F', ?X', ?O', ?N'; auto; try discriminate.
      all: try (intros t Ht; destruct (OT t Ht) as [H|[H|[H|H]]]; auto; congruence).
      all: try (intros Ht; apply TN in Ht; congruence).
  - (* LTimer *)
    destruct (r s) eqn:Er; try (exact I0).
    assert (PC' : acst s = TransientFailure \/ acst s = Shutdown) by (unfold pc_ok in PC; rewrite Er in PC; exact PC).
    constructor; fields; auto.
    + destruct PC' as [E|E]; congruence.
    + intros H. destruct PC' as [E|E]; congruence.
    + intros t Ht. destruct (OT t Ht) as [H|[H|[H|H]]]; auto; congruence.
  - (* LCtxExit *)
    destruct (r s) eqn:Er; try (exact I0);
    (destruct (ctx_done s) eqn:Ec; [|exact I0]);
    pose proof (TN (CX eq_refl)) as Es; constructor; fields; auto; try congruence.
  - (* LSetReady *)
    destruct (r s) eqn:Er; try (exact I0).
    assert (PC' : (acst s = Connecting \/ acst s = Shutdown) /\ t < nextt s) by (unfold pc_ok in PC; rewrite Er in PC; exact PC).
    destruct PC' as [PCa PCt]. destruct (cstate_eqb (acst s) Shutdown) eqn:Es.
    + apply cstate_eqb_eq in Es. constructor; fields; auto; try congruence.
      intros t0 [H|H]; [apply BD; auto|]. apply mem_add in H as [->|H]; [exact PCt|apply BD; auto].
    + assert (Ea : acst s = Connecting) by (destruct PCa as [E|E]; [exact E|rewrite E in Es; discriminate]).
      destruct (mem t (fired s)) eqn:Mf.
      * constructor; fields; auto; try congruence.
        intros t0 Ht. destruct (OT t0 Ht) as [H|[H|[H|H]]]; auto; [|congruence]. assert (t0 = t) by congruence. subst t0. auto.
      * assert (Lg : legal (acst (set_tr s (Some t))) Ready = true \/ acst (set_tr s (Some t)) = Ready) by (cbn; rewrite Ea; auto).
        hist_of (set_tr s (Some t)) C L P Ready Lg.
        constructor; fields; rewrite ?A', ?T', ?D', ?F', ?X', ?O', ?N'; auto; try discriminate.
        all: try (intros _; exists t; auto; fail).
        all: try (intros t0 Ht; destruct (OT t0 Ht) as [H|[H|[H|H]]]; auto; [congruence|assert (t0 = t) by congruence; subst t0; auto|congruence]).
        all: try (intros Ht; apply TN in Ht; congruence).
        all: try (intros t0 Ht; inversion Ht; subst; exact PCt).
  - (* LReconnect *)
    destruct (r s) eqn:Er; try (exact I0).
    destruct (mem t (fired s)) eqn:Mf; [|exact I0].
    assert (PC' : t < nextt s /\ ((acst s = Ready /\ tr s = Some t /\ mem t (fired s) = false) \/ (acst s = Idle /\ mem t (fired s) = true) \/ acst s = Shutdown)) by (unfold pc_ok in PC; rewrite Er in PC; exact PC).
    destruct PC' as [PCt PCs].
    constructor; fields; auto.
    + destruct PCs as [(E & _ & M)|[(E & _)|E]]; congruence.
    + intros H. destruct (RD H) as (t0 & E0 & _ & M0). inversion E0; subst. congruence.
    + intros t0 Ht. destruct (OT t0 Ht) as [H|[H|[H|H]]]; auto; try congruence. assert (t0 = t) by congruence. subst t0. auto.
  - (* LDies *)
    destruct (Nat.ltb t (nextt s)) eqn:Lt; [|exact I0]. apply Nat.ltb_lt in Lt.
    constructor; fields; auto.
    intros t0 [H|H]; [apply BD; auto|]. apply mem_add in H as [->|H]; [exact Lt|apply BD; auto].
  - (* LAfterPump *)
    destruct (mem t (dead s) && negb (mem t (fired s))) eqn:En; [|exact I0].
    apply andb_prop in En as [Md Mf]. apply negb_true_iff in Mf. pose proof (BD t (or_intror Md)) as Lt.
    destruct (cstate_eqb (acst s) Ready) eqn:Es.
    + apply cstate_eqb_eq in Es. destruct (RD Es) as (t0 & Er & Et & M0).
      assert (t0 = t) by (destruct (OT t Lt) as [H|[H|[H|H]]]; congruence). subst t0.
      assert (Lg : legal (acst s) Idle = true \/ acst s = Idle) by (left; rewrite Es; reflexivity).
      hist_of s C L P Idle Lg.
      constructor; fields; rewrite ?A', ?T', ?D', ?F', ?X', ?O', ?N', ?R', ?Er; auto; try discriminate.
      * split; [exact Lt|]. right; left. split; [reflexivity|]. rewrite mem_cons, Nat.eqb_refl. reflexivity.
      * intros t1 Ht. rewrite mem_cons. destruct (Nat.eqb_spec t1 t); [left; reflexivity|]. destruct (OT t1 Ht) as [H|[H|[H|H]]]; auto; try congruence; assert (t1 = t) by congruence; contradiction.
      * intros t1 [H|H]; [rewrite mem_cons in H; apply orb_prop in H as [H|H]; [apply Nat.eqb_eq in H; subst; exact Lt|apply BD; auto]|apply BD; auto].
      * intros Ht. apply TN in Ht. congruence.
    + constructor; fields; auto.
      * destruct (r s) eqn:Er; auto. destruct PC as [PCt PCs]. split; [exact PCt|]. rewrite mem_cons.
        destruct PCs as [(E & _)|[(E & M)|E]]; [rewrite E in Es; discriminate|right; left; split; [exact E|rewrite M; apply orb_true_r]|right; right; exact E].
      * intros H. rewrite H in Es. discriminate.
      * intros t1 Ht. rewrite mem_cons. destruct (Nat.eqb_spec t1 t); [left; reflexivity|]. destruct (OT t1 Ht) as [H|[H|[H|H]]]; auto.
      * intros t1 [H|H]; [rewrite mem_cons in H; apply orb_prop in H as [H|H]; [apply Nat.eqb_eq in H; subst; exact Lt|apply BD; auto]|apply BD; auto].
  - (* LTeardown *)
    destruct (torn s) eqn:Et; [exact I0|].
    assert (Ec : ctx_done s = false) by (destruct (ctx_done s) eqn:E; [specialize (CX eq_refl); discriminate|reflexivity]).
    cbn [acst]. destruct (cstate_eqb (acst s) Shutdown) eqn:Es.
    + apply cstate_eqb_eq in Es. constructor; fields; auto; try discriminate.
    + set (s0 := {| acst := acst s; tr := tr s; dead := dead s; fired := fired s; r := r s; ctx_done := true; torn := true; csm := csm s; auth := auth s; pub := pub s; nextt := nextt s |}).
      assert (Trb : forall t, tr s = Some t -> t < nextt s).
      { exact TR. }
      set (s1 := set_tr (match tr s0 with Some t => add_dead s0 t | None => s0 end) None).
      assert (S1 : acst s1 = acst s /\ auth s1 = auth s /\ pub s1 = pub s /\ csm s1 = csm s /\ fired s1 = fired s /\ r s1 = r s /\ ctx_done s1 = true /\ torn s1 = true /\ nextt s1 = nextt s /\
                   (forall t, mem t (dead s1) = true -> t < nextt s)).
      { unfold s1, s0. cbn [tr]. destruct (tr s) as [t|] eqn:Etr; cbn; repeat split; auto; intros t0 H; try (apply BD; auto; fail).
        apply mem_add in H as [->|H]; [apply Trb; reflexivity|apply BD; auto]. }
      destruct S1 as (A1 & A2 & A3 & A4 & A5 & A6 & A7 & A8 & A9 & A10).
      assert (Lg : legal (acst s1) Shutdown = true \/ acst s1 = Shutdown) by (left; rewrite A1; destruct (acst s); auto; discriminate).
      assert (C1 : chain Idle (auth s1) = true) by (now rewrite A2).
      assert (L1 : last (auth s1) Idle = acst s1) by (now rewrite A2, A1).
      assert (P1 : ctx_done s1 = false -> pub s1 = auth s1 /\ csm s1 = acst s1) by (rewrite A7; discriminate).
      hist_of s1 C1 L1 P1 Shutdown Lg. fold s0. fold s1.
      assert (PCn : pc_ok (set_state s1 Shutdown)).
      { unfold pc_ok. rewrite R', A6, A', N', A9. unfold pc_ok in PC. destruct (r s); intuition (auto; try discriminate). }
      constructor; try exact PCn; fields; rewrite ?A', ?T', ?D', ?F', ?X', ?O', ?N', ?R', ?A5, ?A6, ?A7, ?A8, ?A9; auto; try discriminate.
      intros t0 [H|H]; [apply BD; auto|apply A10; exact H].
  - (* LPublishShutdown *)
    destruct (torn s && negb (cstate_eqb (csm s) Shutdown)) eqn:En; [|exact I0].
    apply andb_prop in En as [Et _]. pose proof (TN Et) as Es.
    constructor; fields; auto.
    intros Ec. rewrite (TC Et) in Ec. discriminate.
Qed.

Definition well_used (ls : list label) : Prop := ~ In LCancelCtx ls.   (* the dial context is not cancelled behind the connection's back *)

Lemma inv_exec : forall ls s, Inv s -> well_used ls -> Inv (exec s ls).
Proof. induction ls as [|l ls IH]; intros s I W; [exact I|]. change (exec s (l :: ls)) with (exec (step s l) ls).
  apply IH; [apply inv_step; [exact I|intros ->; apply W; left; reflexivity]|intros H; apply W; right; exact H]. Qed.
Lemma reach ls : well_used ls -> Inv (exec init ls).
Proof. apply inv_exec, inv_init. Qed.

(* the authoritative state only ever moves along the legal edges, in every history *)
Theorem auth_legal ls : well_used ls -> chain Idle (auth (exec init ls)) = true.
Proof. intros W. apply (reach ls W). Qed.

(* what is published is exactly the authoritative history, nothing skipped or reordered, as long
   as the connection has not been closed *)
Theorem pub_faithful ls : well_used ls -> let s := exec init ls in torn s = false -> pub s = auth s /\ csm s = acst s.
Proof. intros W s T. destruct (reach ls W) as [_ _ P _ _ _ _ CX _ _ _ _]. apply P. destruct (ctx_done (exec init ls)) eqn:E; [specialize (CX eq_refl); fold s in CX; congruence|reflexivity]. Qed.

(* Shutdown is permanent *)
Lemma set_state_shutdown s v : acst s = Shutdown -> cstate_eqb Shutdown v = false -> acst (set_state s v) = v.
Proof. intros E N. unfold set_state. rewrite E, N. reflexivity. Qed.
Lemma shutdown_sticky s l : acst s = Shutdown -> acst (step s l) = Shutdown.
Proof.
  intros E. destruct l; cbn [step]; rewrite ?E; cbn [cstate_eqb];
  repeat match goal with
  | |- context [match r s with _ => _ end] => destruct (r s)
  | |- context [if ctx_done s then _ else _] => destruct (ctx_done s)
  | |- context [if torn s then _ else _] => destruct (torn s)
  | |- context [if mem ?a ?b then _ else _] => destruct (mem a b)
  | |- context [if Nat.ltb ?a ?b then _ else _] => destruct (Nat.ltb a b)
  | |- context [if ?a && ?b then _ else _] => destruct (a && b)
  end; cbn; rewrite ?E; auto.
Qed.
Theorem shutdown_final ls l : let s := exec init ls in acst s = Shutdown -> acst (step s l) = Shutdown.
Proof. intros s. apply shutdown_sticky. Qed.

(* a closed connection reports Shutdown: once Close has published it, nothing changes it any more *)
Lemma teardown_torn s : torn (step s LTeardown) = true.
Proof. cbn [step]. destruct (torn s) eqn:T; [exact T|]. cbn [acst]. destruct (cstate_eqb (acst s) Shutdown); [reflexivity|].
  unfold set_state. destruct (cstate_eqb _ _); destruct (tr s); reflexivity. Qed.
Lemma publish_shutdown s : torn s = true -> csm (step s LPublishShutdown) = Shutdown /\ torn (step s LPublishShutdown) = true.
Proof. intros T. cbn [step]. rewrite T. cbn [andb]. destruct (cstate_eqb (csm s) Shutdown) eqn:E; cbn [negb]; [apply cstate_eqb_eq in E; auto|cbn; auto]. Qed.
Lemma closed_stable s l : acst s = Shutdown -> torn s = true -> csm s = Shutdown -> csm (step s l) = Shutdown /\ torn (step s l) = true /\ acst (step s l) = Shutdown.
Proof.
  intros E T C. destruct l; cbn [step]; rewrite ?E, ?T, ?C; cbn [cstate_eqb andb negb];
  repeat match goal with
  | |- context [match r s with _ => _ end] => destruct (r s)
  | |- context [if ctx_done s then _ else _] => destruct (ctx_done s)
  | |- context [if mem ?a ?b then _ else _] => destruct (mem a b)
  | |- context [if Nat.ltb ?a ?b then _ else _] => destruct (Nat.ltb a b)
  | |- context [if ?a && ?b then _ else _] => destruct (a && b)
  end; cbn; rewrite ?E, ?T, ?C; auto.
Qed.
Theorem closed_reports_shutdown ls ls2 : well_used ls ->
  csm (exec init (ls ++ LTeardown :: LPublishShutdown :: ls2)) = Shutdown.
Proof.
  intros W. unfold exec. rewrite fold_left_app. cbn [fold_left]. set (s0 := fold_left step ls init).
  assert (I1 : Inv (step s0 LTeardown)) by (apply inv_step; [apply (reach ls W)|discriminate]).
  pose proof (teardown_torn s0) as T1. destruct I1 as [_ _ _ _ _ _ _ _ TN _ _ _]. pose proof (TN T1) as E1.
  destruct (publish_shutdown _ T1) as [C2 T2]. pose proof (shutdown_sticky _ LPublishShutdown E1) as E2.
  generalize dependent (step (step s0 LTeardown) LPublishShutdown). clear. intros s C T E.
  revert s C T E. induction ls2 as [|l r IH]; intros s C T E; [exact C|]. cbn [fold_left].
  destruct (closed_stable s l E T C) as (C' & T' & E'). apply IH; auto. Qed.

(* Ready is truthful: whenever Ready is the (published) state, a transport is recorded, its close
   callback has not run, and the reconnect loop is watching it; if that transport has died, its
   callback is enabled and takes the state to Idle *)
Theorem ready_truthful ls : well_used ls -> let s := exec init ls in acst s = Ready ->
  exists t, tr s = Some t /\ mem t (fired s) = false /\ r s = RWait t /\
            (mem t (dead s) = true -> acst (step s (LAfterPump t)) = Idle).
Proof.
  intros W s E. destruct (reach ls W) as [_ _ _ _ RD _ _ _ _ _ _ _]. fold s in RD. destruct (RD E) as (t & Er & Et & Mf).
  exists t. repeat split; auto. intros Md. cbn [step]. rewrite Md, Mf. cbn [andb negb]. rewrite E. cbn [cstate_eqb].
  unfold add_fired, set_state. rewrite E. cbn. reflexivity. Qed.

(* Recovery (C06): from every reachable state of a connection that has not been closed, if dials
   succeed from now on, the listed continuation - only steps of the library itself and the dial
   outcome - leads to Ready, published, with a fresh transport recorded; at most 6 steps *)
Definition recover (s : st) : list label :=
  match r s with
  | RNone => [LConnect; LTop; LDialOk; LSetReady]
  | RTop => [LTop; LDialOk; LSetReady]
  | RDialing => [LDialOk; LSetReady]
  | RGot t => if mem t (fired s) then [LSetReady; LTop; LDialOk; LSetReady] else [LSetReady]
  | RFailed => [LAfterFail; LTimer; LTop; LDialOk; LSetReady]
  | RBackoff => [LTimer; LTop; LDialOk; LSetReady]
  | RWait t => if cstate_eqb (acst s) Ready && negb (mem t (dead s)) then []
               else if mem t (fired s) then [LReconnect; LTop; LDialOk; LSetReady]
               else [LDies t; LAfterPump t; LReconnect; LTop; LDialOk; LSetReady]
  | RExit => []
  end.

Lemma mem_fresh l n : (forall t, mem t l = true -> t < n) -> mem n l = false.
Proof. intros H. destruct (mem n l) eqn:E; [apply H in E; lia|reflexivity]. Qed.

(* ---- one-step descriptions, used to follow the recovery path without unfolding records ---- *)
Record good (s : st) : Prop := {
  g_ctx : ctx_done s = false; g_torn : torn s = false; g_pub : csm s = acst s;
  g_fresh : forall t, mem t (fired s) = true -> t < nextt s
}.
Lemma set_state_eff s v : ctx_done s = false -> csm s = acst s -> let s' := set_state s v in
  acst s' = v /\ csm s' = v /\ tr s' = tr s /\ dead s' = dead s /\ fired s' = fired s /\ r s' = r s /\ ctx_done s' = false /\ torn s' = torn s /\ nextt s' = nextt s.
Proof. intros Ec Pc. unfold set_state. destruct (cstate_eqb (acst s) v) eqn:E; [apply cstate_eqb_eq in E; subst v; repeat split; auto|cbn; rewrite Ec; repeat split; auto]. Qed.

Lemma st_connect s : good s -> r s = RNone -> acst s = Idle -> let s' := step s LConnect in good s' /\ r s' = RTop /\ acst s' = Connecting.
Proof. intros [Ec Et Pc Fr] Er Ea. cbn [step]. rewrite Er, Ea. cbn [cstate_eqb]. destruct (set_state_eff s Connecting Ec Pc) as (A & B & C & D & E & F & G & H & I).
  split; [constructor|]; cbn [set_r acst r csm ctx_done torn fired nextt]; rewrite ?A, ?B, ?E, ?G, ?H, ?I; auto. Qed.
Lemma st_top s : good s -> r s = RTop -> acst s <> Shutdown -> let s' := step s LTop in good s' /\ r s' = RDialing /\ acst s' = Connecting.
Proof. intros [Ec Et Pc Fr] Er Ns. cbn [step]. rewrite Er. destruct (cstate_eqb (acst s) Shutdown) eqn:E0; [apply cstate_eqb_eq in E0; contradiction|].
  destruct (set_state_eff (set_tr s None) Connecting Ec Pc) as (A & B & C & D & E & F & G & H & I).
  split; [constructor|]; cbn [set_r acst r csm ctx_done torn fired nextt]; rewrite ?A, ?B, ?E, ?G, ?H, ?I; auto. Qed.
Lemma st_dialok s : good s -> r s = RDialing -> let s' := step s LDialOk in
  good s' /\ r s' = RGot (nextt s) /\ acst s' = acst s /\ mem (nextt s) (fired s') = false.
Proof. intros [Ec Et Pc Fr] Er. cbn [step]. rewrite Er. split; [constructor|]; cbn [set_r acst r csm ctx_done torn fired nextt]; auto.
  - intros t H. apply Fr in H. lia.
  - repeat split; auto. apply mem_fresh. exact Fr. Qed.
Lemma st_setready s t : good s -> r s = RGot t -> acst s = Connecting -> mem t (fired s) = false -> let s' := step s LSetReady in
  good s' /\ r s' = RWait t /\ acst s' = Ready /\ csm s' = Ready /\ tr s' = Some t /\ mem t (fired s') = false.
Proof. intros [Ec Et Pc Fr] Er Ea Mf. cbn [step]. rewrite Er, Ea, Mf. cbn [cstate_eqb].
  destruct (set_state_eff (set_tr s (Some t)) Ready Ec Pc) as (A & B & C & D & E & F & G & H & I).
  split; [constructor|]; cbn [set_r set_tr acst r csm ctx_done torn fired nextt tr] in *; rewrite ?A, ?B, ?C, ?E, ?G, ?H, ?I; auto. Qed.
Lemma st_setready_fired s t : good s -> r s = RGot t -> acst s = Connecting -> mem t (fired s) = true -> let s' := step s LSetReady in
  good s' /\ r s' = RTop /\ acst s' = Connecting.
Proof. intros [Ec Et Pc Fr] Er Ea Mf. cbn [step]. rewrite Er, Ea, Mf. cbn [cstate_eqb]. split; [constructor|]; cbn [set_r acst r csm ctx_done torn fired nextt]; auto. Qed.
Lemma st_afterfail s : good s -> r s = RFailed -> acst s = Connecting -> let s' := step s LAfterFail in good s' /\ r s' = RBackoff /\ acst s' = TransientFailure.
Proof. intros [Ec Et Pc Fr] Er Ea. cbn [step]. rewrite Er, Ea. cbn [cstate_eqb]. destruct (set_state_eff s TransientFailure Ec Pc) as (A & B & C & D & E & F & G & H & I).
  split; [constructor|]; cbn [set_r acst r csm ctx_done torn fired nextt]; rewrite ?A, ?B, ?E, ?G, ?H, ?I; auto. Qed.
Lemma st_timer s : good s -> r s = RBackoff -> let s' := step s LTimer in good s' /\ r s' = RTop /\ acst s' = acst s.
Proof. intros [Ec Et Pc Fr] Er. cbn [step]. rewrite Er. split; [constructor|]; cbn [set_r acst r csm ctx_done torn fired nextt]; auto. Qed.
Lemma st_reconnect s t : good s -> r s = RWait t -> mem t (fired s) = true -> let s' := step s LReconnect in good s' /\ r s' = RTop /\ acst s' = acst s.
Proof. intros [Ec Et Pc Fr] Er Mf. cbn [step]. rewrite Er, Mf. split; [constructor|]; cbn [set_r acst r csm ctx_done torn fired nextt]; auto. Qed.
Lemma st_dies s t : good s -> t < nextt s -> let s' := step s (LDies t) in
  good s' /\ r s' = r s /\ acst s' = acst s /\ fired s' = fired s /\ mem t (dead s') = true.
Proof. intros [Ec Et Pc Fr] Lt. cbn [step]. apply Nat.ltb_lt in Lt. rewrite Lt. split; [constructor|]; cbn [add_dead acst r csm ctx_done torn fired nextt dead]; auto.
  repeat split; auto. destruct (mem t (dead s)) eqn:M; [exact M|]. rewrite mem_cons, Nat.eqb_refl. reflexivity. Qed.
Lemma st_afterpump s t : good s -> mem t (dead s) = true -> mem t (fired s) = false -> acst s = Ready -> t < nextt s -> let s' := step s (LAfterPump t) in
  good s' /\ r s' = r s /\ acst s' = Idle /\ mem t (fired s') = true.
Proof. intros [Ec Et Pc Fr] Md Mf Ea Lt. cbn [step]. rewrite Md, Mf, Ea. cbn [andb negb cstate_eqb].
  destruct (set_state_eff s Idle Ec Pc) as (A & B & C & D & E & F & G & H & I).
  split; [constructor|]; cbn [add_fired acst r csm ctx_done torn fired nextt]; rewrite ?A, ?B, ?E, ?F, ?G, ?H, ?I; auto.
  - intros t0 M0. rewrite mem_cons in M0. apply orb_prop in M0 as [M0|M0]; [apply Nat.eqb_eq in M0; subst; exact Lt|apply Fr; exact M0].
  - repeat split; auto. rewrite mem_cons, Nat.eqb_refl. reflexivity. Qed.

(* the tail every recovery path ends with: top of the loop -> dial succeeds -> recorded as Ready *)
Lemma tail_to_ready s : good s -> r s = RTop -> acst s <> Shutdown ->
  let s' := exec s [LTop; LDialOk; LSetReady] in
  acst s' = Ready /\ csm s' = Ready /\ exists t, tr s' = Some t /\ mem t (fired s') = false /\ r s' = RWait t.
Proof. intros G Er Ns. unfold exec. cbn [fold_left].
  destruct (st_top s G Er Ns) as (G1 & R1 & A1). destruct (st_dialok _ G1 R1) as (G2 & R2 & A2 & M2). rewrite A1 in A2.
  destruct (st_setready _ _ G2 R2 A2 M2) as (G3 & R3 & A3 & C3 & T3 & M3). repeat split; auto. eexists; eauto. Qed.

Theorem recovers ls : well_used ls -> let s := exec init ls in torn s = false ->
  let s' := exec s (recover s) in
  acst s' = Ready /\ csm s' = Ready /\ length (recover s) <= 6 /\ exists t, tr s' = Some t /\ mem t (fired s') = false /\ r s' = RWait t.
Proof.
  intros W s T. pose proof (reach ls W) as I. fold s in I. destruct I as [_ _ P PC RD OT BD CX TN TR TC SH].
  assert (Ec : ctx_done s = false) by (destruct (ctx_done s) eqn:E; [specialize (CX eq_refl); congruence|reflexivity]).
  assert (NS : acst s <> Shutdown) by (intros E; apply SH in E; congruence).
  destruct (P Ec) as [_ Pc].
  assert (G : good s) by (constructor; auto; intros t H; apply BD; auto).
  unfold pc_ok in PC. unfold recover.
  assert (Split : forall a b x, exec x (a ++ b) = exec (exec x a) b) by (intros; unfold exec; apply fold_left_app).
  destruct (r s) eqn:Er.
  - destruct PC as [Ea|Ea]; [|contradiction]. change [LConnect; LTop; LDialOk; LSetReady] with ([LConnect] ++ [LTop; LDialOk; LSetReady]). rewrite Split.
    destruct (st_connect s G Er Ea) as (G1 & R1 & A1). change (exec s [LConnect]) with (step s LConnect). assert (N1 : acst (step s LConnect) <> Shutdown) by (rewrite A1; discriminate). destruct (tail_to_ready _ G1 R1 N1) as (A & B & C).
    repeat split; auto; cbn; lia.
  - destruct (tail_to_ready s G Er NS) as (A & B & C). repeat split; auto; cbn; lia.
  - destruct PC as [Ea|Ea]; [|contradiction]. unfold exec. cbn [fold_left].
    destruct (st_dialok s G Er) as (G2 & R2 & A2 & M2). rewrite Ea in A2. destruct (st_setready _ _ G2 R2 A2 M2) as (G3 & R3 & A3 & C3 & T3 & M3).
    repeat split; auto; try (cbn; lia). eexists; eauto.
  - destruct PC as [[Ea|Ea] Lt]; [|contradiction]. destruct (mem t (fired s)) eqn:Mf.
    + change [LSetReady; LTop; LDialOk; LSetReady] with ([LSetReady] ++ [LTop; LDialOk; LSetReady]). rewrite Split.
      destruct (st_setready_fired s t G Er Ea Mf) as (G1 & R1 & A1). change (exec s [LSetReady]) with (step s LSetReady). assert (N1 : acst (step s LSetReady) <> Shutdown) by (rewrite A1; discriminate). destruct (tail_to_ready _ G1 R1 N1) as (A & B & C).
      repeat split; auto; cbn; lia.
    + unfold exec. cbn [fold_left]. destruct (st_setready s t G Er Ea Mf) as (G3 & R3 & A3 & C3 & T3 & M3). repeat split; auto; try (cbn; lia). eexists; eauto.
  - destruct PC as [Ea|Ea]; [|contradiction]. change [LAfterFail; LTimer; LTop; LDialOk; LSetReady] with ([LAfterFail; LTimer] ++ [LTop; LDialOk; LSetReady]). rewrite Split.
    destruct (st_afterfail s G Er Ea) as (G1 & R1 & A1). destruct (st_timer _ G1 R1) as (G2 & R2 & A2). rewrite A1 in A2.
    change (exec s [LAfterFail; LTimer]) with (step (step s LAfterFail) LTimer). assert (N1 : acst (step (step s LAfterFail) LTimer) <> Shutdown) by (rewrite A2; discriminate). destruct (tail_to_ready _ G2 R2 N1) as (A & B & C).
    repeat split; auto; cbn; lia.
  - destruct PC as [Ea|Ea]; [|contradiction]. change [LTimer; LTop; LDialOk; LSetReady] with ([LTimer] ++ [LTop; LDialOk; LSetReady]). rewrite Split.
    destruct (st_timer s G Er) as (G2 & R2 & A2). change (exec s [LTimer]) with (step s LTimer). assert (N1 : acst (step s LTimer) <> Shutdown) by (rewrite A2, Ea; discriminate). destruct (tail_to_ready _ G2 R2 N1) as (A & B & C).
    repeat split; auto; cbn; lia.
  - destruct PC as [Lt [(Ea & Et & Mf)|[(Ea & Mf)|Ea]]]; [| |contradiction].
    + rewrite Ea. cbn [cstate_eqb andb]. destruct (mem t (dead s)) eqn:Md; cbn [negb].
      * rewrite Mf. change [LDies t; LAfterPump t; LReconnect; LTop; LDialOk; LSetReady] with ([LDies t; LAfterPump t; LReconnect] ++ [LTop; LDialOk; LSetReady]). rewrite Split.
        destruct (st_dies s t G Lt) as (G1 & R1 & A1 & F1 & D1).
        assert (Lt1 : t < nextt (step s (LDies t))) by (cbn [step]; apply Nat.ltb_lt in Lt; rewrite Lt; cbn; apply Nat.ltb_lt; exact Lt).
        assert (Mf1 : mem t (fired (step s (LDies t))) = false) by (rewrite F1; exact Mf). assert (Ea1 : acst (step s (LDies t)) = Ready) by (rewrite A1; exact Ea).
        destruct (st_afterpump _ t G1 D1 Mf1 Ea1 Lt1) as (G2 & R2 & A2 & M2).
        assert (Er2 : r (step (step s (LDies t)) (LAfterPump t)) = RWait t) by (rewrite R2, R1; exact Er).
        destruct (st_reconnect _ t G2 Er2 M2) as (G3 & R3 & A3).
        change (exec s [LDies t; LAfterPump t; LReconnect]) with (step (step (step s (LDies t)) (LAfterPump t)) LReconnect).
        assert (N1 : acst (step (step (step s (LDies t)) (LAfterPump t)) LReconnect) <> Shutdown) by (rewrite A3, A2; discriminate).
        destruct (tail_to_ready _ G3 R3 N1) as (A & B & C).
        repeat split; auto; cbn; lia.
      * unfold exec. cbn [fold_left]. split; [exact Ea|split; [rewrite Pc; exact Ea|split; [cbn; lia|exists t; auto]]].
    + rewrite Ea. cbn [cstate_eqb andb]. rewrite Mf. change [LReconnect; LTop; LDialOk; LSetReady] with ([LReconnect] ++ [LTop; LDialOk; LSetReady]). rewrite Split.
      destruct (st_reconnect s t G Er Mf) as (G3 & R3 & A3).
      change (exec s [LReconnect]) with (step s LReconnect). assert (N1 : acst (step s LReconnect) <> Shutdown) by (rewrite A3, Ea; discriminate). destruct (tail_to_ready _ G3 R3 N1) as (A & B & C).
      repeat split; auto; cbn; lia.
  - exfalso. apply NS. exact PC.
Qed.
