From Coq Require Import List Bool NArith Arith Lia.
From WV Require Import Model.Gen Proofs.DispatchP.
Import ListNotations.
Open Scope N_scope.

Lemma beqb_refl a : beqb a a = true. Proof. now apply beqb_eq. Qed.
Lemma beqb_neq a b : a <> b -> beqb a b = false.
Proof. intros H. destruct (beqb a b) eqn:E; [apply beqb_eq in E; contradiction|reflexivity]. Qed.

(* hname is injective in the method's Go name (same service) *)
Lemma hname_inj sgo a b : hname sgo a = hname sgo b -> a = b.
Proof. unfold hname. intros H. inversion H as [H1]. apply app_inv_head in H1. inversion H1 as [H2].
  apply app_inv_tail in H2. exact H2. Qed.

Section Svc.
Variable s : svc.
Let ms := s_methods s.
Let sgo := go_camel (s_name s).

(* validity: what protoc guarantees (distinct method names) plus the guard the generator
   silently needs (distinct methods keep distinct Go names) *)
Definition valid : Prop := NoDup (map m_name ms) /\ NoDup (map (fun m => go_camel (m_name m)) ms).

Lemma lookup_desc : forall (l : list meth) m, NoDup (map m_name l) -> In m l ->
  lookup (m_name m) (map (fun m => {| d_method := m_name m; d_handler := hname sgo (go_camel (m_name m)) |}) l)
  = Some (hname sgo (go_camel (m_name m))).
Proof. induction l as [|x l IH]; intros m ND I; [contradiction|]. cbn [map lookup d_method d_handler].
  inversion ND as [|? ? NI ND']; subst. destruct I as [->|I].
  - assert (L : lookup (m_name m) (map (fun m => {| d_method := m_name m; d_handler := hname sgo (go_camel (m_name m)) |}) l) = None).
    { clear IH ND ND'. induction l as [|y l IHl]; [reflexivity|]. cbn [map lookup d_method d_handler].
      cbn [map In] in NI. rewrite IHl by tauto. rewrite beqb_neq; [reflexivity|]. intros E. apply NI. left. now symmetry. }
    rewrite L, beqb_refl. reflexivity.
  - rewrite (IH m ND' I). reflexivity. Qed.

Lemma find_handler_gen : forall (l : list meth) m, NoDup (map (fun m => go_camel (m_name m)) l) -> In m l ->
  find_handler (hname sgo (go_camel (m_name m)))
    (map (fun m => {| h_name := hname sgo (go_camel (m_name m)); h_in := m_in m; h_srv := sgo ++ str_Server; h_call := go_camel (m_name m) |}) l)
  = Some {| h_name := hname sgo (go_camel (m_name m)); h_in := m_in m; h_srv := sgo ++ str_Server; h_call := go_camel (m_name m) |}.
Proof. induction l as [|x l IH]; intros m ND I; [contradiction|]. cbn [map find_handler h_name].
  inversion ND as [|? ? NI ND']; subst. destruct I as [->|I]; [now rewrite beqb_refl|].
  rewrite beqb_neq; [apply IH; auto|]. intros E. apply hname_inj in E. apply NI. rewrite <- E.
  apply (in_map (fun m => go_camel (m_name m))) in I. exact I. Qed.

(* the stub of method m, called on a peer where the generated descriptor was registered, runs
   exactly the handler generated for m: it decodes m's input type and calls m's Go method *)
Theorem connects : valid -> forall m, In m ms ->
  route (gen_svc s) {| st_go := go_camel (m_name m); st_invoke := m_name m; st_in := m_in m; st_out := m_out m |}
  = Some {| h_name := hname sgo (go_camel (m_name m)); h_in := m_in m; h_srv := sgo ++ str_Server; h_call := go_camel (m_name m) |}.
Proof. intros [V1 V2] m I. unfold route, gen_svc. cbn [st_invoke g_desc g_handlers].
  pose proof (lookup_desc ms m V1 I) as L. pose proof (find_handler_gen ms m V2 I) as F.
  subst ms sgo. rewrite L. exact F. Qed.

Theorem stubs_cover : forall m, In m ms ->
  In {| st_go := go_camel (m_name m); st_invoke := m_name m; st_in := m_in m; st_out := m_out m |} (g_stubs (gen_svc s)).
Proof. intros m I. unfold gen_svc. cbn [g_stubs]. apply (in_map (fun m => {| st_go := go_camel (m_name m); st_invoke := m_name m; st_in := m_in m; st_out := m_out m |})) in I. exact I. Qed.
End Svc.

Theorem zero_services : gen_file [] = None. Proof. reflexivity. Qed.
Theorem some_services s ss : gen_file (s :: ss) = Some (map gen_svc (s :: ss)). Proof. reflexivity. Qed.
