From Coq Require Import List Bool NArith ZArith Lia ZifyN ZifyNat ZifyBool.
From WV Require Import Model.Varint.
Import ListNotations.
Open Scope N_scope.
Ltac Zify.zify_post_hook ::= Z.div_mod_to_equations.

Lemma vdec_venc : forall k n shift acc rest,
  (1 <= k)%nat -> n < 2 ^ (7 * N.of_nat k - 6) ->
  vdec k shift acc (venc k n ++ rest) = Some (acc + n * 2 ^ shift, rest).
Proof.
  induction k as [|f IH]; intros n shift acc rest Hk Hn; [lia|].
  cbn [venc]. destruct (N.ltb_spec n 128) as [Hlt|Hge].
  - cbn [app vdec]. destruct (N.ltb_spec n 128); [|lia].
    destruct (Nat.eqb f 0) eqn:Ef; cbn [andb]; [|reflexivity].
    apply Nat.eqb_eq in Ef. subst. change (7 * N.of_nat 1 - 6) with 1 in Hn. change (2 ^ 1) with 2 in Hn.
    destruct (N.ltb_spec 1 n); [lia|]. reflexivity.
  - cbn [app vdec]. destruct (N.ltb_spec (128 + n mod 128) 128); [lia|].
    destruct f as [|f'].
    + change (7 * N.of_nat 1 - 6) with 1 in Hn. change (2 ^ 1) with 2 in Hn. lia.
    + assert (Hn' : n / 128 < 2 ^ (7 * N.of_nat (S f') - 6)).
      { replace (7 * N.of_nat (S (S f')) - 6) with (7 + (7 * N.of_nat (S f') - 6)) in Hn by lia.
        rewrite N.pow_add_r in Hn. change (2 ^ 7) with 128 in Hn.
        apply N.div_lt_upper_bound; lia. }
      rewrite IH; [|lia|exact Hn'].
      f_equal. f_equal. replace (128 + n mod 128 - 128) with (n mod 128) by lia.
      rewrite N.pow_add_r. change (2 ^ 7) with 128.
      pose proof (N.div_mod n 128 ltac:(lia)) as Hdm.
      set (p := 2 ^ shift) in *. rewrite Hdm at 3. lia.
Qed.

Theorem unvarint_varint n rest : n < 2 ^ 64 -> unvarint (varint n ++ rest) = Some (n, rest).
Proof. intros H. unfold unvarint, varint. rewrite vdec_venc; [f_equal; f_equal; cbn; lia | lia | exact H]. Qed.

(* every emitted byte is a byte *)
Lemma venc_bytes k : forall n, Forall (fun b => b < 256) (venc k n).
Proof. induction k as [|k IH]; intros n; cbn [venc]; [constructor|]. destruct (N.ltb_spec n 128); constructor; auto; lia. Qed.

Lemma varint_nonempty n : (1 <= length (varint n))%nat.
Proof. unfold varint. cbn [venc]. destruct (n <? 128); cbn [length]; lia. Qed.

(* a successful decode consumes at least one byte and leaves a suffix *)
Lemma vdec_shorter : forall k shift acc b v r, vdec k shift acc b = Some (v, r) -> (length r < length b)%nat.
Proof.
  induction k as [|k IH]; intros shift acc b v r H; [discriminate|].
  destruct b as [|x b']; [discriminate|]. cbn [vdec] in H.
  destruct (x <? 128).
  - destruct ((Nat.eqb k 0) && (1 <? x))%bool; [discriminate|]. inversion H; subst. cbn [length]. lia.
  - apply IH in H. cbn [length]. lia.
Qed.
Lemma unvarint_shorter b v r : unvarint b = Some (v, r) -> (length r < length b)%nat.
Proof. apply vdec_shorter. Qed.
