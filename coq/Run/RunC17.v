From WV Require Export Model.Keepalive.
Open Scope Z_scope.

Inductive case :=
| CDetect (W : Z) (pongs : list Z) (silent_from : Z) (measured slack : Z)   (* torn down at 'measured' *)
| CIdle (W P : Z) (cycles : Z) (alive_at : Z) (torn : bool)                 (* healthy idle session observed until alive_at *)
| CConsts (W P : Z).

Definition ok (c : case) : bool :=
  match c with
  | CDetect W pongs T m slack =>
      let e := teardown W pongs in
      (Z.abs (m - e) <=? slack) && (m <=? T + W + slack)
  | CIdle W P cycles t torn => negb torn
  | CConsts W P => (0 <? P) && (P <? W) && (W + P <=? 38000000000)
  end.
Fixpoint mism (i : N) (cs : list case) : list N :=
  match cs with [] => [] | c :: r => if ok c then mism (i + 1) r else i :: mism (i + 1) r end.
Definition mismatches (cs : list case) : list N := mism 0 cs.
