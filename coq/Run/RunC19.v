From WV Require Export Model.Gen.
Open Scope N_scope.

Inductive case :=
| CCamel (s out : bytes)
| CGen (ss : list svc) (out : option (list gsvc)).

Fixpoint all2 {A} (f : A -> A -> bool) (a b : list A) : bool :=
  match a, b with [], [] => true | x :: a', y :: b' => f x y && all2 f a' b' | _, _ => false end.
Definition stub_eqb (a b : stub) := beqb (st_go a) (st_go b) && beqb (st_invoke a) (st_invoke b) && beqb (st_in a) (st_in b) && beqb (st_out a) (st_out b).
Definition handler_eqb (a b : handler) := beqb (h_name a) (h_name b) && beqb (h_in a) (h_in b) && beqb (h_srv a) (h_srv b) && beqb (h_call a) (h_call b).
Definition dentry_eqb (a b : dentry) := beqb (d_method a) (d_method b) && beqb (d_handler a) (d_handler b).
Definition gsvc_eqb (a b : gsvc) :=
  beqb (g_client a) (g_client b) && beqb (g_client_impl a) (g_client_impl b) && beqb (g_new_client a) (g_new_client b) &&
  beqb (g_server a) (g_server b) && beqb (g_register a) (g_register b) && beqb (g_descvar a) (g_descvar b) && beqb (g_sname a) (g_sname b) &&
  all2 stub_eqb (g_stubs a) (g_stubs b) && all2 handler_eqb (g_handlers a) (g_handlers b) && all2 dentry_eqb (g_desc a) (g_desc b).

Definition ok (c : case) : bool :=
  match c with
  | CCamel s out => beqb (go_camel s) out
  | CGen ss out =>
      match gen_file ss, out with
      | None, None => true
      | Some a, Some b => all2 gsvc_eqb a b
      | _, _ => false end
  end.
Fixpoint mism (i : N) (cs : list case) : list N :=
  match cs with [] => [] | c :: r => if ok c then mism (i + 1) r else i :: mism (i + 1) r end.
Definition mismatches (cs : list case) : list N := mism 0 cs.
