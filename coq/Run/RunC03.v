From WV Require Export Model.Auth.
Open Scope N_scope.

Inductive case :=
| CVerify (allow : list bytes) (raw : list cert) (accepted : bool)
| CKeys (ks : list bytes) (ok : bool)
| CTls (server : bool) (c : tlscfg).

Definition tls_eqb (a b : tlscfg) : bool :=
  (min_version a =? min_version b) && (max_version a =? max_version b) && (client_auth a =? client_auth b)
  && Bool.eqb (has_verify a) (has_verify b) && Bool.eqb (skip_chain_verify a) (skip_chain_verify b).

Definition ok (c : case) : bool :=
  match c with
  | CVerify allow raw acc => Bool.eqb (match verify allow raw with Accept => true | Refuse => false end) acc
  | CKeys ks o => Bool.eqb (valid_keys ks) o
  | CTls s c => tls_eqb (expected_tls s) c
  end.
Fixpoint mism (i : N) (cs : list case) : list N :=
  match cs with [] => [] | c :: r => if ok c then mism (i + 1) r else i :: mism (i + 1) r end.
Definition mismatches (cs : list case) : list N := mism 0 cs.
