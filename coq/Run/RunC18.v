From WV Require Export Model.Limits.
Open Scope Z_scope.

Inductive role := RClient | RServer.
Inductive case :=
| CTransport (K : consts) (c : cfg) (eff_rl eff_wt : Z)        (* transport constructor over a recording conn *)
| CClientCfg (os : list dial_opt) (c : cfg)                    (* ConnectOptions handed to NewClientTransport *)
| CServerCfg (K : consts) (os : list srv_opt) (c : cfg)        (* ServerConfig handed to NewServerTransport *)
| CDeliver (limit size : Z) (delivered : bool).                (* end to end, real sockets *)

Definition cfg_eqb (a b : cfg) : bool := (rl a =? rl b) && (wt a =? wt b).

Definition ok (c : case) : bool :=
  match c with
  | CTransport K c r w => cfg_eqb (effective K c) {| rl := r; wt := w |}
  | CClientCfg os c => cfg_eqb (client_cfg os) c
  | CServerCfg K os c => cfg_eqb (server_cfg K os) c
  | CDeliver l s d => Bool.eqb (deliver l s) d
  end.

Fixpoint mism (i : N) (cs : list case) : list N :=
  match cs with [] => [] | c :: r => if ok c then mism (i + 1) r else i :: mism (i + 1) r end.
Definition mismatches (cs : list case) : list N := mism 0 cs.
