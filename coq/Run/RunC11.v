From Coq Require Export NArith.
From WV Require Export Model.Registry.

(* a history of registry steps taken from the implementation (gate passages mapped to labels by
   the harness) and the views observed at its end *)
Record obs := { o_open : nat; o_keys : list nat; o_registered : list (nat * nat) (* key, session the harness knows to be served *) }.
(* labels as the harness can name them: a peer going away is known by its key *)
Inductive rlabel := RL (l : label) | RDieK (k : nat).
Inductive case := CHist (ks : list nat) (ls : list rlabel) (o : obs).
Fixpoint rexec (st : state) (ls : list rlabel) : state :=
  match ls with
  | [] => st
  | RL l :: r => rexec (step st l) r
  | RDieK k :: r => rexec (match route st k with Some sid => step st (LDie sid) | None => st end) r
  end.

Fixpoint insert (x : nat) (l : list nat) : list nat := match l with [] => [x] | y :: r => if Nat.leb x y then x :: l else y :: insert x r end.
Definition sort (l : list nat) : list nat := fold_right insert [] l.
Fixpoint nats_eqb (a b : list nat) : bool := match a, b with [], [] => true | x :: a', y :: b' => Nat.eqb x y && nats_eqb a' b' | _, _ => false end.

Definition ok (c : case) : bool :=
  match c with
  | CHist ks ls o =>
      let st := rexec (init ks) ls in
      Nat.eqb (open_connections st) (o_open o) && nats_eqb (sort (connected_keys st)) (sort (o_keys o))
      && forallb (fun ks => match route st (fst ks) with Some s => Nat.eqb s (snd ks) | None => false end) (o_registered o)
  end.
Fixpoint mism (i : N) (cs : list case) : list N :=
  match cs with [] => [] | c :: r => if ok c then mism (i + 1)%N r else i :: mism (i + 1)%N r end.
Definition mismatches (cs : list case) : list N := mism 0%N cs.
