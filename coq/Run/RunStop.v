(* Random walks through the Stop model and the scenario histories of the C10 harness (tests by
   evaluation; the theorems are in Proofs/StopP.v). *)
From Coq Require Import NArith.
From WV Require Export Model.StopLTS.

Definition cands (s : st) : list lab :=
  let ks := seq 0 (length (stops s)) in
  let is := seq 0 (length (ss s)) in
  let js := seq 0 (length (hs s)) in
  [LNewStop; LServe; LNewHs; LApi AOpen; LApi AKeys; LApi AChan; LApi ASend; LApi AUpdate]
  ++ map LStop ks
  ++ flat_map (fun j => [LHs j true; LHs j false]) js
  ++ flat_map (fun i => [LNet i; LSockDie i; LRp i; LHand i; LWpCwp i; LWpErr i; LWpCconn i true; LWpCconn i false; LWpClosed i; LWpAfter i; LHr i; LRevoke i]) is.
Definition enabled (c : cfg) (s : st) : list lab := filter (fun l => match step c s l with Some _ => true | None => false end) (cands s).
Definition next (x : N) : N := ((x * 6364136223846793005 + 1442695040888963407) mod 18446744073709551616)%N.
Definition damp (s : st) (l : lab) (x : N) : bool :=
  match l with
  | LNewStop => Nat.ltb (length (stops s)) 3 && (N.eqb (x mod 41) 0)
  | LNewHs => Nat.ltb (length (hs s)) 6 && (N.eqb (x mod 3) 0)
  | LSockDie _ | LWpErr _ | LRevoke _ => N.eqb (x mod 5) 0
  | LApi _ => N.eqb (x mod 4) 0
  | _ => true end.
Fixpoint walk_to (c : cfg) (n : nat) (x : N) (s : st) : st :=
  match n with
  | O => s
  | S m =>
      match enabled c s with
      | [] => s
      | en =>
          let x1 := next x in
          let l := nth (N.to_nat ((x1 / 65536) mod N.of_nat (length en))) en LNewStop in
          if damp s l (x1 / 4294967296) then match step c s l with Some s' => walk_to c m x1 s' | None => s end
          else walk_to c m x1 s
      end
  end.

Definition safe (s : st) : bool := negb (crashed s) && (if tore s then final s else true).
Fixpoint walk_safe (c : cfg) (n : nat) (x : N) (s : st) : bool :=
  safe s && match n with
  | O => true
  | S m =>
      match enabled c s with
      | [] => true
      | en =>
          let x1 := next x in
          let l := nth (N.to_nat ((x1 / 65536) mod N.of_nat (length en))) en LNewStop in
          if damp s l (x1 / 4294967296) then match step c s l with Some s' => walk_safe c m x1 s' | None => true end
          else walk_safe c m x1 s
      end
  end.
Definition unsafe_seeds (c : cfg) (n : nat) (seeds : list N) : list N := filter (fun x => negb (walk_safe c n x init)) seeds.

(* the internal steps alone: Stop calls, the pumps' own steps once their channels are closed, the
   close callbacks, the readers, handshakes which are past the upgrade, Serve *)
Definition helpers (s : st) : list lab :=
  map LStop (seq 0 (length (stops s)))
  ++ flat_map (fun i => [LRp i; LWpCwp i; LWpCconn i true; LWpClosed i; LWpAfter i; LHr i]) (seq 0 (length (ss s)))
  ++ flat_map (fun j => [LHs j false]) (seq 0 (length (hs s)))
  ++ [LServe].
Definition all_returned (s : st) : bool := forallb (fun p => match p with PRet _ => true | _ => false end) (stops s).
Definition hs_done (s : st) : bool := forallb (fun p => match p with KRet | KRefused _ => true | _ => false end) (hs s).
Fixpoint settle (c : cfg) (fuel : nat) (s : st) : st :=
  match fuel with
  | O => s
  | S n =>
      match filter (fun l => match step c s l with Some _ => true | None => false end) (helpers s) with
      | [] => s
      | l :: _ => match step c s l with Some s' => settle c n s' | None => s end
      end
  end.
Definition stops_ok (c : cfg) (s : st) : bool :=
  let s' := settle c 800 (match stops s with [] => s <| stops := [P0] |> | _ => s end) in
  all_returned s' && tore s' && final s' && negb (serve s') && hs_done s' && negb (crashed s')
  (* and every goroutine of every session has really ended *)
  && forallb (fun t => match rp t, hr t with RExit, HExit => true | _, _ => false end) (ss s').
Definition stop_stuck (c : cfg) (n : nat) (seeds : list N) : list N :=
  filter (fun x => negb (stops_ok c (walk_to c n x init))) seeds.

Inductive case := CScen (c : cfg) (prefix : list lab) (impl_ok : bool).
Definition ok (x : case) : bool :=
  match x with CScen c p impl_ok => Bool.eqb (stops_ok c (exec c init p)) impl_ok end.
Fixpoint mism (i : N) (cs : list case) : list N :=
  match cs with [] => [] | x :: r => if ok x then mism (i + 1)%N r else i :: mism (i + 1)%N r end.
Definition mismatches (cs : list case) : list N := mism 0%N cs.

(* a client connects and is admitted *)
Definition p_admit (j : nat) : list lab := [LNewHs; LHs j true; LHs j true; LHs j true; LHs j true].
