From Coq Require Export NArith.
From WV Require Export Model.Rendezvous.
From WV Require Model.RendezvousC.
Module C := Model.RendezvousC.

(* a trace of gate passages of Server.Invoke / handleMessageResponse, mapped to model labels by
   the harness, must be a run of the model (every step enabled), and the invoker's final program
   counters must agree with what was observed *)
Inductive iobs := OOk | OTimeout | ORunning.
Inductive case :=
| CTrace (tr : list lab) (results : list (nat * iobs))            (* Server.Invoke *)
| CTraceC (tr : list C.lab) (results : list (nat * iobs)).       (* ClientConn.Invoke *)

Fixpoint accepted (s : st) (ls : list lab) : option st :=
  match ls with [] => Some s | l :: r => match step true s l with Some s' => accepted s' r | None => None end end.
Definition obs_of (p : ipc) : iobs := match p with IOk => OOk | ITimeout => OTimeout | _ => ORunning end.
Definition iobs_eqb (a b : iobs) : bool := match a, b with OOk, OOk | OTimeout, OTimeout | ORunning, ORunning => true | _, _ => false end.

Fixpoint acceptedC (s : C.st) (ls : list C.lab) : option C.st :=
  match ls with [] => Some s | l :: r => match C.step s l with Some s' => acceptedC s' r | None => None end end.
Definition obs_ofC (p : C.ipc) : iobs := match p with C.IOk => OOk | C.ITimeout => OTimeout | _ => ORunning end.

Definition ok (c : case) : bool :=
  match c with
  | CTraceC tr res =>
      match acceptedC C.init tr with
      | Some s => forallb (fun x => iobs_eqb (obs_ofC (C.ipcs s (fst x))) (snd x)) res
      | None => false end
  | CTrace tr res =>
      match accepted init tr with
      | Some s => forallb (fun x => iobs_eqb (obs_of (ipcs s (fst x))) (snd x)) res
      | None => false end
  end.
Fixpoint mism (i : N) (cs : list case) : list N :=
  match cs with [] => [] | c :: r => if ok c then mism (i + 1)%N r else i :: mism (i + 1)%N r end.
Definition mismatches (cs : list case) : list N := mism 0%N cs.
