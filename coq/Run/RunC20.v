From WV Require Export Model.Uni.
From WV Require Import Run.RunC16.
Open Scope N_scope.

Inductive case :=
| CInvoke (dl : bool) (s : list ev) (r : result) (tr : list op) (leftover : N)
| CRetry (ds : list dial) (r : cres) (waits : list Z)
| CAgain (s : list ev) (conn : N).   (* after a call with this script, the next call's first write went to connection conn *)

Definition result_eqb (a b : result) : bool :=
  match a, b with
  | RReply x, RReply y => resp_eqb x y
  | RRemote x, RRemote y => bytes_eqb x y
  | RBadFrame, RBadFrame | RBadFrame, RBadReply | RBadReply, RBadFrame | RBadReply, RBadReply => true
  | RUnexpected, RUnexpected | RCtx, RCtx | RConnErr, RConnErr | RStuck, RStuck => true
  | _, _ => false end.
Definition op_eqb (a b : op) : bool :=
  match a, b with
  | OWrite x, OWrite y | ORead x, ORead y | OSetW x, OSetW y | OSetR x, OSetR y => x =? y
  | OConnect, OConnect => true
  | _, _ => false end.
Fixpoint ops_eqb (a b : list op) : bool :=
  match a, b with [], [] => true | x :: a', y :: b' => op_eqb x y && ops_eqb a' b' | _, _ => false end.
Definition cres_eqb (a b : cres) : bool :=
  match a, b with Connected, Connected | CtxEnded, CtxEnded | CStuck, CStuck => true | _, _ => false end.
Fixpoint zs_eqb (a b : list Z) : bool :=
  match a, b with [], [] => true | x :: a', y :: b' => Z.eqb x y && zs_eqb a' b' | _, _ => false end.

Definition ok (c : case) : bool :=
  match c with
  | CInvoke dl s r tr nleft =>
      let '(r', tr', s') := run_invoke dl s in
      result_eqb r' r && ops_eqb tr' tr && (N.of_nat (length s') =? nleft)
  | CRetry ds r waits =>
      let '(r', w') := run_retry ds in cres_eqb r' r && zs_eqb w' waits
  | CAgain s conn => fst (run_held s) =? conn
  end.

Fixpoint mism (i : N) (cs : list case) : list N :=
  match cs with [] => [] | c :: r => if ok c then mism (i + 1) r else i :: mism (i + 1) r end.
Definition mismatches (cs : list case) : list N := mism 0 cs.
