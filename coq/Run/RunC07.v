From WV Require Export Model.Dispatch.
From WV Require Import Run.RunC16.
Open Scope N_scope.

Inductive case :=
| CUuid (s : bytes) (accepted : bool)
| CFrame (e : ep) (f : bytes) (eff : effect) (o : option outcome) (written : list bytes) (pend_after : list bytes).

Fixpoint lbeqb (a b : list bytes) : bool :=
  match a, b with
  | [], [] => true
  | x :: a', y :: b' => beqb x y && lbeqb a' b'
  | _, _ => false end.

Definition effect_eqb (a b : effect) : bool :=
  match a, b with
  | EDrop, EDrop => true
  | ERun x, ERun y => req_eqb x y
  | EDeliver x, EDeliver y => resp_eqb x y
  | _, _ => false end.

Definition ok (c : case) : bool :=
  match c with
  | CUuid s acc => Bool.eqb (is_v4 s) acc
  | CFrame e f eff o written pa =>
      let '(x, e') := process e f in
      effect_eqb x eff && lbeqb (e_pending e') pa &&
      match x with
      | ERun q =>
          match o with
          | Some oc => match response_of (r_callid q) oc with
                       | Some b => lbeqb written [b]
                       | None => lbeqb written [] end
          | None => false end
      | _ => lbeqb written []
      end
  end.

Fixpoint mism (i : N) (cs : list case) : list N :=
  match cs with [] => [] | c :: r => if ok c then mism (i + 1) r else i :: mism (i + 1) r end.
Definition mismatches (cs : list case) : list N := mism 0 cs.
