(* Random walks through the Close model: candidates are all labels over the current index
   ranges; a linear congruential generator picks among the enabled ones. Used to test the
   invariant (a test, not a proof) and by the C09 check to evaluate scenario histories. *)
From Coq Require Import NArith.
From WV Require Export Proofs.CloseInv.

Definition cands (s : st) : list lab :=
  let ks := seq 0 (length (cl s)) in
  let gsq := seq 0 (length (trs s)) in
  let is := seq 0 (length (gs s)) in
  [LNewClose; LRt true; LRt false; LDial true; LDial false; LTimer; LRtCtx; LRtFired; LLc; LLcExit; LLr; LLrExit; LNewInvoke]
  ++ flat_map (fun k => [LClose k true; LClose k false]) ks
  ++ flat_map (fun g => [LNet g; LSockDie g; LRp g; LHand g None; LHand g (Some true); LHand g (Some false); LWpCwp g; LWpCconn g true; LWpCconn g false;
                         LWpTickErr g; LWpClosed g; LWpLock g; LWpRel g true; LWpRel g false; LHr g]) gsq
  ++ flat_map (fun i => [LG i GA; LG i GAClosed; LG i (GAHand true); LG i (GAHand false); LG i GACtx; LG i GAResp; LG i GAConn; LHandlerRet i true; LHandlerRet i false]) is.

Definition enabled (c : cfg) (s : st) : list lab := filter (fun l => match step c s l with Some _ => true | None => false end) (cands s).

Definition next (x : N) : N := ((x * 6364136223846793005 + 1442695040888963407) mod 18446744073709551616)%N.

(* growth is damped: new closes, invokes and dials become rarer as the state grows *)
Definition damp (s : st) (l : lab) (x : N) : bool :=
  match l with
  | LNewClose => Nat.ltb (length (cl s)) 3 && (N.eqb (x mod 61) 0)
  | LNewInvoke => Nat.ltb (length (gs s)) 6 && (N.eqb (x mod 3) 0)
  | LSockDie _ => N.eqb (x mod 3) 0
  | _ => true end.

Fixpoint walk (c : cfg) (chk : st -> bool) (n : nat) (x : N) (s : st) : option (list lab) :=
  if negb (chk s) then Some [] else
  match n with
  | O => None
  | S m =>
      let en := enabled c s in
      match en with
      | [] => None
      | _ =>
          let x1 := next x in
          let l := nth (N.to_nat ((x1 / 65536) mod N.of_nat (length en))) en LNewClose in
          if damp s l (x1 / 4294967296) then
            match step c s l with
            | Some s' => match walk c chk m x1 s' with Some tr => Some (l :: tr) | None => None end
            | None => None end
          else walk c chk m x1 s
      end
  end.

(* first failing walk among seeds *)
Fixpoint walks (c : cfg) (chk : st -> bool) (n : nat) (seeds : list N) : option (N * list lab) :=
  match seeds with
  | [] => None
  | x :: r => match walk c chk n x init with Some tr => Some (x, tr) | None => walks c chk n r end
  end.

(* ---- Close returns: the internal steps alone bring every Close call to its end (a test by
   evaluation on given states, not a theorem: see DESIGN.md) ---- *)
(* the labels which are not the environment starting new work: internal steps of the goroutines,
   the failure of a dial in progress, the expiry of a timer, the return of a user handler *)
Definition helpers (s : st) : list lab :=
  let ks := seq 0 (length (cl s)) in
  let gsq := seq 0 (length (trs s)) in
  let is := seq 0 (length (gs s)) in
  flat_map (fun k => [LClose k true; LClose k false]) ks
  ++ [LRt true; LRt false; LRtCtx; LRtFired; LDial false; LLc; LLcExit; LLr; LLrExit]
  ++ flat_map (fun g => [LRp g; LWpCwp g; LWpCconn g true; LWpClosed g; LWpLock g; LWpRel g true; LWpRel g false; LHr g]) gsq
  ++ flat_map (fun i => [LHandlerRet i false; LG i GA; LG i GAClosed; LG i GAConn; LG i (GAHand true)]) is.

Definition all_returned (s : st) : bool := forallb (fun p => match p with CRet _ => true | _ => false end) (cl s).

Fixpoint settle (c : cfg) (fuel : nat) (s : st) : st :=
  match fuel with
  | O => s
  | S n =>
      match filter (fun l => match step c s l with Some _ => true | None => false end) (helpers s) with
      | [] => s
      | l :: _ => match step c s l with Some s' => settle c n s' | None => s end
      end
  end.

(* from the state a schedule leads to, with at least one Close started: do the helpers finish it? *)
Definition closes_ok (c : cfg) (s : st) : bool :=
  let s' := settle c 600 (match cl s with [] => s <| cl := [C0] |> | _ => s end) in
  all_returned s' && tore s' && final s' && negb (crashed s')
  (* and every read pump has really ended *)
  && forallb (fun t => match rp t with RPExit => true | _ => false end) (trs s').

Fixpoint walk_to (c : cfg) (n : nat) (x : N) (s : st) : st :=
  match n with
  | O => s
  | S m =>
      let en := enabled c s in
      match en with
      | [] => s
      | _ =>
          let x1 := next x in
          let l := nth (N.to_nat ((x1 / 65536) mod N.of_nat (length en))) en LNewClose in
          if damp s l (x1 / 4294967296) then
            match step c s l with Some s' => walk_to c m x1 s' | None => s end
          else walk_to c m x1 s
      end
  end.

(* seeds on which Close does not come to its end from the state reached after n random steps *)
Definition close_stuck (c : cfg) (n : nat) (seeds : list N) : list N :=
  filter (fun x => negb (closes_ok c (walk_to c n x init))) seeds.

(* ---- the scenarios of the harness as histories: the environment's part, then the helpers ---- *)
Inductive case := CScen (c : cfg) (prefix : list lab) (impl_ok : bool).
Definition ok (x : case) : bool :=
  match x with CScen c p impl_ok => Bool.eqb (closes_ok c (exec c init p)) impl_ok end.
Fixpoint mism (i : N) (cs : list case) : list N :=
  match cs with [] => [] | x :: r => if ok x then mism (i + 1)%N r else i :: mism (i + 1)%N r end.
Definition mismatches (cs : list case) : list N := mism 0%N cs.

(* connect: the loop dials, records the transport, reports Ready, the reader is attached *)
Definition p_connect : list lab := [LLc; LRt true; LRt true; LDial true; LRt true; LRt true; LLc; LLr; LLr; LLr; LLr].
