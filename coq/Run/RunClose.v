(* Random walks through the Close model: candidates are all labels over the current index
   ranges; a linear congruential generator picks among the enabled ones. Used to test the
   invariant (a test, not a proof) and by the C09 check to evaluate scenario histories. *)
From Coq Require Import NArith.
From WV Require Export Proofs.CloseInv.

Definition cands (s : st) : list lab :=
  let ks := seq 0 (length (cl s)) in
  let gsq := seq 0 (length (trs s)) in
  let is := seq 0 (length (gs s)) in
  [LNewClose; LRt true; LRt false; LDial true; LDial false; LTimer; LRtCtx; LRtFired; LLc; LLcExit; LLr; LLrExit; LNewInvoke]
  ++ flat_map (fun k => [LClose k true; LClose k false]) ks
  ++ flat_map (fun g => [LNet g; LSockDie g; LRp g; LHand g None; LHand g (Some true); LHand g (Some false); LWpCwp g; LWpCconn g true; LWpCconn g false;
                         LWpTickErr g; LWpClosed g; LWpLock g; LWpRel g true; LWpRel g false; LHr g]) gsq
  ++ flat_map (fun i => [LG i GA; LG i GAClosed; LG i (GAHand true); LG i (GAHand false); LG i GACtx; LG i GAResp; LG i GAConn; LHandlerRet i true; LHandlerRet i false]) is.

Definition enabled (c : cfg) (s : st) : list lab := filter (fun l => match step c s l with Some _ => true | None => false end) (cands s).

Definition next (x : N) : N := ((x * 6364136223846793005 + 1442695040888963407) mod 18446744073709551616)%N.

(* growth is damped: new closes, invokes and dials become rarer as the state grows *)
Definition damp (s : st) (l : lab) (x : N) : bool :=
  match l with
  | LNewClose => Nat.ltb (length (cl s)) 3 && (N.eqb (x mod 61) 0)
  | LNewInvoke => Nat.ltb (length (gs s)) 6 && (N.eqb (x mod 3) 0)
  | LSockDie _ => N.eqb (x mod 3) 0
  | _ => true end.

Fixpoint walk (c : cfg) (chk : st -> bool) (n : nat) (x : N) (s : st) : option (list lab) :=
  if negb (chk s) then Some [] else
  match n with
  | O => None
  | S m =>
      let en := enabled c s in
      match en with
      | [] => None
      | _ =>
          let x1 := next x in
          let l := nth (N.to_nat ((x1 / 65536) mod N.of_nat (length en))) en LNewClose in
          if damp s l (x1 / 4294967296) then
            match step c s l with
            | Some s' => match walk c chk m x1 s' with Some tr => Some (l :: tr) | None => None end
            | None => None end
          else walk c chk m x1 s
      end
  end.

(* first failing walk among seeds *)
Fixpoint walks (c : cfg) (chk : st -> bool) (n : nat) (seeds : list N) : option (N * list lab) :=
  match seeds with
  | [] => None
  | x :: r => match walk c chk n x init with Some tr => Some (x, tr) | None => walks c chk n r end
  end.
