From Coq Require Export NArith.
From WV Require Export Model.FsmPub.

(* a history of the state machine's steps taken from the implementation (gate passages and
   harness events mapped to labels), with the authoritative and the published history observed *)
Inductive case := CHist (ls : list label) (auth_obs pub_obs : list cstate) (closed : bool).

Fixpoint cs_eqb (a b : list cstate) : bool :=
  match a, b with [], [] => true | x :: a', y :: b' => cstate_eqb x y && cs_eqb a' b' | _, _ => false end.
(* b is a subsequence of a *)
Fixpoint subseq (a b : list cstate) : bool :=
  match b with
  | [] => true
  | y :: b' => (fix find (l : list cstate) : bool := match l with [] => false | x :: l' => if cstate_eqb x y then subseq l' b' else find l' end) a
  end.

Definition ok (c : case) : bool :=
  match c with
  | CHist ls a p closed =>
      let s := exec init ls in
      cs_eqb (auth s) a && chain Idle a &&
      (if closed then subseq (a ++ [Shutdown]) p && cstate_eqb (csm s) Shutdown && cstate_eqb (last p Idle) Shutdown
       else cs_eqb (pub s) p)
  end.
Fixpoint mism (i : N) (cs : list case) : list N :=
  match cs with [] => [] | c :: r => if ok c then mism (i + 1)%N r else i :: mism (i + 1)%N r end.
Definition mismatches (cs : list case) : list N := mism 0%N cs.
