From WV Require Export Model.Session.
From WV Require Import Run.RunC16 Run.RunC07.
Open Scope N_scope.

(* what the harness observed at the end of a history on the real endpoints *)
Record obs := {
  o_results : list (option result);          (* per call, in call order; None = still pending *)
  o_handlers : list (side * req * option outcome);   (* handler instances in start order *)
  o_pendA : list bytes; o_pendB : list bytes;        (* sorted ids *)
  o_qA : N; o_qB : N                                 (* frames still in flight towards A / B *)
}.
Inductive case := CHist (sa sb : option (list bytes)) (ls : list label) (o : obs).

Definition result_eqb (a b : result) : bool :=
  match a, b with
  | RReply x, RReply y | RRemote x, RRemote y => bytes_eqb x y
  | RTimeout, RTimeout | RSendFail, RSendFail => true
  | _, _ => false end.
Definition oresult_eqb (a b : option result) : bool :=
  match a, b with Some x, Some y => result_eqb x y | None, None => true | _, _ => false end.
Definition outcome_eqb (a b : outcome) : bool :=
  match a, b with
  | Reply x, Reply y => bytes_eqb x y
  | FailWith x e, FailWith y f => bytes_eqb x y && bytes_eqb e f
  | FailBare e, FailBare f => bytes_eqb e f
  | _, _ => false end.
Definition ooutcome_eqb (a b : option outcome) : bool :=
  match a, b with Some x, Some y => outcome_eqb x y | None, None => true | _, _ => false end.
Fixpoint all2 {X Y} (f : X -> Y -> bool) (a : list X) (b : list Y) : bool :=
  match a, b with [], [] => true | x :: a', y :: b' => f x y && all2 f a' b' | _, _ => false end.

(* insertion sort of ids by their byte order, to compare tables as sets *)
Fixpoint bytes_leb (a b : bytes) : bool :=
  match a, b with
  | [], _ => true
  | _ :: _, [] => false
  | x :: a', y :: b' => if x <? y then true else if y <? x then false else bytes_leb a' b' end.
Fixpoint insert (x : bytes) (l : list bytes) : list bytes :=
  match l with [] => [x] | y :: r => if bytes_leb x y then x :: l else y :: insert x r end.
Definition sort (l : list bytes) : list bytes := fold_right insert [] l.

Definition ok (c : case) : bool :=
  match c with
  | CHist sa sb ls o =>
      let s := exec (init sa sb) ls in
      all2 (fun (m : call * cstate) (r : option result) =>
              oresult_eqb (match snd m with CPending => None | CDone x _ => Some x end) r) (calls s) (o_results o)
      && all2 (fun (h : hinst) (x : side * req * option outcome) =>
              side_eqb (h_side h) (fst (fst x)) && req_eqb (h_req h) (snd (fst x)) && ooutcome_eqb (h_out h) (snd x)) (hs s) (o_handlers o)
      && lbeqb (sort (pendA s)) (o_pendA o) && lbeqb (sort (pendB s)) (o_pendB o)
      && (N.of_nat (length (qBA s)) =? o_qA o) && (N.of_nat (length (qAB s)) =? o_qB o)
  end.
Fixpoint mism (i : N) (cs : list case) : list N :=
  match cs with [] => [] | c :: r => if ok c then mism (i + 1) r else i :: mism (i + 1) r end.
Definition mismatches (cs : list case) : list N := mism 0 cs.
