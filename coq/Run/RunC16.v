(* Evaluator used by the generated cases file of C16: compares what the Go
   implementation did with what the model says, returns the indices that differ. *)
From WV Require Export Model.Wire.
Open Scope N_scope.

Inductive case :=
| CEnc (m : msg) (out : option bytes)      (* NewRequest/NewResponse + MarshalProtoMessage *)
| CDec (b : bytes) (out : option msg).     (* UnmarshalProtoMessage; None = error *)

Definition bytes_eqb (a b : bytes) : bool := if list_eq_dec N.eq_dec a b then true else false.
Definition req_eqb (a b : req) := bytes_eqb (r_method a) (r_method b) && bytes_eqb (r_callid a) (r_callid b) && bytes_eqb (r_payload a) (r_payload b).
Definition resp_eqb (a b : resp) := bytes_eqb (p_callid a) (p_callid b) && bytes_eqb (p_payload a) (p_payload b) && bytes_eqb (p_error a) (p_error b).
Definition msg_eqb (a b : msg) : bool :=
  match a, b with
  | MNone, MNone => true
  | MReq x, MReq y => req_eqb x y
  | MResp x, MResp y => resp_eqb x y
  | _, _ => false end.

Definition ok (c : case) : bool :=
  match c with
  | CEnc m out =>
      match encode m, out with
      | Some b, Some b' => bytes_eqb b b'
      | None, None => true
      | _, _ => false end
  | CDec b out =>
      match decode b, out with
      | Good m, Some m' => msg_eqb m m'
      | Bad, None => true
      | _, _ => false end
  end.

Fixpoint mism (i : N) (cs : list case) : list N :=
  match cs with [] => [] | c :: r => if ok c then mism (i + 1) r else i :: mism (i + 1) r end.
Definition mismatches (cs : list case) : list N := mism 0 cs.
