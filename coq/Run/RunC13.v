From Coq Require Export NArith.
From WV Require Export Model.Notify.

Inductive outcome := OTrue | OFalse | OParked.
Inductive case :=
| CTrace (s0 : nat) (kd : kind) (tr : list lab) (o : outcome)        (* trace of gate passages taken from the implementation *)
| CRegistry (ops_before : list rop) (change_to : nat) (ops_after : list rop) (closed_after : bool).

(* let the waiter run on its own until it returns or parks *)
Fixpoint settle (fuel : nat) (s : sys) : sys :=
  match fuel with O => s | S f =>
    match w s with
    | W0 => match step s LWGet with Some s' => settle f s' | None => s end
    | W1 _ => match step s LWRead with Some s' => settle f s' | None => s end
    | W2 _ => match step s LWSelect with Some s' => settle f s' | None => s end
    | _ => s end end.
Definition outcome_of (s : sys) : outcome := match w s with WTrue => OTrue | WFalse => OFalse | _ => OParked end.
Definition outcome_eqb (a b : outcome) : bool := match a, b with OTrue, OTrue | OFalse, OFalse | OParked, OParked => true | _, _ => false end.

(* replay of a trace of lock passages: the waiter's select is not a lock passage, so it is taken
   implicitly when the waiter is seen fetching the channel again (WaitForReady's next round) *)
Fixpoint replay (s : sys) (ls : list lab) : option sys :=
  match ls with
  | [] => Some s
  | l :: r =>
      let s1 := match l, w s with
                | LWGet, W2 _ => match step s LWSelect with Some s' => s' | None => s end
                | _, _ => s end in
      match step s1 l with Some s' => replay s' r | None => None end
  end.

Definition ok (c : case) : bool :=
  match c with
  | CTrace s0 kd tr o =>
      match replay (init s0 kd) tr with
      | Some s => outcome_eqb (outcome_of (settle 12 s)) o
      | None => false end
  | CRegistry o1 s o2 cl =>
      let '(m1, c) := getchan (fold_left rstep o1 {| st := 0; cur := None; next := 0; closed := [] |}) in
      Bool.eqb (is_closed c (fold_left rstep o2 (change m1 s))) cl
  end.
Fixpoint mism (i : N) (cs : list case) : list N :=
  match cs with [] => [] | c :: r => if ok c then mism (i + 1)%N r else i :: mism (i + 1)%N r end.
Definition mismatches (cs : list case) : list N := mism 0%N cs.
