From WV Require Export Model.Backoff.
Open Scope Z_scope.

Inductive case :=
| CConsts (c : bcfg)
| COrbit (c : bcfg) (orbit : list Z)            (* jitter-free draws of the real strategy: its intervals *)
| CJitter (c : bcfg) (n : nat) (p : Z)          (* n-th draw of the real default strategy *)
| CLoop (c : bcfg) (outcomes : list bool) (sleeps : list Z)   (* timers requested by resetTransport *)
| CShared (c : bcfg) (first_sleep : Z).         (* first pause of a fresh connection while another one keeps failing *)

Definition cfg_eqb (a b : bcfg) : bool :=
  (base a =? base b) && (cap a =? cap b) && (mnum a * mden b =? mnum b * mden a) && (jnum a * jden b =? jnum b * jden a).
Fixpoint zs_eqb (a b : list Z) : bool :=
  match a, b with [], [] => true | x :: a', y :: b' => (x =? y) && zs_eqb a' b' | _, _ => false end.

Definition ok (k : case) : bool :=
  match k with
  | CConsts c => cfg_eqb c documented
  (* a draw with the jitter switched off is trunc(i + r), r in [0,1), in floating point: i, or i + 1 ns when r is within an ulp of 1
     (about one draw in 10^5 at 10^11 ns) - exactly what in_pause says for jitter 0 *)
  | COrbit c orbit => forallb (fun np => in_pause c (interval c (fst np)) (snd np)) (combine (seq 0 (length orbit)) orbit)
  | CJitter c n p => in_pause c (interval c n) p
  | CLoop c os sl => check_sleeps c (loop_sleeps 0 os) sl
  | CShared c p => in_pause c (interval c 0) p
  end.
Fixpoint mism (i : N) (cs : list case) : list N :=
  match cs with [] => [] | c :: r => if ok c then mism (i + 1) r else i :: mism (i + 1) r end.
Definition mismatches (cs : list case) : list N := mism 0 cs.
