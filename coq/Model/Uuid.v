(* github.com/google/uuid v1.6.0 Parse and Version, as used by
   Server.validateMessageRequest: the call id must parse and have version 4. *)
From WV Require Export Model.Varint.
Open Scope N_scope.

Definition xval (c : N) : option N :=
  if (48 <=? c) && (c <=? 57) then Some (c - 48)
  else if (97 <=? c) && (c <=? 102) then Some (c - 87)
  else if (65 <=? c) && (c <=? 70) then Some (c - 55)
  else None.
Definition xtob (a b : N) : option N :=
  match xval a, xval b with Some x, Some y => Some (16 * x + y) | _, _ => None end.
Definition at_ (s : bytes) (i : nat) : N := nth i s 0.

Fixpoint xtobs (s : bytes) (idx : list nat) : option (list N) :=
  match idx with
  | [] => Some []
  | i :: r => match xtob (at_ s i) (at_ s (S i)), xtobs s r with
              | Some v, Some vs => Some (v :: vs) | _, _ => None end
  end.

Definition idx36 : list nat := [0; 2; 4; 6; 9; 11; 14; 16; 19; 21; 24; 26; 28; 30; 32; 34]%nat.
Definition idx32 : list nat := [0; 2; 4; 6; 8; 10; 12; 14; 16; 18; 20; 22; 24; 26; 28; 30]%nat.
Definition dash : N := 45.

(* s has at least 36 bytes: xxxxxxxx-xxxx-xxxx-xxxx-xxxxxxxxxxxx *)
Definition parse36 (s : bytes) : option (list N) :=
  if (at_ s 8 =? dash) && (at_ s 13 =? dash) && (at_ s 18 =? dash) && (at_ s 23 =? dash)
  then xtobs s idx36 else None.

Definition lower (c : N) : N := if (65 <=? c) && (c <=? 90) then c + 32 else c.
Definition urn : bytes := [117; 114; 110; 58; 117; 117; 105; 100; 58].   (* "urn:uuid:" *)
Fixpoint beqb (a b : bytes) : bool :=
  match a, b with
  | [], [] => true
  | x :: a', y :: b' => (x =? y) && beqb a' b'
  | _, _ => false end.

Definition parse (s : bytes) : option (list N) :=
  let n := length s in
  if Nat.eqb n 36 then parse36 s
  else if Nat.eqb n 45 then (if beqb (map lower (firstn 9 s)) urn then parse36 (skipn 9 s) else None)
  else if Nat.eqb n 38 then parse36 (skipn 1 s)     (* only the first byte is dropped, the last ignored *)
  else if Nat.eqb n 32 then xtobs s idx32
  else None.

Definition version (u : list N) : N := nth 6 u 0 / 16.
Definition is_v4 (s : bytes) : bool :=
  match parse s with Some u => version u =? 4 | None => false end.
