(* Several authenticated sessions on one server: the product of single-session models, indexed
   by the peer's key. The server keeps its pending calls per key (methods.MethodCalls), routes a
   call to the transport registered under the key, and hands each dispatcher the key of its own
   session; a frame arriving on session k is processed against k's table only. *)
From WV Require Export Model.Session.

Definition mstate := nat -> state.
Definition mstep (ms : mstate) (kl : nat * label) : mstate :=
  fun k => if Nat.eqb k (fst kl) then step (ms k) (snd kl) else ms k.
Definition mexec (ms : mstate) (h : list (nat * label)) : mstate := fold_left mstep h ms.

(* the labels of a history that concern session K *)
Definition concerns (K : nat) (h : list (nat * label)) : list label :=
  map snd (filter (fun kl => Nat.eqb K (fst kl)) h).
