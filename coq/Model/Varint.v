(* Base-128 varints as protobuf-go's protowire.AppendVarint / ConsumeVarint. *)
From Coq Require Export List Bool NArith.
Export ListNotations.
Open Scope N_scope.

Definition bytes := list N.
Definition len (b : bytes) : N := N.of_nat (length b).

(* protowire.AppendVarint for a uint64 (at most ten bytes) *)
Fixpoint venc (fuel : nat) (n : N) : bytes :=
  match fuel with
  | O => []
  | S f => if n <? 128 then [n] else (128 + n mod 128) :: venc f (n / 128)
  end.
Definition varint (n : N) : bytes := venc 10 n.

(* protowire.ConsumeVarint: at most 10 bytes, the tenth must be 0 or 1;
   non-minimal encodings are accepted *)
Fixpoint vdec (k : nat) (shift : N) (acc : N) (b : bytes) : option (N * bytes) :=
  match k with
  | O => None
  | S k' =>
    match b with
    | [] => None
    | x :: r =>
      if x <? 128 then
        (if ((Nat.eqb k' 0) && (1 <? x))%bool then None else Some (acc + x * 2 ^ shift, r))
      else vdec k' (shift + 7) (acc + (x - 128) * 2 ^ shift) r
    end
  end.
Definition unvarint (b : bytes) : option (N * bytes) := vdec 10 0 0 b.
