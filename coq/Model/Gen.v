(* cmd/protoc-gen-go-wsrpc: the abstract structure of a generated *_wsrpc.pb.go file
   (identifiers, the Invoke strings of the client stubs, the descriptor table and the
   handlers), the endpoint's registration map (register() in client.go/server.go) and
   dispatch by method name. Names are byte strings. *)
From WV Require Export Model.Varint Model.Uuid Model.Dispatch.
Open Scope N_scope.

Definition is_lower (c : N) : bool := (97 <=? c) && (c <=? 122).
Definition is_digit (c : N) : bool := (48 <=? c) && (c <=? 57).
Definition next_lower (s : bytes) : bool := match s with c :: _ => is_lower c | [] => false end.
Definition upper (c : N) : N := if is_lower c then c - 32 else c.

(* protobuf-go internal/strs.GoCamelCase *)
Fixpoint camel (s : bytes) (first prevdot run : bool) : bytes :=
  match s with
  | [] => []
  | c :: r =>
    if run && is_lower c then c :: camel r false false true
    else if c =? 46 then (if next_lower r then camel r false true false else 95 :: camel r false true false)
    else if (c =? 95) && (first || prevdot) then 88 :: camel r false false false
    else if (c =? 95) && next_lower r then camel r false false false
    else if is_digit c then c :: camel r false false false
    else upper c :: camel r false false true
  end.
Definition go_camel (s : bytes) : bytes := camel s true false false.

Definition unexport (s : bytes) : bytes :=
  match s with c :: r => (if (65 <=? c) && (c <=? 90) then c + 32 else c) :: r | [] => [] end.

(* ---- input: what protoc hands the plugin, with Go type expressions already resolved ---- *)
Record meth := { m_name : bytes; m_in : bytes; m_out : bytes }.
Record svc := { s_name : bytes; s_full : bytes; s_methods : list meth }.

(* ---- output ---- *)
Record stub := { st_go : bytes; st_invoke : bytes; st_in : bytes; st_out : bytes }.
Record handler := { h_name : bytes; h_in : bytes; h_srv : bytes; h_call : bytes }.
Record dentry := { d_method : bytes; d_handler : bytes }.
Record gsvc := {
  g_client : bytes; g_client_impl : bytes; g_new_client : bytes; g_server : bytes; g_register : bytes;
  g_descvar : bytes; g_sname : bytes; g_stubs : list stub; g_handlers : list handler; g_desc : list dentry }.

Definition str_Client : bytes := [67;108;105;101;110;116].
Definition str_Server : bytes := [83;101;114;118;101;114].
Definition str_New : bytes := [78;101;119].
Definition str_Register : bytes := [82;101;103;105;115;116;101;114].
Definition str_ServiceDesc : bytes := [95;83;101;114;118;105;99;101;68;101;115;99].   (* "_ServiceDesc" *)
Definition str_Handler : bytes := [95;72;97;110;100;108;101;114].                     (* "_Handler" *)

Definition hname (sgo mgo : bytes) : bytes := 95 :: sgo ++ 95 :: mgo ++ str_Handler.

Definition gen_svc (s : svc) : gsvc :=
  let sgo := go_camel (s_name s) in
  {| g_client := sgo ++ str_Client;
     g_client_impl := unexport (sgo ++ str_Client);
     g_new_client := str_New ++ sgo ++ str_Client;
     g_server := sgo ++ str_Server;
     g_register := str_Register ++ sgo ++ str_Server;
     g_descvar := sgo ++ str_ServiceDesc;
     g_sname := s_full s;
     g_stubs := map (fun m => {| st_go := go_camel (m_name m); st_invoke := m_name m; st_in := m_in m; st_out := m_out m |}) (s_methods s);
     g_handlers := map (fun m => {| h_name := hname sgo (go_camel (m_name m)); h_in := m_in m; h_srv := sgo ++ str_Server; h_call := go_camel (m_name m) |}) (s_methods s);
     g_desc := map (fun m => {| d_method := m_name m; d_handler := hname sgo (go_camel (m_name m)) |}) (s_methods s) |}.

(* a file with no service produces no output file at all *)
Definition gen_file (ss : list svc) : option (list gsvc) :=
  match ss with [] => None | _ => Some (map gen_svc ss) end.

(* ---- the endpoint: register() builds a map MethodName -> entry, later duplicates win ---- *)
Fixpoint lookup (name : bytes) (tbl : list dentry) : option bytes :=
  match tbl with
  | [] => None
  | d :: r => match lookup name r with Some h => Some h | None => if beqb name (d_method d) then Some (d_handler d) else None end
  end.
Fixpoint find_handler (hn : bytes) (hs : list handler) : option handler :=
  match hs with [] => None | h :: r => if beqb hn (h_name h) then Some h else find_handler hn r end.

(* calling stub st on a peer where g was registered: which handler runs *)
Definition route (g : gsvc) (st : stub) : option handler :=
  match lookup (st_invoke st) (g_desc g) with Some hn => find_handler hn (g_handlers g) | None => None end.
