(* What one inbound frame does to an endpoint: ClientConn.handleRead /
   Server.handleRead and the three handle* functions behind them, up to the point
   where a handler is started or a pending call is handed its response. *)
From WV Require Export Model.Wire Model.Uuid.
Open Scope N_scope.

Inductive role := Srv | Cli.

Record ep := {
  e_role : role;
  e_svc : option (list bytes);     (* None: RegisterService was never called; else the method names *)
  e_pending : list bytes           (* call ids awaiting a response from the peer that sends the frames *)
}.

Inductive effect :=
| EDrop                (* nothing observable happens *)
| ERun (q : req)       (* the handler registered under q's method is started with q *)
| EDeliver (p : resp). (* the call registered under p's id is handed p *)

Fixpoint mem (x : bytes) (l : list bytes) : bool :=
  match l with [] => false | y :: r => beqb x y || mem x r end.
Fixpoint remove1 (x : bytes) (l : list bytes) : list bytes :=
  match l with [] => [] | y :: r => if beqb x y then r else y :: remove1 x r end.

Definition accepts (e : ep) (q : req) : bool :=
  match e_svc e with
  | None => false                 (* no service registered: the request is dropped (nil guard) *)
  | Some ms => mem (r_method q) ms &&
               match e_role e with Srv => is_v4 (r_callid q) | Cli => true end
  end.

Definition process (e : ep) (f : bytes) : effect * ep :=
  match decode f with
  | Good (MReq q) => if accepts e q then (ERun q, e) else (EDrop, e)
  | Good (MResp p) =>
      if mem (p_callid p) (e_pending e) then
        (EDeliver p,
         match e_role e with
         | Srv => {| e_role := Srv; e_svc := e_svc e; e_pending := remove1 (p_callid p) (e_pending e) |}
         | Cli => e      (* the client entry is removed by the caller when Invoke returns *)
         end)
      else (EDrop, e)
  | _ => (EDrop, e)
  end.

(* a whole sequence of frames *)
Fixpoint run (e : ep) (fs : list bytes) : list effect * ep :=
  match fs with
  | [] => ([], e)
  | f :: r => let '(x, e') := process e f in let '(xs, e'') := run e' r in (x :: xs, e'')
  end.

(* The response frame an endpoint writes after a handler returned. *)
Inductive outcome :=
| Reply (v : bytes)              (* (value, nil): v = the value's wire format *)
| FailWith (v : bytes) (e : bytes)  (* (typed value, error) *)
| FailBare (e : bytes).          (* (nil, error): what generated stubs return when the request payload does not decode *)

Definition response_of (callid : bytes) (o : outcome) : option bytes :=
  match o with
  | Reply v => encode (MResp {| p_callid := callid; p_payload := v; p_error := [] |})
  | FailWith v e => encode (MResp {| p_callid := callid; p_payload := v; p_error := e |})
  | FailBare e => encode (MResp {| p_callid := callid; p_payload := []; p_error := e |})
  end.
