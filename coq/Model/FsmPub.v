(* The client connection state machine and its publication (client.go: addrConn.connect,
   resetTransport, createTransport's close callback, teardown, updateConnectivityState,
   ClientConn.listenForConnectivityChange, Close). ac.state changes only inside critical
   sections of ac.mu, each of which is one label here; the hand-off to the publisher happens
   inside the same critical section while the context is live (the publisher does nothing but
   receive), and is dropped once the context has ended. Transports are numbered. *)
From Coq Require Export List Arith Bool.
Export ListNotations.
Open Scope nat_scope.

Inductive cstate := Idle | Connecting | Ready | TransientFailure | Shutdown.
Definition cstate_eqb (a b : cstate) : bool :=
  match a, b with Idle, Idle | Connecting, Connecting | Ready, Ready | TransientFailure, TransientFailure | Shutdown, Shutdown => true | _, _ => false end.

Inductive rpc :=
| RNone                 (* connect() has not been called *)
| RTop                  (* resetTransport at the top of its loop *)
| RDialing              (* dialling, no lock held *)
| RGot (t : nat)        (* the dial succeeded with transport t; about to record it *)
| RFailed               (* the dial failed; about to record the failure *)
| RBackoff              (* waiting for the backoff timer or the context *)
| RWait (t : nat)       (* connected; waiting for t's close event or the context *)
| RExit.

Record st := {
  acst : cstate;            (* ac.state *)
  tr : option nat;          (* ac.transport *)
  dead : list nat;          (* transports whose connection is gone *)
  fired : list nat;         (* transports whose close callback has run *)
  r : rpc;
  ctx_done : bool;          (* the connection's context has ended (Close, or the dial context was cancelled) *)
  torn : bool;              (* teardown has run *)
  csm : cstate;             (* the published state *)
  auth : list cstate;       (* history of ac.state *)
  pub : list cstate;        (* history of the published state *)
  nextt : nat
}.

Definition mem (x : nat) (l : list nat) : bool := existsb (Nat.eqb x) l.

(* updateConnectivityState, inside a critical section of ac.mu *)
Definition set_state (s : st) (v : cstate) : st :=
  if cstate_eqb (acst s) v then s else
  {| acst := v; tr := tr s; dead := dead s; fired := fired s; r := r s; ctx_done := ctx_done s; torn := torn s;
     csm := if ctx_done s then csm s else v; auth := auth s ++ [v];
     pub := if ctx_done s then pub s else pub s ++ [v]; nextt := nextt s |}.
Definition set_r (s : st) (p : rpc) : st :=
  {| acst := acst s; tr := tr s; dead := dead s; fired := fired s; r := p; ctx_done := ctx_done s; torn := torn s; csm := csm s; auth := auth s; pub := pub s; nextt := nextt s |}.
Definition set_tr (s : st) (t : option nat) : st :=
  {| acst := acst s; tr := t; dead := dead s; fired := fired s; r := r s; ctx_done := ctx_done s; torn := torn s; csm := csm s; auth := auth s; pub := pub s; nextt := nextt s |}.
Definition add_dead (s : st) (t : nat) : st :=
  {| acst := acst s; tr := tr s; dead := if mem t (dead s) then dead s else t :: dead s; fired := fired s; r := r s; ctx_done := ctx_done s; torn := torn s; csm := csm s; auth := auth s; pub := pub s; nextt := nextt s |}.
Definition add_fired (s : st) (t : nat) : st :=
  {| acst := acst s; tr := tr s; dead := dead s; fired := t :: fired s; r := r s; ctx_done := ctx_done s; torn := torn s; csm := csm s; auth := auth s; pub := pub s; nextt := nextt s |}.

Inductive label :=
| LConnect | LTop | LDialOk | LDialFail | LAfterFail | LTimer | LCtxExit | LSetReady | LReconnect
| LDies (t : nat)          (* the connection of transport t is lost *)
| LAfterPump (t : nat)     (* t's close callback *)
| LTeardown                (* Close: cancel, then the critical section of teardown *)
| LPublishShutdown         (* Close: publishes Shutdown after teardown *)
| LCancelCtx.              (* the context given to DialWithContext is cancelled *)

Definition step (s : st) (l : label) : st :=
  match l with
  | LConnect => match r s with RNone => if cstate_eqb (acst s) Idle then set_r (set_state s Connecting) RTop else s | _ => s end
  | LTop =>
      match r s with
      | RTop => if cstate_eqb (acst s) Shutdown then set_r s RExit else set_r (set_state (set_tr s None) Connecting) RDialing
      | _ => s end
  | LDialOk =>
      match r s with
      | RDialing => let s1 := set_r s (RGot (nextt s)) in
          {| acst := acst s1; tr := tr s1; dead := dead s1; fired := fired s1; r := r s1; ctx_done := ctx_done s1; torn := torn s1; csm := csm s1; auth := auth s1; pub := pub s1; nextt := S (nextt s) |}
      | _ => s end
  | LDialFail => match r s with RDialing => set_r s RFailed | _ => s end
  | LAfterFail =>
      match r s with
      | RFailed => if cstate_eqb (acst s) Shutdown then set_r s RExit else set_r (set_state s TransientFailure) RBackoff
      | _ => s end
  | LTimer => match r s with RBackoff => set_r s RTop | _ => s end
  | LCtxExit => match r s with RBackoff | RWait _ => if ctx_done s then set_r s RExit else s | _ => s end
  | LSetReady =>
      match r s with
      | RGot t =>
          if cstate_eqb (acst s) Shutdown then set_r (add_dead s t) RExit          (* the fresh transport is closed again *)
          else if mem t (fired s) then set_r s RTop                                 (* it has closed already: not reported *)
          else set_r (set_state (set_tr s (Some t)) Ready) (RWait t)
      | _ => s end
  | LReconnect => match r s with RWait t => if mem t (fired s) then set_r s RTop else s | _ => s end
  | LDies t => if Nat.ltb t (nextt s) then add_dead s t else s
  | LAfterPump t =>
      if mem t (dead s) && negb (mem t (fired s))
      then add_fired (if cstate_eqb (acst s) Ready then set_state s Idle else s) t
      else s
  | LTeardown =>
      if torn s then s else
      let s0 := {| acst := acst s; tr := tr s; dead := dead s; fired := fired s; r := r s; ctx_done := true; torn := true; csm := csm s; auth := auth s; pub := pub s; nextt := nextt s |} in
      if cstate_eqb (acst s0) Shutdown then s0 else
      let s1 := match tr s0 with Some t => add_dead s0 t | None => s0 end in
      set_state (set_tr s1 None) Shutdown
  | LPublishShutdown =>
      if torn s && negb (cstate_eqb (csm s) Shutdown)
      then {| acst := acst s; tr := tr s; dead := dead s; fired := fired s; r := r s; ctx_done := ctx_done s; torn := torn s; csm := Shutdown; auth := auth s; pub := pub s ++ [Shutdown]; nextt := nextt s |}
      else s
  | LCancelCtx =>
      {| acst := acst s; tr := tr s; dead := dead s; fired := fired s; r := r s; ctx_done := true; torn := torn s; csm := csm s; auth := auth s; pub := pub s; nextt := nextt s |}
  end.

Definition exec (s : st) (ls : list label) : st := fold_left step ls s.
Definition init : st :=
  {| acst := Idle; tr := None; dead := []; fired := []; r := RNone; ctx_done := false; torn := false; csm := Idle; auth := []; pub := []; nextt := 0 |}.

(* the edges the property allows *)
Definition legal (a b : cstate) : bool :=
  match a, b with
  | Idle, Connecting | Connecting, Ready | Connecting, TransientFailure | TransientFailure, Connecting | Ready, Idle => true
  | Shutdown, _ => false
  | _, Shutdown => true
  | _, _ => false end.
Fixpoint chain (a : cstate) (l : list cstate) : bool :=
  match l with [] => true | b :: r => legal a b && chain b r end.
