(* One authenticated session between a client endpoint (A) and the server (B), at the level
   of envelopes: calls in both directions, frames in flight, handler instances, pending tables.
   ClientConn.Invoke / Server.Invoke, handleRead and the three handle* functions of each side.
   Ghost fields (origins) record where a frame came from; they are not consulted by step. *)
From WV Require Export Model.Dispatch.
Open Scope N_scope.

Inductive side := A | B.      (* A = the ClientConn, B = the Server *)
Definition other (s : side) : side := match s with A => B | B => A end.
Definition side_eqb (x y : side) : bool := match x, y with A, A | B, B => true | _, _ => false end.

Record call := { c_from : side; c_meth : bytes; c_pl : bytes; c_id : bytes }.

Inductive result :=
| RReply (v : bytes)          (* Invoke returned nil; v = the reply's wire format *)
| RRemote (e : bytes)         (* errors.New(resp.Error) *)
| RTimeout                    (* "call timeout": the context ended first *)
| RSendFail.                  (* the transport refused the write *)

Inductive origin := OCall (c : nat) | OHandler (h : nat) | OInjected.
Inductive cstate := CPending | CDone (r : result) (via : origin).

Record hinst := { h_side : side; h_req : req; h_src : origin; h_out : option outcome }.

Record state := {
  calls : list (call * cstate);
  qAB : list (msg * origin);      (* frames written by A, not yet taken by B's dispatcher *)
  qBA : list (msg * origin);
  pendA : list bytes;             (* cc.methodCalls *)
  pendB : list bytes;             (* s.methodCalls[key] *)
  hs : list hinst;
  svcA : option (list bytes);
  svcB : option (list bytes);
  up : bool;
  answered : list nat             (* ghost: handler instances whose response frame was written *)
}.

Definition init (sa sb : option (list bytes)) : state :=
  {| calls := []; qAB := []; qBA := []; pendA := []; pendB := []; hs := []; svcA := sa; svcB := sb; up := true; answered := [] |}.

Inductive label :=
| LCall (c : call) (sent : bool)   (* Invoke registers the call and writes the request; sent = false: the write failed *)
| LDeliver (to : side)             (* 'to' takes the head frame of its inbound queue *)
| LRet (h : nat) (o : outcome)     (* handler instance h returns *)
| LCtx (c : nat)                   (* the context of call c ends *)
| LInject (to : side) (m : msg)    (* the peer of 'to' writes a frame of its own making *)
| LDown                            (* the connection is lost: frames in flight are gone *)
| LUp.

Definition pend (s : state) (x : side) : list bytes := match x with A => pendA s | B => pendB s end.
Definition svc (s : state) (x : side) : option (list bytes) := match x with A => svcA s | B => svcB s end.
Definition inq (s : state) (to : side) : list (msg * origin) := match to with A => qBA s | B => qAB s end.

Definition set_pend (s : state) (x : side) (p : list bytes) : state :=
  match x with
  | A => {| calls := calls s; qAB := qAB s; qBA := qBA s; pendA := p; pendB := pendB s; hs := hs s; svcA := svcA s; svcB := svcB s; up := up s; answered := answered s |}
  | B => {| calls := calls s; qAB := qAB s; qBA := qBA s; pendA := pendA s; pendB := p; hs := hs s; svcA := svcA s; svcB := svcB s; up := up s; answered := answered s |}
  end.
Definition set_inq (s : state) (to : side) (q : list (msg * origin)) : state :=
  match to with
  | A => {| calls := calls s; qAB := qAB s; qBA := q; pendA := pendA s; pendB := pendB s; hs := hs s; svcA := svcA s; svcB := svcB s; up := up s; answered := answered s |}
  | B => {| calls := calls s; qAB := q; qBA := qBA s; pendA := pendA s; pendB := pendB s; hs := hs s; svcA := svcA s; svcB := svcB s; up := up s; answered := answered s |}
  end.
Definition set_calls (s : state) (cs : list (call * cstate)) : state :=
  {| calls := cs; qAB := qAB s; qBA := qBA s; pendA := pendA s; pendB := pendB s; hs := hs s; svcA := svcA s; svcB := svcB s; up := up s; answered := answered s |}.
Definition set_hs (s : state) (h : list hinst) (ans : list nat) : state :=
  {| calls := calls s; qAB := qAB s; qBA := qBA s; pendA := pendA s; pendB := pendB s; hs := h; svcA := svcA s; svcB := svcB s; up := up s; answered := ans |}.
Definition set_up (s : state) (u : bool) : state :=
  {| calls := calls s; qAB := if u then qAB s else []; qBA := if u then qBA s else []; pendA := pendA s; pendB := pendB s; hs := hs s; svcA := svcA s; svcB := svcB s; up := u; answered := answered s |}.

Fixpoint upd {X} (l : list X) (i : nat) (x : X) : list X :=
  match l, i with
  | [], _ => []
  | _ :: r, O => x :: r
  | y :: r, S j => y :: upd r j x
  end.

(* index of the pending call of side x carrying id *)
Fixpoint find_call (cs : list (call * cstate)) (x : side) (id : bytes) (i : nat) : option nat :=
  match cs with
  | [] => None
  | (c, CPending) :: r => if side_eqb (c_from c) x && beqb (c_id c) id then Some i else find_call r x id (S i)
  | _ :: r => find_call r x id (S i)
  end.

Definition result_of (p : resp) : result :=
  match p_error p with [] => RReply (p_payload p) | e => RRemote e end.

Definition ep_of (s : state) (x : side) : ep :=
  {| e_role := match x with A => Cli | B => Srv end; e_svc := svc s x; e_pending := pend s x |}.

Definition step (s : state) (l : label) : state :=
  match l with
  | LCall c sent =>
      let i := length (calls s) in
      let x := c_from c in
      if negb (up s) || negb sent then
        (* registered, write refused, entry removed again: the call is over *)
        set_calls s (calls s ++ [(c, CDone RSendFail (OCall i))])
      else
        let s1 := set_calls s (calls s ++ [(c, CPending)]) in
        let s2 := set_pend s1 x (pend s1 x ++ [c_id c]) in
        set_inq s2 (other x) (inq s2 (other x) ++ [(MReq {| r_method := c_meth c; r_callid := c_id c; r_payload := c_pl c |}, OCall i)])
  | LDeliver to =>
      match inq s to with
      | [] => s
      | (m, o) :: q =>
          let s1 := set_inq s to q in
          match m with
          | MReq r =>
              if accepts (ep_of s to) r then set_hs s1 (hs s1 ++ [{| h_side := to; h_req := r; h_src := o; h_out := None |}]) (answered s1)
              else s1
          | MResp p =>
              if mem (p_callid p) (pend s to) then
                match find_call (calls s) to (p_callid p) 0 with
                | Some i =>
                    let s2 := set_pend s1 to (remove1 (p_callid p) (pend s1 to)) in
                    set_calls s2 (upd (calls s2) i (fst (nth i (calls s2) ({| c_from := A; c_meth := []; c_pl := []; c_id := [] |}, CPending)), CDone (result_of p) o))
                | None => s1
                end
              else s1
          | MNone => s1
          end
      end
  | LRet h o =>
      match nth_error (hs s) h with
      | Some hi =>
          match h_out hi with
          | Some _ => s
          | None =>
              let hi' := {| h_side := h_side hi; h_req := h_req hi; h_src := h_src hi; h_out := Some o |} in
              if up s then
                let p := match o with
                         | Reply v => {| p_callid := r_callid (h_req hi); p_payload := v; p_error := [] |}
                         | FailWith v e => {| p_callid := r_callid (h_req hi); p_payload := v; p_error := e |}
                         | FailBare e => {| p_callid := r_callid (h_req hi); p_payload := []; p_error := e |} end in
                let s1 := set_hs s (upd (hs s) h hi') (answered s ++ [h]) in
                set_inq s1 (other (h_side hi)) (inq s1 (other (h_side hi)) ++ [(MResp p, OHandler h)])
              else set_hs s (upd (hs s) h hi') (answered s)
          end
      | None => s
      end
  | LCtx i =>
      match nth_error (calls s) i with
      | Some (c, CPending) =>
          let s1 := set_pend s (c_from c) (remove1 (c_id c) (pend s (c_from c))) in
          set_calls s1 (upd (calls s1) i (c, CDone RTimeout (OCall i)))
      | _ => s
      end
  | LInject to m => if up s then set_inq s to (inq s to ++ [(m, OInjected)]) else s
  | LDown => set_up s false
  | LUp => set_up s true
  end.

Definition exec (s : state) (ls : list label) : state := fold_left step ls s.

(* ids of the calls a history makes *)
Fixpoint call_ids (ls : list label) : list bytes :=
  match ls with [] => [] | LCall c _ :: r => c_id c :: call_ids r | _ :: r => call_ids r end.
Definition honest (ls : list label) : Prop := forall to m, ~ In (LInject to m) ls.
