(* connectivityStateManager (client.go) and connectionsManager's notification channel
   (server.go): a state (or peer set), a lazily created notification channel that every change
   closes and forgets, and waiters that (1) obtain the channel, (2) read the state, (3) block on
   the channel or their context. One waiter is modelled explicitly; any number of other
   goroutines fetching the channel or changing the state are environment labels. *)
From Coq Require Export List Arith Bool.
Export ListNotations.
Open Scope nat_scope.

Definition chan := nat.
Record mgr := { st : nat; cur : option chan; next : chan; closed : list chan }.
Definition is_closed (c : chan) (m : mgr) : bool := existsb (Nat.eqb c) (closed m).

(* updateState: no-op when equal, else set, close and forget the channel *)
Definition update (m : mgr) (s : nat) : mgr :=
  if Nat.eqb (st m) s then m else
  match cur m with
  | Some c => {| st := s; cur := None; next := next m; closed := c :: closed m |}
  | None => {| st := s; cur := None; next := next m; closed := closed m |}
  end.
(* registerConnection / removeConnection: every change closes and forgets the channel *)
Definition change (m : mgr) (s : nat) : mgr :=
  match cur m with
  | Some c => {| st := s; cur := None; next := next m; closed := c :: closed m |}
  | None => {| st := s; cur := None; next := next m; closed := closed m |}
  end.
Definition getchan (m : mgr) : mgr * chan :=
  match cur m with
  | Some c => (m, c)
  | None => ({| st := st m; cur := Some (next m); next := S (next m); closed := closed m |}, next m)
  end.

Definition READY : nat := 2.
Definition SHUTDOWN : nat := 4.

(* what the waiter is doing *)
Inductive kind := KStateChange (src : nat)   (* WaitForStateChange(ctx, src) *)
                | KReady.                     (* WaitForReady(ctx) *)
Inductive wpc := W0                (* before getNotifyChan *)
               | W1 (c : chan)     (* holds the channel, before getState *)
               | W2 (c : chan)     (* decided to wait: at the select on c / ctx *)
               | WTrue | WFalse.

Record sys := { m : mgr; w : wpc; k : kind; ctx_done : bool; false_by_ctx : bool }.

Inductive lab :=
| LUpdate (s : nat)     (* the publisher (or the registry) changes the state *)
| LGetChan              (* some other goroutine fetches the channel *)
| LWGet | LWRead | LWSelect   (* the waiter's three steps *)
| LCtxDone.             (* the waiter's context ends *)

Definition set_w (s : sys) (m' : mgr) (w' : wpc) : sys :=
  {| m := m'; w := w'; k := k s; ctx_done := ctx_done s; false_by_ctx := false_by_ctx s |}.

Definition step (s : sys) (l : lab) : option sys :=
  match l with
  | LUpdate v => Some (set_w s (update (m s) v) (w s))
  | LGetChan => Some (set_w s (fst (getchan (m s))) (w s))
  | LCtxDone => Some {| m := m s; w := w s; k := k s; ctx_done := true; false_by_ctx := false_by_ctx s |}
  | LWGet => match w s with W0 => let '(m', c) := getchan (m s) in Some (set_w s m' (W1 c)) | _ => None end
  | LWRead =>
      match w s with
      | W1 c =>
          match k s with
          | KStateChange src => if Nat.eqb (st (m s)) src then Some (set_w s (m s) (W2 c)) else Some (set_w s (m s) WTrue)
          | KReady => if Nat.eqb (st (m s)) READY then Some (set_w s (m s) WTrue)
                      else if Nat.eqb (st (m s)) SHUTDOWN then Some (set_w s (m s) WFalse)
                      else Some (set_w s (m s) (W2 c))
          end
      | _ => None end
  | LWSelect =>
      match w s with
      | W2 c =>
          if is_closed c (m s) then
            (* woken: WaitForStateChange returns true, WaitForReady starts over *)
            Some (set_w s (m s) (match k s with KStateChange _ => WTrue | KReady => W0 end))
          else if ctx_done s then Some {| m := m s; w := WFalse; k := k s; ctx_done := true; false_by_ctx := true |}
          else None      (* parked *)
      | _ => None end
  end.

Fixpoint exec (s : sys) (ls : list lab) : sys :=
  match ls with [] => s | l :: r => match step s l with Some s' => exec s' r | None => exec s r end end.
(* a trace taken from the implementation must never contain a disabled step *)
Fixpoint accepted (s : sys) (ls : list lab) : bool :=
  match ls with [] => true | l :: r => match step s l with Some s' => accepted s' r | None => false end end.

Definition init (s0 : nat) (kd : kind) : sys :=
  {| m := {| st := s0; cur := None; next := 0; closed := [] |}; w := W0; k := kd; ctx_done := false; false_by_ctx := false |}.

(* the waiter's own continuation from any point: at most three steps per round *)
Definition own_steps : list lab := [LWGet; LWRead; LWSelect].

(* operations on the server's peer-set manager *)
Inductive rop := RChange (s : nat) | RGet.
Definition rstep (mm : mgr) (o : rop) : mgr := match o with RChange s => change mm s | RGet => fst (getchan mm) end.

(* DialWithContext(..., WithBlock()): for { cur := getState(); if cur == Ready { break };
   if !WaitForStateChange(ctx, cur) { return ctx.Err() } }. The environment supplies, per
   iteration, the state read and the result of the wait started from it. *)
Inductive dres := DReady | DCtx | DMore.
Fixpoint dial_loop (its : list (nat * bool)) : dres :=
  match its with
  | [] => DMore
  | (s, woken) :: r => if Nat.eqb s READY then DReady else if woken then dial_loop r else DCtx
  end.
