(* Go's unicode/utf8.Valid on a byte string: no surrogates, no overlongs, <= U+10FFFF. *)
From WV Require Export Model.Varint.
Open Scope N_scope.

Definition inr (lo hi x : N) : bool := (lo <=? x) && (x <=? hi).
Definition cont (x : N) : bool := inr 128 191 x.

Fixpoint utf8 (b : bytes) : bool :=
  match b with
  | [] => true
  | x :: r =>
    if x <? 128 then utf8 r
    else if x <? 194 then false
    else if x <? 224 then
      match r with c1 :: r' => cont c1 && utf8 r' | _ => false end
    else if x <? 240 then
      match r with
      | c1 :: c2 :: r' =>
        (if x =? 224 then inr 160 191 c1 else if x =? 237 then inr 128 159 c1 else cont c1)
        && cont c2 && utf8 r'
      | _ => false end
    else if x <? 245 then
      match r with
      | c1 :: c2 :: c3 :: r' =>
        (if x =? 240 then inr 144 191 c1 else if x =? 244 then inr 128 143 c1 else cont c1)
        && cont c2 && cont c3 && utf8 r'
      | _ => false end
    else false
  end.
