(* Closing a client connection: every goroutine of a ClientConn and the way each one ends.
   client.go: Close, addrConn.teardown, resetTransport, createTransport's close callback,
   listenForConnectivityChange, listenForRead, handleRead, handleMessageRequest/Response, Invoke;
   internal/transport/websocket_client.go: Close, readPump, writePump, Write.

   One label is one scheduling step of one goroutine (or one move of the environment: a message
   arrives, the peer or the network ends a socket, a dial succeeds or fails, a timer fires, a user
   handler returns, the user starts a call or a Close). Transports are numbered in the order in
   which they are dialled; any number of Close calls, calls and inbound messages may be going on.

   ac.mu is a lock in the model (its critical sections can block in updateConnectivityState);
   cc.mu and the state manager's mutex only guard straight-line regions, which are single steps
   (a holder of ac.mu never takes cc.mu, so the nested read lock of Invoke and currentTransport is
   the single condition "ac.mu is free").

   cfg records the facts about the source on which the behaviour depends and which the translator
   (bin/shape.py over the syntax tree) re-extracts from /repo on every run; `good` is what the
   theorems are proved for, the other values give the refutations of the code as it was. *)
From Coq Require Export List Arith Bool.
From RecordUpdate Require Export RecordSet.
Export ListNotations RecordSetNotations.
Open Scope nat_scope.

Record cfg := mkCfg {
  invoke_nil : bool;    (* Invoke checks cc.addrConn and the transport for nil before using them *)
  handler_nil : bool;   (* a request goroutine fetches the transport through currentTransport and checks it *)
  rp_cconn : bool;      (* the read pump's hand-over select has an arm for closeConn *)
  rp_wdone : bool;      (* ... and one for writeDone, which the write pump closes when it ends *)
  wr_wdone : bool;      (* Write has an arm for writeDone *)
  wp_sock : bool;       (* the write pump closes the socket whenever it ends *)
  wp_cc_sock : bool;    (* the closeConn arm of the write pump closes the socket whether or not the close frame was sent *)
  inv_connctx : bool;   (* Invoke's wait has an arm for the connection's context *)
  close_again : bool;   (* Close returns at once when the address connection is gone already *)
  csm_final : bool      (* the state manager never leaves Shutdown *)
}.
Definition good : cfg := mkCfg true true true true true true true true true true.

Inductive cstate := Idle | Connecting | Ready | TransientFailure | Shutdown.
Definition cstate_eqb (a b : cstate) : bool :=
  match a, b with Idle, Idle | Connecting, Connecting | Ready, Ready | TransientFailure, TransientFailure | Shutdown, Shutdown => true | _, _ => false end.

(* ---- one transport ---- *)
Inductive rpc := RPRead | RPHand | RPExit.
Inductive wpc := WPSel | WPClosing | WPAfter | WPHold | WPExit.
Inductive hrc := HRNone | HRSel | HRExit.
Record tr := mkTr {
  rp : rpc;        (* readPump: in ReadMessage / holding a message at the hand-over select / gone *)
  wp : wpc;        (* writePump: at its select / close frame sent, waiting for the reader or 1 s / in its deferred calls / in the close callback holding ac.mu / gone *)
  hr : hrc;        (* ClientConn.handleRead bound to this transport *)
  cconn : bool;    (* closeConn is closed (transport.Close was called) *)
  cwp : bool;      (* closeWritePump is closed (the read pump has ended) *)
  wdn : bool;      (* writeDone is closed (the write pump has ended) *)
  sockc : bool;    (* the socket is closed or broken, by whichever side *)
  hdone : bool;    (* the done channel of its handleRead is closed *)
  fired : bool     (* the reconnect event of this transport has fired *)
}.
#[export] Instance eta_tr : Settable _ := settable! mkTr <rp; wp; hr; cconn; cwp; wdn; sockc; hdone; fired>.
Definition tr0 : tr := mkTr RPRead WPSel HRNone false false false false false false.

(* ---- goroutines started per message or per call ---- *)
Inductive gpc :=
| GBody                       (* request goroutine inside the user's handler (counted in cc.wg) *)
| GGet                        (* the handler has returned a reply: about to fetch the current transport *)
| GResp                       (* response goroutine: finds the call under cc.mu and hands over without blocking *)
| GInv0 | GInvReg | GInvTr    (* Invoke: state check / registration / transport fetch *)
| GWrite (w : bool) (g : nat) (* inside Write on transport g; w: a request goroutine (in cc.wg, background context) or an Invoke *)
| GWait                       (* Invoke waiting for its response *)
| GDone (err : bool)
| GCrash.
Definition in_wg (p : gpc) : bool := match p with GBody | GGet | GResp | GWrite true _ => true | _ => false end.

Inductive clc := C0 | C1 | T1 | T2 (g : nat) | T3 (g : nat) | T4 | T5 | T6 | CRet (tore : bool) | CCrash.
Inductive rtc := RTop | RHoldTop | RDialing (late : bool) | RGot (g : nat) | RHoldGot (g : nat) | RFailed | RHoldFail
               | RBackoff | RWait (g : nat) | RClosing (g : nat) | RExit.
Inductive lcc := LCSel | LCUpd (v : cstate) | LCExit.
Inductive lrc := LR0 | LR1 | LR3 (t : option nat) | LR4 | LRExit.
Inductive holder := HRt | HWp (g : nat).

Record st := mkSt {
  ctxd : bool;            (* cc.ctx (and with it ac.ctx) is cancelled *)
  addr : bool;            (* cc.addrConn != nil *)
  amu : option holder;    (* ac.mu *)
  acst : cstate;          (* ac.state *)
  actr : option nat;      (* ac.transport *)
  trs : list tr;
  rt : rtc;               (* resetTransport *)
  lc : lcc;               (* listenForConnectivityChange *)
  lr : lrc;               (* listenForRead *)
  lrcur : option nat;     (*   its local `cur` *)
  csm : cstate;           (* the published state *)
  nch : bool;             (* the notification channel listenForRead holds has been closed *)
  gs : list gpc;
  cl : list clc;          (* the Close calls *)
  crashed : bool
}.
#[export] Instance eta_st : Settable _ := settable! mkSt <ctxd; addr; amu; acst; actr; trs; rt; lc; lr; lrcur; csm; nch; gs; cl; crashed>.

Definition init : st :=
  mkSt false true None Connecting None [] RTop (LCUpd Connecting) LR0 None Idle false [] [] false.

Fixpoint upd {A} (l : list A) (n : nat) (f : A -> A) : list A :=
  match l, n with [] , _ => [] | x :: r, 0 => f x :: r | x :: r, S m => x :: upd r m f end.
Definition getT (s : st) (g : nat) : tr := nth g (trs s) (mkTr RPExit WPExit HRExit true true true true true true).
Definition setT (s : st) (g : nat) (f : tr -> tr) : st := s <| trs := upd (trs s) g f |>.
Definition getG (s : st) (i : nat) : gpc := nth i (gs s) (GDone true).
Definition setG (s : st) (i : nat) (p : gpc) : st := s <| gs := upd (gs s) i (fun _ => p) |>.
Definition getC (s : st) (k : nat) : clc := nth k (cl s) (CRet false).
Definition setC (s : st) (k : nat) (p : clc) : st := s <| cl := upd (cl s) k (fun _ => p) |>.
Definition free (s : st) : bool := match amu s with None => true | _ => false end.

Inductive garm := GA | GAClosed | GAHand (ok : bool) | GACtx | GAResp | GAConn.
Inductive lab :=
| LNewClose | LClose (k : nat) (via : bool)
| LRt (via : bool) | LDial (ok : bool) | LTimer | LRtCtx | LRtFired
| LNet (g : nat) | LSockDie (g : nat) | LRp (g : nat) | LHand (g : nat) (kind : option bool)
| LWpCwp (g : nat) | LWpCconn (g : nat) (ok : bool) | LWpTickErr (g : nat) | LWpClosed (g : nat) | LWpLock (g : nat) | LWpRel (g : nat) (via : bool)
| LHr (g : nat)
| LLc | LLcExit | LLr | LLrExit
| LNewInvoke | LG (i : nat) (a : garm) | LHandlerRet (i : nat) (reply : bool).

Section M.
Variable c : cfg.

(* updateConnectivityState(v) inside a critical section of ac.mu: nothing if unchanged, otherwise
   the new state is handed to the publisher (via = true, the publisher must be at its select) or
   dropped because the context has ended (via = false) *)
Definition pub (s : st) (v : cstate) (via : bool) : option st :=
  if cstate_eqb (acst s) v then Some s
  else if via then (match lc s with LCSel => Some (s <| acst := v |> <| lc := LCUpd v |>) | _ => None end)
  else if ctxd s then Some (s <| acst := v |>) else None.

(* the write pump leaves its loop: deferred conn.Close, close(writeDone), then the close callback *)
Definition wp_leave (t : tr) : tr :=
  t <| wp := WPAfter |> <| sockc := if wp_sock c then true else sockc t |> <| wdn := true |>.

Definition set_csm (s : st) (v : cstate) : st :=
  if cstate_eqb (csm s) v then s
  else if csm_final c && cstate_eqb (csm s) Shutdown then s
  else s <| csm := v |> <| nch := true |>.

Definition pumps_gone (s : st) (g : nat) : bool :=
  match rp (getT s g), wp (getT s g) with RPExit, WPExit => true | _, _ => false end.
Definition wg_clear (s : st) : bool :=
  (match lc s with LCExit => true | _ => false end) && (match lr s with LRExit => true | _ => false end)
  && forallb (fun t => match hr t with HRSel => false | _ => true end) (trs s)
  && forallb (fun p => negb (in_wg p)) (gs s).

Definition step (s : st) (l : lab) : option st :=
  if crashed s then None else
  match l with
  (* ---- Close ---- *)
  | LNewClose => Some (s <| cl := cl s ++ [C0] |>)
  | LClose k via =>
      if negb (Nat.ltb k (length (cl s))) then None else
      match getC s k with
      | C0 => Some (setC (s <| ctxd := true |>) k C1)
      | C1 => if addr s then Some (setC (s <| addr := false |>) k T1)
              else if close_again c then Some (setC s k (CRet false))
              else Some (setC s k CCrash <| crashed := true |>)
      | T1 => if negb (free s) then None else
              if cstate_eqb (acst s) Shutdown then Some (setC s k T5) else
              match pub (s <| actr := None |>) Shutdown via with
              | Some s' => Some (setC s' k (match actr s with Some g => T2 g | None => T4 end))
              | None => None end
      | T2 g => if cconn (getT s g) then Some (setC s k CCrash <| crashed := true |>)   (* close of a closed channel *)
                else Some (setC (setT s g (fun t => t <| cconn := true |>)) k (T3 g))
      | T3 g => if pumps_gone s g then Some (setC s k T4) else None
      | T4 => match rt s with RExit => Some (setC s k T5) | _ => None end
      | T5 => Some (setC (set_csm s Shutdown) k T6)
      | T6 => if wg_clear s then Some (setC s k (CRet true)) else None
      | CRet _ | CCrash => None
      end
  (* ---- resetTransport ---- *)
  | LRt via =>
      match rt s with
      | RTop => if negb (free s) then None else
                if cstate_eqb (acst s) Shutdown then Some (s <| rt := RExit |>)
                else Some (s <| amu := Some HRt |> <| rt := RHoldTop |>)
      | RHoldTop => match pub (s <| actr := None |>) Connecting via with
                    | Some s' => Some (s' <| amu := None |> <| rt := RDialing (ctxd s) |>) | None => None end
      | RGot g => if negb (free s) then None else
                  if cstate_eqb (acst s) Shutdown
                  then (if cconn (getT s g) then Some (s <| crashed := true |>)
                        else Some (setT s g (fun t => t <| cconn := true |>) <| rt := RClosing g |>))
                  else if fired (getT s g) then Some (s <| rt := RTop |>)
                  else Some (s <| amu := Some HRt |> <| rt := RHoldGot g |>)
      | RHoldGot g => match pub (s <| actr := Some g |>) Ready via with
                      | Some s' => Some (s' <| amu := None |> <| rt := RWait g |>) | None => None end
      | RFailed => if negb (free s) then None else
                   if cstate_eqb (acst s) Shutdown then Some (s <| rt := RExit |>)
                   else Some (s <| amu := Some HRt |> <| rt := RHoldFail |>)
      | RHoldFail => match pub s TransientFailure via with
                     | Some s' => Some (s' <| amu := None |> <| rt := RBackoff |>) | None => None end
      | RClosing g => if pumps_gone s g then Some (s <| rt := RExit |>) else None
      | _ => None
      end
  | LDial ok =>
      match rt s with
      | RDialing late =>
          if ok then (if late then None else Some (s <| trs := trs s ++ [tr0] |> <| rt := RGot (length (trs s)) |>))
          else Some (s <| rt := RFailed |>)
      | _ => None end
  | LTimer => match rt s with RBackoff => Some (s <| rt := RTop |>) | _ => None end
  | LRtCtx => match rt s with RBackoff | RWait _ => if ctxd s then Some (s <| rt := RExit |>) else None | _ => None end
  | LRtFired => match rt s with RWait g => if fired (getT s g) then Some (s <| rt := RTop |>) else None | _ => None end
  (* ---- the pumps of transport g ---- *)
  | LNet g => if Nat.ltb g (length (trs s)) then
                match rp (getT s g) with RPRead => if sockc (getT s g) then None else Some (setT s g (fun t => t <| rp := RPHand |>)) | _ => None end
              else None
  | LSockDie g => if Nat.ltb g (length (trs s)) then Some (setT s g (fun t => t <| sockc := true |>)) else None
  | LRp g => if negb (Nat.ltb g (length (trs s))) then None else
      let t := getT s g in
      match rp t with
      | RPRead => if sockc t then Some (setT s g (fun t => t <| rp := RPExit |> <| cwp := true |>)) else None
      | RPHand => if (rp_cconn c && cconn t) || (rp_wdone c && wdn t) then Some (setT s g (fun t => t <| rp := RPExit |> <| cwp := true |>)) else None
      | RPExit => None end
  | LHand g kind => if negb (Nat.ltb g (length (trs s))) then None else
      let t := getT s g in
      match rp t, hr t with
      | RPHand, HRSel =>
          let s1 := setT s g (fun t => t <| rp := RPRead |>) in
          Some (match kind with None => s1 | Some true => s1 <| gs := gs s1 ++ [GBody] |> | Some false => s1 <| gs := gs s1 ++ [GResp] |> end)
      | _, _ => None end
  | LWpCwp g => if negb (Nat.ltb g (length (trs s))) then None else
      let t := getT s g in match wp t with WPSel => if cwp t then Some (setT s g wp_leave) else None | _ => None end
  | LWpCconn g ok => if negb (Nat.ltb g (length (trs s))) then None else
      let t := getT s g in
      match wp t with
      | WPSel => if cconn t then
                   (if ok then Some (setT s g (fun t => t <| wp := WPClosing |> <| sockc := true |>))
                    else Some (setT s g (fun t => wp_leave (t <| sockc := if wp_cc_sock c then true else sockc t |>))))
                 else None
      | _ => None end
  | LWpTickErr g => if negb (Nat.ltb g (length (trs s))) then None else
      match wp (getT s g) with WPSel => Some (setT s g (fun t => wp_leave (t <| sockc := true |>))) | _ => None end
  | LWpClosed g => if negb (Nat.ltb g (length (trs s))) then None else
      match wp (getT s g) with WPClosing => Some (setT s g wp_leave) | _ => None end
  | LWpLock g => if negb (Nat.ltb g (length (trs s))) then None else
      match wp (getT s g) with WPAfter => if free s then Some (setT s g (fun t => t <| wp := WPHold |>) <| amu := Some (HWp g) |>) else None | _ => None end
  | LWpRel g via => if negb (Nat.ltb g (length (trs s))) then None else
      match wp (getT s g) with
      | WPHold => match (if cstate_eqb (acst s) Ready then pub s Idle via else Some s) with
                  | Some s' => Some (setT s' g (fun t => t <| wp := WPExit |> <| fired := true |>) <| amu := None |>)
                  | None => None end
      | _ => None end
  | LHr g => if negb (Nat.ltb g (length (trs s))) then None else
      let t := getT s g in
      match hr t with HRSel => if hdone t || ctxd s then Some (setT s g (fun t => t <| hr := HRExit |>)) else None | _ => None end
  (* ---- the publisher and the reader manager ---- *)
  | LLc => match lc s with LCUpd v => Some (set_csm s v <| lc := LCSel |>) | _ => None end
  | LLcExit => match lc s with LCSel => if ctxd s then Some (s <| lc := LCExit |>) else None | _ => None end
  | LLr =>
      match lr s with
      | LR0 => Some (s <| nch := false |> <| lr := LR1 |>)
      | LR1 => if cstate_eqb (csm s) Ready
               then (if addr s then (if free s then Some (s <| lr := LR3 (actr s) |>) else None) else Some (s <| lr := LR3 None |>))
               else Some (s <| lr := LR3 None |>)
      | LR3 t =>
          let same := match t, lrcur s with None, None => true | Some a, Some b => Nat.eqb a b | _, _ => false end in
          if same then Some (s <| lr := LR4 |>) else
          let s1 := match lrcur s with Some o => setT s o (fun t => t <| hdone := true |>) | None => s end in
          let s2 := match t with Some g => setT s1 g (fun t => t <| hr := HRSel |> <| hdone := false |>) | None => s1 end in
          Some (s2 <| lrcur := t |> <| lr := LR4 |>)
      | LR4 => if nch s then Some (s <| lr := LR0 |>) else None
      | LRExit => None
      end
  | LLrExit => match lr s with LR4 => if ctxd s then Some (s <| lr := LRExit |>) else None | _ => None end
  (* ---- per-message and per-call goroutines ---- *)
  | LNewInvoke => Some (s <| gs := gs s ++ [GInv0] |>)
  | LHandlerRet i reply => if negb (Nat.ltb i (length (gs s))) then None else
      match getG s i with GBody => Some (setG s i (if reply then GGet else GDone false)) | _ => None end
  | LG i a => if negb (Nat.ltb i (length (gs s))) then None else
      match getG s i, a with
      | GGet, GA =>
          if addr s then
            (if free s then
               match actr s with
               | Some g => Some (setG s i (GWrite true g))
               | None => if handler_nil c then Some (setG s i (GDone true)) else Some (setG s i GCrash <| crashed := true |>) end
             else None)
          else if handler_nil c then Some (setG s i (GDone true)) else Some (setG s i GCrash <| crashed := true |>)
      | GResp, GA => Some (setG s i (GDone false))
      | GInv0, GA =>
          if addr s then
            (if free s then (if cstate_eqb (acst s) Ready then Some (setG s i GInvReg) else Some (setG s i (GDone true))) else None)
          else if invoke_nil c then Some (setG s i (GDone true)) else Some (setG s i GCrash <| crashed := true |>)
      | GInvReg, GA => Some (setG s i GInvTr)
      | GInvTr, GA =>
          if addr s then
            (if free s then
               match actr s with
               | Some g => Some (setG s i (GWrite false g))
               | None => if invoke_nil c then Some (setG s i (GDone true)) else Some (setG s i GCrash <| crashed := true |>) end
             else None)
          else if invoke_nil c then Some (setG s i (GDone true)) else Some (setG s i GCrash <| crashed := true |>)
      | GWrite w g, GAClosed =>
          let t := getT s g in
          if cwp t || cconn t || (wr_wdone c && wdn t) then Some (setG s i (GDone true)) else None
      | GWrite w g, GACtx => if w then None else Some (setG s i (GDone true))
      | GWrite w g, GAHand ok =>
          match wp (getT s g) with
          | WPSel => let s1 := setG s i (if w then GDone false else GWait) in
                     Some (if ok then s1 else setT s1 g (fun t => wp_leave (t <| sockc := true |>)))
          | _ => None end
      | GWait, GAResp => Some (setG s i (GDone false))
      | GWait, GACtx => Some (setG s i (GDone true))
      | GWait, GAConn => if inv_connctx c && ctxd s then Some (setG s i (GDone true)) else None
      | _, _ => None
      end
  end.

Fixpoint exec (s : st) (ls : list lab) : st :=
  match ls with [] => s | l :: r => match step s l with Some s' => exec s' r | None => exec s r end end.

(* strict replay: every label must be enabled (used for the traces recorded from the code) *)
Fixpoint run (s : st) (ls : list lab) : option st :=
  match ls with [] => Some s | l :: r => match step s l with Some s' => run s' r | None => None end end.
End M.

(* ---- what "closed" means ---- *)
Definition tore (s : st) : bool := existsb (fun p => match p with CRet true => true | _ => false end) (cl s).
Definition returned (s : st) : bool := existsb (fun p => match p with CRet _ => true | _ => false end) (cl s).

(* nothing of transport t is left, except possibly a read pump which can do nothing but end *)
Definition tr_gone (t : tr) : bool :=
  (match wp t with WPExit => true | _ => false end) && sockc t && (match hr t with HRSel => false | _ => true end)
  && (match rp t with RPExit => true | RPRead => sockc t | RPHand => wdn t || cconn t end).
Definition final (s : st) : bool :=
  negb (addr s) && ctxd s && cstate_eqb (acst s) Shutdown && cstate_eqb (csm s) Shutdown
  && (match rt s with RExit => true | _ => false end) && (match lc s with LCExit => true | _ => false end)
  && (match lr s with LRExit => true | _ => false end)
  && forallb tr_gone (trs s) && forallb (fun p => negb (in_wg p)) (gs s).
