(* The server's registry of authenticated sessions (server.go: wshandler,
   ensureSingleClientConnection, connectionsManager, afterWritePump, UpdatePublicKeys,
   removeConnectionsToDeletedKeys) together with the allow-list (credentials.PublicKeys).
   A handshake is a sequence of steps of one session; no lock is held between them, so any
   steps of other sessions and any allow-list update may fall in between. Keys and session ids
   are numbers. *)
From Coq Require Export List Arith Bool.
Export ListNotations.
Open Scope nat_scope.

Inductive phase :=
| PNew          (* TCP/TLS in progress *)
| PVerified     (* VerifyPeerCertificate accepted the key *)
| PChecked      (* ensureSingleClientConnection found no session of the key *)
| PUpgraded     (* websocket upgrade done *)
| PRegistered   (* registered under its key; transport running; reader serving it *)
| PRefused      (* the handshake was turned down at some step; socket closed *)
| PClosing      (* registered before; its transport has been told to close or has died *)
| PEnded.       (* teardown (afterWritePump) has run *)

Record srec := { s_key : nat; s_phase : phase }.
Record state := { allow : list nat; reg : list (nat * nat); sess : nat -> srec; next : nat }.   (* reg : key -> session id *)
Definition fupd (f : nat -> srec) (i : nat) (x : srec) : nat -> srec := fun j => if Nat.eqb j i then x else f j.

Definition mem (x : nat) (l : list nat) : bool := existsb (Nat.eqb x) l.
Fixpoint lookup (k : nat) (r : list (nat * nat)) : option nat :=
  match r with [] => None | (k', v) :: t => if Nat.eqb k k' then Some v else lookup k t end.
Fixpoint remove_key (k : nat) (r : list (nat * nat)) : list (nat * nat) :=
  match r with [] => [] | (k', v) :: t => if Nat.eqb k k' then remove_key k t else (k', v) :: remove_key k t end.
Definition set_phase (st : state) (sid : nat) (p : phase) : state :=
  {| allow := allow st; reg := reg st; sess := fupd (sess st) sid {| s_key := s_key (sess st sid); s_phase := p |}; next := next st |}.

Inductive label :=
| LConnect (k : nat)        (* a peer holding key k opens a connection: a new session id *)
| LVerify (sid : nat)       (* TLS: VerifyPeerCertificate *)
| LCheck (sid : nat)        (* ensureSingleClientConnection *)
| LUpgrade (sid : nat)
| LRegister (sid : nat)     (* the registration critical section of wshandler *)
| LDie (sid : nat)          (* the peer goes away / the transport fails *)
| LTeardown (sid : nat)     (* afterWritePump of the session's transport *)
| LUpdate (ks : list nat).  (* UpdatePublicKeys(ks), ks valid *)

(* sessions swept by an update: registered under a key that is no longer listed *)
Fixpoint sweep (ks : list nat) (r : list (nat * nat)) (ss : nat -> srec) : list (nat * nat) * (nat -> srec) :=
  match r with
  | [] => ([], ss)
  | (k, sid) :: t =>
      let '(r', ss') := sweep ks t ss in
      if mem k ks then ((k, sid) :: r', ss')
      else (r', fupd ss' sid {| s_key := s_key (ss' sid); s_phase := PClosing |})
  end.

Definition phase_of (st : state) (sid : nat) : phase := s_phase (sess st sid).
Definition key_of (st : state) (sid : nat) : nat := s_key (sess st sid).

Definition step (st : state) (l : label) : state :=
  match l with
  | LConnect k => {| allow := allow st; reg := reg st; sess := fupd (sess st) (next st) {| s_key := k; s_phase := PNew |}; next := S (next st) |}
  | LVerify sid =>
      match phase_of st sid with
      | PNew => set_phase st sid (if mem (key_of st sid) (allow st) then PVerified else PRefused)
      | _ => st end
  | LCheck sid =>
      match phase_of st sid with
      | PVerified => set_phase st sid (match lookup (key_of st sid) (reg st) with Some _ => PRefused | None => PChecked end)
      | _ => st end
  | LUpgrade sid =>
      match phase_of st sid with PChecked => set_phase st sid PUpgraded | _ => st end
  | LRegister sid =>
      match phase_of st sid with
      | PUpgraded =>
          (* atomically: still listed? no session of the key yet? then register *)
          let k := key_of st sid in
          if mem k (allow st) && (match lookup k (reg st) with None => true | Some _ => false end)
          then set_phase {| allow := allow st; reg := (k, sid) :: reg st; sess := sess st; next := next st |} sid PRegistered
          else set_phase st sid PRefused
      | _ => st end
  | LDie sid =>
      match phase_of st sid with PRegistered => set_phase st sid PClosing | _ => st end
  | LTeardown sid =>
      match phase_of st sid with
      | PClosing =>
          (* removes the registration only if it is this session's own *)
          let k := key_of st sid in
          set_phase {| allow := allow st; reg := (match lookup k (reg st) with Some s => if Nat.eqb s sid then remove_key k (reg st) else reg st | None => reg st end); sess := sess st; next := next st |} sid PEnded
      | _ => st end
  | LUpdate ks =>
      let '(r', ss') := sweep ks (reg st) (sess st) in {| allow := ks; reg := r'; sess := ss'; next := next st |}
  end.

Definition exec (st : state) (ls : list label) : state := fold_left step ls st.
Definition init (ks : list nat) : state := {| allow := ks; reg := []; sess := fun _ => {| s_key := 0; s_phase := PEnded |}; next := 0 |}.

(* the views the server offers *)
Definition open_connections (st : state) : nat := length (reg st).
Definition connected_keys (st : state) : list nat := map fst (reg st).
Definition route (st : state) (k : nat) : option nat := lookup k (reg st).
