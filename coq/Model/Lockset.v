(* C15: lock discipline over traces of lock operations and memory accesses.
   Threads, locks, access sites and memory locations are numbers. A trace is a list of events in
   the order in which they happen; `run` is the semantics of sync.Mutex / sync.RWMutex (a lock is
   held by one writer or by any number of readers); the access table, regenerated from the
   sources by harness/xlate on every run, says for every access site which location it touches,
   whether it writes, and which locks (with modes) are held there. *)
From Coq Require Export List Arith Bool.
Export ListNotations.
Open Scope nat_scope.

Inductive mode := R | W.
Inductive ev :=
| Acq (t l : nat) (m : mode)
| Rel (t l : nat) (m : mode)
| Acc (t site : nat).

Definition hold := (nat * nat * mode)%type.   (* thread, lock, mode *)
Definition mode_eqb a b := match a, b with R, R | W, W => true | _, _ => false end.
Definition hold_eqb (a b : hold) :=
  let '(t1, l1, m1) := a in let '(t2, l2, m2) := b in Nat.eqb t1 t2 && Nat.eqb l1 l2 && mode_eqb m1 m2.
Fixpoint remove1 (h : hold) (hs : list hold) : list hold :=
  match hs with [] => [] | x :: r => if hold_eqb h x then r else x :: remove1 h r end.

(* W: nobody holds l; R: nobody holds l in W *)
Definition can_acq (hs : list hold) (l : nat) (m : mode) : bool :=
  forallb (fun '(_, l', m') => negb (Nat.eqb l l') || match m, m' with R, R => true | _, _ => false end) hs.

Fixpoint run (hs : list hold) (tr : list ev) : option (list hold) :=
  match tr with
  | [] => Some hs
  | Acq t l m :: r => if can_acq hs l m then run ((t, l, m) :: hs) r else None
  | Rel t l m :: r => if existsb (hold_eqb (t, l, m)) hs then run (remove1 (t, l, m) hs) r else None
  | Acc _ _ :: r => run hs r
  end.
Definition well_locked (tr : list ev) : Prop := run [] tr <> None.

(* ---- the access table ---- *)
Inductive cls :=
| Guarded        (* must obey the discipline *)
| Exempt.        (* initialisation of an object nobody else can reach yet (the translator checks the
                    syntactic condition and the check lists these sites in its evidence) *)
Record row := mkRow { r_site : nat; r_loc : nat; r_wr : bool; r_req : list (nat * mode); r_cls : cls }.

Definition guarded (a : row) : bool := match r_cls a with Guarded => true | Exempt => false end.
Definition req_ok (wr : bool) (m : mode) : bool := if wr then mode_eqb m W else true.
(* a and b share a lock, which each writer among them holds exclusively *)
Definition share (a b : row) : bool :=
  existsb (fun '(l, ma) => req_ok (r_wr a) ma &&
     existsb (fun '(l', mb) => Nat.eqb l l' && req_ok (r_wr b) mb) (r_req b)) (r_req a).
Definition pair_ok (a b : row) : bool :=
  if guarded a && guarded b && Nat.eqb (r_loc a) (r_loc b) && (r_wr a || r_wr b) then share a b else true.
Fixpoint nodupb (l : list nat) : bool :=
  match l with [] => true | x :: r => negb (existsb (Nat.eqb x) r) && nodupb r end.
(* every pair of guarded sites on one location with a write among them - a write site also with
   itself, since two threads may run the same code - shares a lock *)
Definition check_table (rows : list row) : bool :=
  nodupb (map r_site rows) && forallb (fun a => forallb (pair_ok a) rows) rows.
Definition bad_pairs (rows : list row) : list (nat * nat) :=
  flat_map (fun a => flat_map (fun b => if pair_ok a b then [] else [(r_site a, r_site b)]) rows) rows.

Fixpoint lookup (rows : list row) (s : nat) : option row :=
  match rows with [] => None | x :: r => if Nat.eqb (r_site x) s then Some x else lookup r s end.

Definition holds_at (hs : list hold) (t l : nat) (m : mode) : bool :=
  existsb (fun '(t', l', m') => Nat.eqb t t' && Nat.eqb l l' && (match m with R => true | W => mode_eqb m' W end)) hs.

(* the trace agrees with the table: at every access the thread holds what the table says
   (validated against the implementation by the held-lock log of the instrumented workload) *)
Fixpoint consistent (rows : list row) (hs : list hold) (tr : list ev) : Prop :=
  match tr with
  | [] => True
  | Acq t l m :: r => consistent rows ((t, l, m) :: hs) r
  | Rel t l m :: r => consistent rows (remove1 (t, l, m) hs) r
  | Acc t s :: r =>
      (forall x, lookup rows s = Some x -> forall l m, In (l, m) (r_req x) -> holds_at hs t l m = true)
      /\ consistent rows hs r
  end.

(* executable twin of `consistent`, used to replay recorded traces *)
Fixpoint consistentb (rows : list row) (hs : list hold) (tr : list ev) : bool :=
  match tr with
  | [] => true
  | Acq t l m :: r => consistentb rows ((t, l, m) :: hs) r
  | Rel t l m :: r => consistentb rows (remove1 (t, l, m) hs) r
  | Acc t s :: r =>
      (match lookup rows s with
       | Some x => forallb (fun '(l, m) => holds_at hs t l m) (r_req x)
       | None => true end) && consistentb rows hs r
  end.
