(* Stopping a server: server.go Stop, Serve, wshandler, the close callback of a session,
   removeConnectionsToDeletedKeys, the API after Stop; internal/transport/websocket_server.go
   start, readPump, writePump, Close.

   One label is one scheduling step of one goroutine or one move of the environment (a client
   starts a handshake, the upgrade succeeds or fails, a message arrives, a socket dies, a write
   fails, the user calls Stop, UpdatePublicKeys or another API function). Sessions are numbered in
   the order in which they are admitted; any number of Stop calls, handshakes and API calls may be
   going on. s.mu and the connection manager's lock only guard straight-line regions, which are
   single steps here.

   cfg records the facts about the source on which the behaviour depends; harness/xlate shape
   re-extracts them from /repo on every run. `good` is what the theorems are proved for. *)
From Coq Require Export List Arith Bool.
From RecordUpdate Require Export RecordSet.
Export ListNotations RecordSetNotations.
Open Scope nat_scope.

Record cfg := mkCfg {
  stop_again : bool;     (* Stop returns at once when the connection manager is gone already *)
  api_nil : bool;        (* the API functions check s.connMgr for nil *)
  hs_quit : bool;        (* a handshake is refused once quit has fired *)
  hs_nil : bool;         (* a handshake which finds the manager gone after the upgrade gives up ... *)
  hs_close : bool;       (* ... and closes the upgraded socket *)
  srp_cconn : bool;      (* the read pump's hand-over select has an arm for closeConn *)
  swp_err_sock : bool;   (* a failed write closes the socket *)
  swp_cc_sock : bool;    (* the closeConn arm of the write pump closes the socket whether or not the close frame was sent *)
  start_sock : bool;     (* the transport closes the socket when its write pump has ended *)
  cb_release : bool;     (* the close callback always releases the wait group unit and the reader *)
  stop_waits : bool      (* Stop closes every session and waits for all of them *)
}.
Definition good : cfg := mkCfg true true true true true true true true true true true.

Inductive rpc := RRead | RHand | RExit.
Inductive wpc := WSel | WClosing | WLeft | WDone.
Inductive hpc := HRun | HExit.
Record sess := mkSess {
  rp : rpc;       (* read pump *)
  wp : wpc;       (* write pump / start(): at the select, close frame sent, in the deferred calls, callback done *)
  hr : hpc;       (* Server.handleRead of this session *)
  reg : bool;     (* registered in the connection manager *)
  cconn : bool;   (* transport.Close has been called (closeConn closed) *)
  cwp : bool;     (* the read pump has ended (closeWritePump closed) *)
  sock : bool;    (* the socket is closed or broken *)
  rel : bool      (* serveWG.Done and close(done) have run *)
}.
#[export] Instance eta_sess : Settable _ := settable! mkSess <rp; wp; hr; reg; cconn; cwp; sock; rel>.
Definition sess0 : sess := mkSess RRead WSel HRun true false false false false.

(* Stop *)
Inductive spc := P0 | P1 | P2 | P3 | P4 | PRet (tore : bool) | PCrash.
(* wshandler *)
Inductive kpc := K0 | K1 | K2 | K3 | KServing (i : nat) | KRefused (sock_open : bool) | KRet.
Inductive api := AOpen | AKeys | AChan | ASend | AUpdate.

Record st := mkSt {
  quit : bool;
  cmgr : bool;            (* s.connMgr != nil *)
  done : bool;            (* the done event has fired *)
  serve : bool;           (* Serve is still running *)
  ss : list sess;
  stops : list spc;
  hs : list kpc;
  crashed : bool
}.
#[export] Instance eta_st : Settable _ := settable! mkSt <quit; cmgr; done; serve; ss; stops; hs; crashed>.
Definition init : st := mkSt false true false true [] [] [] false.

Fixpoint upd {A} (l : list A) (n : nat) (f : A -> A) : list A :=
  match l, n with [], _ => [] | x :: r, 0 => f x :: r | x :: r, S m => x :: upd r m f end.
Definition getS (s : st) (i : nat) : sess := nth i (ss s) (mkSess RExit WDone HExit false true true true true).
Definition setS (s : st) (i : nat) (f : sess -> sess) : st := s <| ss := upd (ss s) i f |>.
Definition getP (s : st) (k : nat) : spc := nth k (stops s) (PRet false).
Definition setP (s : st) (k : nat) (p : spc) : st := s <| stops := upd (stops s) k (fun _ => p) |>.
Definition getK (s : st) (j : nat) : kpc := nth j (hs s) KRet.
Definition setK (s : st) (j : nat) (p : kpc) : st := s <| hs := upd (hs s) j (fun _ => p) |>.

Inductive lab :=
| LNewStop | LStop (k : nat)
| LServe
| LNewHs | LHs (j : nat) (ok : bool)
| LNet (i : nat) | LSockDie (i : nat) | LRp (i : nat) | LHand (i : nat)
| LWpCwp (i : nat) | LWpErr (i : nat) | LWpCconn (i : nat) (ok : bool) | LWpClosed (i : nat) | LWpAfter (i : nat)
| LHr (i : nat)
| LRevoke (i : nat)
| LApi (a : api).

Section M.
Variable c : cfg.

(* the write pump leaves its loop: start()'s deferred calls begin with s.Close() and conn.Close() *)
Definition wp_leave (t : sess) : sess :=
  t <| wp := WLeft |> <| cconn := true |> <| sock := if start_sock c then true else sock t |>.

Definition step (s : st) (l : lab) : option st :=
  if crashed s then None else
  match l with
  (* ---- Stop ---- *)
  | LNewStop => Some (s <| stops := stops s ++ [P0] |>)
  | LStop k =>
      if negb (Nat.ltb k (length (stops s))) then None else
      match getP s k with
      | P0 => Some (setP (s <| quit := true |>) k P1)
      | P1 => if cmgr s then Some (setP (s <| cmgr := false |>) k P2)
              else if stop_again c then Some (setP (s <| done := true |>) k (PRet false))
              else Some (setP s k PCrash <| crashed := true |>)
      | P2 => (* connMgr.close(): transport.Close (idempotent) on every registered session *)
              Some (setP (s <| ss := map (fun t => if reg t then t <| cconn := true |> else t) (ss s) |>) k P3)
      | P3 => if negb (stop_waits c) || forallb rel (ss s) then Some (setP s k P4) else None
      | P4 => Some (setP (s <| done := true |>) k (PRet true))
      | PRet _ | PCrash => None
      end
  | LServe => if serve s && done s then Some (s <| serve := false |>) else None
  (* ---- a handshake ---- *)
  | LNewHs => Some (s <| hs := hs s ++ [K0] |>)
  | LHs j ok =>
      if negb (Nat.ltb j (length (hs s))) then None else
      match getK s j with
      | K0 => if hs_quit c && quit s then Some (setK s j (KRefused false)) else Some (setK s j K1)
      | K1 => (* ensureSingleClientConnection *)
              if cmgr s then Some (setK s j (if ok then K2 else KRefused false))
              else if api_nil c then Some (setK s j (KRefused false)) else Some (setK s j KRet <| crashed := true |>)
      | K2 => (* the upgrade *) Some (setK s j (if ok then K3 else KRefused false))
      | K3 => (* under s.mu: manager gone / key revoked or duplicate (ok = false) / admitted *)
              if cmgr s then
                (if ok then Some (setK (s <| ss := ss s ++ [sess0] |>) j (KServing (length (ss s))))
                 else Some (setK s j (KRefused false)))
              else if hs_nil c then Some (setK s j (KRefused (negb (hs_close c))))
              else Some (setK s j KRet <| crashed := true |>)
      | KServing i => if rel (getS s i) || quit s then Some (setK s j KRet) else None
      | KRefused _ | KRet => None
      end
  (* ---- the pumps of session i ---- *)
  | LNet i => if negb (Nat.ltb i (length (ss s))) then None else
      match rp (getS s i) with RRead => if sock (getS s i) then None else Some (setS s i (fun t => t <| rp := RHand |>)) | _ => None end
  | LSockDie i => if Nat.ltb i (length (ss s)) then Some (setS s i (fun t => t <| sock := true |>)) else None
  | LRp i => if negb (Nat.ltb i (length (ss s))) then None else
      let t := getS s i in
      match rp t with
      | RRead => if sock t then Some (setS s i (fun t => t <| rp := RExit |> <| cwp := true |>)) else None
      | RHand => if srp_cconn c && cconn t then Some (setS s i (fun t => t <| rp := RExit |> <| cwp := true |>)) else None
      | RExit => None end
  | LHand i => if negb (Nat.ltb i (length (ss s))) then None else
      match rp (getS s i), hr (getS s i) with RHand, HRun => Some (setS s i (fun t => t <| rp := RRead |>)) | _, _ => None end
  | LWpCwp i => if negb (Nat.ltb i (length (ss s))) then None else
      match wp (getS s i) with WSel => if cwp (getS s i) then Some (setS s i wp_leave) else None | _ => None end
  | LWpErr i => if negb (Nat.ltb i (length (ss s))) then None else
      match wp (getS s i) with WSel => Some (setS s i (fun t => wp_leave (t <| sock := if swp_err_sock c then true else sock t |>))) | _ => None end
  | LWpCconn i ok => if negb (Nat.ltb i (length (ss s))) then None else
      let t := getS s i in
      match wp t with
      | WSel => if cconn t then
                  (if ok then Some (setS s i (fun t => t <| wp := WClosing |> <| sock := if swp_cc_sock c then true else sock t |>))
                   else Some (setS s i (fun t => wp_leave (t <| sock := if swp_cc_sock c then true else sock t |>))))
                else None
      | _ => None end
  | LWpClosed i => if negb (Nat.ltb i (length (ss s))) then None else
      match wp (getS s i) with WClosing => Some (setS s i wp_leave) | _ => None end
  | LWpAfter i => (* the close callback: unregister (if the manager is there), release *)
      if negb (Nat.ltb i (length (ss s))) then None else
      match wp (getS s i) with
      | WLeft => Some (setS s i (fun t => t <| wp := WDone |> <| reg := false |> <| rel := if cb_release c then true else cmgr s |>))
      | _ => None end
  | LHr i => if negb (Nat.ltb i (length (ss s))) then None else
      match hr (getS s i) with HRun => if rel (getS s i) then Some (setS s i (fun t => t <| hr := HExit |>)) else None | _ => None end
  (* ---- UpdatePublicKeys drops a session ---- *)
  | LRevoke i => if negb (Nat.ltb i (length (ss s))) then None else
      if cmgr s && reg (getS s i) then Some (setS s i (fun t => t <| cconn := true |> <| reg := false |>)) else None
  (* ---- the API ---- *)
  | LApi a => if cmgr s || api_nil c then Some s else Some (s <| crashed := true |>)
  end.

Fixpoint exec (s : st) (ls : list lab) : st :=
  match ls with [] => s | l :: r => match step s l with Some s' => exec s' r | None => exec s r end end.
End M.

Definition tore (s : st) : bool := existsb (fun p => match p with PRet true => true | _ => false end) (stops s).
(* nothing of a session is left, except possibly a read pump or a reader which can do nothing but end *)
Definition sess_gone (t : sess) : bool :=
  (match wp t with WDone => true | _ => false end) && sock t && rel t && negb (reg t)
  && (match rp t with RExit => true | RRead => sock t | RHand => cconn t end).
Definition final (s : st) : bool :=
  quit s && negb (cmgr s) && done s && forallb sess_gone (ss s)
  && forallb (fun k => match k with KRefused true => false | _ => true end) (hs s).
