From Coq Require Export List Arith Bool.
Export ListNotations.
Open Scope nat_scope.

(* Server.Invoke against Server.handleMessageResponse: Server.mu, the pending table and one
   channel per call. Any number of invokers (invoker i makes call i) and responders (responder j
   carries a response frame for some id x: genuine, late, duplicate or forged).
   cap1 = false: unbuffered per-call channel (the code as it was pinned);
   cap1 = true: capacity 1 (the code after the fix). Server.mu is modelled as an exclusive lock:
   read-locked regions (sendMsg, the views) are straight-line and never block while holding it. *)

Inductive ipc := I0 | IHold1 | ISent | ICtx | IHold2 | IOk | ITimeout.
Inductive rpc := R0 | RFound | RSent | RMiss | RDone.
Inductive tid := TI (i : nat) | TR (j : nat).

Definition tid_eqb a b := match a, b with TI x, TI y | TR x, TR y => Nat.eqb x y | _, _ => false end.

Record st := {
  mu : option tid;
  table : list nat;          (* pending call ids *)
  buf : list nat;            (* ids whose channel holds an undelivered value (cap 1 only) *)
  ipcs : nat -> ipc;         (* invoker i, call id i *)
  rpcs : nat -> (nat * rpc); (* responder j: (call id it carries, pc) *)
  ctx : nat -> bool
}.

Definition upd {A} (f : nat -> A) (k : nat) (v : A) : nat -> A := fun x => if Nat.eqb x k then v else f x.
Definition mem (x : nat) (l : list nat) := existsb (Nat.eqb x) l.
Fixpoint rm (x : nat) (l : list nat) := match l with [] => [] | y :: r => if Nat.eqb x y then rm x r else y :: rm x r end.

Inductive lab := LI (i : nat) | LIctx (i : nat) | LR (j : nat) | LCtx (i : nat) | LResp (j x : nat).

Section M.
Variable cap1 : bool.

Definition free (s : st) := match mu s with None => true | _ => false end.
Definition holds (s : st) (t : tid) := match mu s with Some u => tid_eqb u t | None => false end.

Definition set_i s i p m' := {| mu := m'; table := table s; buf := buf s; ipcs := upd (ipcs s) i p; rpcs := rpcs s; ctx := ctx s |}.
Definition set_r s j x p m' := {| mu := m'; table := table s; buf := buf s; ipcs := ipcs s; rpcs := upd (rpcs s) j (x, p); ctx := ctx s |}.

Definition step (s : st) (l : lab) : option st :=
  match l with
  | LCtx i => Some {| mu := mu s; table := table s; buf := buf s; ipcs := ipcs s; rpcs := rpcs s; ctx := upd (ctx s) i true |}
  | LResp j x => match snd (rpcs s j) with
                 | RDone => Some (set_r s j x R0 (mu s))   (* a fresh responder slot: response frame for id x arrives *)
                 | _ => None end
  | LI i =>
    match ipcs s i with
    | I0 => if free s then Some {| mu := Some (TI i); table := i :: table s; buf := buf s; ipcs := upd (ipcs s) i IHold1; rpcs := rpcs s; ctx := ctx s |} else None
    | IHold1 => Some (set_i s i ISent None)       (* unlock; sendMsg abstracted: request written *)
    | ISent => (* receive arm of the select *)
        if cap1 then (if mem i (buf s) then Some {| mu := mu s; table := table s; buf := rm i (buf s); ipcs := upd (ipcs s) i IOk; rpcs := rpcs s; ctx := ctx s |} else None)
        else None (* unbuffered: receive happens jointly in the responder's send step *)
    | ICtx => if free s then Some (set_i s i IHold2 (Some (TI i))) else None
    | IHold2 => Some {| mu := None; table := rm i (table s); buf := buf s; ipcs := upd (ipcs s) i ITimeout; rpcs := rpcs s; ctx := ctx s |}
    | _ => None
    end
  | LIctx i => match ipcs s i with ISent => if ctx s i then Some (set_i s i ICtx (mu s)) else None | _ => None end
  | LR j =>
    let '(x, p) := rpcs s j in
    match p with
    | R0 => if free s then (if mem x (table s) then Some (set_r s j x RFound (Some (TR j))) else Some (set_r s j x RMiss (Some (TR j)))) else None
    | RFound => (* call <- r while holding the lock *)
        if cap1 then (if mem x (buf s) then None else Some {| mu := mu s; table := table s; buf := x :: buf s; ipcs := ipcs s; rpcs := upd (rpcs s) j (x, RSent); ctx := ctx s |})
        else (match ipcs s x with ISent => Some {| mu := mu s; table := table s; buf := buf s; ipcs := upd (ipcs s) x IOk; rpcs := upd (rpcs s) j (x, RSent); ctx := ctx s |} | _ => None end)
    | RSent => Some {| mu := None; table := rm x (table s); buf := buf s; ipcs := ipcs s; rpcs := upd (rpcs s) j (x, RDone); ctx := ctx s |}
    | RMiss => Some (set_r s j x RDone None)
    | RDone => None
    end
  end.

Fixpoint exec (s : st) (ls : list lab) : st :=
  match ls with [] => s | l :: r => match step s l with Some s' => exec s' r | None => exec s r end end.

Definition init : st := {| mu := None; table := []; buf := []; ipcs := fun _ => I0; rpcs := fun _ => (0, RDone); ctx := fun _ => false |}.
End M.

