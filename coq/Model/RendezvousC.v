(* ClientConn.Invoke against ClientConn.handleMessageResponse: cc.mu, the pending table
   (methodCalls) and one channel of capacity 1 per call, written without blocking. Any number
   of invokers (invoker i makes call i) and responders (responder j carries a response frame for
   some id x: genuine, late, duplicate or forged). The transport write of the request is not
   part of this model (it selects on the caller's context itself; C18/C09). *)
From Coq Require Export List Arith Bool.
Export ListNotations.
Open Scope nat_scope.

Inductive ipc := I0 | IHold1 | ISent | IGot | ICtx | IHold2 (ok : bool) | IOk | ITimeout.
Inductive rpc := R0 | RHold (found : bool) | RSend | RDone.
Inductive tid := TI (i : nat) | TR (j : nat).

Record st := {
  mu : option tid;
  table : list nat;          (* ids registered in cc.methodCalls *)
  buf : list nat;            (* ids whose channel holds a value *)
  ipcs : nat -> ipc;
  rpcs : nat -> (nat * rpc);
  ctx : nat -> bool
}.

Definition upd {A} (f : nat -> A) (k : nat) (v : A) : nat -> A := fun x => if Nat.eqb x k then v else f x.
Definition mem (x : nat) (l : list nat) := existsb (Nat.eqb x) l.
Fixpoint rm (x : nat) (l : list nat) := match l with [] => [] | y :: r => if Nat.eqb x y then rm x r else y :: rm x r end.

Inductive lab := LI (i : nat) | LIctx (i : nat) | LR (j : nat) | LCtx (i : nat) | LResp (j x : nat).

Definition free (s : st) := match mu s with None => true | _ => false end.
Definition set_i s i p m' := {| mu := m'; table := table s; buf := buf s; ipcs := upd (ipcs s) i p; rpcs := rpcs s; ctx := ctx s |}.
Definition set_r s j x p m' := {| mu := m'; table := table s; buf := buf s; ipcs := ipcs s; rpcs := upd (rpcs s) j (x, p); ctx := ctx s |}.

Definition step (s : st) (l : lab) : option st :=
  match l with
  | LCtx i => Some {| mu := mu s; table := table s; buf := buf s; ipcs := ipcs s; rpcs := rpcs s; ctx := upd (ctx s) i true |}
  | LResp j x => match snd (rpcs s j) with RDone => Some (set_r s j x R0 (mu s)) | _ => None end
  | LI i =>
    match ipcs s i with
    | I0 => if free s then Some {| mu := Some (TI i); table := i :: table s; buf := buf s; ipcs := upd (ipcs s) i IHold1; rpcs := rpcs s; ctx := ctx s |} else None
    | IHold1 => Some (set_i s i ISent None)                         (* unlock; the request is written *)
    | ISent => if mem i (buf s)                                       (* the response arm of the select *)
               then Some {| mu := mu s; table := table s; buf := rm i (buf s); ipcs := upd (ipcs s) i IGot; rpcs := rpcs s; ctx := ctx s |}
               else None
    | IGot => if free s then Some (set_i s i (IHold2 true) (Some (TI i))) else None     (* deferred removal *)
    | ICtx => if free s then Some (set_i s i (IHold2 false) (Some (TI i))) else None
    | IHold2 ok => Some {| mu := None; table := rm i (table s); buf := buf s; ipcs := upd (ipcs s) i (if ok then IOk else ITimeout); rpcs := rpcs s; ctx := ctx s |}
    | _ => None
    end
  | LIctx i => match ipcs s i with ISent => if ctx s i then Some (set_i s i ICtx (mu s)) else None | _ => None end
  | LR j =>
    let '(x, p) := rpcs s j in
    match p with
    | R0 => if free s then Some (set_r s j x (RHold (mem x (table s))) (Some (TR j))) else None
    | RHold found => Some (set_r s j x (if found then RSend else RDone) None)
    | RSend => (* select { case wait <- r: default: } never blocks *)
        Some {| mu := mu s; table := table s; buf := if mem x (buf s) then buf s else x :: buf s; ipcs := ipcs s; rpcs := upd (rpcs s) j (x, RDone); ctx := ctx s |}
    | RDone => None
    end
  end.

Fixpoint exec (s : st) (ls : list lab) : st :=
  match ls with [] => s | l :: r => match step s l with Some s' => exec s' r | None => exec s r end end.
Definition init : st := {| mu := None; table := []; buf := []; ipcs := fun _ => I0; rpcs := fun _ => (0, RDone); ctx := fun _ => false |}.
