(* Keepalive of one transport (transport.go, both readPump/writePump pairs), integer time in ns.
   W = pongWait, P = pingPeriod. The read deadline is set to start+W when the read pump starts
   and to now+W by the pong handler; pings go out at start + k*P. Time 0 = start of the pumps. *)
From Coq Require Export ZArith List Bool.
Export ListNotations.
Open Scope Z_scope.

(* pongs: arrival times of pongs, in order. Returns the time at which the read deadline
   expires (the read pump fails, the transport is torn down). A pong arriving at or after the
   deadline in force is too late: the read has already failed. *)
Fixpoint expiry (W : Z) (d : Z) (pongs : list Z) : Z :=
  match pongs with
  | [] => d
  | t :: r => if t <? d then expiry W (t + W) r else d
  end.
Definition teardown (W : Z) (pongs : list Z) : Z := expiry W W pongs.

(* a healthy peer answers the k-th ping (sent at k*P) after a round trip rtt *)
Fixpoint healthy_pongs (P rtt : Z) (k0 : Z) (n : nat) : list Z :=
  match n with O => [] | S m => (k0 * P + rtt) :: healthy_pongs P rtt (k0 + 1) m end.
