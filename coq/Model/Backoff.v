(* internal/backoff (cenkalti ExponentialBackOff v2.2.1) and the sleeps of
   addrConn.resetTransport. Durations in ns as Z; multiplier and jitter as exact rationals. *)
From Coq Require Export ZArith List Bool.
Export ListNotations.
Open Scope Z_scope.

Record bcfg := { base : Z; cap : Z; mnum : Z; mden : Z; jnum : Z; jden : Z }.
(* the documented configuration: 1 s, x1.6, +-20 %, 120 s *)
Definition documented : bcfg :=
  {| base := 1000000000; cap := 120000000000; mnum := 8; mden := 5; jnum := 1; jden := 5 |}.

(* incrementCurrentInterval: cur >= cap / mult ? cap : trunc(cur * mult) *)
Definition next_interval (c : bcfg) (cur : Z) : Z :=
  if cap c * mden c <=? cur * mnum c then cap c else (cur * mnum c) / mden c.
Fixpoint interval (c : bcfg) (n : nat) : Z :=
  match n with O => base c | S m => next_interval c (interval c m) end.

(* getRandomValueFromInterval: trunc(min + r * (max - min + 1)), r in [0,1):
   every value p with lo <= p < hi + 1 can be drawn, and only those *)
Definition lo (c : bcfg) (i : Z) : Z := (i * (jden c - jnum c)) / jden c.          (* floor(i - j i) *)
Definition hi (c : bcfg) (i : Z) : Z := (i * (jden c + jnum c)) / jden c + 1.      (* ceil bound of i + j i, +1 *)
Definition in_pause (c : bcfg) (i p : Z) : bool := (lo c i <=? p) && (p <=? hi c i).

(* ---- the strategy object: NextBackOff / Reset, possibly shared with other connections ---- *)
Inductive bop := Next | Reset.
(* returns the interval index used by each Next *)
Fixpoint run_ops (n : nat) (ops : list bop) : list nat :=
  match ops with
  | [] => []
  | Next :: r => n :: run_ops (S n) r
  | Reset :: r => run_ops O r
  end.

(* ---- resetTransport: one NextBackOff per attempt (drawn before the dial), a sleep only after
   a failed attempt, Reset after a successful one ---- *)
Fixpoint loop_sleeps (n : nat) (outcomes : list bool) : list nat :=   (* interval index of each sleep *)
  match outcomes with
  | [] => []
  | false :: r => n :: loop_sleeps (S n) r
  | true :: r => loop_sleeps O r
  end.

Fixpoint check_sleeps (c : bcfg) (idx : list nat) (sleeps : list Z) : bool :=
  match idx, sleeps with
  | [], [] => true
  | n :: idx', p :: sleeps' => in_pause c (interval c n) p && check_sleeps c idx' sleeps'
  | _, _ => false
  end.
