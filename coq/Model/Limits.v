(* Read limits and write timeouts: dialoptions.go / serveroptions.go option plumbing,
   server.go wshandler, transport.newWebsocketClientConfig / newWebsocketServerWithConfig,
   and gorilla's delivery rule. Durations in ns, sizes in bytes, as Z (options may be
   given negative values; those are outside the documented domain). *)
From Coq Require Export ZArith List Bool.
Export ListNotations.
Open Scope Z_scope.

(* constants of the implementation, regenerated from the compiled code on every run *)
Record consts := {
  tr_read_limit : Z;      (* transport.defaultReadLimit *)
  tr_write_timeout : Z;   (* transport.defaultWriteTimeout *)
  srv_read_limit : Z;     (* defaultServerOptions.wsReadLimit *)
  srv_ws_timeout : Z      (* defaultServerOptions.wsTimeout *)
}.
(* the documented values *)
Definition documented : consts :=
  {| tr_read_limit := 100000000; tr_write_timeout := 10000000000;
     srv_read_limit := 10000000; srv_ws_timeout := 10000000000 |}.

Record cfg := { rl : Z; wt : Z }.      (* ConnectOptions / ServerConfig: ReadLimit, WriteTimeout *)

(* ---- client ---- *)
Inductive dial_opt := DReadLimit (v : Z) | DWriteTimeout (d : Z) | DOther.
Definition apply_dial (c : cfg) (o : dial_opt) : cfg :=
  match o with
  | DReadLimit v => {| rl := v; wt := wt c |}
  | DWriteTimeout d => {| rl := rl c; wt := d |}
  | DOther => c end.
Definition client_cfg (os : list dial_opt) : cfg := fold_left apply_dial os {| rl := 0; wt := 0 |}.

(* ---- server ---- *)
Inductive srv_opt := SReadLimit (v : Z) | SHTTPReadTimeout (hc ws : Z) | SOther.
Definition apply_srv (c : cfg) (o : srv_opt) : cfg :=
  match o with
  | SReadLimit v => {| rl := v; wt := wt c |}
  | SHTTPReadTimeout _ ws => {| rl := rl c; wt := ws |}
  | SOther => c end.
Definition server_opts (K : consts) (os : list srv_opt) : cfg :=
  fold_left apply_srv os {| rl := srv_read_limit K; wt := srv_ws_timeout K |}.
(* wshandler: the ServerConfig handed to the transport; zero read limit = server default *)
Definition server_cfg (K : consts) (os : list srv_opt) : cfg :=
  let o := server_opts K os in
  {| rl := if rl o =? 0 then srv_read_limit K else rl o; wt := wt o |}.

(* ---- transport: zero means the transport's default ---- *)
Definition effective (K : consts) (c : cfg) : cfg :=
  {| rl := if rl c =? 0 then tr_read_limit K else rl c;
     wt := if wt c =? 0 then tr_write_timeout K else wt c |}.

Definition client_eff K os := effective K (client_cfg os).
Definition server_eff K os := effective K (server_cfg K os).

(* gorilla: a message is refused when readLimit > 0 && length > readLimit *)
Definition deliver (limit size : Z) : bool := (limit <=? 0) || (size <=? limit).

(* the last explicit setting of an option, if any *)
Fixpoint last_rl_d (os : list dial_opt) (acc : option Z) : option Z :=
  match os with [] => acc | DReadLimit v :: r => last_rl_d r (Some v) | _ :: r => last_rl_d r acc end.
Fixpoint last_wt_d (os : list dial_opt) (acc : option Z) : option Z :=
  match os with [] => acc | DWriteTimeout v :: r => last_wt_d r (Some v) | _ :: r => last_wt_d r acc end.
Fixpoint last_rl_s (os : list srv_opt) (acc : option Z) : option Z :=
  match os with [] => acc | SReadLimit v :: r => last_rl_s r (Some v) | _ :: r => last_rl_s r acc end.
Fixpoint last_wt_s (os : list srv_opt) (acc : option Z) : option Z :=
  match os with [] => acc | SHTTPReadTimeout _ v :: r => last_wt_s r (Some v) | _ :: r => last_wt_s r acc end.

Definition or_default (o : option Z) (d : Z) : Z :=
  match o with Some v => if v =? 0 then d else v | None => d end.
