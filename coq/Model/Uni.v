(* uni_client.go: UniClientConn.Invoke as a loop over a script of environment
   outcomes, and retryConnectWithBackoff as a loop over dial outcomes. *)
From Coq Require Export ZArith.
From WV Require Export Model.Wire.
Open Scope N_scope.

(* ---------- Invoke ---------- *)
(* What the environment answers to each connection operation, in order. For a
   failing write/read, ctx_done says what ctx.Err() reports right afterwards. *)
Inductive ev :=
| EvWrite (ok : bool) (ctx_done : bool)
| EvRead (r : option bytes) (ctx_done : bool)
| EvConnect (ok : bool).

(* operations performed, each on the connection with the given index
   (0 = the one held on entry, k = the k-th one obtained from connectFn) *)
Inductive op :=
| OWrite (conn : N)      (* the request bytes of this call, identical every time *)
| ORead (conn : N)
| OConnect
| OSetW (conn : N)       (* SetWriteDeadline(ctx deadline), only for a context with a deadline *)
| OSetR (conn : N).      (* SetReadDeadline(ctx deadline) *)

Inductive result :=
| RReply (v : resp)      (* reply decoded from the response payload (harness reply type = message.Response) *)
| RRemote (e : bytes)    (* error carrying the remote error text *)
| RBadFrame              (* the frame read is not a valid envelope *)
| RBadReply              (* payload does not decode into the reply type *)
| RUnexpected            (* "unexpected message type": not a response *)
| RCtx                   (* the context's error *)
| RConnErr               (* connectFn's error *)
| RStuck.                (* script exhausted or of the wrong shape: not an execution *)

Definition interpret (frame : bytes) : result :=
  match decode frame with
  | Good (MResp p) =>
      match p_error p with
      | [] => match dec_resp (length (p_payload p)) resp0 (p_payload p) with
              | Good v => RReply v | _ => RBadReply end
      | e => RRemote e
      end
  | Good _ => RUnexpected
  | _ => RBadFrame
  end.

(* the operations of one write / one write+read on connection c; dl = the context has a deadline *)
Definition w_ops (dl : bool) (c : N) : list op := if dl then [OSetW c; OWrite c] else [OWrite c].
Definition wr_ops (dl : bool) (c : N) : list op := if dl then [OSetW c; OWrite c; OSetR c; ORead c] else [OWrite c; ORead c].

(* fuel = length of the script: every iteration consumes at least one event *)
Fixpoint invoke (fuel : nat) (dl : bool) (conn next : N) (s : list ev) (tr : list op) : result * list op * list ev :=
  match fuel with O => (RStuck, tr, s) | S f =>
    match s with
    | EvWrite true _ :: s1 =>
        match s1 with
        | EvRead (Some frame) _ :: s2 => (interpret frame, tr ++ wr_ops dl conn, s2)
        | EvRead None true :: s2 => (RCtx, tr ++ wr_ops dl conn, s2)
        | EvRead None false :: s2 =>
            match s2 with
            | EvConnect true :: s3 => invoke f dl next (next + 1) s3 (tr ++ wr_ops dl conn ++ [OConnect])
            | EvConnect false :: s3 => (RConnErr, tr ++ wr_ops dl conn ++ [OConnect], s3)
            | _ => (RStuck, tr ++ wr_ops dl conn, s2)
            end
        | _ => (RStuck, tr ++ w_ops dl conn, s1)
        end
    | EvWrite false true :: s1 => (RCtx, tr ++ w_ops dl conn, s1)
    | EvWrite false false :: s1 =>
        match s1 with
        | EvConnect true :: s2 => invoke f dl next (next + 1) s2 (tr ++ w_ops dl conn ++ [OConnect])
        | EvConnect false :: s2 => (RConnErr, tr ++ w_ops dl conn ++ [OConnect], s2)
        | _ => (RStuck, tr ++ w_ops dl conn, s1)
        end
    | _ => (RStuck, tr, s)
    end
  end.

Definition run_invoke (dl : bool) (s : list ev) : result * list op * list ev := invoke (S (length s)) dl 0 1 s [].

(* the connection the client holds when the call has ended, and the index the next new connection will get: a connection
   which connectFn failed to replace stays (a failed reconnect never leaves the client without one) *)
Fixpoint held (fuel : nat) (conn next : N) (s : list ev) : N * N :=
  match fuel with O => (conn, next) | S f =>
    match s with
    | EvWrite true _ :: EvRead None false :: EvConnect true :: s3 => held f next (next + 1) s3
    | EvWrite false false :: EvConnect true :: s2 => held f next (next + 1) s2
    | _ => (conn, next)
    end
  end.
Definition run_held (s : list ev) : N * N := held (S (length s)) 0 1 s.

(* ---------- retryConnectWithBackoff ---------- *)
Open Scope Z_scope.
Definition second : Z := 1000000000.
Definition first_wait : Z := second.
Definition wait_cap : Z := 60 * second.
Definition next_wait (w : Z) : Z := Z.min (w * 2) wait_cap.

(* outcome of each dial attempt; for a failed one, whether the context ends during the wait *)
Inductive dial := DialOk | DialErr (ctx_ends_in_wait : bool).
Inductive cres := Connected | CtxEnded | CStuck.

Fixpoint retry (w : Z) (ds : list dial) (waits : list Z) : cres * list Z :=
  match ds with
  | [] => (CStuck, waits)
  | DialOk :: _ => (Connected, waits)
  | DialErr true :: _ => (CtxEnded, waits ++ [w])
  | DialErr false :: r => retry (next_wait w) r (waits ++ [w])
  end.
Definition run_retry (ds : list dial) : cres * list Z := retry first_wait ds [].

(* the k-th wait, in closed form *)
Definition nth_wait (k : nat) : Z := Z.min (second * 2 ^ Z.of_nat k) wait_cap.
