(* The wsrpc envelope (internal/message/message.proto) as bytes.
   encode: what proto.Marshal produces for the three messages (fields in number
   order, empty proto3 scalars omitted, strings must be valid UTF-8).
   decode: an independent decoder of the published schema, written after
   protobuf-go's table decoder (internal/impl/decode.go, encoding/protowire). *)
From WV Require Export Model.Varint Model.Utf8.
Open Scope N_scope.

Record req := { r_method : bytes; r_callid : bytes; r_payload : bytes }.
Record resp := { p_callid : bytes; p_payload : bytes; p_error : bytes }.
Inductive msg := MNone | MReq (r : req) | MResp (p : resp).

Definition req0 := {| r_method := []; r_callid := []; r_payload := [] |}.
Definition resp0 := {| p_callid := []; p_payload := []; p_error := [] |}.

(* ---------------- encoder ---------------- *)
(* a length-delimited field; empty proto3 scalars are omitted *)
Definition fld (num : N) (v : bytes) : bytes :=
  match v with [] => [] | _ => (num * 8 + 2) :: varint (len v) ++ v end.
(* an embedded message is always written, even when empty *)
Definition sub (num : N) (body : bytes) : bytes := (num * 8 + 2) :: varint (len body) ++ body.

Definition body_req (r : req) : bytes := fld 1 (r_method r) ++ fld 2 (r_callid r) ++ fld 3 (r_payload r).
Definition body_resp (p : resp) : bytes := fld 1 (p_callid p) ++ fld 2 (p_payload p) ++ fld 3 (p_error p).

Definition wf_req (r : req) : bool := utf8 (r_method r) && utf8 (r_callid r).
Definition wf_resp (p : resp) : bool := utf8 (p_callid p) && utf8 (p_error p).
Definition wf (m : msg) : bool :=
  match m with MNone => true | MReq r => wf_req r | MResp p => wf_resp p end.

(* None = proto.Marshal returns an error (string field is not valid UTF-8) *)
Definition encode (m : msg) : option bytes :=
  match m with
  | MNone => Some []
  | MReq r => if wf_req r then Some (sub 2 (body_req r)) else None
  | MResp p => if wf_resp p then Some (sub 3 (body_resp p)) else None
  end.

(* ---------------- decoder ---------------- *)
Inductive res (A : Type) := Good (a : A) | Bad | Fuel.
Arguments Good {A} a. Arguments Bad {A}. Arguments Fuel {A}.

Definition take (n : N) (b : bytes) : option (bytes * bytes) :=
  if n <=? len b then Some (firstn (N.to_nat n) b, skipn (N.to_nat n) b) else None.
(* protowire.ConsumeBytes *)
Definition take_len (b : bytes) : option (bytes * bytes) :=
  match unvarint b with Some (n, r) => take n r | None => None end.

(* the tag of a field of a message being decoded: number in 1 .. 2^29-1 *)
Definition tag (b : bytes) : option (N * N * bytes) :=
  match unvarint b with
  | Some (t, r) => let num := t / 8 in
      if (num =? 0) || (2 ^ 29 <=? num) then None else Some (num, t mod 8, r)
  | None => None end.
(* protowire.ConsumeTag, used inside skipped groups: number in 1 .. 2^31-1 *)
Definition gtag (b : bytes) : option (N * N * bytes) :=
  match unvarint b with
  | Some (t, r) => let num := t / 8 in
      if (num =? 0) || (2 ^ 31 <=? num) then None else Some (num, t mod 8, r)
  | None => None end.

(* protowire.ConsumeFieldValue: skip one field value of wire type wt.
   d = group nesting levels still allowed (DefaultRecursionLimit + 1). *)
Fixpoint skip (fuel : nat) (d : N) (num wt : N) (b : bytes) : res bytes :=
  match fuel with O => Fuel | S f =>
    match wt with
    | 0 => match unvarint b with Some (_, r) => Good r | None => Bad end
    | 1 => match take 8 b with Some (_, r) => Good r | None => Bad end
    | 2 => match take_len b with Some (_, r) => Good r | None => Bad end
    | 5 => match take 4 b with Some (_, r) => Good r | None => Bad end
    | 3 => if d =? 0 then Bad else
           (fix grp (g : nat) (b : bytes) : res bytes :=
             match g with O => Fuel | S g' =>
               match gtag b with
               | Some (n2, w2, r) =>
                   if w2 =? 4 then (if n2 =? num then Good r else Bad)
                   else match skip f (d - 1) n2 w2 r with
                        | Good r' => grp g' r' | Bad => Bad | Fuel => Fuel end
               | None => Bad end end) fuel b
    | _ => Bad
    end end.
Definition depth0 : N := 10001.

(* message Request { string method = 1; string call_id = 2; bytes payload = 3; } *)
Fixpoint dec_req (fuel : nat) (acc : req) (b : bytes) : res req :=
  match b with
  | [] => Good acc
  | _ => match fuel with O => Fuel | S f =>
      match tag b with
      | None => Bad
      | Some (num, wt, r) =>
        if wt =? 4 then Bad else
        if (num =? 1) && (wt =? 2) then
          match take_len r with
          | Some (v, r') => if utf8 v then dec_req f {| r_method := v; r_callid := r_callid acc; r_payload := r_payload acc |} r' else Bad
          | None => Bad end
        else if (num =? 2) && (wt =? 2) then
          match take_len r with
          | Some (v, r') => if utf8 v then dec_req f {| r_method := r_method acc; r_callid := v; r_payload := r_payload acc |} r' else Bad
          | None => Bad end
        else if (num =? 3) && (wt =? 2) then
          match take_len r with
          | Some (v, r') => dec_req f {| r_method := r_method acc; r_callid := r_callid acc; r_payload := v |} r'
          | None => Bad end
        else match skip (length b) depth0 num wt r with
             | Good r' => dec_req f acc r' | Bad => Bad | Fuel => Fuel end
      end end
  end.

(* message Response { string call_id = 1; bytes payload = 2; string error = 3; } *)
Fixpoint dec_resp (fuel : nat) (acc : resp) (b : bytes) : res resp :=
  match b with
  | [] => Good acc
  | _ => match fuel with O => Fuel | S f =>
      match tag b with
      | None => Bad
      | Some (num, wt, r) =>
        if wt =? 4 then Bad else
        if (num =? 1) && (wt =? 2) then
          match take_len r with
          | Some (v, r') => if utf8 v then dec_resp f {| p_callid := v; p_payload := p_payload acc; p_error := p_error acc |} r' else Bad
          | None => Bad end
        else if (num =? 2) && (wt =? 2) then
          match take_len r with
          | Some (v, r') => dec_resp f {| p_callid := p_callid acc; p_payload := v; p_error := p_error acc |} r'
          | None => Bad end
        else if (num =? 3) && (wt =? 2) then
          match take_len r with
          | Some (v, r') => if utf8 v then dec_resp f {| p_callid := p_callid acc; p_payload := p_payload acc; p_error := v |} r' else Bad
          | None => Bad end
        else match skip (length b) depth0 num wt r with
             | Good r' => dec_resp f acc r' | Bad => Bad | Fuel => Fuel end
      end end
  end.

(* message Message { oneof exchange { Request request = 2; Response response = 3; } }
   A second occurrence of the member already set merges into it; the other
   member replaces it. *)
Fixpoint dec_msg (fuel : nat) (acc : msg) (b : bytes) : res msg :=
  match b with
  | [] => Good acc
  | _ => match fuel with O => Fuel | S f =>
      match tag b with
      | None => Bad
      | Some (num, wt, r) =>
        if wt =? 4 then Bad else
        if (num =? 2) && (wt =? 2) then
          match take_len r with
          | Some (v, r') =>
              match dec_req (length v) (match acc with MReq q => q | _ => req0 end) v with
              | Good q => dec_msg f (MReq q) r' | Bad => Bad | Fuel => Fuel end
          | None => Bad end
        else if (num =? 3) && (wt =? 2) then
          match take_len r with
          | Some (v, r') =>
              match dec_resp (length v) (match acc with MResp q => q | _ => resp0 end) v with
              | Good q => dec_msg f (MResp q) r' | Bad => Bad | Fuel => Fuel end
          | None => Bad end
        else match skip (length b) depth0 num wt r with
             | Good r' => dec_msg f acc r' | Bad => Bad | Fuel => Fuel end
      end end
  end.

Definition decode (b : bytes) : res msg := dec_msg (length b) MNone b.
