(* credentials/tls.go: the peer-certificate check both roles install, and key-list validation. *)
From WV Require Export Model.Varint Model.Uuid.
Open Scope N_scope.

Inductive alg := Ed25519 | OtherAlg.
(* what x509.ParseCertificate yields for one raw certificate *)
Inductive cert := Unparseable | Parsed (a : alg) (key : bytes).
Inductive decision := Accept | Refuse.

(* subtle.ConstantTimeCompare(pub, vpub) > 0 for some listed vpub: equal length and content *)
Fixpoint listed (k : bytes) (allow : list bytes) : bool :=
  match allow with [] => false | v :: r => beqb k v || listed k r end.

(* PublicKeys.VerifyPeerCertificate *)
Definition verify (allow : list bytes) (raw : list cert) : decision :=
  match raw with
  | [Parsed Ed25519 k] => if listed k allow then Accept else Refuse
  | _ => Refuse
  end.

(* ValidPublicKeysFromEd25519 (both server entry points, the client's, and UpdatePublicKeys) *)
Definition valid_keys (ks : list bytes) : bool := forallb (fun k => Nat.eqb (length k) 32) ks.

(* the tls.Config both roles build *)
Record tlscfg := { min_version : N; max_version : N; client_auth : N; has_verify : bool; skip_chain_verify : bool }.
Definition TLS13 : N := 772.                (* tls.VersionTLS13 = 0x0304 *)
Definition RequireAnyClientCert : N := 2.
Definition expected_tls (server : bool) : tlscfg :=
  {| min_version := TLS13; max_version := TLS13; client_auth := if server then RequireAnyClientCert else 0;
     has_verify := true; skip_chain_verify := true |}.
