module verifinst

go 1.22
