// verifinst: gate instrumentation of wsrpc sources (standard library only).
// usage: verifinst <out-dir> <repo-root> <file>...   (files relative to repo-root)
// For every statement that is a Lock/RLock/Unlock/RUnlock/Wait call, a channel send or
// receive, a close() or a select, it inserts verifrt.Pre(label) before and verifrt.Post(label)
// after (for a select: verifrt.Arm(label, i) at the head of arm i instead of Post, since a
// select may be a terminating statement). label = Type.Func#kind#ordinal, stable under line
// shifts. Prints one line per label: "<file>\t<label>".
package main

import (
	"bytes"
	"fmt"
	"go/ast"
	"go/format"
	"go/parser"
	"go/token"
	"os"
	"path/filepath"
	"strconv"
	"strings"
)

const rtPath = "github.com/smartcontractkit/wsrpc/internal/verifrt"

func main() {
	out, root := os.Args[1], os.Args[2]
	for _, rel := range os.Args[3:] {
		if err := instrument(out, root, rel); err != nil {
			fmt.Fprintln(os.Stderr, "verifinst:", rel, err)
			os.Exit(1)
		}
	}
}

func lit(s string) ast.Expr { return &ast.BasicLit{Kind: token.STRING, Value: strconv.Quote(s)} }
func rt(fn string, args ...ast.Expr) ast.Stmt {
	return &ast.ExprStmt{X: &ast.CallExpr{Fun: &ast.SelectorExpr{X: ast.NewIdent("verifrt"), Sel: ast.NewIdent(fn)}, Args: args}}
}

func kindOfCall(c *ast.CallExpr) string {
	if id, ok := c.Fun.(*ast.Ident); ok && id.Name == "close" && len(c.Args) == 1 {
		return "close"
	}
	if se, ok := c.Fun.(*ast.SelectorExpr); ok && len(c.Args) == 0 {
		switch se.Sel.Name {
		case "Lock", "RLock", "Unlock", "RUnlock", "Wait":
			return se.Sel.Name
		}
	}
	return ""
}

func kindOf(s ast.Stmt) string {
	switch st := s.(type) {
	case *ast.ExprStmt:
		if c, ok := st.X.(*ast.CallExpr); ok {
			return kindOfCall(c)
		}
		if u, ok := st.X.(*ast.UnaryExpr); ok && u.Op == token.ARROW {
			return "recv"
		}
	case *ast.AssignStmt:
		if len(st.Rhs) == 1 {
			if u, ok := st.Rhs[0].(*ast.UnaryExpr); ok && u.Op == token.ARROW {
				return "recv"
			}
		}
	case *ast.SendStmt:
		return "send"
	case *ast.SelectStmt:
		return "select"
	}
	return ""
}

func instrument(outDir, root, rel string) error {
	src := filepath.Join(root, rel)
	fset := token.NewFileSet()
	f, err := parser.ParseFile(fset, src, nil, parser.ParseComments)
	if err != nil {
		return err
	}
	var labels []string
	for _, d := range f.Decls {
		fd, ok := d.(*ast.FuncDecl)
		if !ok || fd.Body == nil {
			continue
		}
		name := fd.Name.Name
		if fd.Recv != nil && len(fd.Recv.List) > 0 {
			t := fd.Recv.List[0].Type
			if s, ok := t.(*ast.StarExpr); ok {
				t = s.X
			}
			if id, ok := t.(*ast.Ident); ok {
				name = id.Name + "." + name
			}
		}
		cnt := map[string]int{}
		mk := func(kind string) string {
			cnt[kind]++
			l := fmt.Sprintf("%s#%s#%d", name, kind, cnt[kind])
			labels = append(labels, l)
			return l
		}
		var list func([]ast.Stmt) []ast.Stmt
		var stmt func(ast.Stmt)
		var expr func(ast.Expr)
		expr = func(e ast.Expr) {
			ast.Inspect(e, func(n ast.Node) bool {
				if fl, ok := n.(*ast.FuncLit); ok {
					fl.Body.List = list(fl.Body.List)
					return false
				}
				return true
			})
		}
		list = func(in []ast.Stmt) []ast.Stmt {
			var res []ast.Stmt
			for _, s := range in {
				stmt(s)
				k := kindOf(s)
				switch {
				case k == "select":
					l := mk(k)
					sel := s.(*ast.SelectStmt)
					for i, c := range sel.Body.List {
						cc := c.(*ast.CommClause)
						cc.Body = append([]ast.Stmt{rt("Arm", lit(l), &ast.BasicLit{Kind: token.INT, Value: strconv.Itoa(i)})}, cc.Body...)
					}
					res = append(res, rt("Pre", lit(l)), s)
				case k != "":
					l := mk(k)
					res = append(res, rt("Pre", lit(l)), s, rt("Post", lit(l)))
				default:
					res = append(res, s)
				}
			}
			return res
		}
		stmt = func(s ast.Stmt) {
			switch st := s.(type) {
			case *ast.BlockStmt:
				st.List = list(st.List)
			case *ast.IfStmt:
				if st.Init != nil {
					stmt(st.Init)
				}
				stmt(st.Body)
				if st.Else != nil {
					stmt(st.Else)
				}
			case *ast.ForStmt:
				stmt(st.Body)
			case *ast.RangeStmt:
				stmt(st.Body)
			case *ast.SelectStmt:
				for _, c := range st.Body.List {
					cc := c.(*ast.CommClause)
					cc.Body = list(cc.Body)
				}
			case *ast.SwitchStmt:
				for _, c := range st.Body.List {
					cc := c.(*ast.CaseClause)
					cc.Body = list(cc.Body)
				}
			case *ast.TypeSwitchStmt:
				for _, c := range st.Body.List {
					cc := c.(*ast.CaseClause)
					cc.Body = list(cc.Body)
				}
			case *ast.LabeledStmt:
				stmt(st.Stmt)
			case *ast.DeferStmt:
				if k := kindOfCall(st.Call); k != "" {
					// defer x.Unlock()  ->  defer func() { Pre; x.Unlock(); Post }()
					l := mk(k)
					call := st.Call
					st.Call = &ast.CallExpr{Fun: &ast.FuncLit{Type: &ast.FuncType{Params: &ast.FieldList{}}, Body: &ast.BlockStmt{List: []ast.Stmt{rt("Pre", lit(l)), &ast.ExprStmt{X: call}, rt("Post", lit(l))}}}}
				} else {
					expr(st.Call)
				}
			case *ast.GoStmt:
				expr(st.Call)
			case *ast.ExprStmt:
				expr(st.X)
			case *ast.AssignStmt:
				for _, e := range st.Rhs {
					expr(e)
				}
			case *ast.ReturnStmt:
				for _, e := range st.Results {
					expr(e)
				}
			}
		}
		fd.Body.List = list(fd.Body.List)
	}
	// add the import
	imp := &ast.ImportSpec{Path: &ast.BasicLit{Kind: token.STRING, Value: strconv.Quote(rtPath)}}
	added := false
	for _, d := range f.Decls {
		if gd, ok := d.(*ast.GenDecl); ok && gd.Tok == token.IMPORT {
			gd.Specs = append(gd.Specs, imp)
			added = true
			break
		}
	}
	if !added {
		f.Decls = append([]ast.Decl{&ast.GenDecl{Tok: token.IMPORT, Specs: []ast.Spec{imp}}}, f.Decls...)
	}
	var buf bytes.Buffer
	fmt.Fprintf(&buf, "//line %s:1\n", src)
	if err := format.Node(&buf, fset, f); err != nil {
		return err
	}
	buf.WriteString("\nvar _ = verifrt.Pre\n")
	dst := filepath.Join(outDir, strings.ReplaceAll(rel, "/", "__"))
	if err := os.MkdirAll(outDir, 0o755); err != nil {
		return err
	}
	if err := os.WriteFile(dst, buf.Bytes(), 0o644); err != nil {
		return err
	}
	for _, l := range labels {
		fmt.Printf("%s\t%s\n", rel, l)
	}
	return nil
}
