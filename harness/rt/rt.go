// Package verifrt is the gate runtime of the verification harness. It is injected into the
// module through -overlay at build time and is never part of the repository.
//
// Every instrumented synchronisation operation calls Pre(label) before and Post(label) (or
// Arm(label, i) for the chosen arm of a select) after. A controller decides, from a script of
// (thread, label) steps, which goroutine may pass its gate next; operations that are not in
// the script pass freely. All passages are appended to one global trace.
package verifrt

import (
	"bytes"
	"runtime"
	"strconv"
	"strings"
	"sync"
	"time"
)

type Step struct {
	Thread string // "" = any goroutine
	Label  string
	Blocks bool // the operation is expected to block: the script moves on once it has been entered
}

type Ev struct {
	G      int64 // goroutine
	Thread string
	Label  string
	Kind   string // pre, post, arm
	Arm    int
}

var (
	mu      sync.Mutex
	cond    = sync.NewCond(&mu)
	enabled bool
	script  []Step
	pos     int
	names   = map[int64]string{}
	trace   []Ev
	stuck   string
	waitMax = 3 * time.Second
	holds   = map[string]int{} // label -> number of goroutines to hold at this gate until Release
	held    = map[string]int{}
	watched  = map[string]bool{} // labels subject to turn-based steps (Step.Label == "")
	finished = map[string]bool{} // threads that will not arrive any more: their steps are skipped
	inSelect = map[string]bool{} // threads currently inside a select: they cannot take a turn
	grantedPos = -1              // script step whose gate has been passed but whose operation has not completed yet
	grantedAt  time.Time
	lastPos    = -1 // for detecting a step whose thread never shows up
	lastPosAt  time.Time
	stepPrefix []string         // Lockstep: labels (by prefix) at which goroutines wait for each other
	stepN      int              //   how many goroutines pass such a gate together
	stepWait   time.Duration    //   how long one waits for the others before it goes on alone
	stepAt     = map[string]int{} //   arrivals per label
)

// Lockstep makes the goroutines which arrive at a gate whose label starts with one of the prefixes pass it n at a
// time: each waits (at most patience) until n have arrived at that same gate. Between two such gates they run
// freely, so that of n goroutines going through the same code each has done a step before any does the next -
// whatever the labels of the steps are. Lockstep(nil, 0, 0) switches it off.
func Lockstep(prefixes []string, n int, patience time.Duration) {
	mu.Lock()
	stepPrefix, stepN, stepWait, stepAt = prefixes, n, patience, map[string]int{}
	mu.Unlock()
	cond.Broadcast()
}

// Watch sets the labels a step without a label stands for ("the thread's next watched operation").
func Watch(labels ...string) {
	mu.Lock()
	watched = map[string]bool{}
	for _, l := range labels {
		watched[l] = true
	}
	mu.Unlock()
}

// Finish tells the controller that a thread has ended: its remaining steps are skipped.
func Finish(thread string) {
	mu.Lock()
	finished[thread] = true
	skip()
	mu.Unlock()
	cond.Broadcast()
}

func skip() {
	for pos < len(script) && script[pos].Thread != "" && (finished[script[pos].Thread] || inSelect[script[pos].Thread]) {
		pos++
	}
}

func stepMatches(st Step, th, label string) bool {
	if st.Thread != "" && st.Thread != th {
		return false
	}
	if st.Label == "" {
		return watched[label]
	}
	return st.Label == label
}

func isSelect(label string) bool { return strings.Contains(label, "#select#") }

func gid() int64 {
	var buf [64]byte
	n := runtime.Stack(buf[:], false)
	b := buf[:n]
	b = b[len("goroutine "):]
	i := bytes.IndexByte(b, ' ')
	v, _ := strconv.ParseInt(string(b[:i]), 10, 64)
	return v
}

// Gid returns the id of the calling goroutine.
func Gid() int64 { return gid() }

// Name registers the calling goroutine under a thread name (harness threads do this).
func Name(n string) { mu.Lock(); names[gid()] = n; mu.Unlock() }

func threadOf(g int64, label string) string {
	if n, ok := names[g]; ok {
		return n
	}
	// library goroutines are known by the function that first hits a gate
	n := "lib:" + strings.SplitN(label, "#", 2)[0]
	names[g] = n
	return n
}

// Start enables the controller with a script; Stop disables it and returns the trace.
func Start(s []Step) {
	mu.Lock()
	enabled, script, pos, trace, stuck = true, s, 0, nil, ""
	holds, held = map[string]int{}, map[string]int{}
	stepPrefix, stepN, stepAt = nil, 0, map[string]int{}
	finished, inSelect = map[string]bool{}, map[string]bool{}
	grantedPos, lastPos = -1, -1
	mu.Unlock()
	cond.Broadcast()
}

func Stop() ([]Ev, string) {
	mu.Lock()
	enabled = false
	t, s := trace, stuck
	holds = map[string]int{}
	mu.Unlock()
	cond.Broadcast()
	return t, s
}

func Pos() int       { mu.Lock(); defer mu.Unlock(); return pos }
func Done() bool     { mu.Lock(); defer mu.Unlock(); return pos >= len(script) }
func Stuck() string  { mu.Lock(); defer mu.Unlock(); return stuck }
func Trace() []Ev    { mu.Lock(); defer mu.Unlock(); return append([]Ev(nil), trace...) }
func ResetNames()    { mu.Lock(); names = map[int64]string{}; mu.Unlock() }

// Hold makes the next n goroutines arriving at label wait until Release(label).
func Hold(label string, n int) { mu.Lock(); holds[label] = n; mu.Unlock() }
func Held(label string) int    { mu.Lock(); defer mu.Unlock(); return held[label] }
func Release(label string) {
	mu.Lock()
	delete(holds, label)
	held[label] = 0
	mu.Unlock()
	cond.Broadcast()
}

// WaitPos waits until the script position reached p (or the timeout passed).
func WaitPos(p int, d time.Duration) bool {
	deadline := time.Now().Add(d)
	for time.Now().Before(deadline) {
		if Pos() >= p {
			return true
		}
		time.Sleep(200 * time.Microsecond)
	}
	return Pos() >= p
}

func matchAhead(th, label string) int {
	for i := pos; i < len(script); i++ {
		if finished[script[i].Thread] && script[i].Thread != "" {
			continue
		}
		if stepMatches(script[i], th, label) {
			return i
		}
	}
	return -1
}

func Pre(label string) {
	mu.Lock()
	defer mu.Unlock()
	if !enabled {
		return
	}
	g := gid()
	th := threadOf(g, label)
	if stepN > 1 {
		for _, p := range stepPrefix {
			if strings.HasPrefix(label, p) {
				stepAt[label]++
				mine := (stepAt[label] + stepN - 1) / stepN * stepN // the arrival count which completes my group
				end := time.Now().Add(stepWait)
				for enabled && stepN > 1 && stepAt[label] < mine && time.Now().Before(end) {
					go func() { time.Sleep(2 * time.Millisecond); cond.Broadcast() }()
					cond.Wait()
				}
				if stepAt[label] < mine {
					stepAt[label] = mine // went on alone: the next arrival starts a new group
				}
				cond.Broadcast()
				break
			}
		}
	}
	if holds[label] > 0 {
		holds[label]--
		held[label]++
		for enabled {
			if _, ok := holds[label]; !ok {
				break
			}
			cond.Wait()
		}
	}
	deadline := time.Now().Add(waitMax)
	for enabled {
		i := matchAhead(th, label)
		if i < 0 {
			break
		}
		if lastPos != pos {
			lastPos, lastPosAt = pos, time.Now()
		}
		if grantedPos != pos && i != pos && time.Since(lastPosAt) > 40*time.Millisecond {
			// nobody has come for the current step for a long time while we are waiting behind it:
			// its thread has ended or is blocked elsewhere; the script moves on
			pos++
			skip()
			cond.Broadcast()
			continue
		}
		if grantedPos == pos && i != pos && time.Since(grantedAt) > 4*time.Millisecond {
			// the operation of the current step has been entered but does not complete: it is
			// blocked (e.g. a Lock behind another holder); the script moves on
			pos++
			skip()
			cond.Broadcast()
			continue
		}
		if i == pos {
			grantedPos, grantedAt = pos, time.Now()
			if script[pos].Blocks || isSelect(label) {
				pos++
				if isSelect(label) {
					inSelect[th] = true
				}
				skip()
				cond.Broadcast()
			}
			break
		}
		if time.Now().After(deadline) {
			if stuck == "" {
				stuck = "thread " + th + " waited at " + label + " for script step " + strconv.Itoa(i) + " while the script is at " + strconv.Itoa(pos)
			}
			break
		}
		go func() { time.Sleep(2 * time.Millisecond); cond.Broadcast() }()
		cond.Wait()
	}
	if isSelect(label) && !inSelect[th] {
		inSelect[th] = true
		skip()
		cond.Broadcast()
	}
	trace = append(trace, Ev{g, th, label, "pre", 0})
}

func after(label, kind string, arm int) {
	mu.Lock()
	if enabled {
		g := gid()
		th := threadOf(g, label)
		trace = append(trace, Ev{g, th, label, kind, arm})
		if kind == "arm" {
			inSelect[th] = false
		}
		if kind == "post" && pos < len(script) && !script[pos].Blocks && stepMatches(script[pos], th, label) {
			pos++
			skip()
			cond.Broadcast()
		}
	}
	mu.Unlock()
}

func Post(label string)         { after(label, "post", 0) }
func Arm(label string, arm int) { after(label, "arm", arm) }
