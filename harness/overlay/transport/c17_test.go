package transport

// C17 transport-level harness: the real read/write pumps of both transports over a
// fake conn that implements read deadlines, answers pings after a round trip while the
// peer is alive, and falls silent at a chosen moment of the ping cycle. All durations
// of transport.go are scaled by vScale (source rewrite of time.Second in the overlay).

import (
	"context"
	"errors"
	"fmt"
	"sync"
	"testing"
	"time"

	"github.com/gorilla/websocket"
	"github.com/smartcontractkit/wsrpc/logger"
)

type vKAConn struct {
	mu       sync.Mutex
	deadline time.Time
	pongH    func(string) error
	closed   bool
	started  bool
	start    time.Time
	silentAt time.Duration // peer answers pings only before this moment (relative to start); <0: always
	rtt      time.Duration
	pongs    []time.Duration
	pings    []time.Duration
	wake     chan struct{}
	created  time.Time
	inbound  []time.Duration // the peer sends a data message at these moments (relative to the creation of the connection)
}

func (c *vKAConn) kick() {
	select {
	case c.wake <- struct{}{}:
	default:
	}
}
func (c *vKAConn) SetReadLimit(int64) {}
func (c *vKAConn) SetReadDeadline(t time.Time) error {
	c.mu.Lock()
	if !c.started {
		c.started, c.start = true, time.Now()
	}
	c.deadline = t
	c.mu.Unlock()
	c.kick()
	return nil
}
func (c *vKAConn) SetPongHandler(h func(string) error) { c.mu.Lock(); c.pongH = h; c.mu.Unlock() }
func (c *vKAConn) SetWriteDeadline(time.Time) error    { return nil }
func (c *vKAConn) ReadMessage() (int, []byte, error) {
	for {
		c.mu.Lock()
		closed, dl := c.closed, c.deadline
		c.mu.Unlock()
		if closed {
			return 0, nil, errors.New("fake: use of closed connection")
		}
		wait := time.Until(dl)
		if !dl.IsZero() && wait <= 0 {
			return 0, nil, errors.New("fake: i/o timeout")
		}
		if dl.IsZero() {
			wait = time.Hour
		}
		c.mu.Lock()
		if len(c.inbound) > 0 {
			due := time.Until(c.created.Add(c.inbound[0]))
			if due <= 0 {
				c.inbound = c.inbound[1:]
				c.mu.Unlock()
				return websocket.BinaryMessage, []byte("message from the peer"), nil
			}
			if due < wait {
				wait = due
			}
		}
		c.mu.Unlock()
		t := time.NewTimer(wait)
		select {
		case <-t.C:
		case <-c.wake:
			t.Stop()
		}
	}
}
func (c *vKAConn) WriteMessage(int, []byte) error { return nil }
func (c *vKAConn) WriteControl(mt int, _ []byte, _ time.Time) error {
	if mt != websocket.PingMessage {
		return nil
	}
	c.mu.Lock()
	now := time.Since(c.start)
	c.pings = append(c.pings, now)
	alive := c.silentAt < 0 || now < c.silentAt
	rtt := c.rtt
	c.mu.Unlock()
	if alive {
		go func() {
			time.Sleep(rtt)
			c.mu.Lock()
			at := time.Since(c.start)
			ok := !c.closed && (c.silentAt < 0 || at < c.silentAt)
			h := c.pongH
			if ok {
				c.pongs = append(c.pongs, at)
			}
			c.mu.Unlock()
			if ok && h != nil {
				_ = h("")
			}
		}()
	}
	return nil
}
func (c *vKAConn) Close() error { c.mu.Lock(); c.closed = true; c.mu.Unlock(); c.kick(); return nil }

func vKARun(role string, silentAt, rtt time.Duration, watch time.Duration, writes ...time.Duration) (torn bool, at time.Duration, conn *vKAConn) {
	return vKARunIn(role, silentAt, rtt, watch, nil, writes...)
}

// vKARunIn: as vKARun, with data messages arriving from the peer at the moments `inbound` (somebody takes them from the transport)
func vKARunIn(role string, silentAt, rtt time.Duration, watch time.Duration, inbound []time.Duration, writes ...time.Duration) (torn bool, at time.Duration, conn *vKAConn) {
	return vKARunX(role, silentAt, rtt, watch, inbound, nil, writes...)
}

// vKARunX: as vKARunIn; the peer also sends pongs nobody asked for at the moments `extra` (a heartbeat of its own, a duplicated frame)
func vKARunX(role string, silentAt, rtt time.Duration, watch time.Duration, inbound, extra []time.Duration, writes ...time.Duration) (torn bool, at time.Duration, conn *vKAConn) {
	conn = &vKAConn{silentAt: silentAt, rtt: rtt, wake: make(chan struct{}, 1), created: time.Now(), inbound: append([]time.Duration(nil), inbound...)}
	done := make(chan time.Duration, 1)
	after := func() {
		conn.mu.Lock()
		s := conn.start
		conn.mu.Unlock()
		select {
		case done <- time.Since(s):
		default:
		}
	}
	var write func(context.Context, []byte) error
	var read <-chan []byte
	if role == "client" {
		c := newWebsocketClientConfig(context.Background(), logger.DefaultLogger, "addr", ConnectOptions{}, after, conn)
		c.log = vSilent{logger.DefaultLogger}
		c.Start()
		write, read = c.Write, c.Read()
	} else {
		sv := newWebsocketServer(conn, &ServerConfig{}, after)
		write, read = sv.Write, sv.Read()
	}
	go func() { // the endpoint's reader: takes what the read pump hands over
		for range read {
		}
	}()
	// application messages sent at the given moments of the session
	t0 := time.Now()
	for _, e := range extra {
		go func(e time.Duration) {
			time.Sleep(e - time.Since(t0))
			conn.mu.Lock()
			h := conn.pongH
			ok := !conn.closed && h != nil && conn.started
			if ok {
				conn.pongs = append(conn.pongs, time.Since(conn.start))
			}
			conn.mu.Unlock()
			if ok {
				_ = h("")
			}
		}(e)
	}
	for _, w := range writes {
		go func(w time.Duration) {
			time.Sleep(w - time.Since(t0))
			ctx, cancel := context.WithTimeout(context.Background(), time.Second)
			defer cancel()
			_ = write(ctx, []byte("application message"))
		}(w)
	}
	select {
	case at = <-done:
		return true, at, conn
	case <-time.After(watch):
		conn.Close()
		return false, 0, conn
	}
}

type vSilent struct{ logger.Logger }

func (vSilent) Errorw(string, ...interface{}) {}
func (vSilent) Errorf(string, ...interface{}) {}

func TestVerifC17Transport(t *testing.T) {
	r := vNewRand(vSeed() + 17)
	W, P := int64(pongWait), int64(pingPeriod)
	vEmit(vCase{Class: "consts-scaled", Info: map[string]interface{}{"pong_wait": W, "ping_period": P, "second": int64(vSecond)}})
	slack := int64(60 * time.Millisecond)
	if W/8 > slack {
		slack = W / 8 // scheduling latency of a loaded machine, in proportion to the scaled constants
	}
	n := 10
	if vThorough() {
		n = 40
	}
	var wg sync.WaitGroup
	for _, role := range []string{"client", "server"} {
		for i := 0; i < n; i++ {
			// silent from a moment spread over three ping cycles, incl. before the first ping
			silent := time.Duration(int64(i)*3*P/int64(n) + int64(r.Intn(int(P/int64(n)+1))))
			if i == 0 {
				silent = 0
			}
			rtt := time.Duration(1+r.Intn(4)) * time.Millisecond
			wg.Add(1)
			go func(role string, silent, rtt time.Duration) {
				defer wg.Done()
				torn, at, conn := vKARun(role, silent, rtt, silent+time.Duration(W+P)+500*time.Millisecond)
				conn.mu.Lock()
				var ps []string
				for _, p := range conn.pongs {
					ps = append(ps, vCoqZ(int64(p)))
				}
				npings := len(conn.pings)
				conn.mu.Unlock()
				c := vCase{Class: "detect/" + role, Sig: fmt.Sprintf("%s/%d", role, silent),
					Info: map[string]interface{}{"role": role, "silent_from_ms": silent.Milliseconds(), "torn_down_at_ms": at.Milliseconds(), "pings": npings, "pongs": len(ps), "outcome": fmt.Sprintf("torn=%v", torn)}}
				if !torn {
					c.Fail = "dead-peer-not-detected"
				} else {
					c.Coq = fmt.Sprintf("CDetect %s %s %s %s %s", vCoqZ(W), vCoqList(ps), vCoqZ(int64(silent)), vCoqZ(int64(at)), vCoqZ(slack))
				}
				vEmit(c)
			}(role, silent, rtt)
		}
		// a peer which sends pongs nobody asked for (three of them early in the first period) and then falls silent: it is
		// detected as any other silent peer is - a pong counts from the moment it arrives, not on top of what was granted before
		wg.Add(1)
		go func(role string) {
			defer wg.Done()
			silent := time.Duration(P * 4 / 10)
			extra := []time.Duration{time.Duration(P / 10), time.Duration(P * 2 / 10), time.Duration(P * 3 / 10)}
			torn, at, conn := vKARunX(role, silent, 2*time.Millisecond, silent+time.Duration(W+P)+500*time.Millisecond, nil, extra)
			conn.mu.Lock()
			var ps []string
			for _, p := range conn.pongs {
				ps = append(ps, vCoqZ(int64(p)))
			}
			conn.mu.Unlock()
			c := vCase{Class: "detect/" + role, Sig: fmt.Sprintf("%s/unsolicited-pongs", role),
				Info: map[string]interface{}{"role": role, "silent_from_ms": silent.Milliseconds(), "torn_down_at_ms": at.Milliseconds(), "unsolicited_pongs": len(extra), "pongs": len(ps), "outcome": fmt.Sprintf("torn=%v", torn)}}
			if !torn {
				c.Fail = "dead-peer-not-detected/after-unsolicited-pongs"
			} else {
				c.Coq = fmt.Sprintf("CDetect %s %s %s %s %s", vCoqZ(W), vCoqList(ps), vCoqZ(int64(silent)), vCoqZ(int64(at)), vCoqZ(slack))
			}
			vEmit(c)
		}(role)
		// healthy idle session over six ping periods
		wg.Add(1)
		go func(role string) {
			defer wg.Done()
			watch := time.Duration(6*P) + time.Duration(P/2)
			torn, at, conn := vKARun(role, -1, 2*time.Millisecond, watch)
			conn.mu.Lock()
			npongs := len(conn.pongs)
			conn.mu.Unlock()
			c := vCase{Class: "idle/" + role, Sig: "idle/" + role, Coq: fmt.Sprintf("CIdle %s %s 6 %s %s", vCoqZ(W), vCoqZ(P), vCoqZ(int64(watch)), vCoqBool(torn)),
				Info: map[string]interface{}{"role": role, "pongs": npongs, "outcome": fmt.Sprintf("torn=%v at=%v", torn, at)}}
			if npongs < 5 {
				c.Fail = "idle-session-not-pinged"
			}
			vEmit(c)
		}(role)
		// healthy session with application traffic: one message a quarter into the first ping period, then messages at
		// moments spread over the following periods; what the session writes must not delay its pings past the peer's patience
		for vi, offs := range [][]float64{{0.25}, {0.25, 1.5, 2.75, 3.2, 3.9}, {0.6, 0.9, 1.1, 1.95}} {
			wg.Add(1)
			go func(role string, vi int, offs []float64) {
				defer wg.Done()
				watch := time.Duration(5*P) + time.Duration(P/2)
				var ws []time.Duration
				for _, o := range offs {
					ws = append(ws, time.Duration(o*float64(P)))
				}
				torn, at, conn := vKARun(role, -1, 2*time.Millisecond, watch, ws...)
				conn.mu.Lock()
				npongs := len(conn.pongs)
				conn.mu.Unlock()
				c := vCase{Class: "traffic/" + role, Sig: fmt.Sprintf("traffic/%s/%d", role, vi), Coq: fmt.Sprintf("CIdle %s %s 5 %s %s", vCoqZ(W), vCoqZ(P), vCoqZ(int64(watch)), vCoqBool(torn)),
					Info: map[string]interface{}{"role": role, "pongs": npongs, "writes_at_periods": offs, "outcome": fmt.Sprintf("torn=%v at=%v", torn, at)}}
				if torn {
					c.Fail = "healthy-session-with-traffic-dropped"
				}
				vEmit(c)
			}(role, vi, offs)
		}
		// healthy session on which the PEER sends messages (a quarter into the first period; at several moments), then idles:
		// what the endpoint receives must not make it skip the pings its own deadline depends on
		for vi, offs := range [][]float64{{0.25}, {0.1, 1.3, 2.2}, {0.9, 1.95}} {
			wg.Add(1)
			go func(role string, vi int, offs []float64) {
				defer wg.Done()
				watch := time.Duration(5*P) + time.Duration(P/2)
				var in []time.Duration
				for _, o := range offs {
					in = append(in, time.Duration(o*float64(P)))
				}
				torn, at, conn := vKARunIn(role, -1, 2*time.Millisecond, watch, in)
				conn.mu.Lock()
				npongs := len(conn.pongs)
				conn.mu.Unlock()
				c := vCase{Class: "inbound/" + role, Sig: fmt.Sprintf("inbound/%s/%d", role, vi), Coq: fmt.Sprintf("CIdle %s %s 5 %s %s", vCoqZ(W), vCoqZ(P), vCoqZ(int64(watch)), vCoqBool(torn)),
					Info: map[string]interface{}{"role": role, "pongs": npongs, "peer_sends_at_periods": offs, "outcome": fmt.Sprintf("torn=%v at=%v", torn, at)}}
				if torn {
					c.Fail = "healthy-session-with-traffic-dropped"
				}
				vEmit(c)
			}(role, vi, offs)
		}
	}
	wg.Wait()
}
