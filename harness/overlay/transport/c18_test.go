package transport

// C18/C17 transport-level harness: constants of the compiled package and the
// effective settings both transport constructors apply to a recording conn.

import (
	"context"
	"fmt"
	"testing"
	"time"

	"github.com/smartcontractkit/wsrpc/logger"
)

type vRecConn struct {
	readLimit int64
}

func (c *vRecConn) SetReadLimit(l int64)                                 { c.readLimit = l }
func (c *vRecConn) SetReadDeadline(time.Time) error                      { return nil }
func (c *vRecConn) SetPongHandler(func(string) error)                    {}
func (c *vRecConn) SetWriteDeadline(time.Time) error                     { return nil }
func (c *vRecConn) ReadMessage() (int, []byte, error)                    { select {} }
func (c *vRecConn) WriteMessage(int, []byte) error                       { return nil }
func (c *vRecConn) WriteControl(int, []byte, time.Time) error            { return nil }
func (c *vRecConn) Close() error                                         { return nil }

func vConstsCoq() string {
	return fmt.Sprintf("tr_read_limit := %d; tr_write_timeout := %d", defaultReadLimit, int64(defaultWriteTimeout))
}

func TestVerifC18Transport(t *testing.T) {
	r := vNewRand(vSeed() + 18)
	vEmit(vCase{Class: "consts", Info: map[string]interface{}{"tr_read_limit": defaultReadLimit, "tr_write_timeout": int64(defaultWriteTimeout),
		"pong_wait": int64(pongWait), "ping_period": int64(pingPeriod)}})
	vals := []int64{0, 0, 1, 2, 1024, 65536, 10_000_000, 100_000_000, 100_000_001, 1 << 40, -1, -5}
	durs := []int64{0, 0, 1, int64(time.Millisecond), int64(200 * time.Millisecond), int64(time.Second), int64(10 * time.Second), int64(time.Hour), -1}
	n := 120
	if vThorough() {
		n = 1500
	}
	for i := 0; i < n; i++ {
		rl := vals[r.Intn(len(vals))]
		wt := durs[r.Intn(len(durs))]
		if r.Intn(4) == 0 {
			rl = int64(r.U64() % 200_000_000)
			wt = int64(r.U64() % uint64(30*time.Second))
		}
		var effRL, effWT int64
		role := "client"
		if r.Bool() {
			conn := &vRecConn{}
			c := newWebsocketClientConfig(context.Background(), logger.DefaultLogger, "addr", ConnectOptions{ReadLimit: rl, WriteTimeout: time.Duration(wt)}, func() {}, conn)
			effRL, effWT = conn.readLimit, int64(c.writeTimeout)
		} else {
			role = "server"
			conn := &vRecConn{}
			s := newWebsocketServerWithConfig(conn, &ServerConfig{ReadLimit: rl, WriteTimeout: time.Duration(wt)}, func() {})
			effRL, effWT = conn.readLimit, int64(s.writeTimeout)
		}
		vEmit(vCase{Class: "transport/" + role,
			Coq:  fmt.Sprintf("CTransport K {| rl := %s; wt := %s |} %s %s", vCoqZ(rl), vCoqZ(wt), vCoqZ(effRL), vCoqZ(effWT)),
			Sig:  fmt.Sprintf("%s/%d/%d", role, rl, wt),
			Info: map[string]interface{}{"role": role, "read_limit": rl, "write_timeout": wt, "eff_read_limit": effRL, "eff_write_timeout": effWT, "outcome": fmt.Sprintf("rl0=%v wt0=%v", rl == 0, wt == 0)}})
	}
}
