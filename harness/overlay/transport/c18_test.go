package transport

// C18/C17 transport-level harness: constants of the compiled package and the
// effective settings both transport constructors apply to a recording conn.

import (
	"context"
	"errors"
	"fmt"
	"sync"
	"testing"
	"time"

	"github.com/gorilla/websocket"
	"github.com/smartcontractkit/wsrpc/logger"
)

type vRecConn struct {
	readLimit int64
}

func (c *vRecConn) SetReadLimit(l int64)                                 { c.readLimit = l }
func (c *vRecConn) SetReadDeadline(time.Time) error                      { return nil }
func (c *vRecConn) SetPongHandler(func(string) error)                    {}
func (c *vRecConn) SetWriteDeadline(time.Time) error                     { return nil }
func (c *vRecConn) ReadMessage() (int, []byte, error)                    { select {} }
func (c *vRecConn) WriteMessage(int, []byte) error                       { return nil }
func (c *vRecConn) WriteControl(int, []byte, time.Time) error            { return nil }
func (c *vRecConn) Close() error                                         { return nil }

func vConstsCoq() string {
	return fmt.Sprintf("tr_read_limit := %d; tr_write_timeout := %d", defaultReadLimit, int64(defaultWriteTimeout))
}

func TestVerifC18Transport(t *testing.T) {
	r := vNewRand(vSeed() + 18)
	vEmit(vCase{Class: "consts", Info: map[string]interface{}{"tr_read_limit": defaultReadLimit, "tr_write_timeout": int64(defaultWriteTimeout),
		"pong_wait": int64(pongWait), "ping_period": int64(pingPeriod)}})
	vals := []int64{0, 0, 1, 2, 1024, 65536, 10_000_000, 100_000_000, 100_000_001, 1 << 40, -1, -5}
	durs := []int64{0, 0, 1, int64(time.Millisecond), int64(200 * time.Millisecond), int64(time.Second), int64(10 * time.Second), int64(time.Hour), -1}
	n := 120
	if vThorough() {
		n = 1500
	}
	for i := 0; i < n; i++ {
		rl := vals[r.Intn(len(vals))]
		wt := durs[r.Intn(len(durs))]
		if r.Intn(4) == 0 {
			rl = int64(r.U64() % 200_000_000)
			wt = int64(r.U64() % uint64(30*time.Second))
		}
		var effRL, effWT int64
		role := "client"
		if r.Bool() {
			conn := &vRecConn{}
			c := newWebsocketClientConfig(context.Background(), logger.DefaultLogger, "addr", ConnectOptions{ReadLimit: rl, WriteTimeout: time.Duration(wt)}, func() {}, conn)
			effRL, effWT = conn.readLimit, int64(c.writeTimeout)
		} else {
			role = "server"
			conn := &vRecConn{}
			s := newWebsocketServerWithConfig(conn, &ServerConfig{ReadLimit: rl, WriteTimeout: time.Duration(wt)}, func() {})
			effRL, effWT = conn.readLimit, int64(s.writeTimeout)
		}
		vEmit(vCase{Class: "transport/" + role,
			Coq:  fmt.Sprintf("CTransport K {| rl := %s; wt := %s |} %s %s", vCoqZ(rl), vCoqZ(wt), vCoqZ(effRL), vCoqZ(effWT)),
			Sig:  fmt.Sprintf("%s/%d/%d", role, rl, wt),
			Info: map[string]interface{}{"role": role, "read_limit": rl, "write_timeout": wt, "eff_read_limit": effRL, "eff_write_timeout": effWT, "outcome": fmt.Sprintf("rl0=%v wt0=%v", rl == 0, wt == 0)}})
	}
}

// ---- the write deadline belongs to the write: a conn which records the deadline in force at the
// moment of every data write
type vDlConn struct {
	mu       sync.Mutex
	once     sync.Once
	closed   chan struct{}
	deadline time.Time
	set      bool
	writes   []vDlWrite
	wrote    chan struct{}
}
type vDlWrite struct {
	at, deadline time.Time
	set          bool
}

func (c *vDlConn) SetReadLimit(int64)                {}
func (c *vDlConn) SetReadDeadline(time.Time) error   { return nil }
func (c *vDlConn) SetPongHandler(func(string) error) {}
func (c *vDlConn) SetWriteDeadline(t time.Time) error {
	c.mu.Lock()
	c.deadline, c.set = t, true
	c.mu.Unlock()
	return nil
}
func (c *vDlConn) ReadMessage() (int, []byte, error) {
	<-c.closed
	return 0, nil, errors.New("fake: use of closed connection")
}
func (c *vDlConn) WriteMessage(mt int, _ []byte) error {
	if mt != websocket.BinaryMessage {
		return nil
	}
	c.mu.Lock()
	c.writes = append(c.writes, vDlWrite{at: time.Now(), deadline: c.deadline, set: c.set})
	c.mu.Unlock()
	c.wrote <- struct{}{}
	return nil
}
func (c *vDlConn) WriteControl(int, []byte, time.Time) error { return nil }
func (c *vDlConn) Close() error                              { c.once.Do(func() { close(c.closed) }); return nil }

type vDlQuiet struct{ logger.Logger }

func (vDlQuiet) Errorw(string, ...interface{}) {}
func (vDlQuiet) Errorf(string, ...interface{}) {}

func vC18Deadline(role string, wt, idle time.Duration) {
	conn := &vDlConn{closed: make(chan struct{}), wrote: make(chan struct{}, 16)}
	var write func(context.Context, []byte) error
	var closeTr func()
	if role == "client" {
		c := newWebsocketClientConfig(context.Background(), vDlQuiet{logger.DefaultLogger}, "addr", ConnectOptions{WriteTimeout: wt}, func() {}, conn)
		c.Start()
		write, closeTr = c.Write, func() { c.Close() }
	} else {
		s := newWebsocketServer(conn, &ServerConfig{WriteTimeout: wt}, func() {})
		write, closeTr = s.Write, func() { s.Close() }
	}
	info := map[string]interface{}{"role": role, "write_timeout_ms": wt.Milliseconds(), "idle_ms": idle.Milliseconds(), "outcome": "ok"}
	c := vCase{Class: "write-deadline/" + role, Sig: fmt.Sprintf("write-deadline/%s/%d/%d", role, wt.Milliseconds(), idle.Milliseconds()), Info: info}
	slack := 50 * time.Millisecond
	big := make([]byte, 5<<20) // the deadline of a write is the write timeout, whatever the size of the message
	for k, pause := range []time.Duration{0, idle, idle / 3, 0} {
		time.Sleep(pause)
		wctx, wcancel := context.WithTimeout(context.Background(), 3*time.Second)
		msg := []byte("data")
		if k == 3 {
			msg = big
		}
		err := write(wctx, msg)
		wcancel()
		if err == nil {
			select {
			case <-conn.wrote:
			case <-time.After(3 * time.Second):
				err = errors.New("the pump did not write the message")
			}
		}
		if err != nil {
			c.Fail = "write-refused-on-healthy-conn/" + role
			info["outcome"] = err.Error()
			break
		}
		conn.mu.Lock()
		w := conn.writes[len(conn.writes)-1]
		conn.mu.Unlock()
		left := w.deadline.Sub(w.at)
		info[fmt.Sprintf("write%d", k)] = fmt.Sprintf("after %v idle: deadline set=%v, %v ahead at the moment of the write", pause, w.set, left)
		if !w.set || left <= 0 || left > wt+slack {
			c.Fail = "stale-write-deadline-after-idle/" + role
			info["outcome"] = fmt.Sprintf("write %d (after %v without writes): the deadline in force at the moment of the write is %v ahead; expected within (0, %v]", k, pause, left, wt)
			break
		}
	}
	vEmit(c)
	done := make(chan struct{})
	go func() { closeTr(); close(done) }()
	select {
	case <-done:
	case <-time.After(3 * time.Second):
	}
	conn.Close()
}

func TestVerifC18TransportDeadline(t *testing.T) {
	var wg sync.WaitGroup
	for _, role := range []string{"client", "server"} {
		wg.Add(1)
		go func(role string) { defer wg.Done(); vC18Deadline(role, 400*time.Millisecond, 1200*time.Millisecond) }(role)
	}
	wg.Wait()
}
