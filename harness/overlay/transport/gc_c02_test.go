package transport

// C02 at transport level: a Write must end with its context also while the write pump is
// stalled in the socket (the peer does not drain): the pump sits in WriteMessage of a fake
// conn until released, further Writes wait for the pump and must return when their deadline
// passes or their context is cancelled - on both transports.

import (
	"context"
	"errors"
	"fmt"
	"sync"
	"testing"
	"time"

	"github.com/gorilla/websocket"
	"github.com/smartcontractkit/wsrpc/logger"
)

type vGcStallConn struct {
	once    sync.Once
	closed  chan struct{}
	release chan struct{}
	inWrite chan struct{}
}

func vGcNewStallConn() *vGcStallConn {
	return &vGcStallConn{closed: make(chan struct{}), release: make(chan struct{}), inWrite: make(chan struct{}, 16)}
}
func (c *vGcStallConn) SetReadLimit(int64)                {}
func (c *vGcStallConn) SetReadDeadline(time.Time) error   { return nil }
func (c *vGcStallConn) SetPongHandler(func(string) error) {}
func (c *vGcStallConn) SetWriteDeadline(time.Time) error  { return nil }
func (c *vGcStallConn) ReadMessage() (int, []byte, error) {
	<-c.closed
	return 0, nil, errors.New("fake: use of closed connection")
}
func (c *vGcStallConn) WriteMessage(mt int, _ []byte) error {
	if mt != websocket.BinaryMessage {
		return nil
	}
	select {
	case c.inWrite <- struct{}{}:
	default:
	}
	select {
	case <-c.release:
		return nil
	case <-c.closed:
		return errors.New("fake: use of closed connection")
	}
}
func (c *vGcStallConn) WriteControl(int, []byte, time.Time) error { return nil }
func (c *vGcStallConn) Close() error                              { c.once.Do(func() { close(c.closed) }); return nil }

type vGcQuiet struct{ logger.Logger }

func (vGcQuiet) Errorw(string, ...interface{}) {}
func (vGcQuiet) Errorf(string, ...interface{}) {}
func (vGcQuiet) Debugf(string, ...interface{}) {}
func (vGcQuiet) Infof(string, ...interface{})  {}

type vGcWriter interface {
	Write(ctx context.Context, msg []byte) error
}

func vGcWriteStalled(role string) {
	conn := vGcNewStallConn()
	var tr vGcWriter
	var closeTr func()
	if role == "client" {
		c := newWebsocketClientConfig(context.Background(), vGcQuiet{logger.DefaultLogger}, "addr", ConnectOptions{WriteTimeout: time.Minute}, func() {}, conn)
		c.Start()
		tr, closeTr = c, func() { c.Close() }
	} else {
		s := newWebsocketServer(conn, &ServerConfig{WriteTimeout: time.Minute}, func() {})
		tr, closeTr = s, func() { s.Close() }
	}
	info := map[string]interface{}{"role": role, "outcome": "ok"}
	c := vCase{Class: "write-ctx/" + role, Sig: "write-ctx/" + role, Info: info}
	defer func() {
		vEmit(c)
		close(conn.release)
		done := make(chan struct{})
		go func() { closeTr(); close(done) }()
		select {
		case <-done:
		case <-time.After(3 * time.Second):
		}
		conn.Close()
	}()
	// the pump takes the first message and stays in the socket write
	first := make(chan error, 1)
	go func() { first <- tr.Write(context.Background(), []byte("first")) }()
	select {
	case <-conn.inWrite:
	case <-time.After(3 * time.Second):
		c.Fail = "write-pump-did-not-write/" + role
		return
	}
	type res struct {
		err  error
		took time.Duration
	}
	try := func(ctx context.Context, limit time.Duration) (res, bool) {
		ch := make(chan res, 1)
		go func() {
			start := time.Now()
			err := tr.Write(ctx, []byte("next"))
			ch <- res{err, time.Since(start)}
		}()
		select {
		case x := <-ch:
			return x, true
		case <-time.After(limit):
			return res{}, false
		}
	}
	// (1) a deadline of 150 ms
	ctx1, cancel1 := context.WithTimeout(context.Background(), 150*time.Millisecond)
	x, ok := try(ctx1, 150*time.Millisecond+2*time.Second)
	cancel1()
	info["deadline_150ms"] = fmt.Sprintf("returned=%v err=%v took=%v", ok, x.err, x.took)
	if !ok {
		c.Fail = "write-ignores-context-while-pump-stalled/" + role + "/deadline"
		info["outcome"] = "Write under a 150 ms deadline has not returned 2 s after the deadline while the pump is stalled"
		return
	}
	if x.err == nil {
		c.Fail = "write-reports-success-while-pump-stalled/" + role
		return
	}
	// (2) cancellation while waiting
	ctx2, cancel2 := context.WithCancel(context.Background())
	go func() { time.Sleep(50 * time.Millisecond); cancel2() }()
	y, ok := try(ctx2, 50*time.Millisecond+2*time.Second)
	cancel2()
	info["cancelled_after_50ms"] = fmt.Sprintf("returned=%v err=%v took=%v", ok, y.err, y.took)
	if !ok {
		c.Fail = "write-ignores-context-while-pump-stalled/" + role + "/cancel"
		info["outcome"] = "Write has not returned 2 s after its context was cancelled while the pump is stalled"
		return
	}
	if y.err == nil {
		c.Fail = "write-reports-success-while-pump-stalled/" + role
		return
	}
	// (3) two Writes wait at the same time: one with a long deadline, then one with a short one - each ends with its own
	ctxA, cancelA := context.WithTimeout(context.Background(), 6*time.Second)
	defer cancelA()
	go func() { _ = tr.Write(ctxA, []byte("patient")) }()
	time.Sleep(30 * time.Millisecond)
	ctxB, cancelB := context.WithTimeout(context.Background(), 150*time.Millisecond)
	z, ok := try(ctxB, 150*time.Millisecond+2*time.Second)
	cancelB()
	info["short_deadline_behind_a_patient_write"] = fmt.Sprintf("returned=%v err=%v took=%v", ok, z.err, z.took)
	if !ok {
		c.Fail = "write-ignores-context-while-another-write-waits/" + role
		info["outcome"] = "Write under a 150 ms deadline has not returned 2 s after the deadline while another Write (6 s deadline) waits for the stalled pump"
		return
	}
}

func TestVerifC02Transport(t *testing.T) {
	var wg sync.WaitGroup
	for _, role := range []string{"client", "server"} {
		wg.Add(1)
		go func(role string) { defer wg.Done(); vGcWriteStalled(role) }(role)
	}
	wg.Wait()
}
