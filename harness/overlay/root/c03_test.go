package wsrpc

// C03: certificate chains against PublicKeys.VerifyPeerCertificate (both roles, both
// configuration entry points), key-list validation, the TLS parameters both roles
// build, and end-to-end refusals over real sockets.

import (
	"context"
	"crypto"
	"crypto/ecdsa"
	"crypto/ed25519"
	"crypto/elliptic"
	"crypto/rand"
	"crypto/rsa"
	"crypto/tls"
	"crypto/x509"
	"fmt"
	"math/big"
	"net"
	"net/http"
	"strings"
	"sync"
	"testing"
	"time"

	"github.com/gorilla/websocket"
	"github.com/smartcontractkit/wsrpc/credentials"
)

func vSelfSigned(signer crypto.Signer) []byte {
	tmpl := x509.Certificate{SerialNumber: big.NewInt(0)}
	der, err := x509.CreateCertificate(rand.Reader, &tmpl, &tmpl, signer.Public(), signer)
	if err != nil {
		panic(err)
	}
	return der
}

// cert for `pub` signed by another key (an attacker cannot do more than this without the private key)
func vForeignSigned(pub crypto.PublicKey, signer crypto.Signer) []byte {
	tmpl := x509.Certificate{SerialNumber: big.NewInt(0)}
	der, err := x509.CreateCertificate(rand.Reader, &tmpl, &tmpl, pub, signer)
	if err != nil {
		panic(err)
	}
	return der
}

func vCertCoq(der []byte) string {
	c, err := x509.ParseCertificate(der)
	if err != nil {
		return "Unparseable"
	}
	if c.PublicKeyAlgorithm == x509.Ed25519 {
		if k, ok := c.PublicKey.(ed25519.PublicKey); ok {
			return "(Parsed Ed25519 " + vCoqBytes(k) + ")"
		}
	}
	return "(Parsed OtherAlg [])"
}

func TestVerifC03(t *testing.T) {
	r := vNewRand(vSeed() + 3)
	ecKey, _ := ecdsa.GenerateKey(elliptic.P256(), rand.Reader)
	rsaKey, _ := rsa.GenerateKey(rand.Reader, 1024)
	n := 400
	if vThorough() {
		n = 5000
	}
	// a pool of Ed25519 identities
	var pool []vKeyPair
	for i := 0; i < 6; i++ {
		pool = append(pool, vGenKey(r))
	}
	for i := 0; i < n; i++ {
		// allow-list: empty / one / many / duplicates / near-misses of the presented key
		var allow []ed25519.PublicKey
		for j, m := 0, []int{0, 1, 1, 2, 3, 5}[r.Intn(6)]; j < m; j++ {
			allow = append(allow, pool[r.Intn(len(pool))].Pub)
		}
		presenter := pool[r.Intn(len(pool))]
		if r.Intn(5) == 0 {
			near := append(ed25519.PublicKey(nil), presenter.Pub...)
			near[r.Intn(32)] ^= 1 << uint(r.Intn(8))
			allow = append(allow, near)
		}
		pubs, err := credentials.ValidPublicKeysFromEd25519(allow...)
		if err != nil {
			t.Fatal(err)
		}
		var chain [][]byte
		kind := ""
		switch r.Intn(12) {
		case 0, 1, 2, 3:
			chain, kind = [][]byte{vSelfSigned(presenter.Priv)}, "ed25519"
		case 4:
			chain, kind = [][]byte{vForeignSigned(presenter.Pub, pool[0].Priv)}, "ed25519-other-signer"
		case 5:
			chain, kind = [][]byte{vSelfSigned(ecKey)}, "ecdsa"
		case 6:
			chain, kind = [][]byte{vSelfSigned(rsaKey)}, "rsa"
		case 7:
			chain, kind = nil, "none"
		case 8:
			chain, kind = [][]byte{vSelfSigned(presenter.Priv), vSelfSigned(pool[1].Priv)}, "two"
		case 9:
			d := vSelfSigned(presenter.Priv)
			chain, kind = [][]byte{d[:r.Intn(len(d))]}, "truncated"
		case 10:
			d := vSelfSigned(presenter.Priv)
			d[r.Intn(len(d))] ^= byte(1 << uint(r.Intn(8)))
			chain, kind = [][]byte{d}, "bitflip"
		default:
			chain, kind = [][]byte{r.Bytes(r.Intn(80))}, "garbage"
		}
		err = pubs.VerifyPeerCertificate()(chain, nil)
		var allowCoq, chainCoq []string
		for _, k := range allow {
			allowCoq = append(allowCoq, vCoqBytes(k))
		}
		for _, d := range chain {
			chainCoq = append(chainCoq, vCertCoq(d))
		}
		vEmit(vCase{Class: "verify/" + kind, Coq: fmt.Sprintf("CVerify %s %s %s", vCoqList(allowCoq), vCoqList(chainCoq), vCoqBool(err == nil)),
			Sig:  fmt.Sprintf("%s/%d/%x", kind, len(allow), presenter.Pub[:4]) + fmt.Sprint(err == nil) + fmt.Sprint(i%7),
			Info: map[string]interface{}{"kind": kind, "allow": len(allow), "outcome": err == nil}})
	}
	// key-list validation through every entry point
	for i := 0; i < n/4; i++ {
		var ks []ed25519.PublicKey
		var coq []string
		for j, m := 0, r.Intn(4); j < m; j++ {
			l := []int{32, 32, 32, 31, 33, 0, 64}[r.Intn(7)]
			k := ed25519.PublicKey(r.Bytes(l))
			ks = append(ks, k)
			coq = append(coq, vCoqBytes(k))
		}
		_, err := credentials.ValidPublicKeysFromEd25519(ks...)
		s := NewServer(WithCreds(pool[0].Priv, []ed25519.PublicKey{pool[1].Pub}))
		uerr := s.UpdatePublicKeys(ks...)
		fail := ""
		if (err == nil) != (uerr == nil) {
			fail = "update-keys-validation-differs"
		}
		vEmit(vCase{Class: "keys", Fail: fail, Coq: fmt.Sprintf("CKeys %s %s", vCoqList(coq), vCoqBool(err == nil)), Sig: strings.Join(coq, ","), Info: map[string]interface{}{"n": len(ks), "outcome": err == nil}})
	}
	// the TLS parameters, from all four constructors
	pk, _ := credentials.ValidPrivateKeyFromEd25519(pool[0].Priv)
	pubs, _ := credentials.ValidPublicKeysFromEd25519(pool[1].Pub)
	type mk struct {
		name   string
		server bool
		f      func() (*tls.Config, error)
	}
	for _, m := range []mk{
		{"NewServerTLSConfig", true, func() (*tls.Config, error) { return credentials.NewServerTLSConfig(pk, pubs) }},
		{"NewServerTLSSigner", true, func() (*tls.Config, error) { return credentials.NewServerTLSSigner(pool[0].Priv, pubs) }},
		{"NewClientTLSConfig", false, func() (*tls.Config, error) { return credentials.NewClientTLSConfig(pk, pubs) }},
		{"NewClientTLSSigner", false, func() (*tls.Config, error) { return credentials.NewClientTLSSigner(pool[0].Priv, pubs) }},
	} {
		cfg, err := m.f()
		if err != nil {
			t.Fatal(err)
		}
		vEmit(vCase{Class: "tls/" + m.name, Sig: m.name,
			Coq: fmt.Sprintf("CTls %s {| min_version := %d; max_version := %d; client_auth := %d; has_verify := %s; skip_chain_verify := %s |}",
				vCoqBool(m.server), cfg.MinVersion, cfg.MaxVersion, int(cfg.ClientAuth), vCoqBool(cfg.VerifyPeerCertificate != nil), vCoqBool(cfg.InsecureSkipVerify)),
			Info: map[string]interface{}{"outcome": fmt.Sprintf("min=%x max=%x auth=%d", cfg.MinVersion, cfg.MaxVersion, cfg.ClientAuth)}})
	}
	vC03EndToEnd(t, r, pool, ecKey)
	// a generator of its own: streams of neighbouring seeds of vRand are one stream shifted by one draw and fall
	// into step after loops with a variable number of draws
	r2 := vNewRand((vSeed()+1)*1000003 + 0x303)
	vC03ReplaceAPI(r2, pool)
	vC03ReplaceRace(r2, pool)
	vC03CurrentList(r2, pool)
}

// "currently accepts": after PublicKeys.Replace the store answers for the new list and for nothing else,
// whatever the new list is - in particular the empty list (nil or empty slice: accept nobody).
func vC03ReplaceAPI(r *vRand, pool []vKeyPair) {
	n := 60
	if vThorough() {
		n = 600
	}
	for i := 0; i < n; i++ {
		pick := func(m int) []ed25519.PublicKey {
			var ks []ed25519.PublicKey
			for j := 0; j < m; j++ {
				ks = append(ks, pool[r.Intn(len(pool))].Pub)
			}
			return ks
		}
		first := pick(1 + r.Intn(3))
		store, err := credentials.ValidPublicKeysFromEd25519(first...)
		if err != nil {
			panic(err)
		}
		verify := store.VerifyPeerCertificate() // obtained once, as the tls.Config does
		// the slice the store was built from stays the caller's: another store built from it (a second server
		// configured with the same list) and the slice itself are not touched by what happens to this store
		firstCopy := append([]ed25519.PublicKey(nil), first...)
		bystander, err := credentials.ValidPublicKeysFromEd25519(first...)
		if err != nil {
			panic(err)
		}
		var hist []string
		fail, detail := "", ""
		steps := 1 + r.Intn(3)
		for st := 0; st < steps && fail == ""; st++ {
			var next []ed25519.PublicKey
			kind := ""
			switch r.Intn(5) {
			case 0:
				next, kind = nil, "nil"
			case 1:
				next, kind = []ed25519.PublicKey{}, "empty"
			default:
				next = pick(1 + r.Intn(3))
				kind = fmt.Sprintf("%d keys", len(next))
			}
			hist = append(hist, kind)
			np, err := credentials.ValidPublicKeysFromEd25519(next...)
			if err != nil {
				panic(err)
			}
			store.Replace(np)
			for pi, kp := range pool {
				want := false
				for _, k := range next {
					if string(k) == string(kp.Pub) {
						want = true
					}
				}
				got := store.Contains(kp.Pub)
				gotV := verify([][]byte{vSelfSigned(kp.Priv)}, nil) == nil
				if got != want || gotV != want {
					fail = "allow-list-replace-not-effective/" + strings.TrimLeft(kind, "0123456789 ")
					detail = fmt.Sprintf("after Replace(%s): pool key %d listed=%v Contains=%v verifier-accepts=%v", kind, pi, want, got, gotV)
					break
				}
			}
			for j := range firstCopy {
				if fail == "" && (j >= len(first) || string(first[j]) != string(firstCopy[j])) {
					fail = "allow-list-update-wrote-into-the-callers-slice"
					detail = fmt.Sprintf("after Replace(%s): entry %d of the slice the store was built from has changed", kind, j)
				}
			}
			for pi, kp := range pool {
				want := false
				for _, k := range firstCopy {
					if string(k) == string(kp.Pub) {
						want = true
					}
				}
				if got := bystander.Contains(kp.Pub); got != want && fail == "" {
					fail = "allow-list-update-changed-another-store"
					detail = fmt.Sprintf("after Replace(%s) on one store: pool key %d listed=%v in a store built from the same slice, Contains=%v", kind, pi, want, got)
				}
			}
			if len(store.Keys()) != len(next) && fail == "" {
				fail = "allow-list-replace-not-effective/" + strings.TrimLeft(kind, "0123456789 ")
				detail = fmt.Sprintf("after Replace(%s): Keys() has %d entries, want %d", kind, len(store.Keys()), len(next))
			}
		}
		vEmit(vCase{Class: "replace", Fail: fail, Sig: fmt.Sprintf("replace/%d/%v/%d", len(first), hist, i%5),
			Info: map[string]interface{}{"first": len(first), "history": hist, "outcome": fail == "", "detail": detail}})
	}
}

// vC03ReplaceRace: a lookup (the first one after the list was set) overlaps an update of a large list, at moments spread over
// the lookup: once both have ended, what the store answers is what the update says - for good
func vC03ReplaceRace(r *vRand, pool []vKeyPair) {
	const n = 40000
	keys := make([]ed25519.PublicKey, 0, n+1)
	for i := 0; i < n; i++ {
		keys = append(keys, ed25519.PublicKey(r.Bytes(32)))
	}
	keys = append(keys, pool[0].Pub)
	fail, detail := "", ""
	rounds := 16
	for round := 0; round < rounds && fail == ""; round++ {
		store, err := credentials.ValidPublicKeysFromEd25519(append([]ed25519.PublicKey(nil), keys...)...)
		if err != nil {
			panic(err)
		}
		empty, _ := credentials.ValidPublicKeysFromEd25519()
		var wg sync.WaitGroup
		wg.Add(1)
		go func() {
			defer wg.Done()
			_ = store.Contains(pool[0].Pub)
		}()
		time.Sleep(time.Duration(round) * 150 * time.Microsecond)
		store.Replace(empty)
		wg.Wait()
		for k := 0; k < 3 && fail == ""; k++ {
			if store.Contains(pool[0].Pub) || store.VerifyPeerCertificate()([][]byte{vSelfSigned(pool[0].Priv)}, nil) == nil {
				fail = "allow-list-replace-not-effective/after-a-concurrent-lookup"
				detail = fmt.Sprintf("round %d: the list was replaced by the empty one while a lookup was running; afterwards a removed key is still accepted", round)
			}
		}
	}
	vEmit(vCase{Class: "replace-race", Fail: fail, Sig: "replace-race", Info: map[string]interface{}{"keys": n + 1, "rounds": rounds, "outcome": fail == "", "detail": detail}})
}

// vSession dials with the given TLS configuration and reports whether the peer got a session (the server
// answers a request), whether the TLS handshake was a resumption, and the dial error.
func vC03Session(addr string, cfg *tls.Config, wait time.Duration) (served, resumed bool, derr error) {
	d := websocket.Dialer{TLSClientConfig: cfg, HandshakeTimeout: 5 * time.Second}
	conn, _, err := d.Dial("wss://"+addr, http.Header{})
	if err != nil {
		return false, false, err
	}
	defer conn.Close()
	if tc, ok := conn.UnderlyingConn().(*tls.Conn); ok {
		resumed = tc.ConnectionState().DidResume
	}
	if err := conn.WriteMessage(websocket.BinaryMessage, vSizedRequest(120, "00000000-0000-4000-8000-0000000c0303")); err != nil {
		return false, resumed, nil
	}
	conn.SetReadDeadline(time.Now().Add(wait))
	_, _, rerr := conn.ReadMessage()
	return rerr == nil, resumed, nil
}

// The allow-list consulted is the CURRENT one, over real sockets: keys taken off the list by an update (to
// the empty list, or to other keys) get no session any more - neither by a full handshake nor by resuming a
// TLS session obtained while they were listed (crypto/tls does not run VerifyPeerCertificate on resumption).
func vC03CurrentList(r *vRand, pool []vKeyPair) {
	skey, good, other := pool[0], pool[1], pool[3]
	for _, entry := range []string{"WithCreds", "WithSigner"} {
		start := func() (*Server, *vImpl, string) {
			lis, _ := net.Listen("tcp", "127.0.0.1:0")
			var s *Server
			if entry == "WithCreds" {
				s = NewServer(WithCreds(skey.Priv, []ed25519.PublicKey{good.Pub, other.Pub}))
			} else {
				s = NewServer(WithSigner(skey.Priv, []ed25519.PublicKey{good.Pub, other.Pub}))
			}
			impl := &vImpl{}
			s.RegisterService(vDesc(), impl)
			go s.Serve(lis)
			return s, impl, lis.Addr().String()
		}
		// ---- update to the empty allow-list: nobody is accepted afterwards
		for _, how := range []string{"no-arguments", "empty-slice"} {
			s, impl, addr := start()
			c := vCase{Class: "e2e/" + entry + "/empty-allow-list/" + how, Sig: entry + "empty" + how}
			info := map[string]interface{}{}
			c.Info = info
			// while listed: served (patiently: this one must succeed)
			before, _, derr := vC03Session(addr, vClientTLS(good, skey.Pub), 3*time.Second)
			vWaitUntil(3*time.Second, func() bool { return s.OpenConnections() == 0 })
			impl.take()
			var uerr error
			if how == "no-arguments" {
				uerr = s.UpdatePublicKeys()
			} else {
				uerr = s.UpdatePublicKeys([]ed25519.PublicKey{}...)
			}
			switch {
			case !before:
				c.Fail = "auth-e2e/listed-peer-refused"
				info["dial_err"] = fmt.Sprint(derr)
			case uerr != nil:
				c.Fail = "auth-e2e/empty-update-refused"
				info["update_err"] = uerr.Error()
			default:
				var got []string
				for _, k := range []vKeyPair{good, other} {
					served, _, err := vC03Session(addr, vClientTLS(k, skey.Pub), 700*time.Millisecond)
					got = append(got, fmt.Sprintf("served=%v dial_err=%v", served, err != nil))
					if served && c.Fail == "" {
						c.Fail = "auth-e2e/served-although-allow-list-is-empty"
					}
				}
				vWaitUntil(2*time.Second, func() bool { return s.OpenConnections() == 0 })
				handled := len(impl.take())
				info["outcome"] = fmt.Sprintf("after the empty update: %v handled=%d open=%d", got, handled, s.OpenConnections())
				if (handled > 0 || s.OpenConnections() != 0) && c.Fail == "" {
					c.Fail = "auth-e2e/served-although-allow-list-is-empty"
				}
				// and the list can be filled again
				if c.Fail == "" {
					if err := s.UpdatePublicKeys(good.Pub); err != nil {
						c.Fail = "auth-e2e/update-refused"
					} else if again, _, _ := vC03Session(addr, vClientTLS(good, skey.Pub), 3*time.Second); !again {
						c.Fail = "auth-e2e/listed-peer-refused"
					}
				}
			}
			vEmit(c)
			vStop(s, 5*time.Second)
		}
		// ---- the key is taken off the list after its TLS handshake has been verified and before it sends the websocket
		// upgrade (a peer which connects early and upgrades late): it gets no session
		{
			s, impl, addr := start()
			c := vCase{Class: "e2e/" + entry + "/revoked-between-tls-and-upgrade", Sig: entry + "late-upgrade"}
			info := map[string]interface{}{}
			c.Info = info
			tc, terr := tls.DialWithDialer(&net.Dialer{Timeout: 3 * time.Second}, "tcp", addr, vClientTLS(good, skey.Pub))
			if terr != nil {
				c.Fail = "auth-e2e/listed-peer-refused"
				info["dial_err"] = terr.Error()
			} else {
				time.Sleep(30 * time.Millisecond)
				impl.take()
				uerr := s.UpdatePublicKeys(other.Pub)
				d := websocket.Dialer{HandshakeTimeout: 2 * time.Second,
					NetDialTLSContext: func(ctx context.Context, network, a string) (net.Conn, error) { return tc, nil }}
				conn, _, derr := d.Dial("wss://"+addr, http.Header{})
				served := false
				if derr == nil {
					_ = conn.WriteMessage(websocket.BinaryMessage, vSizedRequest(120, "00000000-0000-4000-8000-0000000c0312"))
					conn.SetReadDeadline(time.Now().Add(700 * time.Millisecond))
					_, _, rerr := conn.ReadMessage()
					served = rerr == nil
					conn.Close()
				} else {
					tc.Close()
				}
				vWaitUntil(2*time.Second, func() bool { return s.OpenConnections() == 0 })
				handled := len(impl.take())
				info["outcome"] = fmt.Sprintf("update_err=%v upgrade_err=%v served=%v handled=%d open=%d", uerr, derr != nil, served, handled, s.OpenConnections())
				if uerr != nil {
					c.Fail = "auth-e2e/update-refused"
				} else if served || handled > 0 || s.OpenConnections() != 0 {
					c.Fail = "auth-e2e/served-although-taken-off-the-list"
				}
			}
			vEmit(c)
			vStop(s, 5*time.Second)
		}
		// ---- an update which names a key twice: the list is what the update says, the other key is off it
		{
			s, impl, addr := start()
			c := vCase{Class: "e2e/" + entry + "/update-with-duplicates", Sig: entry + "dup"}
			info := map[string]interface{}{}
			c.Info = info
			before, _, derr := vC03Session(addr, vClientTLS(other, skey.Pub), 3*time.Second)
			vWaitUntil(3*time.Second, func() bool { return s.OpenConnections() == 0 })
			impl.take()
			uerr := s.UpdatePublicKeys(good.Pub, good.Pub)
			switch {
			case !before:
				c.Fail = "auth-e2e/listed-peer-refused"
				info["dial_err"] = fmt.Sprint(derr)
			case uerr != nil:
				c.Fail = "auth-e2e/update-refused"
				info["update_err"] = uerr.Error()
			default:
				servedOther, _, _ := vC03Session(addr, vClientTLS(other, skey.Pub), 700*time.Millisecond)
				vWaitUntil(2*time.Second, func() bool { return s.OpenConnections() == 0 })
				handled := len(impl.take())
				servedGood, _, _ := vC03Session(addr, vClientTLS(good, skey.Pub), 3*time.Second)
				info["outcome"] = fmt.Sprintf("after UpdatePublicKeys(k, k): the other key served=%v handled=%d, k served=%v", servedOther, handled, servedGood)
				if servedOther || handled > 0 {
					c.Fail = "auth-e2e/served-although-taken-off-the-list"
				} else if !servedGood {
					c.Fail = "auth-e2e/listed-peer-refused"
				}
			}
			vEmit(c)
			vStop(s, 5*time.Second)
		}
		// ---- a revoked key comes back with the TLS session it obtained while it was listed
		for _, cert := range []string{"library-certificate", "certificate-with-validity-period"} {
			s, impl, addr := start()
			c := vCase{Class: "e2e/" + entry + "/resumption/" + cert, Sig: entry + "resume" + cert}
			info := map[string]interface{}{"certificate": cert}
			c.Info = info
			cfg := vClientTLS(good, skey.Pub)
			cfg.ClientSessionCache = tls.NewLRUClientSessionCache(8)
			if cert == "certificate-with-validity-period" {
				// everything here is under the peer's control: its own self-signed certificate for its listed key
				// with a validity period (the server declines to resume when the client certificate kept in the
				// ticket has expired, and the library's minimal certificate has a zero NotAfter), and its own clock
				// (Go's TLS client declines to resume when the server certificate has expired; other stacks do not care)
				tmpl := x509.Certificate{SerialNumber: big.NewInt(1), NotBefore: time.Now().Add(-time.Hour), NotAfter: time.Now().Add(24 * time.Hour)}
				der, err := x509.CreateCertificate(rand.Reader, &tmpl, &tmpl, good.Priv.Public(), good.Priv)
				if err != nil {
					panic(err)
				}
				cfg.Certificates = []tls.Certificate{{Certificate: [][]byte{der}, PrivateKey: good.Priv}}
				cfg.Time = func() time.Time { return time.Time{} }
			}
			first, _, derr := vC03Session(addr, cfg, 3*time.Second)
			vWaitUntil(3*time.Second, func() bool { return s.OpenConnections() == 0 })
			second, resumedListed, _ := vC03Session(addr, cfg, 3*time.Second)
			vWaitUntil(3*time.Second, func() bool { return s.OpenConnections() == 0 })
			info["resumed_while_listed"] = resumedListed
			if !resumedListed {
				info["note"] = "no TLS resumption with this credential on this tree/toolchain: the attempts after the revocation are full handshakes"
			}
			impl.take()
			uerr := s.UpdatePublicKeys(other.Pub)
			switch {
			case !first || !second:
				c.Fail = "auth-e2e/listed-peer-refused"
				info["dial_err"] = fmt.Sprint(derr)
			case uerr != nil:
				c.Fail = "auth-e2e/update-refused"
			default:
				var got []string
				for attempt := 0; attempt < 4; attempt++ {
					served, resumed, err := vC03Session(addr, cfg, 700*time.Millisecond)
					got = append(got, fmt.Sprintf("resumed=%v served=%v dial_err=%v", resumed, served, err != nil))
					if served && c.Fail == "" {
						c.Fail = "revoked-key-served-after-resumption/" + cert
						info["detail"] = fmt.Sprintf("attempt %d after the revocation: resumed=%v served=true", attempt, resumed)
					}
				}
				vWaitUntil(2*time.Second, func() bool { return s.OpenConnections() == 0 })
				handled := len(impl.take())
				info["outcome"] = fmt.Sprintf("after the revocation: %v handled=%d open=%d", got, handled, s.OpenConnections())
				if (handled > 0 || s.OpenConnections() != 0) && c.Fail == "" {
					c.Fail = "revoked-key-served-after-resumption/" + cert
				}
				// the key that stayed listed is served
				if by, _, _ := vC03Session(addr, vClientTLS(other, skey.Pub), 3*time.Second); !by && c.Fail == "" {
					c.Fail = "auth-e2e/listed-peer-refused"
				}
			}
			vEmit(c)
			vStop(s, 5*time.Second)
		}
	}
}

// every way of not being an allow-listed Ed25519 peer must yield no session and no dispatch
// one client identity, two servers with different keys (both list the client): every dial accepts exactly the server key it
// was given - whatever the same process dialled before with the same identity
func vC03TwoServers(r *vRand, pool []vKeyPair) {
	s1, s2, ck := pool[3], pool[4], pool[1]
	a := vStartLibServer(s1, []ed25519.PublicKey{ck.Pub}, true)
	b := vStartLibServer(s2, []ed25519.PublicKey{ck.Pub}, true)
	defer vStop(a.S, 5*time.Second)
	defer vStop(b.S, 5*time.Second)
	type dial struct {
		name  string
		ls    *vLibServer
		given vKeyPair
		want  bool
	}
	var steps []string
	fail := ""
	for _, signer := range []bool{false, true} {
		for _, d := range []dial{{"first-server-with-its-key", a, s1, true}, {"second-server-with-its-key", b, s2, true},
			{"second-server-with-the-key-of-the-first", b, s1, false}, {"first-server-with-the-key-of-the-second", a, s2, false}, {"first-server-with-its-key-again", a, s1, true}} {
			ctx, cancel := context.WithTimeout(context.Background(), 1200*time.Millisecond)
			cc, err := vDialLibAt(ctx, d.ls.Addr, ck, d.given.Pub, 0, signer, WithBlock())
			ready := err == nil
			served := false
			if ready {
				cctx, cc2 := context.WithTimeout(context.Background(), time.Second)
				served = cc.Invoke(cctx, "Echo", vAppMsg("two", nil, ""), vAppMsg("", nil, "")) == nil
				cc2()
				vClose(cc, 3*time.Second)
			}
			cancel()
			vWaitUntil(2*time.Second, func() bool { return d.ls.S.OpenConnections() == 0 })
			steps = append(steps, fmt.Sprintf("%s/signer=%v:ready=%v,served=%v", d.name, signer, ready, served))
			if fail == "" && (ready != d.want || served != d.want) {
				if d.want {
					fail = "auth-e2e/client-refuses-the-server-it-was-given/" + d.name
				} else {
					fail = "auth-e2e/client-accepts-a-server-it-was-not-given/" + d.name
				}
			}
		}
	}
	vEmit(vCase{Class: "e2e/one-identity-two-servers", Fail: fail, Sig: "two-servers", Info: map[string]interface{}{"steps": steps, "outcome": strings.Join(steps, " ")}})
}

func vC03EndToEnd(t *testing.T, r *vRand, pool []vKeyPair, ecKey *ecdsa.PrivateKey) {
	vC03TwoServers(r, pool)
	skey, good, bad := pool[0], pool[1], pool[2]
	for _, entry := range []string{"WithCreds", "WithSigner"} {
		lis, _ := net.Listen("tcp", "127.0.0.1:0")
		var s *Server
		if entry == "WithCreds" {
			s = NewServer(WithCreds(skey.Priv, []ed25519.PublicKey{good.Pub}))
		} else {
			s = NewServer(WithSigner(skey.Priv, []ed25519.PublicKey{good.Pub}))
		}
		impl := &vImpl{}
		s.RegisterService(vDesc(), impl)
		go s.Serve(lis)
		addr := lis.Addr().String()
		req := vSizedRequest(120, "00000000-0000-4000-8000-00000000c003")
		try := func(name string, dial func() (*websocket.Conn, error), wantSession bool) {
			conn, err := dial()
			got := false
			if err == nil {
				// a session exists only if the server registered us and answers a request
				_ = conn.WriteMessage(websocket.BinaryMessage, req)
				conn.SetReadDeadline(time.Now().Add(500 * time.Millisecond))
				_, _, rerr := conn.ReadMessage()
				got = rerr == nil
				conn.Close()
			}
			vWaitUntil(time.Second, func() bool { return s.OpenConnections() == 0 })
			handled := len(impl.take())
			c := vCase{Class: "e2e/" + entry + "/" + name, Sig: entry + name, Info: map[string]interface{}{"outcome": fmt.Sprintf("session=%v handled=%d", got, handled), "dial_err": fmt.Sprint(err)}}
			if got != wantSession || (!wantSession && handled > 0) || s.OpenConnections() != 0 {
				c.Fail = "auth-e2e/" + name
			}
			vEmit(c)
		}
		try("listed", func() (*websocket.Conn, error) { return vRawDial(addr, good, skey.Pub) }, true)
		try("unlisted", func() (*websocket.Conn, error) { return vRawDial(addr, bad, skey.Pub) }, false)
		try("ecdsa", func() (*websocket.Conn, error) {
			cfg := vClientTLS(good, skey.Pub)
			cfg.Certificates = []tls.Certificate{{Certificate: [][]byte{vSelfSigned(ecKey)}, PrivateKey: ecKey}}
			d := websocket.Dialer{TLSClientConfig: cfg, HandshakeTimeout: 3 * time.Second}
			c, _, err := d.Dial("wss://"+addr, http.Header{})
			return c, err
		}, false)
		try("no-cert", func() (*websocket.Conn, error) {
			cfg := vClientTLS(good, skey.Pub)
			cfg.Certificates = nil
			d := websocket.Dialer{TLSClientConfig: cfg, HandshakeTimeout: 3 * time.Second}
			c, _, err := d.Dial("wss://"+addr, http.Header{})
			return c, err
		}, false)
		try("listed-key-other-signer", func() (*websocket.Conn, error) {
			// certificate carries the listed key but we only hold another private key
			cfg := vClientTLS(bad, skey.Pub)
			cfg.Certificates = []tls.Certificate{{Certificate: [][]byte{vForeignSigned(good.Pub, bad.Priv)}, PrivateKey: bad.Priv, SupportedSignatureAlgorithms: []tls.SignatureScheme{tls.Ed25519}}}
			d := websocket.Dialer{TLSClientConfig: cfg, HandshakeTimeout: 3 * time.Second}
			c, _, err := d.Dial("wss://"+addr, http.Header{})
			return c, err
		}, false)
		try("tls12", func() (*websocket.Conn, error) {
			cfg := vClientTLS(good, skey.Pub)
			cfg.MinVersion, cfg.MaxVersion = tls.VersionTLS12, tls.VersionTLS12
			d := websocket.Dialer{TLSClientConfig: cfg, HandshakeTimeout: 3 * time.Second}
			c, _, err := d.Dial("wss://"+addr, http.Header{})
			return c, err
		}, false)
		try("plain-ws", func() (*websocket.Conn, error) {
			d := websocket.Dialer{HandshakeTimeout: 2 * time.Second}
			c, _, err := d.Dial("ws://"+addr, http.Header{})
			return c, err
		}, false)
		// library client with the wrong server key never becomes Ready
		for _, centry := range []string{"WithTransportCreds", "WithTransportSigner"} {
			ctx, cancel := context.WithTimeout(context.Background(), 30*time.Second)
			var opt DialOption
			if centry == "WithTransportCreds" {
				opt = WithTransportCreds(good.Priv, bad.Pub)
			} else {
				opt = WithTransportSigner(good.Priv, bad.Pub)
			}
			cc, err := DialWithContext(ctx, addr, opt, WithLogger(vQuietLogger{}))
			c := vCase{Class: "e2e/" + entry + "/wrong-server-key/" + centry, Sig: entry + centry}
			if err != nil {
				c.Fail = "auth-e2e/dial-error"
			} else {
				wctx, wcancel := context.WithTimeout(context.Background(), 400*time.Millisecond)
				ready := cc.WaitForReady(wctx)
				wcancel()
				c.Info = map[string]interface{}{"outcome": fmt.Sprintf("ready=%v", ready)}
				if ready || s.OpenConnections() != 0 {
					c.Fail = "auth-e2e/wrong-server-key-accepted"
				}
				vClose(cc, 5*time.Second)
			}
			cancel()
			vEmit(c)
			// and with the right key it does
			ctx2, cancel2 := context.WithTimeout(context.Background(), 30*time.Second)
			if centry == "WithTransportCreds" {
				opt = WithTransportCreds(good.Priv, skey.Pub)
			} else {
				opt = WithTransportSigner(good.Priv, skey.Pub)
			}
			cc2, err := DialWithContext(ctx2, addr, opt, WithLogger(vQuietLogger{}))
			c2 := vCase{Class: "e2e/" + entry + "/right-server-key/" + centry, Sig: entry + centry + "ok"}
			if err != nil {
				c2.Fail = "auth-e2e/dial-error"
			} else {
				wctx, wcancel := context.WithTimeout(context.Background(), 3*time.Second)
				ready := cc2.WaitForReady(wctx)
				wcancel()
				c2.Info = map[string]interface{}{"outcome": fmt.Sprintf("ready=%v", ready)}
				if !ready {
					c2.Fail = "auth-e2e/listed-peer-refused"
				}
				vClose(cc2, 5*time.Second)
			}
			cancel2()
			vEmit(c2)
		}
		vStop(s, 5*time.Second)
	}
}
