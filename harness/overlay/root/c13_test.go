package wsrpc

// C13 under gates: every interleaving of a waiter's synchronisation steps with state changes
// and another channel fetcher is forced on the real connectivityStateManager / ClientConn
// (turn-based scripts: a step lets the named thread perform its next watched operation, whatever
// it is), the passages actually taken are replayed through Model/Notify.v, and the outcome
// (returned true / false / parked) must agree. Also the server's peer-set channel.

import (
	"context"
	"crypto/ed25519"
	"fmt"
	"runtime"
	"strings"
	"sync"
	"sync/atomic"
	"testing"
	"time"

	"github.com/gorilla/websocket"
	"github.com/smartcontractkit/wsrpc/internal/verifrt"
	"google.golang.org/grpc/connectivity"
)

const (
	vLGetChan  = "connectivityStateManager.getNotifyChan#Lock#1"
	vLGetState = "connectivityStateManager.getState#Lock#1"
	vLUpdate   = "connectivityStateManager.updateState#Lock#1"
)

// all merges of the given per-thread turn counts
func vMerges(counts map[string]int, order []string) [][]string {
	var res [][]string
	var rec func(cur []string, left map[string]int)
	rec = func(cur []string, left map[string]int) {
		done := true
		for _, t := range order {
			if left[t] > 0 {
				done = false
				left[t]--
				rec(append(append([]string(nil), cur...), t), left)
				left[t]++
			}
		}
		if done {
			res = append(res, cur)
		}
	}
	rec(nil, counts)
	return res
}

var vC13Mu sync.Mutex

func vC13Run(kind string, init, src connectivity.State, turns []string, updates []connectivity.State) {
	vC13Mu.Lock()
	defer vC13Mu.Unlock()
	cc := &ClientConn{csMgr: &connectivityStateManager{state: init}, dopts: defaultDialOptions()}
	cc.dopts.logger = vQuietLogger{}
	sel := "ClientConn.WaitForStateChange#select#1"
	if kind == "ready" {
		sel = "ClientConn.WaitForReady#select#1"
	}
	verifrt.ResetNames()
	verifrt.Watch(vLGetChan, vLGetState, vLUpdate, sel)
	var script []verifrt.Step
	for _, t := range turns {
		script = append(script, verifrt.Step{Thread: t})
	}
	verifrt.Start(script)
	ctx, cancel := context.WithCancel(context.Background())
	res := make(chan bool, 1)
	var wg sync.WaitGroup
	wg.Add(2)
	go func() {
		verifrt.Name("w")
		if kind == "ready" {
			res <- cc.WaitForReady(ctx)
		} else {
			res <- cc.WaitForStateChange(ctx, src)
		}
		verifrt.Finish("w")
	}()
	go func() {
		defer wg.Done()
		verifrt.Name("u")
		for _, v := range updates {
			cc.csMgr.updateState(v)
		}
		verifrt.Finish("u")
	}()
	go func() {
		defer wg.Done()
		verifrt.Name("g")
		cc.csMgr.getNotifyChan()
		verifrt.Finish("g")
	}()
	wg.Wait()
	// the script is over when both helpers are done and the waiter returned or sits in its select
	outcome := "OParked"
	select {
	case r := <-res:
		outcome = map[bool]string{true: "OTrue", false: "OFalse"}[r]
	case <-time.After(25 * time.Millisecond):
	}
	fail := ""
	if outcome == "OParked" {
		// a parked waiter must come back with false once its context ends
		cancel()
		select {
		case r := <-res:
			if r {
				// woken in the meantime by nothing: cannot happen, all changers are done
				fail = "parked-waiter-returned-true-on-cancel"
			}
		case <-time.After(2 * time.Second):
			fail = "parked-waiter-ignores-its-context"
		}
	}
	cancel()
	tr, stuck := verifrt.Stop()
	// the trace of watched passages, as model labels
	var labs, human []string
	ui := 0
	readSeen := false // WaitForReady reads the state a second time for its debug line: not a step of the protocol
	for _, e := range tr {
		if e.Kind != "post" {
			continue
		}
		switch {
		case e.Thread == "w" && e.Label == vLGetChan:
			labs = append(labs, "LWGet")
			readSeen = false
		case e.Thread == "w" && e.Label == vLGetState:
			if readSeen {
				continue
			}
			readSeen = true
			labs = append(labs, "LWRead")
		case e.Thread == "u" && e.Label == vLUpdate:
			if ui < len(updates) {
				labs = append(labs, fmt.Sprintf("LUpdate %d", int(updates[ui])))
			}
			ui++
		case e.Thread == "g" && e.Label == vLGetChan:
			labs = append(labs, "LGetChan")
		default:
			continue
		}
		human = append(human, e.Thread+":"+strings.SplitN(e.Label, ".", 2)[1])
	}
	kd := fmt.Sprintf("(KStateChange %d)", int(src))
	if kind == "ready" {
		kd = "KReady"
	}
	// property monitor, independent of the model: parked although the state differs from the source
	final := cc.csMgr.getState()
	if kind == "change" && outcome == "OParked" && final != src {
		fail = "lost-wakeup"
	}
	if kind == "ready" && outcome == "OParked" && (final == connectivity.Ready || final == connectivity.Shutdown) {
		fail = "lost-wakeup"
	}
	if stuck != "" && fail == "" {
		fail = "gate-script-infeasible"
	}
	vEmit(vCase{Class: "notify/" + kind, Fail: fail, Coq: fmt.Sprintf("CTrace %d %s %s %s", int(init), kd, vCoqList(labs), outcome),
		Sig:  kind + "/" + strings.Join(turns, "") + fmt.Sprint(updates, init, src),
		Info: map[string]interface{}{"turns": strings.Join(turns, ""), "updates": fmt.Sprint(updates), "init": init.String(), "src": src.String(), "trace": human, "outcome": outcome, "final": final.String(), "stuck": stuck}})
}

func TestVerifC13(t *testing.T) {
	// in a child process: a panic of the code under test is an observation, with its replay
	ok, out := vRunChild(t, "TestVerifC13Child", fmt.Sprint(vSeed()), 600*time.Second)
	if !ok {
		vEmit(vCase{Class: "child", Fail: "waiter-scenario-crashed", Sig: "crash", Info: map[string]interface{}{"panic": vPanicLine(out), "replay": fmt.Sprintf("VERIF_CHILD=%d go test -run TestVerifC13Child (instrumented build)", vSeed())}})
	}
}

func TestVerifC13Child(t *testing.T) {
	if vChildSpec() == "" {
		t.Skip("child only")
	}
	r := vNewRand(vSeed() + 13)
	I, C, R, S := connectivity.Idle, connectivity.Connecting, connectivity.Ready, connectivity.Shutdown
	type sc struct {
		kind      string
		init, src connectivity.State
		updates   []connectivity.State
		wTurns    int
	}
	scenarios := []sc{
		{"change", I, I, []connectivity.State{C}, 3},
		{"change", I, I, []connectivity.State{C, I}, 3},
		{"change", C, C, []connectivity.State{R, I}, 3},
		{"change", I, C, []connectivity.State{C}, 3},
		{"change", I, I, []connectivity.State{I, C}, 3},
		{"ready", I, I, []connectivity.State{C, R}, 8},
		{"ready", C, C, []connectivity.State{R}, 8},
		{"ready", C, C, []connectivity.State{connectivity.TransientFailure, S}, 8},
		{"ready", R, R, []connectivity.State{I}, 4},
	}
	total := 0
	for _, s := range scenarios {
		ms := vMerges(map[string]int{"w": s.wTurns, "u": len(s.updates), "g": 1}, []string{"w", "u", "g"})
		// quick: a seeded sample of the interleavings of each scenario; thorough: all of them
		limit := 14
		if vThorough() {
			limit = len(ms)
		}
		if vThorough() {
			for _, m := range ms {
				vC13Run(s.kind, s.init, s.src, m, s.updates)
				total++
			}
			continue
		}
		for k := 0; k < limit && len(ms) > 0; k++ {
			i := r.Intn(len(ms))
			vC13Run(s.kind, s.init, s.src, ms[i], s.updates)
			ms = append(ms[:i], ms[i+1:]...)
			total++
		}
	}
	// ---- the server's peer-set channel
	for i := 0; i < 40; i++ {
		cm := newConnectionsManager()
		var before, after []string
		n1, n2 := r.Intn(4), r.Intn(4)
		op := func(log *[]string) {
			if r.Bool() {
				k := vKey(r.Intn(3))
				if r.Bool() {
					cm.registerConnection(k, vFakeSrvTr{vNewFakeTr()})
				} else {
					cm.mu.Lock()
					cm.removeConnection(k)
					cm.mu.Unlock()
				}
				*log = append(*log, "RChange 1")
			} else {
				cm.getNotifyChan()
				*log = append(*log, "RGet")
			}
		}
		for j := 0; j < n1; j++ {
			op(&before)
		}
		ch := cm.getNotifyChan()
		if r.Bool() {
			cm.registerConnection(vKey(7), vFakeSrvTr{vNewFakeTr()})
		} else {
			cm.mu.Lock()
			cm.removeConnection(vKey(7))
			cm.mu.Unlock()
		}
		for j := 0; j < n2; j++ {
			op(&after)
		}
		closed := false
		select {
		case <-ch:
			closed = true
		default:
		}
		c := vCase{Class: "registry-notify", Coq: fmt.Sprintf("CRegistry %s 1 %s %s", vCoqList(before), vCoqList(after), vCoqBool(closed)), Sig: fmt.Sprint(before, after, i), Info: map[string]interface{}{"outcome": closed}}
		if !closed {
			c.Fail = "peer-set-change-did-not-close-the-channel"
		}
		vEmit(c)
	}
	vC13PeerSetEndToEnd(r)
	vC13ConcurrentWatchers(r)
	vC13ConcurrentStateWaiters(r)
}

// ---- the server's peer-set channel, end to end over real sockets: the channel is obtained, then
// the set of connected peers changes for every reason it can change (a peer connects, a peer goes
// away by itself in three ways, a key is revoked); a channel that stays open although the set has
// changed is a lost notification. Stop: see the remark at (d).
func vC13PeerSetEndToEnd(r *vRand) {
	const patience = 3 * time.Second
	closedWithin := func(ch <-chan struct{}, d time.Duration) bool {
		select {
		case <-ch:
			return true
		case <-time.After(d):
			return false
		}
	}
	isOpen := func(ch <-chan struct{}) bool {
		select {
		case <-ch:
			return false
		default:
			return true
		}
	}
	for _, how := range []string{"raw-socket-closed", "close-frame", "library-client-closed"} {
		skey, a, b := vGenKey(r), vGenKey(r), vGenKey(r)
		ls := vStartLibServer(skey, []ed25519.PublicKey{a.Pub, b.Pub}, true)
		var steps []string
		fail := ""
		note := func(which string, ok bool) {
			steps = append(steps, fmt.Sprintf("%s:%v", which, ok))
			if !ok && fail == "" {
				fail = "peer-set-change-not-notified/" + which
			}
		}
		// connects peer `k` the chosen way and returns the function that makes it go away by itself
		connect := func(k vKeyPair) (func(), error) {
			if how == "library-client-closed" {
				ctx, cancel := context.WithTimeout(context.Background(), 30*time.Second)
				cc, err := vDialLib(ctx, ls.Addr, k, skey.Pub, WithBlock())
				if err != nil {
					cancel()
					return nil, err
				}
				return func() { vClose(cc, 5*time.Second); cancel() }, nil
			}
			conn, err := vRawDial(ls.Addr, k, skey.Pub)
			if err != nil {
				return nil, err
			}
			if how == "close-frame" {
				return func() {
					conn.WriteControl(websocket.CloseMessage, websocket.FormatCloseMessage(websocket.CloseNormalClosure, ""), time.Now().Add(time.Second))
					time.Sleep(20 * time.Millisecond)
					conn.Close()
				}, nil
			}
			return func() { conn.Close() }, nil
		}
		func() {
			// (a) a peer connects
			ch := ls.S.GetConnectionNotifyChan()
			leaveA, err := connect(a)
			if err != nil || !vWaitUntil(patience, func() bool { return ls.S.OpenConnections() == 1 }) {
				fail = "harness-handshake-failed"
				return
			}
			note("connect", closedWithin(ch, patience))
			// (b) the peer goes away by itself
			ch = ls.S.GetConnectionNotifyChan()
			if !isOpen(ch) {
				fail = "fresh-channel-already-closed"
				return
			}
			leaveA()
			if !vWaitUntil(2*patience, func() bool { return ls.S.OpenConnections() == 0 }) {
				steps = append(steps, "disconnect:not-observed-by-the-server")
				return // the session has not ended: no change of the peer set to be told about (C11's subject)
			}
			note("disconnect", closedWithin(ch, patience))
			// (c) revocation of a connected key, with a bystander
			leaveA2, err1 := connect(a)
			if err1 != nil || !vWaitUntil(patience, func() bool { return ls.S.OpenConnections() == 1 }) {
				fail = "harness-handshake-failed"
				return
			}
			defer leaveA2()
			// (c0) an update of the keys which drops nobody, then a peer connects: the watcher from before the update is told
			ch = ls.S.GetConnectionNotifyChan()
			if err := ls.S.UpdatePublicKeys(a.Pub, b.Pub, vGenKey(r).Pub); err != nil {
				fail = "harness-update-failed"
				return
			}
			time.Sleep(20 * time.Millisecond)
			leaveB, err2 := connect(b)
			if err2 != nil || !vWaitUntil(patience, func() bool { return ls.S.OpenConnections() == 2 }) {
				fail = "harness-handshake-failed"
				return
			}
			defer leaveB()
			note("connect-after-an-update-which-drops-nobody", closedWithin(ch, patience))
			ch = ls.S.GetConnectionNotifyChan()
			if err := ls.S.UpdatePublicKeys(b.Pub); err != nil {
				fail = "harness-update-failed"
				return
			}
			if !vWaitUntil(patience, func() bool { return ls.S.OpenConnections() == 1 }) {
				steps = append(steps, "revocation:not-observed")
				return
			}
			note("revocation", closedWithin(ch, patience))
			// (d) Stop ends the remaining session
			ch = ls.S.GetConnectionNotifyChan()
			stopped := vStop(ls.S, 6*time.Second)
			steps = append(steps, fmt.Sprintf("stop-returned:%v", stopped))
			if stopped {
				// Observation only, not a verdict: on the tree this harness was written against, Stop detaches the
				// registry before it closes the sessions, so a channel obtained before Stop stays open (reported as
				// a finding to the maintainers of the check). What is demanded: a waiter that comes back and asks
				// again is told - the channel handed out after Stop is closed.
				steps = append(steps, fmt.Sprintf("stop-closed-the-channel-obtained-before:%v", closedWithin(ch, 300*time.Millisecond)))
				note("after-stop", closedWithin(ls.S.GetConnectionNotifyChan(), patience))
			}
		}()
		vEmit(vCase{Class: "registry-notify-e2e/" + how, Fail: fail, Sig: "e2e/" + how + "/" + strings.Join(steps, ","),
			Info: map[string]interface{}{"how": how, "steps": steps, "outcome": strings.Join(steps, " ")}})
		vStop(ls.S, 6*time.Second)
	}
}


// Several watchers obtain the peer-set channel at the same instant (spinning barrier), right after a change (when no channel
// exists): every one of them must be notified of the next change.
func vC13ConcurrentWatchers(r *vRand) {
	rounds := 1500
	if vThorough() {
		rounds = 12000
	}
	s := NewServer()
	lost, at := 0, -1
	for i := 0; i < rounds && lost == 0; i++ {
		const n = 6
		chs := make([]<-chan struct{}, n)
		var wg sync.WaitGroup
		var ready, goFlag int32
		for g := 0; g < n; g++ {
			wg.Add(1)
			go func(g int) {
				defer wg.Done()
				atomic.AddInt32(&ready, 1)
				for atomic.LoadInt32(&goFlag) == 0 {
				}
				chs[g] = s.GetConnectionNotifyChan()
			}(g)
		}
		for atomic.LoadInt32(&ready) < n {
			runtime.Gosched()
		}
		atomic.StoreInt32(&goFlag, 1)
		wg.Wait()
		// a change of the peer set: a session of a fresh key comes (even rounds) or goes (odd rounds)
		key := vKey(40 + (i/2)%8)
		if i%2 == 0 {
			s.connMgr.registerConnection(key, vFakeSrvTr{vNewFakeTr()})
		} else {
			s.connMgr.mu.Lock()
			s.connMgr.removeConnection(key)
			s.connMgr.mu.Unlock()
		}
		for g := 0; g < n; g++ {
			select {
			case <-chs[g]:
			case <-time.After(500 * time.Millisecond):
				lost++
				at = i
			}
		}
	}
	c := vCase{Class: "peerset/concurrent-watchers", Sig: "concurrent-watchers", Info: map[string]interface{}{"rounds": rounds, "watchers": 6, "outcome": fmt.Sprintf("lost=%d", lost)}}
	if lost > 0 {
		c.Fail = fmt.Sprintf("peer-set-change-not-notified/concurrent-watchers/round-%d", at)
	}
	vEmit(c)
}

// The same for the connectivity state of a client: waiters which obtain their channel at the same instant are all woken.
func vC13ConcurrentStateWaiters(r *vRand) {
	rounds := 1500
	if vThorough() {
		rounds = 12000
	}
	csm := &connectivityStateManager{}
	states := []connectivity.State{connectivity.Connecting, connectivity.Ready, connectivity.Idle, connectivity.TransientFailure}
	lost, at := 0, -1
	for i := 0; i < rounds && lost == 0; i++ {
		const n = 6
		chs := make([]<-chan struct{}, n)
		var wg sync.WaitGroup
		var ready, goFlag int32
		for g := 0; g < n; g++ {
			wg.Add(1)
			go func(g int) {
				defer wg.Done()
				atomic.AddInt32(&ready, 1)
				for atomic.LoadInt32(&goFlag) == 0 {
				}
				chs[g] = csm.getNotifyChan()
			}(g)
		}
		for atomic.LoadInt32(&ready) < n {
			runtime.Gosched()
		}
		atomic.StoreInt32(&goFlag, 1)
		wg.Wait()
		csm.updateState(states[i%len(states)])
		for g := 0; g < n; g++ {
			select {
			case <-chs[g]:
			case <-time.After(500 * time.Millisecond):
				lost++
				at = i
			}
		}
	}
	c := vCase{Class: "notify/concurrent-waiters", Sig: "concurrent-waiters", Info: map[string]interface{}{"rounds": rounds, "waiters": 6, "outcome": fmt.Sprintf("lost=%d", lost)}}
	if lost > 0 {
		c.Fail = fmt.Sprintf("lost-wakeup/concurrent-waiters/round-%d", at)
	}
	vEmit(c)
}
