package wsrpc

// C11 / C12 under gates, over real sockets: the steps of handshakes (certificate check,
// single-session check, registration), teardowns and allow-list updates of a real Server,
// built from instrumented copies of the current sources, are held at their gates and released
// in chosen orders; the passages taken are replayed through Model/Registry.v and the server's
// views (count, key list, routing) are compared; independently: per key at most one raw client
// is served, a revoked key is not served, a bystander is not disturbed.

import (
	"context"
	"crypto/ed25519"
	"fmt"
	"os"
	"sort"
	"strings"
	"sync"
	"testing"
	"time"

	"github.com/gorilla/websocket"
	"github.com/smartcontractkit/wsrpc/internal/message"
	"github.com/smartcontractkit/wsrpc/internal/transport"
	"github.com/smartcontractkit/wsrpc/internal/verifrt"
	"github.com/smartcontractkit/wsrpc/peer"
	"google.golang.org/protobuf/proto"
)

const (
	vLVerify   = "PublicKeys.isValidPublicKey#RLock#1"
	vLCheck    = "Server.ensureSingleClientConnection#RLock#1"
	vLRegRLock = "Server.wshandler#RLock#2"
	vLRegLock  = "Server.wshandler#Lock#2"
	vLTearLock = "Server.wshandler#Lock#1"
	vLTearRL   = "Server.wshandler#RLock#1"
	vLUpdate2  = "Server.UpdatePublicKeys#Lock#1"
)

// links the teardown goroutine of a transport to the handler goroutine that created it
func vNewServerTransportLinked(c transport.WebSocketConn, config *transport.ServerConfig, after func()) transport.ServerTransport {
	g := verifrt.Gid()
	return vNewServerTransport(c, config, func() {
		verifrt.Pre(fmt.Sprintf("harness.teardown:%d", g))
		verifrt.Post(fmt.Sprintf("harness.teardown:%d", g))
		after()
	})
}

type vRegWorld struct {
	ls      *vLibServer
	keys    []vKeyPair // index = model key number
	mu      sync.Mutex
	dialed  []int             // keys of the handshakes started, in order
	updates [][]int           // allow-lists of the updates, in order
	dies    []int
	conns   []*websocket.Conn // raw connections that completed the websocket handshake
	ckeys   []int
	lastKs   []int               // the allow-list the server was given last ...
	lastPubs []ed25519.PublicKey // ... and the very slice it was given
}

func (w *vRegWorld) pubs(ks []int) []ed25519.PublicKey {
	var r []ed25519.PublicKey
	for _, k := range ks {
		r = append(r, w.keys[k].Pub)
	}
	return r
}

func (w *vRegWorld) dial(k int) (*websocket.Conn, error) {
	w.mu.Lock()
	w.dialed = append(w.dialed, k)
	w.mu.Unlock()
	verifrt.Name(fmt.Sprintf("client%d", k))
	c, err := vRawDial(w.ls.Addr, w.keys[k], w.ls.Key.Pub)
	if err == nil {
		w.mu.Lock()
		w.conns = append(w.conns, c)
		w.ckeys = append(w.ckeys, k)
		w.mu.Unlock()
	}
	return c, err
}

func (w *vRegWorld) update(ks []int) error {
	verifrt.Name("admin")
	w.mu.Lock()
	w.updates = append(w.updates, ks)
	w.mu.Unlock()
	pubs := w.pubs(ks)
	// an application which takes keys off the list it keeps passes a part of the slice it passed before (list[1:], list[:n-1]):
	// when the new list is a contiguous part of the previous one, that very part is what the server gets
	for i := 0; len(ks) > 0 && i+len(ks) <= len(w.lastKs); i++ {
		same := true
		for j := range ks {
			same = same && w.lastKs[i+j] == ks[j]
		}
		if same {
			pubs = w.lastPubs[i : i+len(ks)]
			break
		}
	}
	w.lastKs, w.lastPubs = ks, pubs
	return w.ls.S.UpdatePublicKeys(pubs...)
}

// vRefusedUpdate marks, in the list of updates, an UpdatePublicKeys call that the server must
// refuse (it contains an invalid key): it passes the update gate but is not a step of the model.
var vRefusedUpdate = []int{-1}

func vIsRefusedUpdate(ks []int) bool { return len(ks) == 1 && ks[0] == -1 }

// updateInvalid calls UpdatePublicKeys with the given valid keys and one key of a wrong length
// at position pos (clamped); the call must be refused.
func (w *vRegWorld) updateInvalid(ks []int, badLen, pos int) error {
	verifrt.Name("admin")
	w.mu.Lock()
	w.updates = append(w.updates, vRefusedUpdate)
	w.mu.Unlock()
	pubs := w.pubs(ks)
	if pos > len(pubs) {
		pos = len(pubs)
	}
	bad := ed25519.PublicKey(make([]byte, badLen))
	for i := range bad {
		bad[i] = byte(0xA0 + i)
	}
	args := append(append(append([]ed25519.PublicKey(nil), pubs[:pos]...), bad), pubs[pos:]...)
	return w.ls.S.UpdatePublicKeys(args...)
}

func (w *vRegWorld) listed(k int) bool {
	for _, p := range w.ls.S.GetConnectedPeerPublicKeys() {
		if p == w.keys[k].Static() {
			return true
		}
	}
	return false
}

// a server-initiated call to key k: nil, ErrNotConnected, or another error (e.g. the deadline)
func (w *vRegWorld) serverCall(k int, d time.Duration) error {
	ctx, cancel := context.WithTimeout(context.Background(), d)
	defer cancel()
	return w.ls.S.Invoke(peer.NewCallContext(ctx, w.keys[k].Static()), "Echo", vAppMsg("x", nil, ""), &message.Response{})
}

func (w *vRegWorld) die(c *websocket.Conn, k int) {
	verifrt.Name("harness")
	verifrt.Pre(fmt.Sprintf("harness.die:%d", k))
	c.Close()
	verifrt.Post(fmt.Sprintf("harness.die:%d", k))
}

// served: does the server answer a request on this raw connection?
func vServed(c *websocket.Conn) bool { return vProbe(c) == "served" }

// vProbe: "served" (answers a request), "closed" (the server has dropped the socket) or
// "zombie" (the socket is open but nobody answers)
func vProbe(c *websocket.Conn) string {
	id := fmt.Sprintf("00000000-0000-4000-8000-%012d", time.Now().UnixNano()%1000000000000)
	if err := c.WriteMessage(websocket.BinaryMessage, vSizedRequest(100, id)); err != nil {
		return "closed"
	}
	c.SetReadDeadline(time.Now().Add(400 * time.Millisecond))
	for {
		_, b, err := c.ReadMessage()
		if err != nil {
			if ne, ok := err.(interface{ Timeout() bool }); ok && ne.Timeout() {
				return "zombie"
			}
			return "closed"
		}
		m := &message.Message{}
		if proto.Unmarshal(b, m) == nil && m.GetResponse() != nil && m.GetResponse().GetCallId() == id {
			return "served"
		}
	}
}

// vProbeWait is vProbe with a chosen patience, for sessions that MUST be served (a loaded
// machine may take longer than vProbe's 400 ms to answer).
func vProbeWait(c *websocket.Conn, d time.Duration) string {
	id := fmt.Sprintf("00000000-0000-4000-8000-%012d", time.Now().UnixNano()%1000000000000)
	c.SetWriteDeadline(time.Now().Add(d))
	if err := c.WriteMessage(websocket.BinaryMessage, vSizedRequest(100, id)); err != nil {
		return "closed"
	}
	c.SetReadDeadline(time.Now().Add(d))
	defer c.SetReadDeadline(time.Time{})
	for {
		_, b, err := c.ReadMessage()
		if err != nil {
			if ne, ok := err.(interface{ Timeout() bool }); ok && ne.Timeout() {
				return "zombie"
			}
			return "closed"
		}
		m := &message.Message{}
		if proto.Unmarshal(b, m) == nil && m.GetResponse() != nil && m.GetResponse().GetCallId() == id {
			return "served"
		}
	}
}

func vCoqNats(ks []int) string {
	s := make([]string, len(ks))
	for i, k := range ks {
		s[i] = fmt.Sprint(k)
	}
	return vCoqList(s)
}

// the registry history, from the gate trace
func (w *vRegWorld) labels(tr []verifrt.Ev) ([]string, []string) {
	sid := map[int64]int{}   // handler goroutine -> session id
	verified := map[int64]bool{}
	checked := map[int64]bool{}
	regLock := map[int64]bool{}
	for _, e := range tr {
		if e.Label == vLRegLock && e.Kind == "post" {
			regLock[e.G] = true
		}
	}
	tearG := map[int64]int64{} // teardown goroutine -> handler goroutine
	var labs, human []string
	nd, nu, ndie := 0, 0, 0
	add := func(l, h string) { labs = append(labs, l); human = append(human, h) }
	newSess := func(g int64) int {
		if s, ok := sid[g]; ok {
			return s
		}
		s := len(sid)
		sid[g] = s
		k := 0
		if nd < len(w.dialed) {
			k = w.dialed[nd]
		}
		nd++
		add(fmt.Sprintf("RL (LConnect %d)", k), fmt.Sprintf("connect k%d -> s%d", k, s))
		return s
	}
	for _, e := range tr {
		named := !strings.HasPrefix(e.Thread, "lib:")
		switch {
		case e.Label == vLVerify && e.Kind == "post" && !named:
			if checked[e.G] {
				continue // the second look at the list, inside the registration step
			}
			s := newSess(e.G)
			if !verified[e.G] {
				verified[e.G] = true
				add(fmt.Sprintf("RL (LVerify %d)", s), fmt.Sprintf("verify s%d", s))
			}
		case e.Label == vLCheck && e.Kind == "post" && !named:
			s := newSess(e.G)
			checked[e.G] = true
			add(fmt.Sprintf("RL (LCheck %d)", s), fmt.Sprintf("check s%d", s))
		case (e.Label == vLRegLock && e.Kind == "post") || (e.Label == vLRegRLock && e.Kind == "post" && !regLock[e.G]):
			if s, ok := sid[e.G]; ok {
				add(fmt.Sprintf("RL (LUpgrade %d)", s), fmt.Sprintf("upgrade s%d", s))
				add(fmt.Sprintf("RL (LRegister %d)", s), fmt.Sprintf("register s%d", s))
			}
		case strings.HasPrefix(e.Label, "harness.teardown:") && e.Kind == "pre":
			var g int64
			fmt.Sscanf(strings.TrimPrefix(e.Label, "harness.teardown:"), "%d", &g)
			tearG[e.G] = g
		case e.Label == vLTearLock && e.Kind == "post":
			if hg, ok := tearG[e.G]; ok {
				if s, ok := sid[hg]; ok {
					add(fmt.Sprintf("RL (LTeardown %d)", s), fmt.Sprintf("teardown s%d", s))
				}
			}
		case e.Label == vLUpdate2 && e.Kind == "post":
			if nu < len(w.updates) && !vIsRefusedUpdate(w.updates[nu]) {
				add(fmt.Sprintf("RL (LUpdate %s)", vCoqNats(w.updates[nu])), fmt.Sprintf("update %v", w.updates[nu]))
			}
			nu++
		case strings.HasPrefix(e.Label, "harness.die:") && e.Kind == "pre":
			var k int
			fmt.Sscanf(strings.TrimPrefix(e.Label, "harness.die:"), "%d", &k)
			add(fmt.Sprintf("RDieK %d", k), fmt.Sprintf("die k%d", k))
			ndie++
		}
	}
	return labs, human
}

func (w *vRegWorld) keyIndex(k [32]byte) int {
	for i, kp := range w.keys {
		if kp.Static() == k {
			return i
		}
	}
	return -1
}

func vRegScenario(r *vRand, name string, allow []int, body func(w *vRegWorld) string) {
	w := &vRegWorld{}
	for i := 0; i < 4; i++ {
		w.keys = append(w.keys, vGenKey(r))
	}
	skey := vGenKey(r)
	verifrt.ResetNames()
	verifrt.Start(nil)
	w.lastKs, w.lastPubs = allow, w.pubs(allow)
	w.ls = vStartLibServer(skey, w.lastPubs, true)
	fail := body(w)
	time.Sleep(60 * time.Millisecond)
	// views at quiescence
	open := 0
	var keys []int
	viewed := make(chan struct{})
	go func() {
		open = w.ls.S.OpenConnections()
		for _, k := range w.ls.S.GetConnectedPeerPublicKeys() {
			keys = append(keys, w.keyIndex(k))
		}
		close(viewed)
	}()
	select {
	case <-viewed:
	case <-time.After(6 * time.Second):
		// the server is wedged: nothing more can be asked of it in this process
		if fail == "" {
			fail = "views-cannot-be-read/" + strings.Join(vParked(), ",")
		}
		vEmit(vCase{Class: "registry/" + name, Fail: fail, Sig: name + "/wedged", Info: map[string]interface{}{"scenario": name, "outcome": "the server's views do not return", "parked": vParked()}})
		os.Exit(3)
	}
	sort.Ints(keys)
	// ground truth seen from outside: which raw connections are served
	servedPerKey := map[int]int{}
	w.mu.Lock()
	conns, ckeys := w.conns, w.ckeys
	w.mu.Unlock()
	zombies := 0
	for i, c := range conns {
		switch vProbe(c) {
		case "served":
			servedPerKey[ckeys[i]]++
		case "zombie":
			zombies++
		}
	}
	if zombies > 0 && fail == "" {
		fail = fmt.Sprintf("session-open-but-not-served/%d", zombies)
	}
	tr, _ := verifrt.Stop()
	labs, human := w.labels(tr)
	for k, n := range servedPerKey {
		if n > 1 && fail == "" {
			fail = fmt.Sprintf("two-sessions-of-one-key-served/k%d", k)
		}
	}
	if fail == "" && len(servedPerKey) != open {
		fail = fmt.Sprintf("view-differs-from-reality/open=%d served-keys=%d", open, len(servedPerKey))
	}
	for _, k := range keys {
		if fail == "" && servedPerKey[k] == 0 {
			fail = fmt.Sprintf("listed-peer-is-not-served/k%d", k)
		}
	}
	// routing: a server call to a listed key must reach a raw connection of that key (it is written to its socket)
	vEmit(vCase{Class: "registry/" + name, Fail: fail,
		Coq:  fmt.Sprintf("CHist %s %s {| o_open := %d; o_keys := %s; o_registered := [] |}", vCoqNats(allow), vCoqList(labs), open, vCoqNats(keys)),
		Sig:  name + "/" + strings.Join(human, ","),
		Info: map[string]interface{}{"scenario": name, "history": human, "open": open, "keys": keys, "served_per_key": fmt.Sprint(servedPerKey), "outcome": fmt.Sprintf("open=%d", open)}})
	for _, c := range conns {
		c.Close()
	}
	vStop(w.ls.S, 5*time.Second)
}

func vWaitHeld(label string, n int) bool {
	return vWaitUntil(3*time.Second, func() bool { return verifrt.Held(label) >= n })
}

func TestVerifC11(t *testing.T) {
	ok, out := vRunChild(t, "TestVerifC11Child", fmt.Sprint(vSeed()), 600*time.Second)
	if !ok {
		vEmit(vCase{Class: "child", Fail: "registry-scenario-crashed", Sig: "crash", Info: map[string]interface{}{"panic": vPanicLine(out)}})
	}
}

func TestVerifC11Child(t *testing.T) {
	if vChildSpec() == "" {
		t.Skip("child only")
	}
	r := vNewRand(vSeed() + 11)
	// the choices of the update scenarios come from a generator of their own (streams of neighbouring seeds of
	// vRand are one stream shifted by one draw)
	r2 := vNewRand((vSeed()+1)*1000003 + 0x1112)
	rounds := 2
	if vThorough() {
		rounds = 12
	}
	for round := 0; round < rounds; round++ {
		// two simultaneous handshakes of one key: both pass the single-session check before either registers
		vRegScenario(r, "simultaneous-same-key", []int{0, 1}, func(w *vRegWorld) string {
			verifrt.Hold(vLRegRLock, 2)
			var wg sync.WaitGroup
			for i := 0; i < 2; i++ {
				wg.Add(1)
				go func() { defer wg.Done(); w.dial(0) }()
			}
			held := vWaitHeld(vLRegRLock, 2)
			verifrt.Release(vLRegRLock)
			wg.Wait()
			if !held {
				return "gate-script-infeasible/registration-not-reached-twice"
			}
			return ""
		})
		// the peer goes away while its handshake waits to register (it is held at that point): what gets registered, if anything,
		// is taken out again - the view ends up empty and the key can connect again
		vRegScenario(r, "peer-leaves-while-its-registration-waits", []int{0, 1}, func(w *vRegWorld) string {
			verifrt.Hold(vLRegRLock, 1)
			cch := make(chan *websocket.Conn, 1)
			go func() {
				c, err := w.dial(0)
				if err != nil {
					c = nil
				}
				cch <- c
			}()
			held := vWaitHeld(vLRegRLock, 1)
			var c *websocket.Conn
			select {
			case c = <-cch:
			case <-time.After(3 * time.Second):
			}
			if c != nil {
				c.Close()
			}
			time.Sleep(150 * time.Millisecond)
			verifrt.Release(vLRegRLock)
			if !held || c == nil {
				return "gate-script-infeasible/registration-not-reached"
			}
			// the released handshake goes on to its registration section: only when it has been through it can the view be
			// asked whether anything of it is left (before that the view is empty because nothing has been registered yet)
			vWaitUntil(2*time.Second, func() bool {
				for _, e := range verifrt.Trace() {
					if e.Label == vLRegLock && e.Kind == "post" {
						return true
					}
				}
				return false
			})
			time.Sleep(30 * time.Millisecond)
			if !vWaitUntil(3*time.Second, func() bool { return w.ls.S.OpenConnections() == 0 && !w.listed(0) }) {
				return fmt.Sprintf("session-of-a-departed-peer-stays-registered/open=%d", w.ls.S.OpenConnections())
			}
			again, err := w.dial(0)
			if err != nil || vProbeWait(again, 3*time.Second) != "served" {
				return "key-of-a-departed-peer-cannot-connect-again"
			}
			return ""
		})
		// the same, in lockstep at every synchronisation point of the handshake and of the connection manager, whatever
		// they are: of several handshakes of one key each has done a step before any does the next, so a check and the
		// registration it guards are interleaved unless they are one critical section
		for _, n := range []int{2, 3} {
			n := n
			vRegScenario(r, fmt.Sprintf("same-key-in-lockstep/%d", n), []int{0, 1}, func(w *vRegWorld) string {
				verifrt.Lockstep([]string{"Server.wshandler#", "connectionsManager.", "Server.ensureSingleClientConnection#"}, n, 300*time.Millisecond)
				var wg sync.WaitGroup
				for i := 0; i < n; i++ {
					wg.Add(1)
					go func() { defer wg.Done(); w.dial(0) }()
				}
				wg.Wait()
				verifrt.Lockstep(nil, 0, 0)
				time.Sleep(100 * time.Millisecond)
				// however many of them got through the handshake: at most one of their sockets is still served
				w.mu.Lock()
				conns := append([]*websocket.Conn(nil), w.conns...)
				w.mu.Unlock()
				served := 0
				for _, c := range conns {
					if vProbeWait(c, 700*time.Millisecond) == "served" {
						served++
					}
				}
				if served > 1 || w.ls.S.OpenConnections() > 1 {
					return fmt.Sprintf("two-sessions-of-one-key/served=%d open=%d", served, w.ls.S.OpenConnections())
				}
				return ""
			})
		}
		// the key is revoked while its handshake sits between the certificate check and the registration
		for _, at := range []string{vLCheck, vLRegRLock} {
			at := at
			vRegScenario(r, "revoked-during-handshake@"+strings.SplitN(at, "#", 2)[0], []int{0, 1}, func(w *vRegWorld) string {
				verifrt.Hold(at, 1)
				done := make(chan struct{})
				go func() { w.dial(1); close(done) }()
				held := vWaitHeld(at, 1)
				by, _ := w.dial(0) // a bystander with a key that stays listed... it also passes the held gate unless the slot is taken
				_ = by
				err := w.update([]int{0})
				verifrt.Release(at)
				<-done
				if !held {
					return "gate-script-infeasible/handshake-not-held"
				}
				if err != nil {
					return "update-failed/" + err.Error()
				}
				return ""
			})
		}
		// the teardown of a swept session runs after the client's newer session registered
		vRegScenario(r, "late-teardown-of-old-session", []int{0, 1}, func(w *vRegWorld) string {
			a, err := w.dial(0)
			if err != nil {
				return "handshake-failed"
			}
			vWaitUntil(2*time.Second, func() bool { return w.ls.S.OpenConnections() == 1 })
			verifrt.Hold(vLTearRL, 1)
			_ = w.update([]int{1}) // sweeps the session of key 0
			held := vWaitHeld(vLTearRL, 1)
			_ = w.update([]int{0, 1})
			b, err := w.dial(0)
			_ = a
			if err != nil {
				verifrt.Release(vLTearRL)
				return "re-handshake-failed"
			}
			vWaitUntil(2*time.Second, func() bool { return w.ls.S.OpenConnections() == 1 })
			verifrt.Release(vLTearRL)
			time.Sleep(30 * time.Millisecond)
			if !held {
				return "gate-script-infeasible/teardown-not-held"
			}
			if !vServed(b) {
				return "newer-session-hidden-by-old-teardown"
			}
			return ""
		})
		// a session ends by itself (its peer has left; its teardown is held before it takes the server's lock) while a key
		// update drops that very session: the update returns, the teardown completes, the view is empty
		vRegScenario(r, "peer-leaves-while-an-update-drops-it", []int{0, 1}, func(w *vRegWorld) string {
			a, err := w.dial(0)
			if err != nil {
				return "handshake-failed"
			}
			vWaitUntil(2*time.Second, func() bool { return w.ls.S.OpenConnections() == 1 })
			verifrt.Hold(vLTearRL, 1)
			a.Close()
			held := vWaitHeld(vLTearRL, 1)
			done := make(chan struct{})
			go func() { _ = w.update([]int{1}); close(done) }()
			returned := false
			select {
			case <-done:
				returned = true
			case <-time.After(1500 * time.Millisecond):
			}
			verifrt.Release(vLTearRL)
			if !held {
				return "gate-script-infeasible/teardown-not-held"
			}
			if !returned {
				select {
				case <-done:
					return "update-waits-for-the-teardown-of-a-session-which-waits-for-the-update"
				case <-time.After(3 * time.Second):
					return "update-hangs-when-the-peer-it-drops-leaves"
				}
			}
			if !vWaitUntil(3*time.Second, func() bool { return w.ls.S.OpenConnections() == 0 }) {
				return "departed-session-stays-in-the-view"
			}
			return ""
		})
		// the views are polled from several goroutines while calls (to a key which is not connected), re-applied key lists and
		// requests of a connected peer keep the server busy: every one of them keeps returning, and the view is right at the end
		vRegScenario(r, "views-polled-while-the-server-is-busy", []int{0, 1}, func(w *vRegWorld) string {
			a, err := w.dial(0)
			if err != nil {
				return "handshake-failed"
			}
			vWaitUntil(2*time.Second, func() bool { return w.ls.S.OpenConnections() == 1 })
			stop := make(chan struct{})
			var wg sync.WaitGroup
			spin := func(f func()) {
				wg.Add(1)
				go func() {
					defer wg.Done()
					for {
						select {
						case <-stop:
							return
						default:
						}
						f()
					}
				}()
			}
			for i := 0; i < 4; i++ {
				spin(func() { _ = w.ls.S.OpenConnections(); _ = w.ls.S.GetConnectedPeerPublicKeys() })
			}
			for i := 0; i < 3; i++ {
				spin(func() { _ = w.serverCall(1, 5*time.Millisecond) })
			}
			spin(func() { _ = w.update([]int{0, 1}); time.Sleep(200 * time.Microsecond) })
			spin(func() { _ = w.ls.S.GetConnectionNotifyChan(); time.Sleep(100 * time.Microsecond) })
			time.Sleep(500 * time.Millisecond)
			close(stop)
			done := make(chan struct{})
			go func() { wg.Wait(); close(done) }()
			select {
			case <-done:
			case <-time.After(4 * time.Second):
				return "server-wedged-by-concurrent-use/" + strings.Join(vParked(), ",")
			}
			if !vServed(a) {
				return "session-disturbed-by-concurrent-use"
			}
			return ""
		})
		// a key which an earlier update put on the list is taken off it by a later one while it is connected: its session is
		// dropped like that of a key of the initial list - twice, so that whatever the first round left behind is used
		vRegScenario(r, "revoked-after-an-update-had-listed-it", []int{1}, func(w *vRegWorld) string {
			for round := 0; round < 2; round++ {
				if err := w.update([]int{0, 1}); err != nil {
					return "update-refused"
				}
				a, err := w.dial(0)
				if err != nil || !vServed(a) {
					return fmt.Sprintf("listed-key-not-served/round %d", round)
				}
				b, err := w.dial(1)
				if err != nil {
					return "handshake-failed"
				}
				if err := w.update([]int{1, 2}); err != nil {
					return "update-refused"
				}
				time.Sleep(30 * time.Millisecond)
				if vServed(a) || w.listed(0) {
					return fmt.Sprintf("revoked-key-keeps-its-session/round %d", round)
				}
				if !vServed(b) {
					return "bystander-dropped-by-a-revocation"
				}
				w.die(b, 1)
				vWaitUntil(2*time.Second, func() bool { return w.ls.S.OpenConnections() == 0 })
			}
			return ""
		})
		// disconnect and reconnect; a concurrent second session is refused and does not disturb the first
		vRegScenario(r, "second-session-refused", []int{0, 1}, func(w *vRegWorld) string {
			a, err := w.dial(0)
			if err != nil {
				return "handshake-failed"
			}
			vWaitUntil(2*time.Second, func() bool { return w.ls.S.OpenConnections() == 1 })
			b, err2 := w.dial(0)
			if err2 == nil {
				// the websocket handshake may complete before the refusal: the socket must then be dead
				if vServed(b) && vServed(a) {
					return "two-sessions-of-one-key-served"
				}
			}
			if !vServed(a) {
				return "first-session-disturbed-by-refused-one"
			}
			w.die(a, 0)
			vWaitUntil(2*time.Second, func() bool { return w.ls.S.OpenConnections() == 0 })
			if _, err := w.dial(0); err != nil {
				return "reconnect-after-disconnect-failed"
			}
			vWaitUntil(2*time.Second, func() bool { return w.ls.S.OpenConnections() == 1 })
			return ""
		})
		// revocation of a connected key: dropped at once, bystander untouched, calls in both directions impossible
		vRegScenario(r, "revoke-connected", []int{0, 1}, func(w *vRegWorld) string {
			a, e1 := w.dial(0)
			b, e2 := w.dial(1)
			if e1 != nil || e2 != nil {
				return "handshake-failed"
			}
			vWaitUntil(2*time.Second, func() bool { return w.ls.S.OpenConnections() == 2 })
			if err := w.update([]int{1}); err != nil {
				return "update-failed"
			}
			// right after the update has returned
			if n := w.ls.S.OpenConnections(); n != 1 {
				return fmt.Sprintf("revoked-session-still-listed-after-update/open=%d", n)
			}
			ctx, cancel := context.WithTimeout(context.Background(), 200*time.Millisecond)
			err := w.ls.S.Invoke(peer.NewCallContext(ctx, w.keys[0].Static()), "Echo", vAppMsg("x", nil, ""), &message.Response{})
			cancel()
			if err != ErrNotConnected {
				return "server-call-to-revoked-key-not-refused/" + fmt.Sprint(err)
			}
			if vServed(a) {
				return "revoked-session-still-served"
			}
			if !vServed(b) {
				return "bystander-disturbed-by-revocation"
			}
			// an invalid update changes nothing
			if err := w.ls.S.UpdatePublicKeys(w.keys[1].Pub, ed25519.PublicKey(make([]byte, 31))); err == nil {
				return "invalid-update-accepted"
			}
			if !vServed(b) || w.ls.S.OpenConnections() != 1 {
				return "invalid-update-changed-something"
			}
			if _, err := w.dial(0); err == nil {
				w.mu.Lock()
				c := w.conns[len(w.conns)-1]
				w.mu.Unlock()
				if vServed(c) {
					return "revoked-key-got-a-new-session"
				}
			}
			return ""
		})
		// a refused update (one key of a wrong length among valid ones) changes nothing: every session stays
		// served and listed, also those of connected keys missing from its valid arguments, and the allow-list
		// stays what it was (a listed key still gets in, a key only named in the refused update does not)
		badLen := []int{31, 33, 0, 64, 1}[r2.Intn(5)]
		badPos := r2.Intn(3)
		vRegScenario(r, fmt.Sprintf("refused-update/len=%d,pos=%d", badLen, badPos), []int{0, 1, 2}, func(w *vRegWorld) string {
			a, e1 := w.dial(0)
			b, e2 := w.dial(1)
			if e1 != nil || e2 != nil {
				return "handshake-failed"
			}
			if !vWaitUntil(3*time.Second, func() bool { return w.ls.S.OpenConnections() == 2 }) {
				return "handshake-failed/not-registered"
			}
			// valid arguments: connected key 1 and the unlisted key 3; connected key 0 and listed key 2 are missing
			if err := w.updateInvalid([]int{1, 3}, badLen, badPos); err == nil {
				return "invalid-update-accepted"
			}
			if n := w.ls.S.OpenConnections(); n != 2 || !w.listed(0) || !w.listed(1) {
				return fmt.Sprintf("refused-update-dropped-a-session/open=%d listed0=%v listed1=%v", n, w.listed(0), w.listed(1))
			}
			if err := w.serverCall(0, 150*time.Millisecond); err == ErrNotConnected {
				return "refused-update-dropped-a-session/server-call-to-k0-not-routed"
			}
			if pa, pb := vProbeWait(a, 3*time.Second), vProbeWait(b, 3*time.Second); pa != "served" || pb != "served" {
				return fmt.Sprintf("refused-update-dropped-a-session/k0=%s k1=%s", pa, pb)
			}
			c, err := w.dial(2)
			if err != nil || vProbeWait(c, 3*time.Second) != "served" {
				return "refused-update-changed-the-allow-list/listed-key-2-refused"
			}
			if d, err := w.dial(3); err == nil && vServed(d) {
				return "refused-update-changed-the-allow-list/unlisted-key-3-served"
			}
			return ""
		})
		// the first key of a list of three is taken off by passing list[1:] of the slice the server was created with:
		// the two others stay listed, registered and served
		vRegScenario(r, "revoke-the-first-of-three", []int{0, 1, 2}, func(w *vRegWorld) string {
			conns := map[int]*websocket.Conn{}
			for _, k := range []int{0, 1, 2} {
				c, err := w.dial(k)
				if err != nil {
					return "handshake-failed"
				}
				conns[k] = c
			}
			if !vWaitUntil(3*time.Second, func() bool { return w.ls.S.OpenConnections() == 3 }) {
				return "handshake-failed/not-registered"
			}
			if err := w.update([]int{1, 2}); err != nil {
				return "update-failed/" + err.Error()
			}
			if n := w.ls.S.OpenConnections(); n != 2 {
				return fmt.Sprintf("bystander-disturbed-by-revocation/open=%d want=2", n)
			}
			for _, k := range []int{1, 2} {
				if !w.listed(k) || vProbeWait(conns[k], 3*time.Second) != "served" {
					return fmt.Sprintf("bystander-disturbed-by-revocation/k%d", k)
				}
			}
			if w.listed(0) || vServed(conns[0]) {
				return "revoked-session-still-served/k0"
			}
			return ""
		})
		// key rotation: an update of equal or larger length that takes the key of a connected peer off the list
		type rot struct {
			name    string
			to      []int
			revoked []int
			stay    []int
			fresh   int
		}
		for _, rc := range []rot{
			{"rotate-equal-length", []int{1, 2}, []int{0}, []int{1}, 2},
			{"rotate-larger", []int{1, 2, 3}, []int{0}, []int{1}, 3},
			{"rotate-all-equal-length", []int{2, 3}, []int{0, 1}, nil, 2},
			{"revoke-everything", []int{}, []int{0, 1}, nil, -1}, // the empty allow-list: nobody is accepted any more
			{"update-with-a-repeated-key", []int{0, 0}, []int{1}, []int{0}, -1}, // the list is what the update says: key 1 is off it
			{"revoke-the-first-of-the-list", []int{1}, []int{0}, []int{1}, -1}, // passed as list[1:] of the list the server was created with
		} {
			rc := rc
			to := append([]int(nil), rc.to...)
			for i := len(to) - 1; i > 0; i-- { // the order of the new list is arbitrary
				j := r2.Intn(i + 1)
				to[i], to[j] = to[j], to[i]
			}
			vRegScenario(r, rc.name, []int{0, 1}, func(w *vRegWorld) string {
				conns := map[int]*websocket.Conn{}
				for _, k := range []int{0, 1} {
					c, err := w.dial(k)
					if err != nil {
						return "handshake-failed"
					}
					conns[k] = c
				}
				if !vWaitUntil(3*time.Second, func() bool { return w.ls.S.OpenConnections() == 2 }) {
					return "handshake-failed/not-registered"
				}
				if err := w.update(to); err != nil {
					return "update-failed/" + err.Error()
				}
				// right after the update has returned
				if n := w.ls.S.OpenConnections(); n != len(rc.stay) {
					return fmt.Sprintf("revoked-session-still-listed-after-update/open=%d want=%d update=%v", n, len(rc.stay), to)
				}
				// a revoked peer which does not care about the close frame it was sent (it does not read) and goes on
				// sending: a moment after the update has returned none of its requests reaches a handler any more
				time.Sleep(150 * time.Millisecond)
				w.ls.Impl.take()
				for _, k := range rc.revoked {
					conns[k].SetWriteDeadline(time.Now().Add(time.Second))
					_ = conns[k].WriteMessage(websocket.BinaryMessage, vSizedRequest(100, fmt.Sprintf("00000000-0000-4000-8000-%012d", 777000+k)))
				}
				time.Sleep(250 * time.Millisecond)
				for _, h := range w.ls.Impl.take() {
					for _, k := range rc.revoked {
						if h.Peer == w.keys[k].Static().String() {
							return fmt.Sprintf("revoked-session-still-served/request-sent-after-the-update-reached-a-handler/k%d update=%v", k, to)
						}
					}
				}
				for _, k := range rc.revoked {
					if w.listed(k) {
						return fmt.Sprintf("revoked-session-still-listed-after-update/k%d update=%v", k, to)
					}
					if err := w.serverCall(k, 200*time.Millisecond); err != ErrNotConnected {
						return fmt.Sprintf("server-call-to-revoked-key-not-refused/k%d: %v", k, err)
					}
					if vServed(conns[k]) {
						return fmt.Sprintf("revoked-session-still-served/k%d update=%v", k, to)
					}
				}
				for _, k := range rc.stay {
					if !w.listed(k) || vProbeWait(conns[k], 3*time.Second) != "served" {
						return fmt.Sprintf("bystander-disturbed-by-revocation/k%d update=%v", k, to)
					}
				}
				if rc.fresh >= 0 {
					c, err := w.dial(rc.fresh)
					if err != nil || vProbeWait(c, 3*time.Second) != "served" {
						return fmt.Sprintf("newly-listed-key-refused/k%d update=%v", rc.fresh, to)
					}
				}
				if d, err := w.dial(rc.revoked[0]); err == nil && vServed(d) {
					return fmt.Sprintf("revoked-key-got-a-new-session/k%d update=%v", rc.revoked[0], to)
				}
				return ""
			})
		}
	}
}

// ---- a peer that is dead from the very beginning leaves the view within a bounded time.
// Run with transport.go's durations scaled (VERIF_SCALE, as for C17): a raw peer completes the
// handshake and then never reads, so it answers no ping at all (gorilla answers pings only while
// ReadMessage is being called) although its socket stays open - exactly a peer whose host has
// vanished. The server must notice by itself: within pongWait + pingPeriod (+ slack) the session
// must be gone from the count, the key list and the routing, and the key must be free for the
// peer's next connection.
func TestVerifC11Silent(t *testing.T) {
	r := vNewRand(vSeed() + 1111)
	scale := int64(vEnvInt("VERIF_SCALE", 25))
	W := time.Duration(int64(20*time.Second) / scale)
	P := time.Duration(int64(18*time.Second) / scale)
	bound := W + P + 2*time.Second
	skey, dead, live := vGenKey(r), vGenKey(r), vGenKey(r)
	ls := vStartLibServer(skey, []ed25519.PublicKey{dead.Pub, live.Pub}, true)
	defer vStop(ls.S, 5*time.Second)
	c := vCase{Class: "silent-peer/from-the-start", Sig: fmt.Sprintf("silent/%d", scale)}
	info := map[string]interface{}{"scale": scale, "pong_wait_ms": W.Milliseconds(), "ping_period_ms": P.Milliseconds(), "bound_ms": bound.Milliseconds()}
	c.Info = info
	listed := func(k vKeyPair) bool {
		for _, p := range ls.S.GetConnectedPeerPublicKeys() {
			if p == k.Static() {
				return true
			}
		}
		return false
	}
	// a bystander which keeps reading (and so answers pings) for the whole time
	by, berr := vRawDial(ls.Addr, live, skey.Pub)
	if berr == nil {
		defer by.Close()
		go func() {
			for {
				if _, _, err := by.ReadMessage(); err != nil {
					return
				}
			}
		}()
	}
	conn, err := vRawDial(ls.Addr, dead, skey.Pub)
	if err != nil || berr != nil {
		c.Fail = "handshake-failed"
		info["outcome"] = fmt.Sprint(err, berr)
		vEmit(c)
		return
	}
	defer conn.Close()
	// from here on the peer never reads again
	if !vWaitUntil(3*time.Second, func() bool { return listed(dead) }) {
		// dropped before it was ever seen, or never registered: nothing to observe
		info["outcome"] = "never-listed"
		c.Fail = "handshake-failed/not-registered"
		vEmit(c)
		return
	}
	start := time.Now()
	gone := vWaitUntil(bound, func() bool { return !listed(dead) })
	info["after_ms"] = time.Since(start).Milliseconds()
	open := ls.S.OpenConnections()
	info["open"] = open
	info["bystander_listed"] = listed(live)
	info["outcome"] = fmt.Sprintf("gone=%v", gone)
	if !gone {
		c.Fail = fmt.Sprintf("dead-peer-still-listed/after %v (pongWait %v, pingPeriod %v): open=%d", time.Since(start).Round(time.Millisecond), W, P, open)
		vEmit(c)
		return
	}
	// the count and the routing agree with the key list
	want := 0
	if listed(live) {
		want = 1
	}
	if n := ls.S.OpenConnections(); n != want {
		c.Fail = fmt.Sprintf("dead-peer-still-listed/count=%d although the key list has %d", n, want)
	}
	ctx, cancel := context.WithTimeout(context.Background(), 300*time.Millisecond)
	ierr := ls.S.Invoke(peer.NewCallContext(ctx, dead.Static()), "Echo", vAppMsg("x", nil, ""), &message.Response{})
	cancel()
	if ierr != ErrNotConnected && c.Fail == "" {
		c.Fail = "dead-peer-still-routed/" + fmt.Sprint(ierr)
	}
	// the key is free again: the peer's next connection is served
	// (a few attempts: with scaled keepalive times a slow first answer on a loaded machine may cost the session)
	why := ""
	for attempt := 0; attempt < 3; attempt++ {
		again, err := vRawDial(ls.Addr, dead, skey.Pub)
		if err != nil {
			why = err.Error()
		} else {
			why = vProbeWait(again, 3*time.Second)
			again.Close()
			if why == "served" {
				break
			}
		}
		vWaitUntil(2*time.Second, func() bool { return !listed(dead) })
	}
	info["reconnect"] = why
	if why != "served" && c.Fail == "" {
		c.Fail = "reconnect-after-dead-session-refused/" + why
	}
	vEmit(c)
}
