package wsrpc

// C15: a randomised concurrent workload over every exported operation, run under the race
// detector (GORACE log_path collects the reports; the driver reads them). Each world is driven
// from one PRNG state; the operations run at the same time from many goroutines together with
// the library's own background goroutines and with connection losses injected by a proxy.

import (
	"context"
	"crypto/ed25519"
	"fmt"
	"net"
	"sync"
	"sync/atomic"
	"testing"
	"time"

	"github.com/gorilla/websocket"
	"github.com/smartcontractkit/wsrpc/credentials"
	"github.com/smartcontractkit/wsrpc/internal/backoff"
	"github.com/smartcontractkit/wsrpc/internal/message"
	"github.com/smartcontractkit/wsrpc/peer"
	"google.golang.org/protobuf/proto"
)

func vC15Spin(wg *sync.WaitGroup, stop <-chan struct{}, r *vRand, f func(r *vRand)) {
	wg.Add(1)
	rr := r.Fork()
	go func() {
		defer wg.Done()
		for {
			select {
			case <-stop:
				return
			default:
			}
			f(rr)
		}
	}()
}

// a bidirectional world: handler registration on live endpoints, calls both ways, key updates,
// queries, connection losses, then Close and Stop landing on all of it
func vC15World(r *vRand, dur time.Duration) map[string]int {
	skey, ckey, okey := vGenKey(r), vGenKey(r), vGenKey(r)
	ls := vStartLibServer(skey, []ed25519.PublicKey{ckey.Pub, okey.Pub}, false)
	// the server serves a second listener as well (Serve is an exported operation like the others)
	lis2, lerr := net.Listen("tcp", "127.0.0.1:0")
	if lerr == nil {
		go ls.S.Serve(lis2)
	}
	px := vStartProxy(ls.Addr)
	// (the dial context must outlive the connection: cancelling it is the known zombie of C08)
	cc, err := vDialLib(context.Background(), px.Addr, ckey, skey.Pub, WithBlock())
	counts := map[string]int{}
	if err != nil {
		counts["setup-failed"] = 1
		vStop(ls.S, 3*time.Second)
		px.Close()
		return counts
	}
	var mu sync.Mutex
	count := func(k string) { mu.Lock(); counts[k]++; mu.Unlock() }
	impl := &vImpl{}
	stop := make(chan struct{})
	var wg sync.WaitGroup
	// handler registration on endpoints which are serving traffic already
	vC15Spin(&wg, stop, r, func(r *vRand) { ls.S.RegisterService(vDesc(), ls.Impl); count("srv-register"); time.Sleep(time.Duration(r.Intn(3000)) * time.Microsecond) })
	vC15Spin(&wg, stop, r, func(r *vRand) { cc.RegisterService(vDesc(), impl); count("cli-register"); time.Sleep(time.Duration(r.Intn(3000)) * time.Microsecond) })
	// calls in both directions
	for i := 0; i < 3; i++ {
		vC15Spin(&wg, stop, r, func(r *vRand) {
			c, cn := context.WithTimeout(context.Background(), 60*time.Millisecond)
			if err := cc.Invoke(c, vMethods[r.Intn(len(vMethods))], vAppMsg("a", r.Bytes(r.Intn(40)), ""), &message.Response{}); err == nil {
				count("c2s-ok")
			} else {
				_ = err
				count("c2s-err")
				time.Sleep(300 * time.Microsecond)
			}
			cn()
		})
		vC15Spin(&wg, stop, r, func(r *vRand) {
			c, cn := context.WithTimeout(context.Background(), 60*time.Millisecond)
			if ls.S.Invoke(peer.NewCallContext(c, ckey.Static()), vMethods[r.Intn(len(vMethods))], vAppMsg("b", r.Bytes(r.Intn(40)), ""), &message.Response{}) == nil {
				count("s2c-ok")
			} else {
				count("s2c-err")
				time.Sleep(300 * time.Microsecond)
			}
			cn()
		})
	}
	// key updates: in the calm phase only the other key comes and goes, afterwards the client's own too
	var chaos int32
	vC15Spin(&wg, stop, r, func(r *vRand) {
		keys := []ed25519.PublicKey{ckey.Pub}
		if r.Intn(2) == 0 {
			keys = append(keys, okey.Pub)
		}
		if atomic.LoadInt32(&chaos) == 1 && r.Intn(8) == 0 {
			keys = []ed25519.PublicKey{okey.Pub}
		}
		_ = ls.S.UpdatePublicKeys(keys...)
		count("update-keys")
		time.Sleep(time.Duration(r.Intn(4000)) * time.Microsecond)
	})
	pubs := ls.S.opts.creds.PublicKeys
	vC15Spin(&wg, stop, r, func(r *vRand) {
		n := len(pubs.Keys())
		_ = pubs.Contains(ckey.Pub)
		_ = n
		count("keys-read")
		time.Sleep(time.Duration(r.Intn(500)) * time.Microsecond)
	})
	// queries
	vC15Spin(&wg, stop, r, func(r *vRand) {
		_ = ls.S.OpenConnections()
		_ = ls.S.GetConnectedPeerPublicKeys()
		_ = ls.S.GetConnectionNotifyChan()
		count("srv-query")
		time.Sleep(time.Duration(r.Intn(500)) * time.Microsecond)
	})
	vC15Spin(&wg, stop, r, func(r *vRand) {
		st := cc.GetState()
		c, cn := context.WithTimeout(context.Background(), time.Duration(1+r.Intn(3))*time.Millisecond)
		if r.Bool() {
			cc.WaitForStateChange(c, st)
		} else {
			cc.WaitForReady(c)
		}
		cn()
		count("cli-query")
	})
	// connection losses, in the second phase only (a reconnect takes a backoff pause of a second)
	vC15Spin(&wg, stop, r, func(r *vRand) {
		time.Sleep(time.Duration(10+r.Intn(30)) * time.Millisecond)
		if atomic.LoadInt32(&chaos) == 1 {
			px.CutAll()
			count("cut")
		}
	})
	// a raw peer of the other key which sends control frames (unsolicited pongs, pings) and odd data frames
	vC15Spin(&wg, stop, r, func(r *vRand) {
		c, err := vRawDial(ls.Addr, okey, skey.Pub)
		if err != nil {
			time.Sleep(5 * time.Millisecond)
			return
		}
		go func() {
			for {
				if _, _, err := c.ReadMessage(); err != nil {
					return
				}
			}
		}()
		for i := 0; i < 40; i++ {
			_ = c.WriteControl(websocket.PongMessage, []byte("p"), time.Now().Add(time.Second))
			_ = c.WriteControl(websocket.PingMessage, []byte("q"), time.Now().Add(time.Second))
			_ = c.WriteMessage(websocket.BinaryMessage, r.Bytes(r.Intn(12)))
			time.Sleep(time.Duration(r.Intn(1500)) * time.Microsecond)
		}
		c.Close()
		count("raw-control")
	})
	time.Sleep(dur * 2 / 3)
	atomic.StoreInt32(&chaos, 1)
	time.Sleep(dur / 3)
	// Close and Stop land on all of it
	done := make(chan struct{}, 2)
	go func() { vClose(cc, 5*time.Second); done <- struct{}{} }()
	time.Sleep(time.Duration(r.Intn(5)) * time.Millisecond)
	go func() { vStop(ls.S, 5*time.Second); done <- struct{}{} }()
	<-done
	<-done
	time.Sleep(5 * time.Millisecond)
	close(stop)
	wg.Wait()
	px.Close()
	return counts
}

// the key store on its own: Replace in both directions, Keys, Contains, the TLS verifier
func vC15Keys(r *vRand, dur time.Duration) map[string]int {
	ks := make([]ed25519.PublicKey, 6)
	for i := range ks {
		ks[i] = vGenKey(r).Pub
	}
	a, _ := credentials.ValidPublicKeysFromEd25519(ks[0], ks[1])
	b, _ := credentials.ValidPublicKeysFromEd25519(ks[2])
	counts := map[string]int{}
	var mu sync.Mutex
	count := func(k string) { mu.Lock(); counts[k]++; mu.Unlock() }
	stop := make(chan struct{})
	var wg sync.WaitGroup
	vC15Spin(&wg, stop, r, func(r *vRand) {
		c, _ := credentials.ValidPublicKeysFromEd25519(ks[r.Intn(6)], ks[r.Intn(6)])
		a.Replace(c)
		count("replace-a")
	})
	vC15Spin(&wg, stop, r, func(r *vRand) { a.Replace(b); count("replace-a-with-b") })
	vC15Spin(&wg, stop, r, func(r *vRand) {
		c, _ := credentials.ValidPublicKeysFromEd25519(ks[r.Intn(6)])
		b.Replace(c)
		count("replace-b")
	})
	vC15Spin(&wg, stop, r, func(r *vRand) { _ = len(a.Keys()); _ = a.Contains(ks[r.Intn(6)]); count("read-a") })
	vC15Spin(&wg, stop, r, func(r *vRand) { _ = len(b.Keys()); _ = b.Contains(ks[r.Intn(6)]); count("read-b") })
	time.Sleep(dur)
	close(stop)
	wg.Wait()
	return counts
}

// the unidirectional client against a raw echo server: calls from several goroutines, a re-dial
// and Close at the same time
func vC15Uni(r *vRand, dur time.Duration) map[string]int {
	skey, ckey := vGenKey(r), vGenKey(r)
	rs := vStartRawServer(skey, ckey.Pub)
	defer rs.Close()
	go func() {
		for c := range rs.Conns {
			go func(c *websocket.Conn) {
				for {
					_, b, err := c.ReadMessage()
					if err != nil {
						return
					}
					m := &message.Message{}
					if proto.Unmarshal(b, m) != nil || m.GetRequest() == nil {
						continue
					}
					out, _ := proto.Marshal(&message.Message{Exchange: &message.Message_Response{Response: &message.Response{CallId: m.GetRequest().CallId, Payload: m.GetRequest().Payload}}})
					if c.WriteMessage(websocket.BinaryMessage, out) != nil {
						return
					}
				}
			}(c)
		}
	}()
	counts := map[string]int{}
	var mu sync.Mutex
	count := func(k string) { mu.Lock(); counts[k]++; mu.Unlock() }
	ctx, cancel := context.WithTimeout(context.Background(), 5*time.Second)
	uc, err := DialUniWithContext(ctx, vQuietLogger{}, rs.Addr, ckey.Priv, skey.Pub)
	cancel()
	if err != nil {
		counts["setup-failed"] = 1
		return counts
	}
	stop := make(chan struct{})
	var wg sync.WaitGroup
	for i := 0; i < 3; i++ {
		vC15Spin(&wg, stop, r, func(r *vRand) {
			c, cn := context.WithTimeout(context.Background(), 100*time.Millisecond)
			if uc.Invoke(c, "Echo", vAppMsg("u", r.Bytes(8), ""), &message.Response{}) == nil {
				count("uni-ok")
			} else {
				count("uni-err")
			}
			cn()
		})
	}
	vC15Spin(&wg, stop, r, func(r *vRand) {
		time.Sleep(time.Duration(5+r.Intn(10)) * time.Millisecond)
		c, cn := context.WithTimeout(context.Background(), 500*time.Millisecond)
		_ = uc.Dial(c)
		cn()
		count("uni-redial")
	})
	time.Sleep(dur)
	_ = uc.Close()
	close(stop)
	wg.Wait()
	return counts
}

// a library client against a raw server which sends control frames and odd data
func vC15RawServer(r *vRand, dur time.Duration) map[string]int {
	skey, ckey := vGenKey(r), vGenKey(r)
	rs := vStartRawServer(skey, ckey.Pub)
	defer rs.Close()
	counts := map[string]int{}
	var mu sync.Mutex
	count := func(k string) { mu.Lock(); counts[k]++; mu.Unlock() }
	cc, err := vDialLib(context.Background(), rs.Addr, ckey, skey.Pub, WithBlock())
	if err != nil {
		counts["setup-failed"] = 1
		return counts
	}
	cc.RegisterService(vDesc(), &vImpl{})
	stop := make(chan struct{})
	var wg sync.WaitGroup
	wg.Add(1)
	rr := r.Fork() // the serving goroutine has a generator of its own
	go func() {
		r := rr
		defer wg.Done()
		for {
			select {
			case <-stop:
				return
			case c := <-rs.Conns:
				go func() {
					for {
						if _, _, err := c.ReadMessage(); err != nil {
							return
						}
					}
				}()
				for i := 0; i < 60; i++ {
					_ = c.WriteControl(websocket.PongMessage, []byte("p"), time.Now().Add(time.Second))
					_ = c.WriteControl(websocket.PingMessage, []byte("q"), time.Now().Add(time.Second))
					_ = c.WriteMessage(websocket.BinaryMessage, r.Bytes(r.Intn(12)))
					time.Sleep(time.Duration(r.Intn(1500)) * time.Microsecond)
				}
				count("raw-server-control")
			}
		}
	}()
	vC15Spin(&wg, stop, r, func(r *vRand) {
		c, cn := context.WithTimeout(context.Background(), 20*time.Millisecond)
		_ = cc.Invoke(c, "Echo", vAppMsg("r", nil, ""), &message.Response{})
		cn()
		count("call")
	})
	time.Sleep(dur)
	vClose(cc, 5*time.Second)
	close(stop)
	wg.Wait()
	return counts
}

// the backoff strategy object
func vC15Backoff(r *vRand, dur time.Duration) map[string]int {
	bs := backoff.NewDefaultExponential()
	counts := map[string]int{}
	var mu sync.Mutex
	count := func(k string) { mu.Lock(); counts[k]++; mu.Unlock() }
	stop := make(chan struct{})
	var wg sync.WaitGroup
	for i := 0; i < 3; i++ {
		vC15Spin(&wg, stop, r, func(r *vRand) { _ = bs.NextBackOff(); count("next") })
	}
	vC15Spin(&wg, stop, r, func(r *vRand) { bs.Reset(); count("reset") })
	time.Sleep(dur)
	close(stop)
	wg.Wait()
	return counts
}

func TestVerifC15(t *testing.T) {
	r := vNewRand(vSeed() + 15)
	rounds, dur := 2, 250*time.Millisecond
	if vThorough() {
		rounds, dur = 10, 600*time.Millisecond
	}
	run := func(name string, i int, f func(*vRand, time.Duration) map[string]int, d time.Duration) {
		seed := r.U64() % 1000000007
		counts := f(vNewRand(seed), d)
		fail := ""
		if counts["setup-failed"] > 0 {
			fail = "scenario-setup-failed"
		}
		vEmit(vCase{Class: "race/" + name, Sig: fmt.Sprintf("%s %d", name, seed), Fail: fail, Info: map[string]interface{}{"scenario": name, "seed": seed, "ops": counts, "outcome": "ran"}})
	}
	for i := 0; i < rounds; i++ {
		run("world", i, vC15World, dur)
		run("keys", i, vC15Keys, dur/4)
		run("uni", i, vC15Uni, dur/2)
		run("backoff", i, vC15Backoff, dur/8)
		run("raw-server", i, vC15RawServer, dur/3)
	}
}
