package wsrpc

// Histories of one session between a real ClientConn (A) and a real Server (B) over paired
// fake transports. The harness is the scheduler: it decides when a frame in flight is taken by
// the receiver, when a handler returns, when a context ends, when the connection drops, and
// what a dishonest peer injects. The label sequence it executed and what it observed at the
// end are replayed through Model/Session.v.

import (
	"context"

	"fmt"
	"runtime"
	"sort"
	"strings"
	"sync"
	"time"

	"github.com/google/uuid"
	"github.com/smartcontractkit/wsrpc/credentials"
	"github.com/smartcontractkit/wsrpc/internal/message"
	"github.com/smartcontractkit/wsrpc/peer"
	"google.golang.org/protobuf/proto"
)

type vSessCall struct {
	side   string
	token  string
	id     string
	cancel context.CancelFunc
	done   chan error
	reply  *message.Response
	err    error
	ended  bool
	labelC string
}

type vSessHandler struct {
	side    string
	token   string
	reqCoq  string
	payload []byte
	ret     bool
}

type vSess struct {
	r        *vRand
	cli      *vCliEnd
	srv      *vSrvEnd
	key      credentials.StaticSizedPublicKey // this session's key on the (possibly shared) server
	srvTr    *vFakeTr                         // this session's transport on the server
	srvDone  chan struct{}
	others   []*vSess // other sessions of the same server (multi-peer histories)
	peerBad  string
	toA, toB [][]byte
	calls    []*vSessCall
	hs       []*vSessHandler
	seenA    int
	seenB    int
	up       bool
	labels   []string
	desc     []string
	injN     int
	respN    map[string]int // response frames written, per call id (both directions)
	wmu      sync.Mutex     // the write callbacks of the two transports run on the endpoints' goroutines
}

func vNewSess(r *vRand) *vSess {
	srv := vNewSrvEnd(true)
	srv.impl.hold = true
	return vNewSessOn(r, srv, srv.key, srv.tr, srv.done)
}

// vNewSessShared adds one more authenticated session (its own key and transport) to a server
func vNewSessShared(r *vRand, srv *vSrvEnd, i int) *vSess {
	key, tr, done := vKey(10+i), vNewFakeTr(), make(chan struct{})
	srv.attach(key, tr, done)
	return vNewSessOn(r, srv, key, tr, done)
}

func vNewSessOn(r *vRand, srv *vSrvEnd, key credentials.StaticSizedPublicKey, srvTr *vFakeTr, done chan struct{}) *vSess {
	s := &vSess{r: r, cli: vNewCliEnd(true), srv: srv, key: key, srvTr: srvTr, srvDone: done, up: true}
	s.cli.impl.hold = true
	s.cli.tr.mu.Lock()
	s.respN = map[string]int{}
	note := func(b []byte) {
		m := &message.Message{}
		if proto.Unmarshal(b, m) == nil && m.GetResponse() != nil {
			s.respN[m.GetResponse().GetCallId()]++
		}
	}
	s.cli.tr.onWrite = func(b []byte) {
		s.wmu.Lock()
		defer s.wmu.Unlock()
		note(b)
		s.toB = append(s.toB, append([]byte(nil), b...))
	}
	s.cli.tr.mu.Unlock()
	s.srvTr.mu.Lock()
	s.srvTr.onWrite = func(b []byte) {
		s.wmu.Lock()
		defer s.wmu.Unlock()
		note(b)
		s.toA = append(s.toA, append([]byte(nil), b...))
	}
	s.srvTr.mu.Unlock()
	return s
}

// settle: wait until nothing observable changes any more
func (s *vSess) settle() {
	snap := func() string {
		s.cli.tr.mu.Lock()
		s.srvTr.mu.Lock()
		a, b := len(s.toA), len(s.toB)
		s.srvTr.mu.Unlock()
		s.cli.tr.mu.Unlock()
		done := 0
		for _, c := range s.calls {
			if !c.ended {
				select {
				case c.err = <-c.done:
					c.ended = true
				default:
				}
			}
			if c.ended {
				done++
			}
		}
		return fmt.Sprint(runtime.NumGoroutine(), a, b, done, len(s.cli.impl.peek()), len(s.srv.impl.peek()))
	}
	last, same, need := "", 0, 8
	deadline := time.Now().Add(2 * time.Second)
	for same < need && time.Now().Before(deadline) {
		cur := snap()
		if cur == last {
			same++
		} else {
			same, last = 0, cur
		}
		t0 := time.Now()
		time.Sleep(250 * time.Microsecond)
		if time.Since(t0) > 2*time.Millisecond && need < 48 {
			// the machine is busy: a goroutine which has something to do may be waiting for a processor, so
			// "nothing has changed for a moment" needs a longer moment
			need = 48
		}
	}
}

func (s *vSess) sideTr(side string) *vFakeTr {
	if side == "A" {
		return s.cli.tr
	}
	return s.srvTr
}

func (s *vSess) queue(to string) *[][]byte {
	if to == "A" {
		return &s.toA
	}
	return &s.toB
}

func (s *vSess) newHandlers(frame []byte) {
	la, lb := s.cli.impl.peek(), s.srv.impl.peek()
	seenB := &s.srv.seen
	add := func(side string, h vHLog) {
		m := &message.Message{}
		reqCoq := "{| r_method := []; r_callid := []; r_payload := [] |}"
		var pl []byte
		if proto.Unmarshal(frame, m) == nil && m.GetRequest() != nil {
			q := m.GetRequest()
			pl = q.GetPayload()
			reqCoq = fmt.Sprintf("{| r_method := %s; r_callid := %s; r_payload := %s |}", vCoqStr(q.GetMethod()), vCoqStr(q.GetCallId()), vCoqBytes(pl))
		}
		hi := &vSessHandler{side: side, token: h.Token, reqCoq: reqCoq, payload: pl, ret: h.DecErr}
		s.hs = append(s.hs, hi)
		if h.DecErr {
			// the generated-style handler fails at once when the payload does not decode
			s.labels = append(s.labels, fmt.Sprintf("LRet %d %s", len(s.hs)-1, vOutcomeCoq(pl)))
		}
	}
	for ; s.seenA < len(la); s.seenA++ {
		add("A", la[s.seenA])
	}
	for ; *seenB < len(lb); *seenB++ {
		// the key a server handler sees must be the key of the session its request arrived on
		if lb[*seenB].Peer != s.key.String() {
			s.peerBad = fmt.Sprintf("handler saw peer %s on the session of %s", lb[*seenB].Peer, s.key.String())
		}
		add("B", lb[*seenB])
	}
}

func (s *vSess) doCall() {
	side := []string{"A", "B"}[s.r.Intn(2)]
	i := len(s.calls)
	token := fmt.Sprintf("c%d_%d", i, s.key[0]) // unique across the sessions of a shared server
	if s.r.Intn(3) == 0 {
		// tokens are free text too (they come back inside the reply)
		token += []string{"%", "%d", "%s%!", "%%", " 100% "}[s.r.Intn(5)]
	}
	meth := []string{"Echo", "Echo", "Other", "snake_case", "Nope", "Nope%d", "100%"}[s.r.Intn(7)]
	// handler error texts are data: '%' sequences in them must arrive as they were sent (vPctText)
	dir := []string{"", "", "", "fail:" + vPctText(s.r, "handler failed"), "failv:" + vPctText(s.r, "failed with value"), "bare:" + vPctText(s.r, "untyped nil"), "empty",
		"fail:" + vPctText(s.r, "handler failed"), "failv:" + vPctText(s.r, "failed with value")}[s.r.Intn(9)]
	var pl []byte
	switch s.r.Intn(4) {
	case 0:
	case 1:
		pl = s.r.Bytes(1 + s.r.Intn(30))
	case 2:
		pl = vPat(200+s.r.Intn(2000), 1+s.r.Intn(200), s.r.Intn(256))
	default:
		pl = []byte("payload-" + token)
	}
	sent := s.up && s.r.Intn(10) > 0
	tr := s.sideTr(side)
	tr.mu.Lock()
	tr.failWrite = !sent
	tr.mu.Unlock()
	ctx, cancel := context.WithCancel(context.Background())
	c := &vSessCall{side: side, token: token, cancel: cancel, done: make(chan error, 1), reply: &message.Response{}}
	if s.r.Intn(3) == 0 {
		// the caller re-uses the reply message of an earlier call: what comes back is this call's reply and nothing else
		c.reply = &message.Response{CallId: "reply of an earlier call", Payload: []byte("left over"), Error: "stale"}
	}
	arg := vAppMsg(token, pl, dir)
	q := s.queue(map[string]string{"A": "B", "B": "A"}[side])
	before := len(*q)
	go func() {
		if side == "A" {
			c.done <- s.cli.cc.Invoke(ctx, meth, arg, c.reply)
		} else {
			c.done <- s.srv.s.Invoke(peer.NewCallContext(ctx, s.key), meth, arg, c.reply)
		}
	}()
	s.calls = append(s.calls, c)
	s.settle()
	if sent {
		// the request of a call whose write succeeds does appear: wait for it rather than for quiet
		// (on a busy machine the caller may not have run yet when everything looks quiet)
		end := time.Now().Add(3 * time.Second)
		for time.Now().Before(end) {
			s.wmu.Lock()
			n := len(*q)
			s.wmu.Unlock()
			if n > before {
				break
			}
			select {
			case err := <-c.done:
				c.done <- err // the call ended without writing (it was refused): nothing to wait for
				end = time.Now()
			default:
				time.Sleep(200 * time.Microsecond)
			}
		}
		s.settle()
	}
	tr.mu.Lock()
	tr.failWrite = !s.up
	tr.mu.Unlock()
	app, _ := proto.Marshal(arg)
	if len(*q) > before {
		m := &message.Message{}
		if proto.Unmarshal((*q)[len(*q)-1], m) == nil {
			c.id = m.GetRequest().GetCallId()
		}
	} else {
		c.id = uuid.NewString() // never written: the id is not observable, any fresh one will do
	}
	s.labels = append(s.labels, fmt.Sprintf("LCall {| c_from := %s; c_meth := %s; c_pl := %s; c_id := %s |} %s", side, vCoqStr(meth), vCoqBytes(app), vCoqStr(c.id), vCoqBool(sent)))
	s.desc = append(s.desc, fmt.Sprintf("call%d:%s:%s:%s:sent=%v", i, side, meth, dir, sent))
}

func (s *vSess) doDeliver(to string) {
	q := s.queue(to)
	s.wmu.Lock()
	if len(*q) == 0 {
		s.wmu.Unlock()
		return
	}
	frame := (*q)[0]
	*q = (*q)[1:]
	s.wmu.Unlock()
	s.labels = append(s.labels, "LDeliver "+to)
	s.desc = append(s.desc, "deliver:"+to)
	if err := vFeed(s.sideTr(to), frame); err != nil {
		s.desc = append(s.desc, "WEDGED")
		return
	}
	s.settle()
	s.newHandlers(frame)
}

func (s *vSess) doRet() {
	var open []int
	for i, h := range s.hs {
		if !h.ret {
			open = append(open, i)
		}
	}
	if len(open) == 0 {
		return
	}
	i := open[s.r.Intn(len(open))]
	h := s.hs[i]
	h.ret = true
	s.labels = append(s.labels, fmt.Sprintf("LRet %d %s", i, vOutcomeCoq(h.payload)))
	s.desc = append(s.desc, fmt.Sprintf("ret:%d", i))
	if h.side == "A" {
		s.cli.impl.release(h.token)
	} else {
		s.srv.impl.release(h.token)
	}
	s.settle()
}

func (s *vSess) doCtx() {
	var open []int
	for i, c := range s.calls {
		if !c.ended {
			open = append(open, i)
		}
	}
	if len(open) == 0 {
		return
	}
	i := open[s.r.Intn(len(open))]
	s.calls[i].cancel()
	s.labels = append(s.labels, fmt.Sprintf("LCtx %d", i))
	s.desc = append(s.desc, fmt.Sprintf("ctx:%d", i))
	s.settle()
}

func (s *vSess) doInject() {
	if !s.up {
		return
	}
	to := []string{"A", "B"}[s.r.Intn(2)]
	var m *message.Message
	var coq string
	s.injN++
	switch s.r.Intn(4) {
	case 0, 1:
		// a response carrying the id of a call pending on that side (forged), or an unknown id
		id := uuid.NewString()
		for _, c := range s.calls {
			if !c.ended && c.side == to && s.r.Bool() {
				id = c.id
			}
		}
		// a peer may also know the ids of calls pending towards OTHER peers
		for _, o := range s.others {
			for _, c := range o.calls {
				if !c.ended && c.side == to && s.r.Intn(3) == 0 {
					id = c.id
				}
			}
		}
		app, _ := proto.Marshal(vAppMsg(fmt.Sprintf("forged%d", s.injN), []byte("forged"), ""))
		e := ""
		if s.r.Intn(4) == 0 {
			e = vPctText(s.r, "forged error")
		}
		m = &message.Message{Exchange: &message.Message_Response{Response: &message.Response{CallId: id, Payload: app, Error: e}}}
		coq = fmt.Sprintf("(MResp {| p_callid := %s; p_payload := %s; p_error := %s |})", vCoqStr(id), vCoqBytes(app), vCoqStr(e))
	case 2:
		id := uuid.NewString()
		app, _ := proto.Marshal(vAppMsg(fmt.Sprintf("inj%d_%d", s.injN, s.key[0]), []byte("x"), "")) // handler gates are per token: unique across the sessions of a shared server
		m = &message.Message{Exchange: &message.Message_Request{Request: &message.Request{Method: "Echo", CallId: id, Payload: app}}}
		coq = fmt.Sprintf("(MReq {| r_method := %s; r_callid := %s; r_payload := %s |})", vCoqStr("Echo"), vCoqStr(id), vCoqBytes(app))
	default:
		m = &message.Message{}
		coq = "MNone"
	}
	q := s.queue(to)
	s.wmu.Lock()
	*q = append(*q, vFrame(m))
	s.wmu.Unlock()
	s.labels = append(s.labels, fmt.Sprintf("LInject %s %s", to, coq))
	s.desc = append(s.desc, "inject:"+to)
}

func (s *vSess) doDown() {
	s.up = false
	for _, tr := range []*vFakeTr{s.cli.tr, s.srvTr} {
		tr.mu.Lock()
		tr.failWrite = true
		tr.mu.Unlock()
	}
	s.wmu.Lock()
	s.toA, s.toB = nil, nil
	s.wmu.Unlock()
	s.labels = append(s.labels, "LDown")
	s.desc = append(s.desc, "down")
}

func (s *vSess) doUp() {
	s.up = true
	for _, tr := range []*vFakeTr{s.cli.tr, s.srvTr} {
		tr.mu.Lock()
		tr.failWrite = false
		tr.mu.Unlock()
	}
	s.labels = append(s.labels, "LUp")
	s.desc = append(s.desc, "up")
}

func (s *vSess) step(honest bool) {
	switch x := s.r.Intn(20); {
	case x < 5:
		s.doCall()
	case x < 11:
		if s.r.Bool() {
			s.doDeliver("A")
		} else {
			s.doDeliver("B")
		}
	case x < 15:
		s.doRet()
	case x < 16:
		s.doCtx()
	case x < 18:
		if !honest {
			s.doInject()
		} else {
			s.doDeliver([]string{"A", "B"}[s.r.Intn(2)])
		}
	case x < 19:
		if s.up && s.r.Intn(3) == 0 {
			s.doDown()
		} else if !s.up {
			s.doUp()
		}
	default:
		s.doRet()
	}
}

func vResultCoq(c *vSessCall) (string, string) {
	if !c.ended {
		return "None", "pending"
	}
	err := c.err
	switch {
	case err == nil:
		b, _ := proto.Marshal(c.reply)
		return "(Some (RReply " + vCoqBytes(b) + "))", "reply"
	case strings.HasPrefix(err.Error(), "call timeout"):
		return "(Some RTimeout)", "timeout"
	case strings.Contains(err.Error(), "could not write message") || err == ErrNotConnected || strings.Contains(err.Error(), "not ready"):
		return "(Some RSendFail)", "sendfail"
	default:
		return "(Some (RRemote " + vCoqStr(err.Error()) + "))", "remote"
	}
}

// finish: drain what is left in a fixed order so that histories end quiescent or not, at random
func (s *vSess) emit(class string, extraFail string) {
	s.settle()
	var res, hsCoq []string
	kinds := map[string]int{}
	fail := extraFail
	for i, c := range s.calls {
		rc, kind := vResultCoq(c)
		res = append(res, rc)
		kinds[kind]++
		// independent monitor: a reply must embed the caller's own token
		if c.ended && c.err == nil && c.reply.CallId != c.token && !strings.HasPrefix(c.reply.CallId, "forged") && c.reply.CallId != "" {
			fail = fmt.Sprintf("foreign-outcome/call%d got %q", i, c.reply.CallId)
		}
	}
	for _, h := range s.hs {
		oc := "None"
		if h.ret {
			oc = "(Some " + vOutcomeCoq(h.payload) + ")"
		}
		hsCoq = append(hsCoq, fmt.Sprintf("(%s, %s, %s)", h.side, h.reqCoq, oc))
	}
	pa, pb := s.cli.pendingIDs(), s.srv.pendingIDs(s.key)
	sort.Strings(pa)
	sort.Strings(pb)
	obs := fmt.Sprintf("{| o_results := %s; o_handlers := %s; o_pendA := %s; o_pendB := %s; o_qA := %d; o_qB := %d |}",
		vCoqList(res), vCoqList(hsCoq), vCoqIDs(pa), vCoqIDs(pb), len(s.toA), len(s.toB))
	svcs := "(Some " + vCoqIDs(vMethods) + ")"
	// pending records must equal calls in flight (C14), checked here without the model too
	inflightA, inflightB := 0, 0
	for _, c := range s.calls {
		if !c.ended {
			if c.side == "A" {
				inflightA++
			} else {
				inflightB++
			}
		}
	}
	// at most one handler run per call token, at most one response frame per call id (C05)
	runs := map[string]int{}
	for _, h := range s.hs {
		if strings.HasPrefix(h.token, "c") {
			runs[h.token]++
			if runs[h.token] > 1 {
				fail = "handler-ran-twice/" + h.token
			}
		}
	}
	s.wmu.Lock()
	respN := map[string]int{}
	for id, n := range s.respN {
		respN[id] = n
	}
	s.wmu.Unlock()
	for id, n := range respN {
		injected := false
		for _, l := range s.labels {
			if strings.HasPrefix(l, "LInject") && strings.Contains(l, vCoqStr(id)) {
				injected = true
			}
		}
		if n > 1 && !injected {
			fail = "request-answered-twice/" + id
		}
	}
	if s.peerBad != "" {
		fail = "peer-identity/" + s.peerBad
	}
	if len(pa) != inflightA || len(pb) != inflightB {
		fail = fmt.Sprintf("pending-records-differ-from-calls-in-flight/A:%d/%d,B:%d/%d", len(pa), inflightA, len(pb), inflightB)
	}
	vEmit(vCase{Class: class, Fail: fail, Coq: fmt.Sprintf("CHist %s %s %s %s", svcs, svcs, vCoqList(s.labels), obs),
		Sig:  strings.Join(s.desc, ","),
		Info: map[string]interface{}{"steps": s.desc, "calls": len(s.calls), "handlers": len(s.hs), "results": kinds, "outcome": fmt.Sprint(kinds)}})
	// release everything so that goroutines end
	for _, h := range s.hs {
		if h.side == "A" {
			s.cli.impl.release(h.token)
		} else {
			s.srv.impl.release(h.token)
		}
	}
	for _, c := range s.calls {
		c.cancel()
	}
	s.cli.cc.cancel()
	close(s.srvDone)
}
