package wsrpc

// In-package endpoints over fake transports: the dispatch and call logic of
// ClientConn and Server runs unmodified, the socket is replaced by channels the
// harness controls (what arrives, when writes succeed, fail or block).

import (
	"context"
	"errors"
	"fmt"
	"os"
	"os/exec"
	"runtime"
	"sort"
	"strings"
	"sync"
	"testing"
	"time"

	"github.com/smartcontractkit/wsrpc/credentials"
	"github.com/smartcontractkit/wsrpc/internal/message"
	"github.com/smartcontractkit/wsrpc/peer"
	"google.golang.org/grpc/connectivity"
	"google.golang.org/protobuf/proto"
)

// ---- fake transport (implements transport.ServerTransport and transport.ClientTransport)
type vFakeTr struct {
	read chan []byte

	mu        sync.Mutex
	writes    [][]byte
	failWrite bool          // Write returns an error
	holdWrite chan struct{} // non-nil: Write blocks until closed or ctx done
	closed    int
	onWrite   func([]byte)
}

func vNewFakeTr() *vFakeTr { return &vFakeTr{read: make(chan []byte)} }

func (f *vFakeTr) Read() <-chan []byte { return f.read }
func (f *vFakeTr) Write(ctx context.Context, msg []byte) error {
	f.mu.Lock()
	hold, fail := f.holdWrite, f.failWrite
	f.mu.Unlock()
	if hold != nil {
		select {
		case <-hold:
		case <-ctx.Done():
			return errors.New("[fake] could not write message, context is done")
		}
	}
	if fail {
		return errors.New("[fake] could not write message, websocket is closed")
	}
	select {
	case <-ctx.Done():
		return errors.New("[fake] could not write message, context is done")
	default:
	}
	f.mu.Lock()
	f.writes = append(f.writes, append([]byte(nil), msg...))
	cb := f.onWrite
	f.mu.Unlock()
	if cb != nil {
		cb(msg)
	}
	return nil
}
func (f *vFakeTr) peekWrites() [][]byte {
	f.mu.Lock()
	defer f.mu.Unlock()
	return append([][]byte(nil), f.writes...)
}
func (f *vFakeTr) takeWrites() [][]byte {
	f.mu.Lock()
	defer f.mu.Unlock()
	w := f.writes
	f.writes = nil
	return w
}

type vFakeSrvTr struct{ *vFakeTr }

func (f vFakeSrvTr) Close() error { f.mu.Lock(); f.closed++; f.mu.Unlock(); return nil }

type vFakeCliTr struct{ *vFakeTr }

func (f vFakeCliTr) Close() { f.mu.Lock(); f.closed++; f.mu.Unlock() }
func (f vFakeCliTr) Start() {}

// ---- the harness service: three methods, behaviour chosen by the request itself.
// Application messages are message.Response values (a proto.Message the module
// already has): CallId carries the caller's token, Payload the body, Error a directive.
type vHLog struct {
	Method  string
	Token   string
	Payload []byte
	Dir     string
	Peer    string
	DecErr  bool
	Seq     int64
}

type vImpl struct {
	mu   sync.Mutex
	log  []vHLog
	gate map[string]chan struct{} // token -> released when the handler may return
	hold bool                     // every handler waits for its token's gate (created on demand)
	seq  *int64
}

// gateFor returns the gate of a token, creating it when handlers are held
func (im *vImpl) gateFor(token string) chan struct{} {
	im.mu.Lock()
	defer im.mu.Unlock()
	if im.gate == nil {
		im.gate = map[string]chan struct{}{}
	}
	g, ok := im.gate[token]
	if !ok && im.hold {
		g = make(chan struct{})
		im.gate[token] = g
	}
	return g
}

func (im *vImpl) release(token string) {
	g := im.gateFor(token)
	if g != nil {
		select {
		case <-g:
		default:
			close(g)
		}
	}
}

func (im *vImpl) peek() []vHLog {
	im.mu.Lock()
	defer im.mu.Unlock()
	return append([]vHLog(nil), im.log...)
}

func (im *vImpl) take() []vHLog {
	im.mu.Lock()
	defer im.mu.Unlock()
	l := im.log
	im.log = nil
	return l
}

func vMkHandler(method string) methodHandler {
	return func(srv interface{}, ctx context.Context, dec func(interface{}) error) (interface{}, error) {
		im := srv.(*vImpl)
		in := new(message.Response)
		pk := ""
		if p, ok := peer.FromContext(ctx); ok {
			pk = p.PublicKey.String()
		}
		if err := dec(in); err != nil {
			im.mu.Lock()
			im.log = append(im.log, vHLog{Method: method, DecErr: true, Peer: pk})
			im.mu.Unlock()
			return nil, err // exactly what generated stubs do
		}
		im.mu.Lock()
		im.log = append(im.log, vHLog{Method: method, Token: in.CallId, Payload: in.Payload, Dir: in.Error, Peer: pk})
		im.mu.Unlock()
		gate := im.gateFor(in.CallId)
		if gate != nil {
			<-gate
		}
		dir := in.Error
		switch {
		case strings.HasPrefix(dir, "fail:"):
			return (*message.Response)(nil), errors.New(dir[5:])
		case strings.HasPrefix(dir, "failv:"):
			return &message.Response{CallId: in.CallId, Payload: in.Payload}, errors.New(dir[6:])
		case strings.HasPrefix(dir, "bare:"):
			return nil, errors.New(dir[5:])
		case strings.HasPrefix(dir, "sleep:"):
			var ms int
			fmt.Sscanf(dir[6:], "%d", &ms)
			time.Sleep(time.Duration(ms) * time.Millisecond)
		case dir == "empty":
			return &message.Response{}, nil
		}
		return &message.Response{CallId: in.CallId, Payload: in.Payload}, nil
	}
}

var vMethods = []string{"Echo", "Other", "snake_case"}

func vDesc() *ServiceDesc {
	d := &ServiceDesc{ServiceName: "verif.Probe", HandlerType: (*interface{})(nil)}
	for _, m := range vMethods {
		d.Methods = append(d.Methods, MethodDesc{MethodName: m, Handler: vMkHandler(m)})
	}
	return d
}

// what the handler above returns for a decoded request, as a Coq Dispatch.outcome
func vOutcomeCoq(payload []byte) string {
	in := new(message.Response)
	if err := proto.Unmarshal(payload, in); err != nil {
		return fmt.Sprintf("(FailBare %s)", vCoqStr(err.Error()))
	}
	dir := in.Error
	val, _ := proto.Marshal(&message.Response{CallId: in.CallId, Payload: in.Payload})
	switch {
	case strings.HasPrefix(dir, "fail:"):
		return fmt.Sprintf("(FailWith [] %s)", vCoqStr(dir[5:]))
	case strings.HasPrefix(dir, "failv:"):
		return fmt.Sprintf("(FailWith %s %s)", vCoqBytes(val), vCoqStr(dir[6:]))
	case strings.HasPrefix(dir, "bare:"):
		return fmt.Sprintf("(FailBare %s)", vCoqStr(dir[5:]))
	case dir == "empty":
		return "(Reply [])"
	}
	return fmt.Sprintf("(Reply %s)", vCoqBytes(val))
}

// ---- endpoints
type vSrvEnd struct {
	seen int // cursor into impl's log, shared by the sessions of this server
	s    *Server
	key  credentials.StaticSizedPublicKey
	tr   *vFakeTr
	impl *vImpl
	done chan struct{}
}

func vKey(i int) credentials.StaticSizedPublicKey {
	var k credentials.StaticSizedPublicKey
	for j := range k {
		k[j] = byte(i*37 + j)
	}
	return k
}

func vNewSrvEnd(withSvc bool) *vSrvEnd {
	e := &vSrvEnd{s: NewServer(), key: vKey(1), tr: vNewFakeTr(), impl: &vImpl{}, done: make(chan struct{})}
	if withSvc {
		e.s.RegisterService(vDesc(), e.impl)
	}
	e.attach(e.key, e.tr, e.done)
	return e
}

// attach registers a fake session the way wshandler does after the upgrade
func (e *vSrvEnd) attach(key credentials.StaticSizedPublicKey, tr *vFakeTr, done chan struct{}) {
	e.s.connMgr.registerConnection(key, vFakeSrvTr{tr})
	go e.s.handleRead(key, vFakeSrvTr{tr}, done)
}

func (e *vSrvEnd) pendingIDs(key credentials.StaticSizedPublicKey) []string {
	e.s.mu.RLock()
	defer e.s.mu.RUnlock()
	var ids []string
	if m, ok := e.s.methodCalls.MethodCalls[key]; ok {
		for id := range m.MethodCallsForPublicKey {
			ids = append(ids, id)
		}
	}
	sort.Strings(ids)
	return ids
}

func (e *vSrvEnd) pendingTotal() int {
	e.s.mu.RLock()
	defer e.s.mu.RUnlock()
	n := 0
	for _, m := range e.s.methodCalls.MethodCalls {
		n += len(m.MethodCallsForPublicKey)
	}
	return n
}

type vCliEnd struct {
	cc   *ClientConn
	tr   *vFakeTr
	impl *vImpl
	done chan struct{}
}

func vNewCliEnd(withSvc bool) *vCliEnd {
	ctx, cancel := context.WithCancel(context.Background())
	cc := &ClientConn{ctx: ctx, cancel: cancel, wg: &sync.WaitGroup{}, csMgr: &connectivityStateManager{},
		dopts: defaultDialOptions(), methodCalls: map[string]MethodCallHandler{}}
	tr := vNewFakeTr()
	ac := &addrConn{state: connectivity.Ready, wg: &sync.WaitGroup{}, stateCh: make(chan connectivity.State), dopts: cc.dopts, transport: vFakeCliTr{tr}}
	ac.ctx, ac.cancel = context.WithCancel(ctx)
	cc.addrConn = ac
	cc.csMgr.updateState(connectivity.Ready)
	e := &vCliEnd{cc: cc, tr: tr, impl: &vImpl{}, done: make(chan struct{})}
	if withSvc {
		cc.RegisterService(vDesc(), e.impl)
	}
	cc.wg.Add(1)
	go cc.handleRead(vFakeCliTr{tr}, e.done)
	return e
}

func (e *vCliEnd) pendingIDs() []string {
	e.cc.mu.RLock()
	defer e.cc.mu.RUnlock()
	var ids []string
	for id := range e.cc.methodCalls {
		ids = append(ids, id)
	}
	sort.Strings(ids)
	return ids
}

// ---- feeding frames and waiting for quiescence
var errWedged = errors.New("read hand-off not taken: dispatcher wedged")

func vFeed(tr *vFakeTr, frame []byte) error {
	select {
	case tr.read <- frame:
		return nil
	case <-time.After(3 * time.Second):
		return errWedged
	}
}

// vSettle waits until the number of goroutines is back at base (the work a frame
// started has finished). Returns false if some goroutine is still there after 1.5 s.
func vSettle(base int) bool {
	deadline := time.Now().Add(1500 * time.Millisecond)
	ok := 0
	for time.Now().Before(deadline) {
		if runtime.NumGoroutine() <= base {
			ok++
			if ok >= 3 {
				return true
			}
		} else {
			ok = 0
		}
		time.Sleep(150 * time.Microsecond)
	}
	return false
}

func vGoroutineDump() string {
	buf := make([]byte, 1<<20)
	n := runtime.Stack(buf, true)
	return string(buf[:n])
}

// vParked lists wsrpc functions in which goroutines are currently blocked.
func vParked() []string {
	var res []string
	for _, g := range strings.Split(vGoroutineDump(), "\n\n") {
		if !strings.Contains(g, "smartcontractkit/wsrpc") {
			continue
		}
		lines := strings.Split(g, "\n")
		if len(lines) == 0 || strings.Contains(lines[0], "running") {
			continue
		}
		for _, l := range lines[1:] {
			if strings.Contains(l, "smartcontractkit/wsrpc.") && !strings.Contains(l, "wsrpc.v") && !strings.Contains(l, "wsrpc.TestVerif") {
				fn := l
				if i := strings.Index(fn, "wsrpc."); i >= 0 {
					fn = fn[i+6:]
				}
				if i := strings.Index(fn, "("); i > 0 && !strings.HasPrefix(fn, "(") {
					fn = fn[:i]
				} else if j := strings.LastIndex(fn, "("); j > 0 {
					fn = fn[:j]
				}
				res = append(res, strings.TrimSpace(fn))
				break
			}
		}
	}
	sort.Strings(res)
	return res
}

// ---- child processes: anything that can kill the process runs in one
func vRunChild(t *testing.T, test string, spec string, timeout time.Duration) (ok bool, out string) {
	ctx, cancel := context.WithTimeout(context.Background(), timeout)
	defer cancel()
	cmd := exec.CommandContext(ctx, os.Args[0], "-test.run=^"+test+"$", "-test.count=1", "-test.timeout="+timeout.String())
	cmd.Env = append(os.Environ(), "VERIF_CHILD="+spec)
	b, err := cmd.CombinedOutput()
	return err == nil, string(b)
}

func vRunChildEnv(t *testing.T, test string, spec string, timeout time.Duration, env ...string) (ok bool, out string) {
	ctx, cancel := context.WithTimeout(context.Background(), timeout)
	defer cancel()
	cmd := exec.CommandContext(ctx, os.Args[0], "-test.run=^"+test+"$", "-test.count=1", "-test.timeout="+timeout.String())
	cmd.Env = append(append(os.Environ(), "VERIF_CHILD="+spec), env...)
	b, err := cmd.CombinedOutput()
	return err == nil, string(b)
}

func vChildSpec() string { return os.Getenv("VERIF_CHILD") }

func vPanicLine(out string) string {
	for _, l := range strings.Split(out, "\n") {
		if strings.HasPrefix(l, "panic:") || strings.HasPrefix(l, "fatal error:") {
			return l
		}
	}
	if len(out) > 300 {
		return out[len(out)-300:]
	}
	return out
}

func vAppMsg(token string, payload []byte, dir string) *message.Response {
	return &message.Response{CallId: token, Payload: payload, Error: dir}
}
