package wsrpc

// C18 root-level harness: option lists -> the configuration handed to the
// transports (captured through a source rewrite of the two constructor calls),
// and end-to-end delivery around small limits over real sockets, plus the
// write-stall bound.

import (
	"context"
	"crypto/ed25519"
	"fmt"
	"strings"
	"sync"
	"testing"
	"time"

	"github.com/gorilla/websocket"
	"github.com/smartcontractkit/wsrpc/internal/message"
	"github.com/smartcontractkit/wsrpc/internal/transport"
	"github.com/smartcontractkit/wsrpc/logger"
	"github.com/smartcontractkit/wsrpc/peer"
	"google.golang.org/grpc/connectivity"
	"google.golang.org/protobuf/proto"
)

var (
	vCapMu     sync.Mutex
	vCapServer []transport.ServerConfig
	vCapClient []transport.ConnectOptions
	vCapFail   bool // the client constructor reports a dial error instead of dialing
	vCapScript []bool // scripted dial outcomes (false = fail without dialing); exhausted = dial for real
	// vCapAfterDial, when set, runs after a dial of the reconnect loop has succeeded and before the new
	// transport is handed back to the loop; `ended` is closed once the transport's close callback has run
	vCapAfterDial func(ended <-chan struct{})
)

func vNewServerTransport(c transport.WebSocketConn, config *transport.ServerConfig, after func()) transport.ServerTransport {
	vCapMu.Lock()
	vCapServer = append(vCapServer, *config)
	vCapMu.Unlock()
	return transport.NewServerTransport(c, config, after)
}

func vNewClientTransport(ctx context.Context, lggr logger.Logger, addr string, opts transport.ConnectOptions, after func()) (transport.ClientTransport, error) {
	vCapMu.Lock()
	vCapClient = append(vCapClient, opts)
	fail := vCapFail
	if len(vCapScript) > 0 {
		fail = !vCapScript[0]
		vCapScript = vCapScript[1:]
	}
	hook := vCapAfterDial
	vCapMu.Unlock()
	if fail {
		return nil, fmt.Errorf("verif: capture only")
	}
	if hook == nil {
		return transport.NewClientTransport(ctx, lggr, addr, opts, after)
	}
	ended := make(chan struct{})
	var once sync.Once
	tr, err := transport.NewClientTransport(ctx, lggr, addr, opts, func() {
		after()
		once.Do(func() { close(ended) })
	})
	if err == nil {
		hook(ended)
	}
	return tr, err
}

var vC18Vals = []int64{0, 0, 0, 1, 1024, 65536, 10_000_000, 100_000_000, 123456789, -1}
var vC18Durs = []int64{0, 0, 0, 1, int64(50 * time.Millisecond), int64(time.Second), int64(10 * time.Second), int64(time.Minute), -1}

func TestVerifC18(t *testing.T) {
	r := vNewRand(vSeed() + 18)
	d := defaultServerOptions
	vEmit(vCase{Class: "consts", Info: map[string]interface{}{"srv_read_limit": d.wsReadLimit, "srv_ws_timeout": int64(d.wsTimeout)}})
	skey, ckey := vGenKey(r), vGenKey(r)
	nOpt := 40
	if vThorough() {
		nOpt = 300
	}
	// ---- client option lists -> ConnectOptions
	type copt struct {
		kind int // 0 read limit, 1 write timeout, 2 other
		v    int64
	}
	var clists [][]copt
	for i := 0; i < nOpt; i++ {
		var l []copt
		for j, n := 0, r.Intn(5); j < n; j++ {
			switch r.Intn(4) {
			case 0, 1:
				l = append(l, copt{0, vC18Vals[r.Intn(len(vC18Vals))]})
			case 2:
				l = append(l, copt{1, vC18Durs[r.Intn(len(vC18Durs))]})
			default:
				l = append(l, copt{2, 0})
			}
		}
		clists = append(clists, l)
	}
	// every pair of a read limit and a write timeout, in both orders
	for _, rl := range []int64{0, 1, 65536, 100_000_000, 123456789, -1} {
		for _, d := range []int64{0, 1, int64(time.Second), int64(10 * time.Second), -1} {
			clists = append(clists, []copt{{0, rl}, {1, d}}, []copt{{1, d}, {0, rl}})
		}
	}
	for _, cl := range clists {
		var opts []DialOption
		var coq []string
		for _, o := range cl {
			switch o.kind {
			case 0:
				opts = append(opts, WithReadLimit(o.v))
				coq = append(coq, "DReadLimit "+vCoqZ(o.v))
			case 1:
				opts = append(opts, WithWriteTimeout(time.Duration(o.v)))
				coq = append(coq, "DWriteTimeout "+vCoqZ(o.v))
			default:
				opts = append(opts, WithLogger(vQuietLogger{}))
				coq = append(coq, "DOther")
			}
		}
		vCapMu.Lock()
		vCapClient, vCapFail = nil, true
		vCapMu.Unlock()
		// the credentials option sits anywhere in the list: what the other options set must not depend on it
		pos, signer := r.Intn(len(opts)+1), r.Intn(2) == 0
		cc, err := vDialLibAt(context.Background(), "127.0.0.1:1", ckey, skey.Pub, pos, signer, opts...)
		if err != nil {
			t.Fatalf("dial: %v", err)
		}
		coq = append(append(append([]string{}, coq[:pos]...), "DOther"), coq[pos:]...)
		vWaitUntil(2*time.Second, func() bool { vCapMu.Lock(); defer vCapMu.Unlock(); return len(vCapClient) > 0 })
		closed := vClose(cc, 5*time.Second)
		vCapMu.Lock()
		caps := vCapClient
		vCapFail = false
		vCapMu.Unlock()
		c := vCase{Class: "client-opts", Sig: "c/" + strings.Join(coq, ";"), Info: map[string]interface{}{"opts": coq}}
		if !closed {
			c.Fail = "close-hangs"
		}
		if len(caps) == 0 {
			c.Fail = "client-config-not-captured"
		} else {
			c.Coq = fmt.Sprintf("CClientCfg %s {| rl := %s; wt := %s |}", vCoqList(coq), vCoqZ(caps[0].ReadLimit), vCoqZ(int64(caps[0].WriteTimeout)))
			c.Info.(map[string]interface{})["outcome"] = fmt.Sprintf("rl=%d wt=%d", caps[0].ReadLimit, caps[0].WriteTimeout)
		}
		vEmit(c)
	}
	// ---- server option lists -> ServerConfig (needs one real connection each)
	type sopt struct {
		kind int // 0 read limit, 1 write timeout, 2 other
		v    int64
	}
	var slists [][]sopt
	for i := 0; i < nOpt; i++ {
		var l []sopt
		for j, n := 0, r.Intn(4); j < n; j++ {
			switch r.Intn(4) {
			case 0, 1:
				l = append(l, sopt{0, vC18Vals[r.Intn(len(vC18Vals))]})
			case 2:
				l = append(l, sopt{1, vC18Durs[r.Intn(len(vC18Durs))]})
			default:
				l = append(l, sopt{2, 0})
			}
		}
		slists = append(slists, l)
	}
	// every pair of a read limit and a write timeout, in both orders: what one option sets does not depend on the other
	for _, rl := range []int64{0, 1024, 65536, 10_000_000, 100_000_000, 123456789, -1} {
		for _, d := range []int64{0, int64(50 * time.Millisecond), int64(time.Second), int64(10 * time.Second), int64(time.Minute)} {
			slists = append(slists, []sopt{{0, rl}, {1, d}}, []sopt{{1, d}, {0, rl}})
		}
	}
	for _, sl := range slists {
		var opts []ServerOption
		var coq []string
		for _, o := range sl {
			switch o.kind {
			case 0:
				opts = append(opts, WithWSReadLimit(o.v))
				coq = append(coq, "SReadLimit "+vCoqZ(o.v))
			case 1:
				v := o.v
				if v < int64(50*time.Millisecond) {
					v = 0 // the value is also the HTTP read timeout of the handshake: tiny or negative ones make no session at all
				}
				opts = append(opts, WithHTTPReadTimeout(time.Second, time.Duration(v)))
				coq = append(coq, fmt.Sprintf("SHTTPReadTimeout %s %s", vCoqZ(int64(time.Second)), vCoqZ(v)))
			default:
				opts = append(opts, ReadBufferSize(2048))
				coq = append(coq, "SOther")
			}
		}
		vCapMu.Lock()
		vCapServer = nil
		vCapMu.Unlock()
		pos := r.Intn(len(opts) + 1)
		ls := vStartLibServerAt(skey, []ed25519.PublicKey{ckey.Pub}, true, pos, opts...)
		coq = append(append(append([]string{}, coq[:pos]...), "SOther"), coq[pos:]...)
		conn, err := vRawDial(ls.Addr, ckey, skey.Pub)
		c := vCase{Class: "server-opts", Sig: "s/" + strings.Join(coq, ";"), Info: map[string]interface{}{"opts": coq}}
		if err != nil {
			c.Fail = "server-handshake-failed"
			c.Info.(map[string]interface{})["err"] = err.Error()
		} else {
			vWaitUntil(2*time.Second, func() bool { vCapMu.Lock(); defer vCapMu.Unlock(); return len(vCapServer) > 0 })
			vCapMu.Lock()
			caps := vCapServer
			vCapMu.Unlock()
			if len(caps) == 0 {
				c.Fail = "server-config-not-captured"
			} else {
				c.Coq = fmt.Sprintf("CServerCfg K %s {| rl := %s; wt := %s |}", vCoqList(coq), vCoqZ(caps[0].ReadLimit), vCoqZ(int64(caps[0].WriteTimeout)))
				c.Info.(map[string]interface{})["outcome"] = fmt.Sprintf("rl=%d wt=%d", caps[0].ReadLimit, caps[0].WriteTimeout)
			}
			conn.Close()
		}
		vStop(ls.S, 5*time.Second)
		vEmit(c)
	}
	// ---- end to end: frames of size limit-1, limit, limit+1 on both roles, with a bystander
	limits := []int{1024, 65536}
	if vThorough() {
		limits = append(limits, 300_000, 10_000_000)
	}
	for _, limit := range limits {
		vC18ServerLimit(r, skey, ckey, limit)
		vC18ClientLimit(r, skey, ckey, limit)
	}
	vC18Stall(r, skey, ckey)
	vC18IdleThenWrite(r, skey, ckey)
}

// a request frame whose total length is exactly n bytes
func vSizedRequest(n int, id string) []byte {
	base := vFrame(&message.Message{Exchange: &message.Message_Request{Request: &message.Request{Method: "Echo", CallId: id}}})
	pad := n - len(base) - 8
	if pad < 0 {
		pad = 0
	}
	for {
		app, _ := proto.Marshal(vAppMsg("sz", make([]byte, pad), ""))
		f := vFrame(&message.Message{Exchange: &message.Message_Request{Request: &message.Request{Method: "Echo", CallId: id, Payload: app}}})
		if len(f) == n {
			return f
		}
		if len(f) > n {
			pad -= len(f) - n
		} else {
			pad += n - len(f)
		}
		if pad < 0 {
			return f
		}
	}
}

func vC18ServerLimit(r *vRand, skey, ckey vKeyPair, limit int) {
	other := vGenKey(r)
	for _, size := range []int{limit - 1, limit, limit + 1} {
		ls := vStartLibServer(skey, []ed25519.PublicKey{ckey.Pub, other.Pub}, true, WithWSReadLimit(int64(limit)))
		by, err1 := vRawDial(ls.Addr, other, skey.Pub)
		conn, err2 := vRawDial(ls.Addr, ckey, skey.Pub)
		c := vCase{Class: "deliver/server", Sig: fmt.Sprintf("srv/%d/%d", limit, size), Info: map[string]interface{}{"limit": limit, "size": size}}
		if err1 != nil || err2 != nil {
			c.Fail = "server-handshake-failed"
			vEmit(c)
			vStop(ls.S, 5*time.Second)
			continue
		}
		vWaitUntil(2*time.Second, func() bool { return ls.S.OpenConnections() == 2 })
		ls.Impl.take()
		id := "00000000-0000-4000-8000-000000000001"
		_ = conn.WriteMessage(websocket.BinaryMessage, vSizedRequest(size, id))
		delivered := vWaitUntil(700*time.Millisecond, func() bool { ls.Impl.mu.Lock(); defer ls.Impl.mu.Unlock(); return len(ls.Impl.log) > 0 })
		// the offender's session ends iff the frame was refused; the bystander always stays
		dropped := vWaitUntil(700*time.Millisecond, func() bool { return ls.S.OpenConnections() == 1 })
		_ = by.WriteMessage(websocket.BinaryMessage, vSizedRequest(200, "00000000-0000-4000-8000-000000000002"))
		by.SetReadDeadline(time.Now().Add(2 * time.Second))
		_, _, berr := by.ReadMessage()
		c.Coq = fmt.Sprintf("CDeliver %d %d %s", limit, size, vCoqBool(delivered))
		c.Info.(map[string]interface{})["outcome"] = fmt.Sprintf("delivered=%v dropped=%v bystander_ok=%v", delivered, dropped, berr == nil)
		if delivered == dropped {
			c.Fail = "limit-session-fate"
		}
		if berr != nil {
			c.Fail = "limit-bystander-disturbed"
		}
		vEmit(c)
		conn.Close()
		by.Close()
		vStop(ls.S, 5*time.Second)
	}
}

func vC18ClientLimit(r *vRand, skey, ckey vKeyPair, limit int) {
	for _, size := range []int{limit - 1, limit, limit + 1} {
		rs := vStartRawServer(skey, ckey.Pub)
		// the dial context must outlive the connection (cancelling it stops the background loops)
		ctx, cancel := context.WithTimeout(context.Background(), 60*time.Second)
		defer cancel()
		cc, err := vDialLib(ctx, rs.Addr, ckey, skey.Pub, WithBlock(), WithReadLimit(int64(limit)))
		c := vCase{Class: "deliver/client", Sig: fmt.Sprintf("cli/%d/%d", limit, size), Info: map[string]interface{}{"limit": limit, "size": size}}
		if err != nil {
			c.Fail = "client-dial-failed"
			vEmit(c)
			rs.Close()
			continue
		}
		impl := &vImpl{}
		cc.RegisterService(vDesc(), impl)
		var peer *websocket.Conn
		select {
		case peer = <-rs.Conns:
		case <-time.After(2 * time.Second):
		}
		if peer != nil {
			_ = peer.WriteMessage(websocket.BinaryMessage, vSizedRequest(size, "00000000-0000-4000-8000-000000000003"))
		}
		delivered := vWaitUntil(700*time.Millisecond, func() bool { impl.mu.Lock(); defer impl.mu.Unlock(); return len(impl.log) > 0 })
		c.Coq = fmt.Sprintf("CDeliver %d %d %s", limit, size, vCoqBool(delivered))
		c.Info.(map[string]interface{})["outcome"] = fmt.Sprintf("delivered=%v", delivered)
		if !vClose(cc, 5*time.Second) {
			c.Fail = "close-hangs"
		}
		vEmit(c)
		rs.Close()
	}
}

// a raw peer that stops reading: the library sender must be released (session dropped)
// within the write timeout once the socket buffers are full
func vC18Stall(r *vRand, skey, ckey vKeyPair) {
	timeout := 300 * time.Millisecond
	ls := vStartLibServer(skey, []ed25519.PublicKey{ckey.Pub}, true, WithHTTPReadTimeout(time.Second, timeout))
	defer vStop(ls.S, 5*time.Second)
	conn, err := vRawDial(ls.Addr, ckey, skey.Pub)
	c := vCase{Class: "stall/server", Sig: "stall/server", Info: map[string]interface{}{"write_timeout_ms": timeout.Milliseconds()}}
	if err != nil {
		c.Fail = "server-handshake-failed"
		vEmit(c)
		return
	}
	defer conn.Close()
	vWaitUntil(2*time.Second, func() bool { return ls.S.OpenConnections() == 1 })
	// never read from conn; push 1 MB calls until the session is dropped
	big, _ := proto.Marshal(vAppMsg("big", make([]byte, 1<<20), ""))
	_ = big
	start := time.Now()
	var lastProgress time.Time = start
	dropped := false
	for i := 0; i < 400 && time.Since(start) < 20*time.Second; i++ {
		ctx, cancel := context.WithTimeout(context.Background(), 30*time.Millisecond)
		err := ls.S.sendMsg(ctx, ckey.Static(), make([]byte, 1<<20))
		cancel()
		if err == nil {
			lastProgress = time.Now()
		}
		if ls.S.OpenConnections() == 0 {
			dropped = true
			break
		}
	}
	stall := time.Since(lastProgress)
	c.Info.(map[string]interface{})["outcome"] = fmt.Sprintf("dropped=%v", dropped)
	c.Info.(map[string]interface{})["stall_ms"] = stall.Milliseconds()
	if !dropped {
		c.Fail = "stall-session-not-dropped"
	} else if stall > timeout+1500*time.Millisecond {
		c.Fail = "stall-exceeds-write-timeout"
	}
	vEmit(c)
}

// the write timeout bounds a write, not the time since the previous one: a healthy session which
// idles for several write timeouts must carry the next call in each direction and stay the same session
func vC18IdleThenWrite(r *vRand, skey, ckey vKeyPair) {
	timeout := 500 * time.Millisecond
	idle := 5 * timeout
	ls := vStartLibServer(skey, []ed25519.PublicKey{ckey.Pub}, true, WithHTTPReadTimeout(time.Second, timeout))
	defer vStop(ls.S, 5*time.Second)
	px := vStartProxy(ls.Addr)
	defer px.Close()
	ctx, cancel := context.WithTimeout(context.Background(), 120*time.Second)
	defer cancel()
	info := map[string]interface{}{"write_timeout_ms": timeout.Milliseconds(), "idle_ms": idle.Milliseconds(), "outcome": "ok"}
	c := vCase{Class: "idle-then-write", Sig: "idle-then-write", Info: info}
	cc, err := vDialLib(ctx, px.Addr, ckey, skey.Pub, WithBlock(), WithWriteTimeout(timeout))
	if err != nil {
		c.Fail = "client-dial-failed"
		vEmit(c)
		return
	}
	cc.RegisterService(vDesc(), &vImpl{})
	both := func(tag string) (error, error) {
		cctx, ccancel := context.WithTimeout(context.Background(), 3*time.Second)
		defer ccancel()
		out := &message.Response{}
		s2c := ls.S.Invoke(peer.NewCallContext(cctx, ckey.Static()), "Echo", vAppMsg("s2c"+tag, []byte("y"), ""), out)
		out2 := &message.Response{}
		c2s := cc.Invoke(cctx, "Echo", vAppMsg("c2s"+tag, []byte("x"), ""), out2)
		return c2s, s2c
	}
	// both write pumps have written once
	warm := vWaitUntil(5*time.Second, func() bool { a, b := both("-warm"); return a == nil && b == nil })
	if !warm {
		a, b := both("-warm")
		c.Fail = "session-not-usable"
		info["outcome"] = fmt.Sprint(a, " | ", b)
		vEmit(c)
		px.Close()
		vClose(cc, 5*time.Second)
		return
	}
	dials := px.DialCount()
	left := make(chan bool, 1)
	wctx, wcancel := context.WithCancel(context.Background())
	go func() { left <- cc.WaitForStateChange(wctx, connectivity.Ready) }()
	time.Sleep(idle)
	c2s, s2c := both("-after-idle")
	time.Sleep(100 * time.Millisecond) // a dropped session shows at once
	wcancel()
	changed := <-left
	open := ls.S.OpenConnections()
	info["c2s"], info["s2c"] = fmt.Sprint(c2s), fmt.Sprint(s2c)
	info["state_left_ready"], info["open_connections"], info["new_dials"] = changed, open, px.DialCount()-dials
	switch {
	case c2s != nil || s2c != nil:
		c.Fail = "stale-write-deadline-after-idle/call-fails"
		info["outcome"] = "a call on a healthy session failed after the session had idled for 5 write timeouts"
	case changed || px.DialCount() != dials:
		c.Fail = "stale-write-deadline-after-idle/session-dropped"
		info["outcome"] = "the healthy session was replaced after it had idled for 5 write timeouts"
	}
	vEmit(c)
	vClose(cc, 5*time.Second)
}
