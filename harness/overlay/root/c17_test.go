package wsrpc

// C17 end to end over real sockets, with transport.go's durations scaled (VERIF_SCALE):
// a raw peer that stops reading sends no pongs, which is exactly a black-holed peer.

import (
	"context"
	"crypto/ed25519"
	"fmt"
	"testing"
	"time"

	"google.golang.org/grpc/connectivity"
)

func TestVerifC17(t *testing.T) {
	r := vNewRand(vSeed() + 170)
	scale := int64(vEnvInt("VERIF_SCALE", 100))
	W := time.Duration(int64(20*time.Second) / scale)
	P := time.Duration(int64(18*time.Second) / scale)
	bound := W + P + 400*time.Millisecond
	skey, ckey := vGenKey(r), vGenKey(r)
	// (a) server drops a silent client
	{
		ls := vStartLibServer(skey, []ed25519.PublicKey{ckey.Pub}, true)
		conn, err := vRawDial(ls.Addr, ckey, skey.Pub)
		c := vCase{Class: "e2e/server-drops-silent-client", Sig: "e2e-a"}
		if err != nil {
			c.Fail = "server-handshake-failed"
		} else {
			vWaitUntil(2*time.Second, func() bool { return ls.S.OpenConnections() == 1 })
			start := time.Now()
			dropped := vWaitUntil(bound, func() bool { return ls.S.OpenConnections() == 0 })
			c.Info = map[string]interface{}{"outcome": fmt.Sprintf("dropped=%v", dropped), "after_ms": time.Since(start).Milliseconds(), "bound_ms": bound.Milliseconds()}
			if !dropped {
				c.Fail = "e2e-silent-client-not-dropped"
			}
			conn.Close()
		}
		vEmit(c)
		vStop(ls.S, 5*time.Second)
	}
	// (b) client leaves Ready when the server falls silent, and reconnects
	{
		rs := vStartRawServer(skey, ckey.Pub)
		ctx, cancel := context.WithTimeout(context.Background(), 60*time.Second)
		cc, err := vDialLib(ctx, rs.Addr, ckey, skey.Pub, WithBlock())
		c := vCase{Class: "e2e/client-detects-silent-server", Sig: "e2e-b"}
		if err != nil {
			c.Fail = "client-dial-failed"
		} else {
			<-rs.Conns
			start := time.Now()
			wctx, wcancel := context.WithTimeout(context.Background(), bound)
			left := cc.WaitForStateChange(wctx, connectivity.Ready)
			wcancel()
			at := time.Since(start)
			again := false
			select {
			case <-rs.Conns:
				again = true
			case <-time.After(3 * time.Second):
			}
			c.Info = map[string]interface{}{"outcome": fmt.Sprintf("left_ready=%v reconnected=%v", left, again), "after_ms": at.Milliseconds(), "bound_ms": bound.Milliseconds()}
			if !left {
				c.Fail = "e2e-silent-server-not-detected"
			} else if !again {
				c.Fail = "e2e-no-reconnect-after-detection"
			}
			vClose(cc, 5*time.Second)
		}
		cancel()
		vEmit(c)
		rs.Close()
	}
	// (b2) the server falls silent in the middle of a message: the header of a frame and a part of its payload arrive, then
	// nothing (the socket stays open); the client gives the session up within the bound and dials again
	{
		rs := vStartRawServer(skey, ckey.Pub)
		ctx, cancel := context.WithTimeout(context.Background(), 60*time.Second)
		cc, err := vDialLib(ctx, rs.Addr, ckey, skey.Pub, WithBlock())
		c := vCase{Class: "e2e/client-detects-server-silent-mid-message", Sig: "e2e-b2"}
		if err != nil {
			c.Fail = "client-dial-failed"
		} else {
			conn := <-rs.Conns
			// a binary frame of 4096 bytes is announced (server frames are not masked), 100 bytes of it are sent
			_, _ = conn.UnderlyingConn().Write(append([]byte{0x82, 126, 0x10, 0x00}, make([]byte, 100)...))
			start := time.Now()
			wctx, wcancel := context.WithTimeout(context.Background(), bound)
			left := cc.WaitForStateChange(wctx, connectivity.Ready)
			wcancel()
			at := time.Since(start)
			again := false
			select {
			case <-rs.Conns:
				again = true
			case <-time.After(3 * time.Second):
			}
			c.Info = map[string]interface{}{"outcome": fmt.Sprintf("left_ready=%v reconnected=%v", left, again), "after_ms": at.Milliseconds(), "bound_ms": bound.Milliseconds()}
			if !left {
				c.Fail = "e2e-silent-server-not-detected"
			} else if !again {
				c.Fail = "e2e-no-reconnect-after-detection"
			}
			vClose(cc, 5*time.Second)
		}
		cancel()
		vEmit(c)
		rs.Close()
	}
	// (c) an idle healthy session is kept over six ping periods
	{
		ls := vStartLibServer(skey, []ed25519.PublicKey{ckey.Pub}, true)
		ctx, cancel := context.WithTimeout(context.Background(), 60*time.Second)
		cc, err := vDialLib(ctx, ls.Addr, ckey, skey.Pub, WithBlock())
		c := vCase{Class: "e2e/idle-session-kept", Sig: "e2e-c"}
		if err != nil {
			c.Fail = "client-dial-failed"
		} else {
			vWaitUntil(2*time.Second, func() bool { return ls.S.OpenConnections() == 1 })
			wctx, wcancel := context.WithTimeout(context.Background(), 6*P+P/2)
			changed := cc.WaitForStateChange(wctx, connectivity.Ready)
			wcancel()
			open := ls.S.OpenConnections()
			c.Info = map[string]interface{}{"outcome": fmt.Sprintf("state_changed=%v open=%d", changed, open), "idle_ms": (6*P + P/2).Milliseconds()}
			if changed || open != 1 {
				c.Fail = "e2e-idle-session-dropped"
			}
			vClose(cc, 5*time.Second)
		}
		cancel()
		vEmit(c)
		vStop(ls.S, 5*time.Second)
	}
}
