package wsrpc

// C04: several authenticated sessions on ONE server. Every session runs its own random
// history (calls both ways, deliveries, handler returns, timeouts) while the others act as
// attackers: they inject responses carrying the ids of calls pending towards other peers,
// requests and garbage on their own sessions. Each session's observations are replayed through
// the single-session model on that session's OWN labels only (non-interference), every server
// handler must see the key of the session its request arrived on, and a call to a key that is
// not connected fails at once without touching any session.

import (
	"context"
	"errors"
	"fmt"
	"strings"
	"sync"
	"testing"
	"time"

	"github.com/smartcontractkit/wsrpc/credentials"
	"github.com/smartcontractkit/wsrpc/internal/message"
	"github.com/smartcontractkit/wsrpc/peer"
	"google.golang.org/protobuf/proto"
	"google.golang.org/protobuf/types/known/structpb"
)

func vMultiBatch(seed uint64, n, steps int) {
	r := vNewRand(seed)
	for i := 0; i < n; i++ {
		srv := vNewSrvEnd(true)
		srv.impl.hold = true
		k := 2 + r.Intn(2)
		var ss []*vSess
		for j := 0; j < k; j++ {
			ss = append(ss, vNewSessShared(r.Fork(), srv, j))
		}
		for j, s := range ss {
			for l, o := range ss {
				if l != j {
					s.others = append(s.others, o)
				}
			}
		}
		time.Sleep(time.Millisecond)
		total := 10 + r.Intn(steps)
		notConnFail := ""
		for t := 0; t < total; t++ {
			s := ss[r.Intn(len(ss))]
			s.step(false)
			if r.Intn(12) == 0 {
				// a server call to a key nobody holds: prompt error, nothing written anywhere
				before := 0
				for _, x := range ss {
					before += len(x.toA)
				}
				ctx, cancel := context.WithTimeout(context.Background(), time.Second)
				start := time.Now()
				err := srv.s.Invoke(peer.NewCallContext(ctx, vKey(99)), "Echo", vAppMsg("nc", nil, ""), &message.Response{})
				cancel()
				after := 0
				for _, x := range ss {
					after += len(x.toA)
				}
				if err != ErrNotConnected || time.Since(start) > 200*time.Millisecond || after != before {
					notConnFail = fmt.Sprintf("not-connected-call/err=%v/took=%v/frames=%d", err, time.Since(start), after-before)
				}
			}
		}
		for j, s := range ss {
			f := ""
			if j == 0 {
				f = notConnFail
			}
			s.emit(fmt.Sprintf("multi%d", len(ss)), f)
		}
	}
}

func TestVerifMultiChild(t *testing.T) {
	spec := vChildSpec()
	if spec == "" {
		t.Skip("child only")
	}
	var seed uint64
	var n, steps int
	fmt.Sscanf(spec, "%d %d %d", &seed, &n, &steps)
	vMultiBatch(seed, n, steps)
}

func TestVerifC04(t *testing.T) {
	r := vNewRand(vSeed() + 4)
	batches, n, steps := 6, 5, 60
	if vThorough() {
		batches, n, steps = 16, 30, 90
	}
	type res struct {
		ok   bool
		out  string
		spec string
	}
	// liveness of the OTHER peers while one peer misbehaves (own servers, before the batches load the machine)
	vC04SlowPeer("reply")
	vC04SlowPeer("call")
	vC04DuplicateResponses(4)
	vC04Relay()
	vC04ScribbledPeer()
	if vThorough() {
		for k := 0; k < 10; k++ {
			vC04SlowPeer([]string{"reply", "call"}[k%2])
			vC04DuplicateResponses(3 + r.Intn(3))
		}
	}
	ch := make(chan res)
	for b := 0; b < batches; b++ {
		spec := fmt.Sprintf("%d %d %d", r.U64()%1000000007, n, steps)
		go func(spec string) {
			ok, out := vRunChild(t, "TestVerifMultiChild", spec, 240*time.Second)
			ch <- res{ok, out, spec}
		}(spec)
	}
	for b := 0; b < batches; b++ {
		x := <-ch
		if !x.ok {
			vEmit(vCase{Class: "child", Fail: "multi-batch-crashed", Sig: "crash/" + x.spec, Info: map[string]interface{}{"spec": x.spec, "panic": vPanicLine(x.out)}})
		}
	}
}

// ---- one peer misbehaves, the others must not notice

// vParkTr is a session transport whose Write parks (as a write pump does whose peer does not
// drain its socket) while `park` is set: it signals `entered` and returns only when released
// or when the caller's context ends, exactly like the real transports.
type vParkTr struct {
	read    chan []byte
	mu      sync.Mutex
	park    bool
	entered chan struct{}
	release chan struct{}
	writes  [][]byte
	onWrite func([]byte)
}

func vNewParkTr() *vParkTr {
	return &vParkTr{read: make(chan []byte), entered: make(chan struct{}, 64), release: make(chan struct{})}
}
func (p *vParkTr) Read() <-chan []byte { return p.read }
func (p *vParkTr) Close() error        { return nil }
func (p *vParkTr) feed(frame []byte) error {
	select {
	case p.read <- frame:
		return nil
	case <-time.After(3 * time.Second):
		return errWedged
	}
}
func (p *vParkTr) Write(ctx context.Context, msg []byte) error {
	p.mu.Lock()
	park := p.park
	p.mu.Unlock()
	if park {
		select {
		case p.entered <- struct{}{}:
		default:
		}
		select {
		case <-p.release:
		case <-ctx.Done():
			return errors.New("[fake] could not write message, context is done")
		}
	}
	p.mu.Lock()
	p.writes = append(p.writes, append([]byte(nil), msg...))
	cb := p.onWrite
	p.mu.Unlock()
	if cb != nil {
		cb(msg)
	}
	return nil
}

// vC04Server: one real Server with two authenticated sessions A (parking transport) and B (answers
// the server's calls at once unless the call's token starts with "silent")
func vC04Server() (s *Server, keyA, keyB credentials.StaticSizedPublicKey, trA, trB *vParkTr, stop func()) {
	s = NewServer()
	s.RegisterService(vDesc(), &vImpl{})
	keyA, keyB = vKey(21), vKey(22)
	trA, trB = vNewParkTr(), vNewParkTr()
	done := make(chan struct{})
	s.connMgr.registerConnection(keyA, trA)
	s.connMgr.registerConnection(keyB, trB)
	go s.handleRead(keyA, trA, done)
	go s.handleRead(keyB, trB, done)
	trB.onWrite = func(b []byte) {
		m := &message.Message{}
		if proto.Unmarshal(b, m) != nil || m.GetRequest() == nil {
			return
		}
		in := &message.Response{}
		_ = proto.Unmarshal(m.GetRequest().GetPayload(), in)
		if strings.HasPrefix(in.CallId, "silent") {
			return
		}
		app, _ := proto.Marshal(&message.Response{CallId: in.CallId, Payload: in.Payload})
		f := vFrame(&message.Message{Exchange: &message.Message_Response{Response: &message.Response{CallId: m.GetRequest().GetCallId(), Payload: app}}})
		go func() {
			select {
			case trB.read <- f:
			case <-done:
			}
		}()
	}
	return s, keyA, keyB, trA, trB, func() { close(done) }
}

// vC04Probe: what a healthy peer B and the application see of the server right now. A call B answers
// at once must succeed, a call B does not answer must end at its own deadline, administrative calls
// must return. The bounds are generous (seconds): a server blocked by another peer does not return at all.
func vC04Probe(s *Server, keyB credentials.StaticSizedPublicKey, info map[string]interface{}) string {
	type res struct {
		err  error
		took time.Duration
	}
	call := func(token string, d time.Duration) (res, bool) {
		ch := make(chan res, 1)
		go func() {
			ctx, cancel := context.WithTimeout(context.Background(), d)
			defer cancel()
			start := time.Now()
			out := &message.Response{}
			err := s.Invoke(peer.NewCallContext(ctx, keyB), "Echo", vAppMsg(token, []byte("b"), ""), out)
			if err == nil && out.CallId != token {
				err = fmt.Errorf("foreign reply %q", out.CallId)
			}
			ch <- res{err, time.Since(start)}
		}()
		select {
		case x := <-ch:
			return x, true
		case <-time.After(d + 2500*time.Millisecond):
			return res{}, false
		}
	}
	x, ok := call("prompt", 2*time.Second)
	info["call_to_B_answered_at_once"] = fmt.Sprintf("returned=%v err=%v took=%v", ok, x.err, x.took)
	if !ok {
		return "call to a healthy peer (2 s deadline, answered at once) has not returned 2.5 s after its deadline"
	}
	if x.err != nil {
		return fmt.Sprintf("call to a healthy peer which answers at once failed: %v after %v", x.err, x.took)
	}
	y, ok := call("silent", 300*time.Millisecond)
	info["call_to_B_unanswered"] = fmt.Sprintf("returned=%v err=%v took=%v", ok, y.err, y.took)
	if !ok {
		return "call to another peer (300 ms deadline, not answered) has not returned 2.5 s after its deadline"
	}
	admin := make(chan struct{})
	go func() { s.OpenConnections(); s.GetConnectedPeerPublicKeys(); close(admin) }()
	select {
	case <-admin:
	case <-time.After(2 * time.Second):
		info["admin"] = "blocked"
		return "OpenConnections / GetConnectedPeerPublicKeys have not returned after 2 s"
	}
	return ""
}

// vC04SlowPeer: peer A does not drain its socket, so a write to A parks - the reply to a request A
// sent ("reply"), or the request of a server call addressed to A ("call"). Meanwhile calls to B and
// administrative calls must proceed.
func vC04SlowPeer(variant string) {
	s, keyA, keyB, trA, _, stop := vC04Server()
	defer stop()
	info := map[string]interface{}{"variant": variant, "slow_peer": "A: its transport's Write parks until released", "outcome": "ok"}
	c := vCase{Class: "isolation/slow-peer-" + variant, Sig: "slow-peer/" + variant, Info: info}
	trA.mu.Lock()
	trA.park = true
	trA.mu.Unlock()
	cancelA := func() {}
	switch variant {
	case "reply":
		app, _ := proto.Marshal(vAppMsg("fromA", []byte("a"), ""))
		_ = trA.feed(vFrame(&message.Message{Exchange: &message.Message_Request{Request: &message.Request{Method: "Echo", CallId: "00000000-0000-4000-8000-0000000000a1", Payload: app}}}))
	default:
		ctx, cancel := context.WithTimeout(context.Background(), 20*time.Second)
		cancelA = cancel
		go func() {
			_ = s.Invoke(peer.NewCallContext(ctx, keyA), "Echo", vAppMsg("toA", []byte("a"), ""), &message.Response{})
		}()
	}
	select {
	case <-trA.entered:
		if msg := vC04Probe(s, keyB, info); msg != "" {
			c.Fail = "slow-peer-blocks-other-peers/" + variant
			info["outcome"] = msg
		}
	case <-time.After(3 * time.Second):
		c.Fail = "write-to-peer-never-attempted/" + variant
		info["outcome"] = "the write to A was not attempted within 3 s"
	}
	cancelA()
	close(trA.release)
	vEmit(c)
}

// vC04DuplicateResponses: peer A answers ONE server call with the same response frame n times, back
// to back (the reply is slow to decode, so the copies arrive while the caller is still busy with the
// first). Whatever that does to A's own call, calls to B and administrative calls must proceed and
// no responder may stay parked.
// A call made from inside a handler: the handler's context carries the key of the peer whose request it serves (J); a server
// call made with peer.NewCallContext(handlerCtx, K) is addressed to K and must reach K's session, not J's.
// The Peer a handler finds in its context belongs to that request: a handler which writes to it (the field is exported; a
// relay which re-addresses "its" peer, say) changes nothing for the requests which follow on the same connection.
func vC04ScribbledPeer() {
	s := NewServer()
	keyA, keyB := vKey(31), vKey(32)
	var mu sync.Mutex
	var seen []string
	h := func(srv interface{}, ctx context.Context, dec func(interface{}) error) (interface{}, error) {
		in := new(message.Response)
		if err := dec(in); err != nil {
			return nil, err
		}
		p, ok := peer.FromContext(ctx)
		mu.Lock()
		if ok {
			seen = append(seen, in.CallId+":"+p.PublicKey.String())
		} else {
			seen = append(seen, in.CallId+":none")
		}
		mu.Unlock()
		if ok && strings.HasPrefix(in.CallId, "scribble") {
			p.PublicKey = keyB
		}
		return &message.Response{CallId: in.CallId}, nil
	}
	s.RegisterService(&ServiceDesc{ServiceName: "verif.Scribble", HandlerType: (*interface{})(nil), Methods: []MethodDesc{{MethodName: "Echo", Handler: h}}}, &vImpl{})
	trA := vNewParkTr()
	done := make(chan struct{})
	defer close(done)
	s.connMgr.registerConnection(keyA, trA)
	go s.handleRead(keyA, trA, done)
	info := map[string]interface{}{"outcome": "ok"}
	c := vCase{Class: "isolation/handler-writes-to-its-peer", Sig: "scribble", Info: info}
	for i, tok := range []string{"whoami0", "scribble1", "whoami2", "scribble3", "whoami4"} {
		app, _ := proto.Marshal(vAppMsg(tok, nil, ""))
		f := vFrame(&message.Message{Exchange: &message.Message_Request{Request: &message.Request{Method: "Echo", CallId: fmt.Sprintf("00000000-0000-4000-8000-0000000c04%02d", i), Payload: app}}})
		_ = trA.feed(f)
		n := i + 1
		vC04Wait(2*time.Second, func() bool { mu.Lock(); defer mu.Unlock(); return len(seen) >= n })
	}
	mu.Lock()
	info["seen"] = append([]string(nil), seen...)
	for _, x := range seen {
		if !strings.HasSuffix(x, ":"+keyA.String()) && c.Fail == "" {
			c.Fail = "handler-saw-a-key-other-than-its-connections"
			info["outcome"] = "on the connection authenticated as " + keyA.String() + " a handler saw " + x
		}
	}
	if len(seen) != 5 && c.Fail == "" {
		c.Fail = "scenario-setup-failed"
	}
	mu.Unlock()
	vEmit(c)
}

func vC04Relay() {
	s, keyA, keyB, trA, trB, stop := vC04Server()
	defer stop()
	info := map[string]interface{}{"outcome": "ok"}
	c := vCase{Class: "isolation/relay-from-a-handler-context", Sig: "relay", Info: info}
	handlerCtx := peer.NewContext(context.Background(), &peer.Peer{PublicKey: keyA})
	callCtx := peer.NewCallContext(handlerCtx, keyB)
	if p, ok := peer.FromContext(callCtx); !ok || p.PublicKey != keyB {
		c.Fail = "call-context-does-not-carry-the-requested-key"
		info["outcome"] = "FromContext(NewCallContext(ctx with A, B)) is not B"
	}
	// deriving a call context leaves the context it was derived from alone: the handler still sees the peer it serves,
	// and a second call context derived from it (for A) does not change the first
	if p, ok := peer.FromContext(handlerCtx); c.Fail == "" && (!ok || p.PublicKey != keyA) {
		c.Fail = "deriving-a-call-context-changed-the-handlers-peer"
		info["outcome"] = "after NewCallContext(handler ctx of A, B) the handler's own context no longer says A"
	}
	callCtxA := peer.NewCallContext(handlerCtx, keyA)
	if p, ok := peer.FromContext(callCtx); c.Fail == "" && (!ok || p.PublicKey != keyB) {
		c.Fail = "call-contexts-derived-from-one-parent-share-their-peer"
		info["outcome"] = "a second NewCallContext on the same parent changed the key of the first"
	}
	_ = callCtxA
	var mu sync.Mutex
	got := map[string]int{}
	answer := func(name string, tr *vParkTr) func([]byte) {
		return func(b []byte) {
			m := &message.Message{}
			if proto.Unmarshal(b, m) != nil || m.GetRequest() == nil {
				return
			}
			mu.Lock()
			got[name]++
			mu.Unlock()
			app, _ := proto.Marshal(vAppMsg("from-"+name, nil, ""))
			f := vFrame(&message.Message{Exchange: &message.Message_Response{Response: &message.Response{CallId: m.GetRequest().GetCallId(), Payload: app}}})
			go tr.feed(f)
		}
	}
	trA.onWrite = answer("A", trA)
	trB.onWrite = answer("B", trB)
	ctx, cancel := context.WithTimeout(callCtx, 2*time.Second)
	out := &message.Response{}
	err := s.Invoke(ctx, "Echo", vAppMsg("for-B-only", nil, ""), out)
	cancel()
	mu.Lock()
	a, b := got["A"], got["B"]
	mu.Unlock()
	info["delivered_to_A"], info["delivered_to_B"], info["reply"] = a, b, out.CallId
	if c.Fail == "" && (err != nil || a != 0 || b != 1 || out.CallId != "from-B") {
		c.Fail = "call-addressed-to-one-peer-delivered-to-another"
		info["outcome"] = fmt.Sprintf("err=%v delivered to A=%d B=%d reply=%q", err, a, b, out.CallId)
	}
	vEmit(c)
}

func vC04DuplicateResponses(n int) {
	s, keyA, keyB, trA, _, stop := vC04Server()
	defer stop()
	info := map[string]interface{}{"copies": n, "outcome": "ok"}
	c := vCase{Class: "isolation/duplicate-responses", Sig: fmt.Sprintf("dup-resp/%d", n), Info: info}
	vals := make([]*structpb.Value, 150000)
	for i := range vals {
		vals[i] = structpb.NewNumberValue(float64(i))
	}
	big, _ := proto.Marshal(&structpb.ListValue{Values: vals})
	fedAll := make(chan error, 1)
	trA.onWrite = func(b []byte) {
		m := &message.Message{}
		if proto.Unmarshal(b, m) != nil || m.GetRequest() == nil {
			return
		}
		f := vFrame(&message.Message{Exchange: &message.Message_Response{Response: &message.Response{CallId: m.GetRequest().GetCallId(), Payload: big}}})
		go func() {
			var err error
			for k := 0; k < n && err == nil; k++ {
				err = trA.feed(f)
			}
			fedAll <- err
		}()
	}
	doneA := make(chan error, 1)
	go func() {
		ctx, cancel := context.WithTimeout(context.Background(), 5*time.Second)
		defer cancel()
		doneA <- s.Invoke(peer.NewCallContext(ctx, keyA), "Echo", vAppMsg("toA", nil, ""), &structpb.ListValue{})
	}()
	select {
	case err := <-fedAll:
		if err != nil {
			info["feed"] = err.Error()
		}
	case <-time.After(5 * time.Second):
		info["feed"] = "not all copies were taken"
	}
	if msg := vC04Probe(s, keyB, info); msg != "" {
		c.Fail = "duplicate-responses-wedge-server"
		info["outcome"] = msg
	}
	select {
	case err := <-doneA:
		info["call_to_A"] = fmt.Sprint(err)
	case <-time.After(3 * time.Second):
		info["call_to_A"] = "has not returned"
	}
	if c.Fail == "" {
		// nobody may stay parked inside the server once the call to A is over
		stuck := ""
		ok := vC04Wait(2*time.Second, func() bool {
			stuck = ""
			for _, f := range vParked() {
				if strings.Contains(f, "handleMessageResponse") || strings.Contains(f, "(*Server).Invoke") {
					stuck = f
				}
			}
			return stuck == ""
		})
		if !ok {
			c.Fail = "duplicate-responses-wedge-server"
			info["outcome"] = "a goroutine stays parked in " + stuck
		}
	}
	vEmit(c)
}

func vC04Wait(d time.Duration, f func() bool) bool {
	deadline := time.Now().Add(d)
	for time.Now().Before(deadline) {
		if f() {
			return true
		}
		time.Sleep(2 * time.Millisecond)
	}
	return f()
}
