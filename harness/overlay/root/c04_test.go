package wsrpc

// C04: several authenticated sessions on ONE server. Every session runs its own random
// history (calls both ways, deliveries, handler returns, timeouts) while the others act as
// attackers: they inject responses carrying the ids of calls pending towards other peers,
// requests and garbage on their own sessions. Each session's observations are replayed through
// the single-session model on that session's OWN labels only (non-interference), every server
// handler must see the key of the session its request arrived on, and a call to a key that is
// not connected fails at once without touching any session.

import (
	"context"
	"fmt"
	"testing"
	"time"

	"github.com/smartcontractkit/wsrpc/internal/message"
	"github.com/smartcontractkit/wsrpc/peer"
)

func vMultiBatch(seed uint64, n, steps int) {
	r := vNewRand(seed)
	for i := 0; i < n; i++ {
		srv := vNewSrvEnd(true)
		srv.impl.hold = true
		k := 2 + r.Intn(2)
		var ss []*vSess
		for j := 0; j < k; j++ {
			ss = append(ss, vNewSessShared(r.Fork(), srv, j))
		}
		for j, s := range ss {
			for l, o := range ss {
				if l != j {
					s.others = append(s.others, o)
				}
			}
		}
		time.Sleep(time.Millisecond)
		total := 10 + r.Intn(steps)
		notConnFail := ""
		for t := 0; t < total; t++ {
			s := ss[r.Intn(len(ss))]
			s.step(false)
			if r.Intn(12) == 0 {
				// a server call to a key nobody holds: prompt error, nothing written anywhere
				before := 0
				for _, x := range ss {
					before += len(x.toA)
				}
				ctx, cancel := context.WithTimeout(context.Background(), time.Second)
				start := time.Now()
				err := srv.s.Invoke(peer.NewCallContext(ctx, vKey(99)), "Echo", vAppMsg("nc", nil, ""), &message.Response{})
				cancel()
				after := 0
				for _, x := range ss {
					after += len(x.toA)
				}
				if err != ErrNotConnected || time.Since(start) > 200*time.Millisecond || after != before {
					notConnFail = fmt.Sprintf("not-connected-call/err=%v/took=%v/frames=%d", err, time.Since(start), after-before)
				}
			}
		}
		for j, s := range ss {
			f := ""
			if j == 0 {
				f = notConnFail
			}
			s.emit(fmt.Sprintf("multi%d", len(ss)), f)
		}
	}
}

func TestVerifMultiChild(t *testing.T) {
	spec := vChildSpec()
	if spec == "" {
		t.Skip("child only")
	}
	var seed uint64
	var n, steps int
	fmt.Sscanf(spec, "%d %d %d", &seed, &n, &steps)
	vMultiBatch(seed, n, steps)
}

func TestVerifC04(t *testing.T) {
	r := vNewRand(vSeed() + 4)
	batches, n, steps := 6, 5, 60
	if vThorough() {
		batches, n, steps = 16, 30, 90
	}
	type res struct {
		ok   bool
		out  string
		spec string
	}
	ch := make(chan res)
	for b := 0; b < batches; b++ {
		spec := fmt.Sprintf("%d %d %d", r.U64()%1000000007, n, steps)
		go func(spec string) {
			ok, out := vRunChild(t, "TestVerifMultiChild", spec, 240*time.Second)
			ch <- res{ok, out, spec}
		}(spec)
	}
	for b := 0; b < batches; b++ {
		x := <-ch
		if !x.ok {
			vEmit(vCase{Class: "child", Fail: "multi-batch-crashed", Sig: "crash/" + x.spec, Info: map[string]interface{}{"spec": x.spec, "panic": vPanicLine(x.out)}})
		}
	}
}
