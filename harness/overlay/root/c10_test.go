package wsrpc

// C10: Stop landing on open sessions, handshakes in progress, calls in both directions and
// concurrent administrative calls, over real sockets, each scenario in a child process with a
// deadline: Stop and Serve must return, every session socket must be closed, and afterwards the
// whole API must answer with errors or empty views, admit nobody and leave no goroutine.

import (
	"context"
	"crypto/ed25519"
	"fmt"
	"io"
	"log"
	"crypto/tls"
	"net"
	"os"
	"runtime"
	"runtime/debug"
	"strings"
	"sync"
	"sync/atomic"
	"testing"
	"time"

	"github.com/gorilla/websocket"
	"google.golang.org/protobuf/proto"
	"github.com/smartcontractkit/wsrpc/internal/message"
	"github.com/smartcontractkit/wsrpc/internal/verifrt"
	"github.com/smartcontractkit/wsrpc/peer"
)

func vServerLeft() []string {
	var res []string
	for fn, n := range vCensus() {
		if strings.Contains(fn, "(*Server)") || strings.Contains(fn, "WebsocketServer") || strings.Contains(fn, "connectionsManager") {
			res = append(res, fmt.Sprintf("%s=%d", fn, n))
		}
	}
	return res
}

type vC10 struct {
	s      *Server
	addr   string
	served chan struct{}
	skey   vKeyPair
	keys   []vKeyPair
	impl   *vImpl
}

func vC10Setup(r *vRand, opts ...ServerOption) *vC10 {
	w := &vC10{skey: vGenKey(r), impl: &vImpl{}, served: make(chan struct{})}
	var pubs []ed25519.PublicKey
	for i := 0; i < 3; i++ {
		k := vGenKey(r)
		w.keys = append(w.keys, k)
		pubs = append(pubs, k.Pub)
	}
	lis, err := net.Listen("tcp", "127.0.0.1:0")
	if err != nil {
		panic(err)
	}
	w.addr = lis.Addr().String()
	w.s = NewServer(append([]ServerOption{WithCreds(w.skey.Priv, pubs)}, opts...)...)
	w.s.RegisterService(vDesc(), w.impl)
	go func() { w.s.Serve(lis); close(w.served) }()
	return w
}

// closedByPeer: the server has closed this raw connection
func vClosedByPeer(c *websocket.Conn, d time.Duration) bool {
	c.SetReadDeadline(time.Now().Add(d))
	for {
		_, _, err := c.ReadMessage()
		if err != nil {
			if ne, ok := err.(interface{ Timeout() bool }); ok && ne.Timeout() {
				return false
			}
			// a close frame alone is not the end of the socket: the transport layer must see it closed too
			u := c.UnderlyingConn()
			u.SetReadDeadline(time.Now().Add(d))
			buf := make([]byte, 256)
			for {
				_, e := u.Read(buf)
				if e == nil {
					continue
				}
				if ne, ok := e.(interface{ Timeout() bool }); ok && ne.Timeout() {
					return false
				}
				return true
			}
		}
	}
}

func (w *vC10) aftermath(conns []*websocket.Conn, stopTook time.Duration) string {
	if stopTook > 3*time.Second {
		return fmt.Sprintf("stop-exceeds-bound/%v", stopTook)
	}
	select {
	case <-w.served:
	case <-time.After(2 * time.Second):
		return "serve-does-not-return-after-stop"
	}
	for i, c := range conns {
		if !vClosedByPeer(c, 1500*time.Millisecond) {
			return fmt.Sprintf("session-socket-left-open-after-stop/%d", i)
		}
	}
	// the whole API afterwards
	guard := func(name string, f func()) (res string) {
		done := make(chan string, 1)
		go func() {
			defer func() {
				if p := recover(); p != nil {
					done <- fmt.Sprintf("panic-after-stop/%s/%v", name, p)
				}
			}()
			f()
			done <- ""
		}()
		select {
		case r := <-done:
			return r
		case <-time.After(2 * time.Second):
			return "hang-after-stop/" + name
		}
	}
	checks := []struct {
		name string
		f    func()
	}{
		{"Stop", func() { w.s.Stop() }},
		{"OpenConnections", func() {
			if n := w.s.OpenConnections(); n != 0 {
				panic(fmt.Sprint("open=", n))
			}
		}},
		{"GetConnectedPeerPublicKeys", func() {
			if k := w.s.GetConnectedPeerPublicKeys(); len(k) != 0 {
				panic("keys listed")
			}
		}},
		{"GetConnectionNotifyChan", func() { _ = w.s.GetConnectionNotifyChan() }},
		{"UpdatePublicKeys", func() { _ = w.s.UpdatePublicKeys(w.keys[0].Pub) }},
		{"Invoke", func() {
			ctx, c := context.WithTimeout(context.Background(), time.Second)
			defer c()
			if err := w.s.Invoke(peer.NewCallContext(ctx, w.keys[0].Static()), "Echo", vAppMsg("x", nil, ""), &message.Response{}); err == nil {
				panic("call succeeded")
			}
		}},
		{"RegisterService", func() { w.s.RegisterService(vDesc(), w.impl) }},
	}
	for _, c := range checks {
		if r := guard(c.name, c.f); r != "" {
			return r
		}
	}
	// nobody is admitted any more
	if c, err := vRawDial(w.addr, w.keys[0], w.skey.Pub); err == nil {
		if vServed(c) {
			return "session-admitted-after-stop"
		}
		c.Close()
	}
	time.Sleep(60 * time.Millisecond)
	if left := vServerLeft(); len(left) > 0 {
		return "goroutines-left-after-stop/" + strings.Join(left, ",")
	}
	return ""
}

func vC10Scenario(name string, seed uint64) string {
	r := vNewRand(seed)
	switch name {
	case "open-sessions":
		w := vC10Setup(r)
		var conns []*websocket.Conn
		for i := 0; i < 3; i++ {
			c, err := vRawDial(w.addr, w.keys[i], w.skey.Pub)
			if err != nil {
				return "setup"
			}
			conns = append(conns, c)
		}
		vWaitUntil(2*time.Second, func() bool { return w.s.OpenConnections() == 3 })
		start := time.Now()
		if !vStop(w.s, 6*time.Second) {
			return "stop-hangs/" + strings.Join(vParked(), ",")
		}
		return w.aftermath(conns, time.Since(start))
	case "idle-longer-than-write-timeout":
		w := vC10Setup(r, WithHTTPReadTimeout(time.Second, 60*time.Millisecond))
		c, err := vRawDial(w.addr, w.keys[0], w.skey.Pub)
		if err != nil {
			return "setup"
		}
		vWaitUntil(2*time.Second, func() bool { return w.s.OpenConnections() == 1 })
		// one data write from the server, then silence for longer than the write timeout
		go func() {
			ctx, cn := context.WithTimeout(context.Background(), 50*time.Millisecond)
			defer cn()
			_ = w.s.Invoke(peer.NewCallContext(ctx, w.keys[0].Static()), "Echo", vAppMsg("x", nil, ""), &message.Response{})
		}()
		time.Sleep(180 * time.Millisecond)
		start := time.Now()
		if !vStop(w.s, 6*time.Second) {
			return "stop-hangs/" + strings.Join(vParked(), ",")
		}
		return w.aftermath([]*websocket.Conn{c}, time.Since(start))
	case "calls-both-directions":
		w := vC10Setup(r)
		skey := w.skey
		cc, err := vDialLib(context.Background(), w.addr, w.keys[0], skey.Pub, WithBlock())
		if err != nil {
			return "setup"
		}
		cimpl := &vImpl{}
		cc.RegisterService(vDesc(), cimpl)
		vWaitUntil(2*time.Second, func() bool { return w.s.OpenConnections() == 1 })
		var wg sync.WaitGroup
		hang := make(chan string, 8)
		for i := 0; i < 3; i++ {
			wg.Add(2)
			go func(i int) {
				defer wg.Done()
				done := make(chan error, 1)
				go func() {
					ctx, c := context.WithTimeout(context.Background(), 2*time.Second)
					defer c()
					done <- cc.Invoke(ctx, "Echo", vAppMsg(fmt.Sprint("c", i), nil, "sleep:50"), &message.Response{})
				}()
				select {
				case <-done:
				case <-time.After(4 * time.Second):
					hang <- "client-call-hangs-across-stop"
				}
			}(i)
			go func(i int) {
				defer wg.Done()
				done := make(chan error, 1)
				go func() {
					ctx, c := context.WithTimeout(context.Background(), 2*time.Second)
					defer c()
					done <- w.s.Invoke(peer.NewCallContext(ctx, w.keys[0].Static()), "Echo", vAppMsg(fmt.Sprint("s", i), nil, "sleep:50"), &message.Response{})
				}()
				select {
				case <-done:
				case <-time.After(4 * time.Second):
					hang <- "server-call-hangs-across-stop"
				}
			}(i)
		}
		time.Sleep(time.Duration(r.Intn(20000)) * time.Microsecond)
		start := time.Now()
		if !vStop(w.s, 6*time.Second) {
			return "stop-hangs/" + strings.Join(vParked(), ",")
		}
		took := time.Since(start)
		wg.Wait()
		select {
		case s := <-hang:
			return s
		default:
		}
		vClose(cc, 3*time.Second)
		time.Sleep(30 * time.Millisecond)
		return w.aftermath(nil, took)
	case "handshakes-in-progress":
		w := vC10Setup(r)
		verifrt.Start(nil)
		verifrt.Hold("Server.wshandler#RLock#2", 2)
		var conns []*websocket.Conn
		var mu sync.Mutex
		for i := 0; i < 2; i++ {
			go func(i int) {
				c, err := vRawDial(w.addr, w.keys[i], w.skey.Pub)
				if err == nil {
					mu.Lock()
					conns = append(conns, c)
					mu.Unlock()
				}
			}(i)
		}
		held := vWaitUntil(3*time.Second, func() bool { return verifrt.Held("Server.wshandler#RLock#2") >= 2 })
		done := make(chan bool, 1)
		start := time.Now()
		go func() { done <- vStop(w.s, 6*time.Second) }()
		time.Sleep(10 * time.Millisecond)
		verifrt.Release("Server.wshandler#RLock#2")
		ok := <-done
		verifrt.Stop()
		if !held {
			return "gate-script-infeasible/handshakes-not-held"
		}
		if !ok {
			return "stop-hangs/" + strings.Join(vParked(), ",")
		}
		time.Sleep(50 * time.Millisecond)
		mu.Lock()
		cs := conns
		mu.Unlock()
		return w.aftermath(cs, time.Since(start))
	case "rejected-handshakes-then-stop":
		// handshakes which are refused after the upgrade (the key was revoked while they were in progress; two of one key
		// at the same time) must leave nothing behind that Stop waits for
		w := vC10Setup(r)
		verifrt.Start(nil)
		const at = "Server.wshandler#RLock#2"
		verifrt.Hold(at, 3)
		for _, i := range []int{0, 1, 1} {
			go func(i int) {
				if c, err := vRawDial(w.addr, w.keys[i], w.skey.Pub); err == nil {
					defer c.Close()
					c.SetReadDeadline(time.Now().Add(3 * time.Second))
					for {
						if _, _, err := c.ReadMessage(); err != nil {
							return
						}
					}
				}
			}(i)
		}
		held := vWaitUntil(3*time.Second, func() bool { return verifrt.Held(at) >= 3 })
		// key 0 is revoked while its handshake is held after the upgrade; the two handshakes of key 1 will collide
		upd := make(chan struct{})
		go func() { _ = w.s.UpdatePublicKeys(w.keys[1].Pub, w.keys[2].Pub); close(upd) }()
		select {
		case <-upd:
		case <-time.After(3 * time.Second):
			verifrt.Release(at)
			verifrt.Stop()
			return "update-hangs-during-handshake"
		}
		verifrt.Release(at)
		time.Sleep(150 * time.Millisecond)
		verifrt.Stop()
		if !held {
			return "gate-script-infeasible/handshakes-not-held"
		}
		start := time.Now()
		if !vStop(w.s, 6*time.Second) {
			return "stop-hangs/" + strings.Join(vParked(), ",")
		}
		return w.aftermath(nil, time.Since(start))
	case "peers-still-connecting-at-stop":
		// peers which have a TCP connection, or have finished the TLS handshake, but have not sent the websocket upgrade
		// when Stop lands: Stop closes them too - their sockets end, and nothing they send afterwards is read or answered
		w := vC10Setup(r)
		plain, err := net.DialTimeout("tcp", w.addr, 2*time.Second)
		if err != nil {
			return "setup"
		}
		defer plain.Close()
		tc, err := tls.DialWithDialer(&net.Dialer{Timeout: 2 * time.Second}, "tcp", w.addr, vClientTLS(w.keys[0], w.skey.Pub))
		if err != nil {
			return "setup"
		}
		defer tc.Close()
		time.Sleep(50 * time.Millisecond)
		start := time.Now()
		if !vStop(w.s, 6*time.Second) {
			return "stop-hangs/" + strings.Join(vParked(), ",")
		}
		took := time.Since(start)
		// Serve returns (it closes what the listener had accepted on its way out; Stop itself may return a moment earlier)
		select {
		case <-w.served:
		case <-time.After(2 * time.Second):
			return "serve-does-not-return-after-stop"
		}
		// after that: a request on the TLS connection is not answered, and both sockets end
		_, _ = tc.Write([]byte("GET / HTTP/1.1\r\nHost: x\r\n\r\n"))
		for name, c := range map[string]net.Conn{"tcp-only": plain, "tls-done": tc} {
			c.SetReadDeadline(time.Now().Add(1500 * time.Millisecond))
			buf := make([]byte, 512)
			n, err := c.Read(buf)
			if n > 0 {
				return fmt.Sprintf("stopped-server-answered-a-peer-which-was-still-connecting/%s/%q", name, string(buf[:n])[:20])
			}
			if ne, ok := err.(net.Error); ok && ne.Timeout() {
				return "connection-left-open-after-stop/" + name
			}
		}
		return w.aftermath(nil, took)
	case "handler-still-running-at-stop":
		// Stop does not wait for the application's handlers: a request of a peer is inside its handler (for as long as it
		// likes) when Stop lands; Stop returns within its bound, Serve returns, the session is closed
		w := vC10Setup(r)
		w.impl.mu.Lock()
		w.impl.hold = true
		w.impl.mu.Unlock()
		c, err := vRawDial(w.addr, w.keys[0], w.skey.Pub)
		if err != nil {
			return "setup"
		}
		vWaitUntil(2*time.Second, func() bool { return w.s.OpenConnections() == 1 })
		_ = c.WriteMessage(websocket.BinaryMessage, vSizedRequest(100, "00000000-0000-4000-8000-000000000c10"))
		if !vWaitUntil(2*time.Second, func() bool { return len(w.impl.peek()) >= 1 }) {
			return "setup"
		}
		start := time.Now()
		if !vStop(w.s, 6*time.Second) {
			return "stop-hangs/" + strings.Join(vParked(), ",")
		}
		took := time.Since(start)
		// Stop has returned while the handler was still running; the handler may return now (its goroutine is the
		// application's business until then)
		w.impl.mu.Lock()
		w.impl.hold = false
		var toks []string
		for k := range w.impl.gate {
			toks = append(toks, k)
		}
		w.impl.mu.Unlock()
		for _, k := range toks {
			w.impl.release(k)
		}
		time.Sleep(100 * time.Millisecond)
		return w.aftermath([]*websocket.Conn{c}, took)
	case "handshake-completes-while-stop-waits":
		// Stop is waiting for a session whose teardown takes a while (the server is in the middle of a large write to a peer
		// which does not read); a handshake which had passed the first checks before Stop began completes meanwhile. It is
		// not admitted, and Stop returns when the slow session has gone - it does not wait for the newcomer
		w := vC10Setup(r, WithHTTPReadTimeout(5*time.Second, time.Second))
		a, err := vRawDial(w.addr, w.keys[0], w.skey.Pub)
		if err != nil {
			return "setup"
		}
		defer a.Close() // (also keeps the connection reachable: an unreferenced one is closed by its finalizer at the next collection)
		vWaitUntil(2*time.Second, func() bool { return w.s.OpenConnections() == 1 })
		bigDone := make(chan struct{})
		go func() {
			defer close(bigDone)
			ctx, cn := context.WithTimeout(context.Background(), 2*time.Second)
			defer cn()
			_ = w.s.Invoke(peer.NewCallContext(ctx, w.keys[0].Static()), "Echo", vAppMsg("big", make([]byte, 9<<20), ""), &message.Response{})
		}()
		time.Sleep(150 * time.Millisecond) // the write pump is in the socket write now
		verifrt.Start(nil)
		const at = "Server.wshandler#RLock#2"
		verifrt.Hold(at, 1)
		bch := make(chan *websocket.Conn, 1)
		go func() {
			c, err := vRawDial(w.addr, w.keys[1], w.skey.Pub)
			if err != nil {
				c = nil
			}
			bch <- c
		}()
		held := vWaitUntil(3*time.Second, func() bool { return verifrt.Held(at) >= 1 })
		stopped := make(chan bool, 1)
		var took time.Duration
		go func() {
			start := time.Now()
			ok := vStop(w.s, 8*time.Second)
			took = time.Since(start)
			stopped <- ok
		}()
		time.Sleep(200 * time.Millisecond)
		verifrt.Release(at)
		ok := <-stopped
		verifrt.Stop()
		if !held {
			return "gate-script-infeasible/handshake-not-held"
		}
		if !ok {
			return "stop-hangs/" + strings.Join(vParked(), ",")
		}
		var b *websocket.Conn
		select {
		case b = <-bch:
		case <-time.After(2 * time.Second):
		}
		if b != nil && vProbeWait(b, 700*time.Millisecond) == "served" {
			return "session-admitted-after-stop"
		}
		select { // the harness's own call has ended (its goroutine is not the server's)
		case <-bigDone:
		case <-time.After(4 * time.Second):
			return "call-hangs-across-stop"
		}
		return w.aftermath(nil, took)
	case "replies-queued-behind-a-stalled-write-at-stop":
		// a peer which does not read sends two requests with large replies: the first reply stalls in the socket write, the
		// second waits for the write pump. Stop returns within its bound and neither reply's goroutine outlives it
		w := vC10Setup(r, WithHTTPReadTimeout(5*time.Second, time.Second))
		a, err := vRawDial(w.addr, w.keys[0], w.skey.Pub)
		if err != nil {
			return "setup"
		}
		defer a.Close()
		vWaitUntil(2*time.Second, func() bool { return w.s.OpenConnections() == 1 })
		for i := 0; i < 2; i++ {
			app, _ := proto.Marshal(vAppMsg(fmt.Sprint("q", i), make([]byte, 8<<20), ""))
			f := vFrame(&message.Message{Exchange: &message.Message_Request{Request: &message.Request{Method: "Echo", CallId: fmt.Sprintf("00000000-0000-4000-8000-0000000c10a%d", i), Payload: app}}})
			if err := a.WriteMessage(websocket.BinaryMessage, f); err != nil {
				return "setup"
			}
		}
		if !vWaitUntil(5*time.Second, func() bool { return len(w.impl.peek()) >= 2 }) {
			return "setup"
		}
		time.Sleep(300 * time.Millisecond) // the first reply is in the socket write, the second is waiting for the pump
		// (the bound here: the write timeout of 1 s, then up to 5 s which crypto/tls allows its closing alert on a socket
		// which is full, then the slack of the other scenarios)
		start := time.Now()
		if !vStop(w.s, 12*time.Second) {
			return "stop-hangs/" + strings.Join(vParked(), ",")
		}
		if took := time.Since(start); took > 9*time.Second {
			return fmt.Sprintf("stop-exceeds-bound/%v", took)
		}
		time.Sleep(100 * time.Millisecond)
		return w.aftermath(nil, 0)
	case "write-times-out-while-the-peer-keeps-sending":
		// peers which stop reading but keep sending: the server's write times out and its write pump leaves while the
		// read pump has frames of the peer in hand; the whole session must be gone then, and again when Stop has returned
		w := vC10Setup(r, WithHTTPReadTimeout(time.Second, 60*time.Millisecond))
		log.SetOutput(io.Discard) // (every frame of the flood is reported in the log)
		for k := 0; k < 3; k++ {
			c, err := vRawDial(w.addr, w.keys[k], w.skey.Pub)
			if err != nil {
				return "setup"
			}
			defer c.Close()
			vWaitUntil(2*time.Second, func() bool { return w.s.OpenConnections() == 1 })
			flood := make(chan struct{})
			go func() {
				defer close(flood)
				f := vFrame(&message.Message{Exchange: &message.Message_Response{Response: &message.Response{CallId: "00000000-0000-4000-8000-00000000f100"}}})
				for {
					if err := c.WriteMessage(websocket.BinaryMessage, f); err != nil {
						return
					}
				}
			}()
			big := vAppMsg("x", make([]byte, 4<<20), "")
			for i := 0; i < 12 && w.s.OpenConnections() == 1; i++ {
				ctx, cn := context.WithTimeout(context.Background(), 150*time.Millisecond)
				_ = w.s.Invoke(peer.NewCallContext(ctx, w.keys[k].Static()), "Echo", big, &message.Response{})
				cn()
			}
			// (a write which timed out leaves crypto/tls willing to send its closing alert, for which it allows 5 s on a full socket)
			if !vWaitUntil(8*time.Second, func() bool { return w.s.OpenConnections() == 0 }) {
				return "gate-script-infeasible/write-did-not-time-out"
			}
			select {
			case <-flood:
			case <-time.After(3 * time.Second):
				return "session-socket-left-open-after-its-write-pump-ended"
			}
		}
		time.Sleep(100 * time.Millisecond)
		var left []string
		for _, l := range vServerLeft() { // the server is still running: only what belongs to a session counts here
			if strings.Contains(l, "WebsocketServer") || strings.Contains(l, "handleRead") || strings.Contains(l, "wshandler") {
				left = append(left, l)
			}
		}
		if len(left) > 0 {
			return "goroutines-left-after-session-ended/" + strings.Join(left, ",")
		}
		start := time.Now()
		if !vStop(w.s, 6*time.Second) {
			return "stop-hangs/" + strings.Join(vParked(), ",")
		}
		return w.aftermath(nil, time.Since(start))
	case "write-timed-out-before-stop":
		// a peer which stops reading: the server's write times out and its write pump leaves; the
		// session must be gone completely (socket, read pump) when Stop has returned
		w := vC10Setup(r, WithHTTPReadTimeout(time.Second, 60*time.Millisecond))
		c, err := vRawDial(w.addr, w.keys[0], w.skey.Pub)
		if err != nil {
			return "setup"
		}
		vWaitUntil(2*time.Second, func() bool { return w.s.OpenConnections() == 1 })
		big := vAppMsg("x", make([]byte, 4<<20), "")
		for i := 0; i < 12 && w.s.OpenConnections() == 1; i++ {
			ctx, cn := context.WithTimeout(context.Background(), 150*time.Millisecond)
			_ = w.s.Invoke(peer.NewCallContext(ctx, w.keys[0].Static()), "Echo", big, &message.Response{})
			cn()
		}
		if !vWaitUntil(3*time.Second, func() bool { return w.s.OpenConnections() == 0 }) {
			return "gate-script-infeasible/write-did-not-time-out"
		}
		start := time.Now()
		if !vStop(w.s, 6*time.Second) {
			return "stop-hangs/" + strings.Join(vParked(), ",")
		}
		took := time.Since(start)
		time.Sleep(50 * time.Millisecond)
		// the peer drains what was sent and must then see the end of the connection
		return w.aftermath([]*websocket.Conn{c}, took)
	case "peers-closed-first":
		// the peers end their sessions (with and without a close frame); the server must give the
		// sockets back when the sessions end - no collection cycle is forced here
		debug.SetGCPercent(-1)
		w := vC10Setup(r)
		base := vSocketFDs() // the listener
		for i := 0; i < 3; i++ {
			c, err := vRawDial(w.addr, w.keys[i], w.skey.Pub)
			if err != nil {
				return "setup"
			}
			vWaitUntil(2*time.Second, func() bool { return w.s.OpenConnections() == 1 })
			if i%2 == 0 {
				c.WriteControl(websocket.CloseMessage, websocket.FormatCloseMessage(websocket.CloseNormalClosure, ""), time.Now().Add(time.Second))
			}
			c.Close()
			vWaitUntil(2*time.Second, func() bool { return w.s.OpenConnections() == 0 })
		}
		time.Sleep(80 * time.Millisecond)
		if n := vSocketFDs() - base; n > 0 {
			return fmt.Sprintf("socket-left-after-session-end/%d", n)
		}
		start := time.Now()
		if !vStop(w.s, 6*time.Second) {
			return "stop-hangs/" + strings.Join(vParked(), ",")
		}
		return w.aftermath(nil, time.Since(start))
	case "simultaneous-stops":
		// several Stop calls released at the same instant (spinning barrier), on many fresh servers: none may panic or hang
		rounds := 2500
		for i := 0; i < rounds; i++ {
			s := NewServer(WithCreds(vGenKey(r).Priv, nil))
			var wg sync.WaitGroup
			var ready, goFlag int32
			crash := make(chan string, 8)
			const n = 4
			for g := 0; g < n; g++ {
				wg.Add(1)
				go func() {
					defer wg.Done()
					defer func() {
						if p := recover(); p != nil {
							crash <- fmt.Sprintf("panic-in-simultaneous-stop/%v", p)
						}
					}()
					atomic.AddInt32(&ready, 1)
					for atomic.LoadInt32(&goFlag) == 0 {
					}
					s.Stop()
				}()
			}
			for atomic.LoadInt32(&ready) < n {
				runtime.Gosched()
			}
			atomic.StoreInt32(&goFlag, 1)
			done := make(chan struct{})
			go func() { wg.Wait(); close(done) }()
			select {
			case <-done:
			case <-time.After(5 * time.Second):
				return "stop-hangs/simultaneous"
			}
			select {
			case c := <-crash:
				return c
			default:
			}
		}
		return ""
	case "concurrent-admin":
		w := vC10Setup(r)
		c, err := vRawDial(w.addr, w.keys[0], w.skey.Pub)
		if err != nil {
			return "setup"
		}
		stopAll := make(chan struct{})
		var wg sync.WaitGroup
		crash := make(chan string, 8)
		for _, f := range []func(){
			func() { w.s.OpenConnections() }, func() { w.s.GetConnectedPeerPublicKeys() }, func() { w.s.GetConnectionNotifyChan() },
			func() { _ = w.s.UpdatePublicKeys(w.keys[0].Pub, w.keys[1].Pub, w.keys[2].Pub) },
		} {
			wg.Add(1)
			go func(f func()) {
				defer wg.Done()
				defer func() {
					if p := recover(); p != nil {
						crash <- fmt.Sprintf("panic-in-concurrent-admin-call/%v", p)
					}
				}()
				for {
					select {
					case <-stopAll:
						return
					default:
						f()
					}
				}
			}(f)
		}
		time.Sleep(time.Duration(1+r.Intn(8)) * time.Millisecond)
		start := time.Now()
		ok := vStop(w.s, 6*time.Second)
		time.Sleep(5 * time.Millisecond)
		close(stopAll)
		wg.Wait()
		select {
		case s := <-crash:
			return s
		default:
		}
		if !ok {
			return "stop-hangs/" + strings.Join(vParked(), ",")
		}
		return w.aftermath([]*websocket.Conn{c}, time.Since(start))
	}
	return "unknown-scenario"
}

var vC10Names = []string{"open-sessions", "idle-longer-than-write-timeout", "calls-both-directions", "handshakes-in-progress", "concurrent-admin", "write-timed-out-before-stop", "simultaneous-stops", "rejected-handshakes-then-stop", "peers-still-connecting-at-stop", "handler-still-running-at-stop", "handshake-completes-while-stop-waits", "replies-queued-behind-a-stalled-write-at-stop", "write-times-out-while-the-peer-keeps-sending"}

func TestVerifC10Child(t *testing.T) {
	spec := vChildSpec()
	if spec == "" {
		t.Skip("child only")
	}
	var name string
	var seed uint64
	fmt.Sscanf(spec, "%s %d", &name, &seed)
	res := vC10Scenario(name, seed)
	os.WriteFile(os.Getenv("VERIF_CHILD_OUT"), []byte(res), 0o644)
}

func TestVerifC10(t *testing.T) {
	r := vNewRand(vSeed() + 10)
	rounds := 2
	if vThorough() {
		rounds = 12
	}
	type job struct{ name, spec, out string }
	var jobs []job
	for round := 0; round < rounds; round++ {
		for _, n := range vC10Names {
			spec := fmt.Sprintf("%s %d", n, r.U64()%1000000007)
			jobs = append(jobs, job{n, spec, fmt.Sprintf("%s/verif_c10_%d_%d.out", os.TempDir(), os.Getpid(), len(jobs))})
		}
	}
	sem := make(chan struct{}, 6)
	var wg sync.WaitGroup
	for _, j := range jobs {
		wg.Add(1)
		go func(j job) {
			defer wg.Done()
			sem <- struct{}{}
			defer func() { <-sem }()
			// a scenario whose preconditions could not be established (its setup failed, a gate script could not be played:
			// a matter of timing on a busy machine) has not taken place: it is played again, up to three times in all, and
			// reported only if it cannot be played at all
			var ok bool
			var out, fail string
			for attempt := 0; attempt < 3; attempt++ {
				ok, out = vRunChildEnv(t, "TestVerifC10Child", j.spec, 60*time.Second, "VERIF_CHILD_OUT="+j.out)
				b, _ := os.ReadFile(j.out)
				os.Remove(j.out)
				fail = string(b)
				if !ok || (fail != "setup" && !strings.HasPrefix(fail, "gate-script-infeasible")) {
					break
				}
			}
			if !ok {
				fail = "process-died-or-timed-out/" + vPanicLine(out)
			}
			if fail == "setup" {
				fail = "scenario-setup-failed"
			}
			vEmit(vCase{Class: "stop/" + j.name, Fail: fail, Sig: j.spec, Info: map[string]interface{}{"scenario": j.name, "spec": j.spec, "outcome": map[bool]string{true: "ok", false: "fail"}[fail == ""], "replay": "VERIF_CHILD='" + j.spec + "' go test -run TestVerifC10Child"}})
		}(j)
	}
	wg.Wait()
}
