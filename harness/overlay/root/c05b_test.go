package wsrpc

// C05: a peer which reads slowly, with a backlog of large responses queued for it. Every single
// write finishes within the write timeout, so the session stays up; the responses at the end of
// the queue wait for the write pump longer than one write timeout. Each request must still be
// answered exactly once.

import (
	"context"
	"crypto/ed25519"
	"fmt"
	"net"
	"net/http"
	"time"

	"github.com/gorilla/websocket"
	"github.com/smartcontractkit/wsrpc/internal/message"
	"google.golang.org/protobuf/proto"
)

func vC05SlowReaderBacklog(r *vRand) {
	const calls, period, wsTimeout = 6, 400 * time.Millisecond, time.Second
	size := 6 << 20
	skey, ckey := vGenKey(r), vGenKey(r)
	ls := vStartLibServer(skey, []ed25519.PublicKey{ckey.Pub}, true, WithHTTPReadTimeout(5*time.Second, wsTimeout))
	defer vStop(ls.S, 5*time.Second)
	info := map[string]interface{}{"calls": calls, "response_bytes": size, "read_period_ms": period.Milliseconds(), "write_timeout_ms": wsTimeout.Milliseconds(), "outcome": "ok"}
	c := vCase{Class: "slow-reader-backlog", Sig: "slow-reader-backlog", Info: info}
	defer func() { vEmit(c) }()
	d := websocket.Dialer{TLSClientConfig: vClientTLS(ckey, skey.Pub), HandshakeTimeout: 5 * time.Second,
		NetDialContext: func(ctx context.Context, network, a string) (net.Conn, error) {
			nc, err := (&net.Dialer{}).DialContext(ctx, network, a)
			if err == nil {
				_ = nc.(*net.TCPConn).SetReadBuffer(64 << 10) // a peer which does not read stalls the sender soon
			}
			return nc, err
		}}
	conn, _, err := d.Dial("wss://"+ls.Addr, http.Header{})
	if err != nil {
		c.Fail = "scenario-setup-failed"
		return
	}
	defer conn.Close()
	slow := make(chan struct{})
	type fr struct {
		id  string
		err error
	}
	frames := make(chan fr, 64)
	go func() {
		for {
			select {
			case <-slow:
			default:
				time.Sleep(period)
			}
			_, b, err := conn.ReadMessage()
			if err != nil {
				frames <- fr{err: err}
				return
			}
			m := &message.Message{}
			if proto.Unmarshal(b, m) == nil && m.GetResponse() != nil {
				frames <- fr{id: m.GetResponse().GetCallId()}
			}
		}
	}()
	body := vPat(size, 7, 3)
	send := func(i int, payload []byte) string {
		id := fmt.Sprintf("00000000-0000-4000-8000-%012d", i)
		app, _ := proto.Marshal(vAppMsg(fmt.Sprint("big", i), payload, ""))
		_ = conn.WriteMessage(websocket.BinaryMessage, vFrame(&message.Message{Exchange: &message.Message_Request{Request: &message.Request{Method: "Echo", CallId: id, Payload: app}}}))
		return id
	}
	ids := map[string]int{}
	for i := 0; i < calls; i++ {
		ids[send(i, body)] = 0
	}
	// while the responses to those wait for the slow reader, further (small) requests keep coming: their responses join
	// the queue at moments spread over the whole stall
	const extra = 10
	for i := 0; i < extra; i++ {
		time.Sleep(120 * time.Millisecond)
		ids[send(100+i, []byte("small"))] = 0
	}
	collect := func(until func() bool, dl time.Duration) string {
		t := time.After(dl)
		for !until() {
			select {
			case f := <-frames:
				if f.err != nil {
					return f.err.Error()
				}
				ids[f.id]++
			case <-t:
				return ""
			}
		}
		return ""
	}
	all := func() bool {
		for _, n := range ids {
			if n == 0 {
				return false
			}
		}
		return true
	}
	if e := collect(all, time.Duration(calls+extra)*period+8*time.Second); e != "" {
		info["outcome"] = "the session did not stay up: " + e
		return
	}
	close(slow)
	probe := send(99, nil)
	ids[probe] = 0
	collect(func() bool { return ids[probe] > 0 }, 5*time.Second)
	if ids[probe] != 1 {
		info["outcome"] = "the probe was not answered: the scenario did not run as intended"
		return
	}
	missing, dup := 0, 0
	for _, n := range ids {
		if n == 0 {
			missing++
		}
		if n > 1 {
			dup++
		}
	}
	info["unanswered"], info["answered_twice"] = missing, dup
	if missing > 0 {
		c.Fail = fmt.Sprintf("request-never-answered-on-a-live-session/%d-of-%d", missing, calls+extra)
		info["outcome"] = "the session is alive (the probe is answered) but requests whose responses waited in the queue got none"
	} else if dup > 0 {
		c.Fail = fmt.Sprintf("request-answered-twice/%d", dup)
	}
}

// vC05StalledWriteQueue: the peer reads nothing while responses pile up behind a large one, then takes one response, then
// more requests complete while the next large response is stalled, then it reads everything. Whatever the write pump does
// with what waits for it, every request is answered by exactly one response frame. The write timeout is generous: the
// session stays up throughout.
func vC05StalledWriteQueue(r *vRand) {
	skey, ckey := vGenKey(r), vGenKey(r)
	ls := vStartLibServer(skey, []ed25519.PublicKey{ckey.Pub}, true, WithHTTPReadTimeout(5*time.Second, 8*time.Second))
	defer vStop(ls.S, 5*time.Second)
	info := map[string]interface{}{"outcome": "ok"}
	c := vCase{Class: "stalled-write-queue", Sig: "stalled-write-queue", Info: info}
	defer func() { vEmit(c) }()
	d := websocket.Dialer{TLSClientConfig: vClientTLS(ckey, skey.Pub), HandshakeTimeout: 5 * time.Second,
		NetDialContext: func(ctx context.Context, network, a string) (net.Conn, error) {
			nc, err := (&net.Dialer{}).DialContext(ctx, network, a)
			if err == nil {
				_ = nc.(*net.TCPConn).SetReadBuffer(64 << 10)
			}
			return nc, err
		}}
	conn, _, err := d.Dial("wss://"+ls.Addr, http.Header{})
	if err != nil {
		c.Fail = "scenario-setup-failed"
		return
	}
	defer conn.Close()
	big := vPat(6<<20, 5, 1)
	got := map[string]int{}
	var order []string
	n := 0
	send := func(payload []byte) {
		id := fmt.Sprintf("00000000-0000-4000-8000-%012d", n)
		app, _ := proto.Marshal(vAppMsg(fmt.Sprint("q", n), payload, ""))
		n++
		got[id] = 0
		_ = conn.WriteMessage(websocket.BinaryMessage, vFrame(&message.Message{Exchange: &message.Message_Request{Request: &message.Request{Method: "Echo", CallId: id, Payload: app}}}))
		// its handler has run (the response is on its way to the write pump)
		want := n
		vWaitUntil(5*time.Second, func() bool { return len(ls.Impl.peek()) >= want })
		time.Sleep(60 * time.Millisecond)
	}
	readOne := func(d time.Duration) bool {
		conn.SetReadDeadline(time.Now().Add(d))
		_, b, err := conn.ReadMessage()
		if err != nil {
			return false
		}
		m := &message.Message{}
		if proto.Unmarshal(b, m) == nil && m.GetResponse() != nil {
			got[m.GetResponse().GetCallId()]++
			order = append(order, m.GetResponse().GetCallId()[30:])
		}
		return true
	}
	send(big)            // the write pump stalls on this response: nobody reads
	send(big)            // two more complete meanwhile
	send([]byte("two"))
	if !readOne(8 * time.Second) { // the first response is taken: the pump goes on and stalls on the second large one
		info["outcome"] = "the first response did not arrive: the scenario did not run as intended"
		return
	}
	time.Sleep(300 * time.Millisecond)
	send([]byte("three")) // two more complete during that stall
	send([]byte("four"))
	for readOne(3 * time.Second) {
	}
	missing, dup := 0, 0
	for _, k := range got {
		if k == 0 {
			missing++
		}
		if k > 1 {
			dup++
		}
	}
	info["order"], info["unanswered"], info["answered_twice"] = order, missing, dup
	if handled := len(ls.Impl.peek()); handled != n {
		c.Fail = fmt.Sprintf("handler-runs-differ-from-requests/%d-for-%d", handled, n)
	} else if dup > 0 {
		c.Fail = fmt.Sprintf("request-answered-twice/%d", dup)
	} else if missing > 0 {
		// only a failure while the session is up: a probe must still be answered
		send([]byte("probe"))
		if readOne(3*time.Second) && got[fmt.Sprintf("00000000-0000-4000-8000-%012d", n-1)] == 1 {
			c.Fail = fmt.Sprintf("request-never-answered-on-a-live-session/%d-of-%d", missing, n-1)
		} else {
			info["outcome"] = "the session did not stay up"
		}
	}
}
