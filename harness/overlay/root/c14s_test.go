package wsrpc

// C14, sockets: sessions ended by the peer, over and over, with the collector switched off
// (GOGC=off is a legitimate configuration): the sockets of ended sessions must be given back by
// the library itself, on the server and on the client.

import (
	"fmt"
	"os"
	"strings"
	"sync"
	"testing"
	"time"
)

func TestVerifC14Sockets(t *testing.T) {
	r := vNewRand(vSeed() + 1414)
	rounds := 2
	if vThorough() {
		rounds = 8
	}
	type job struct{ test, name, spec, out string }
	var jobs []job
	for round := 0; round < rounds; round++ {
		for _, tn := range [][2]string{{"TestVerifC10Child", "peers-closed-first"}, {"TestVerifC09Child", "peer-closed-first"}, {"TestVerifC09Child", "write-fails-with-message-in-hand"}, {"TestVerifC10Child", "write-timed-out-before-stop"}, {"TestVerifC10Child", "write-times-out-while-the-peer-keeps-sending"}} {
			spec := fmt.Sprintf("%s %d", tn[1], r.U64()%1000000007)
			jobs = append(jobs, job{tn[0], tn[1], spec, fmt.Sprintf("%s/verif_c14s_%d_%d.out", os.TempDir(), os.Getpid(), len(jobs))})
		}
	}
	var wg sync.WaitGroup
	for _, j := range jobs {
		wg.Add(1)
		go func(j job) {
			defer wg.Done()
			// a scenario whose preconditions could not be established has not taken place: it is played again, up to three times
			var ok bool
			var out, fail string
			for attempt := 0; attempt < 3; attempt++ {
				ok, out = vRunChildEnv(t, j.test, j.spec, 60*time.Second, "VERIF_CHILD_OUT="+j.out)
				b, _ := os.ReadFile(j.out)
				os.Remove(j.out)
				fail = string(b)
				if !ok || (fail != "setup" && !strings.HasPrefix(fail, "gate-script-infeasible")) {
					break
				}
			}
			if !ok {
				fail = "process-died-or-timed-out/" + vPanicLine(out)
			}
			if fail == "setup" {
				fail = "scenario-setup-failed"
			}
			vEmit(vCase{Class: "sockets/" + j.name, Fail: fail, Sig: j.spec, Info: map[string]interface{}{"scenario": j.name, "spec": j.spec, "outcome": map[bool]string{true: "ok", false: "fail"}[fail == ""], "replay": "VERIF_CHILD='" + j.spec + "' go test -run " + j.test}})
		}(j)
	}
	wg.Wait()
}
